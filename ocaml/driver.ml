(* driver.ml — runs the extracted Coq model on a case file; prints one canonical line per case.
   The same case file is fed to the C++ harness; the two outputs are diffed by bin/check. *)
type ostring = string
open Model

(* ---------- Z <-> OCaml ---------- *)
let rec pos_of_int n = if n = 1 then XH else if n land 1 = 0 then XO (pos_of_int (n lsr 1)) else XI (pos_of_int (n lsr 1))
let z_of_int n = if n = 0 then Z0 else if n > 0 then Zpos (pos_of_int n) else Zneg (pos_of_int (-n))
let rec int_of_pos = function XH -> 1 | XO p -> 2 * int_of_pos p | XI p -> 2 * int_of_pos p + 1
let int_of_z = function Z0 -> 0 | Zpos p -> int_of_pos p | Zneg p -> - (int_of_pos p)
let z10 = z_of_int 10
let z_of_string s =
  let neg = String.length s > 0 && s.[0] = '-' in
  let acc = ref Z0 in
  String.iteri (fun i c -> if not (neg && i = 0) then
    acc := Z.add (Z.mul !acc z10) (z_of_int (Char.code c - 48))) s;
  if neg then Z.opp !acc else !acc
let string_of_z z =
  match z with Z0 -> "0" | _ ->
  let neg = (match z with Zneg _ -> true | _ -> false) in
  let z = if neg then Z.opp z else z in
  let b = Buffer.create 20 in
  let rec go z acc = match z with Z0 -> acc | _ ->
    let (q, r) = Z.div_eucl z z10 in go q (Char.chr (48 + int_of_z r) :: acc) in
  if neg then Buffer.add_char b '-';
  List.iter (Buffer.add_char b) (go z []);
  Buffer.contents b

let hexd = "0123456789abcdef"
let hex_of_bytes (l : z list) =
  let b = Buffer.create (2 * List.length l + 1) in
  List.iter (fun z -> let v = int_of_z z in
    if v < 0 || v > 255 then Buffer.add_string b "??"
    else (Buffer.add_char b hexd.[v lsr 4]; Buffer.add_char b hexd.[v land 15])) l;
  Buffer.contents b
let hv c = match c with '0'..'9' -> Char.code c - 48 | 'a'..'f' -> Char.code c - 87 | 'A'..'F' -> Char.code c - 55 | _ -> failwith "hex"
let bytes_of_hex s =
  let n = String.length s / 2 in
  let rec go i acc = if i < 0 then acc else go (i - 1) (z_of_int (16 * hv s.[2*i] + hv s.[2*i+1]) :: acc) in
  go (n - 1) []

let cs = all_classes
let cap = z_of_string (try Sys.getenv "VERIF_ALLOC_CAP" with Not_found -> "268435456")
let depth8 = Z.to_nat (z_of_int 8)

let err_name = function
  | EOOBRead -> "oobread" | EOOBWrite -> "oobwrite" | EAlloc -> "alloc" | EThrow -> "throw"
  | EUnsupported -> "unsupported" | EUB -> "ub" | EFuel -> "fuel" | ESpin -> "spin" | EType -> "type"

(* fields of a class sorted by id *)
let fields_cache : (int, fdef list) Hashtbl.t = Hashtbl.create 200
let fields_of (c : int) =
  match Hashtbl.find_opt fields_cache c with Some l -> l | None ->
    let l = all_fields cs depth8 (z_of_int c) in
    let l = List.sort (fun a b -> compare (int_of_z a.f_id) (int_of_z b.f_id)) l in
    Hashtbl.add fields_cache c l; l

let dump (c : int) (s : state) =
  let b = Buffer.create 256 in
  List.iter (fun fd ->
    Buffer.add_char b ' ';
    Buffer.add_string b (string_of_int (int_of_z fd.f_id));
    Buffer.add_char b '=';
    (match s fd.f_id with
     | VInt z ->
         (* doubles and unsigned: the model stores the mathematical value of the declared type *)
         Buffer.add_string b (string_of_z z)
     | VBytes l -> Buffer.add_char b 'x'; Buffer.add_string b (hex_of_bytes l)
     | VUndef -> Buffer.add_char b '?')) (fields_of c);
  Buffer.contents b

let apply_sets (c : int) (s : state) (toks : ostring list) : state =
  List.fold_left (fun s tok ->
    match String.index_opt tok '=' with
    | None -> s
    | Some i ->
        let fid = z_of_int (int_of_string (String.sub tok 0 i)) in
        let v = String.sub tok (i + 1) (String.length tok - i - 1) in
        let value =
          if String.length v > 0 && v.[0] = 'x' then VBytes (bytes_of_hex (String.sub v 1 (String.length v - 1)))
          else VInt (z_of_string v) in
        (fun g -> if Z.eqb g fid then value else s g)) s toks

let b01 b = if b then "1" else "0"

(* ---------- object queue: the translated methods run by the interpreter of Lib/Mon.v ---------- *)
let coq_string (s : ostring) : Model.string =
  let bit c i = (Char.code c lsr i) land 1 = 1 in
  let rec go i = if i >= String.length s then EmptyString else
    let c = s.[i] in String (Ascii (bit c 0, bit c 1, bit c 2, bit c 3, bit c 4, bit c 5, bit c 6, bit c 7), go (i + 1)) in
  go 0
let rec nat_of_int n = if n <= 0 then O else S (nat_of_int (n - 1))
let rec int_of_nat = function O -> 0 | S n -> 1 + int_of_nat n
let run_queue (ops : ostring list) : ostring =
  let b = Buffer.create 200 in
  Buffer.add_string b "Q";
  let st = ref (abs oq_init) in
  let stop = ref false in
  (* a call started on another thread with '&' and asleep on a condition variable *)
  let pending : (ostring * z * z * int) option ref = ref None in
  let ret r = match r.mr_ret with Some z -> string_of_z z | None -> "-" in
  let show name r = match name with
    | "read" -> " &r=" ^ ret r | "write" -> " &w" | _ -> " &?" in
  let wake notes =
    match !pending with
    | Some (name, arg, obj, cv) when List.exists (fun n -> int_of_nat n = cv) notes ->
        (match mcall oq_vt arg Z0 oq_methods (meth (coq_string name)) obj !st with
         | MDone r -> st := r.mr_st; pending := None; Buffer.add_string b (show name r); r.mr_notes
         | _ -> [])
    | _ -> [] in
  let call name arg obj k =
    match mcall oq_vt arg Z0 oq_methods (meth (coq_string name)) obj !st with
    | MDone r -> st := r.mr_st; k r;
        (* the woken call notifies too: that can wake nobody else here (one sleeper at most) *)
        ignore (wake r.mr_notes)
    | MBlocked cv -> Buffer.add_string b (" blocked:" ^ string_of_int (int_of_nat cv)); stop := true
    | MFail e -> Buffer.add_string b (" fail:" ^ err_name e); stop := true in
  let acall name arg obj =
    match mcall oq_vt arg Z0 oq_methods (meth (coq_string name)) obj !st with
    | MDone r -> st := r.mr_st; Buffer.add_string b (show name r)
    | MBlocked cv -> pending := Some (name, arg, obj, int_of_nat cv); Buffer.add_string b " &sleep"
    | MFail e -> Buffer.add_string b (" fail:" ^ err_name e); stop := true in
  List.iter (fun op -> if not !stop && String.length op > 0 then begin
    let async = op.[0] = '&' in
    let op = if async then String.sub op 1 (String.length op - 1) else op in
    let a = z_of_string (if String.length op > 1 then String.sub op 1 (String.length op - 1) else "0") in
    if async then (match op.[0] with
      | 'r' -> acall "read" Z0 Z0
      | 'w' -> acall "write" Z0 a
      | _ -> Buffer.add_string b " ?")
    else match op.[0] with
    | 'r' -> call "read" Z0 Z0 (fun r -> Buffer.add_string b (" r=" ^ ret r))
    | 'w' -> call "write" Z0 a (fun _ -> Buffer.add_string b " w")
    | 'a' -> call "abort" Z0 Z0 (fun _ -> Buffer.add_string b " a")
    | 'f' -> call "setFileSize" a Z0 (fun _ -> Buffer.add_string b " f")
    | 'b' -> call "setBufferSize" a Z0 (fun _ -> Buffer.add_string b " b")
    | 'g' -> call "tellg" Z0 Z0 (fun r -> Buffer.add_string b (" g=" ^ ret r))
    | 'p' -> call "tellp" Z0 Z0 (fun r -> Buffer.add_string b (" p=" ^ ret r))
    | 'G' -> call "good" Z0 Z0 (fun r -> Buffer.add_string b (" G=" ^ ret r))
    | 'E' -> call "eof" Z0 Z0 (fun r -> Buffer.add_string b (" E=" ^ ret r))
    | 'D' -> call "~ObjectQueue" Z0 Z0 (fun r ->
               Buffer.add_string b (" D=" ^ String.concat "," (List.map string_of_z r.mr_deleted)); stop := true)
    | _ -> Buffer.add_string b " ?"
  end) ops;
  (match !pending with Some _ -> Buffer.add_string b " asleep" | None -> ());
  Buffer.contents b

(* ---------- UncompressedFile: the hand-written model Lib/UFModel.v ---------- *)
let uf_summary (s : uf) : ostring =
  "|" ^ string_of_z (uf_tellg_val s) ^ "," ^ string_of_z (uf_tellp_val s) ^ "," ^ string_of_z s.u_fsz ^ "," ^
  b01 (uf_good s) ^ b01 (uf_eof s) ^ "," ^ string_of_z s.u_gcount ^ "," ^ string_of_z s.u_buf ^ "," ^
  String.concat ";" (List.map (fun c -> string_of_z c.c_pos ^ ":" ^ string_of_z (c_size c)) s.u_data)
let run_uf (ops : ostring list) : ostring =
  let b = Buffer.create 400 in
  Buffer.add_string b "U";
  let st = ref uf_init in
  let stop = ref false in
  List.iter (fun op -> if not !stop && String.length op > 0 then begin
    let rest = String.sub op 1 (String.length op - 1) in
    let num () = z_of_string (if rest = "" then "0" else rest) in
    let o = (match op.[0] with
      | 'r' -> Some (URead (num ())) | 's' -> Some (USeekg (num ())) | 'w' -> Some (UWrite (bytes_of_hex rest))
      | 'c' -> Some (UWriteC (bytes_of_hex rest)) | 'n' -> Some UNext | 'd' -> Some UDrop
      | 'F' -> Some (USetFileSize (num ())) | 'B' -> Some (USetBufferSize (num ())) | 'C' -> Some (USetDcs (num ()))
      | 'a' -> Some UAbort | _ -> None) in
    match o with
    | None -> Buffer.add_string b " ?"
    | Some o ->
        if not (uenabled !st o) then (Buffer.add_string b " blocked"; stop := true)
        else match ustep !st o with
          | None -> Buffer.add_string b " undefined"; stop := true
          | Some (s', bytes) ->
              st := s';
              Buffer.add_char b ' ';
              Buffer.add_char b op.[0];
              (match o with URead _ -> Buffer.add_string b ("=" ^ hex_of_bytes bytes) | _ -> ());
              Buffer.add_string b (uf_summary s')
  end) ops;
  Buffer.contents b

(* ---------- the reference byte queue Lib/UFSpec.v (the specification of C15) ---------- *)
let bq_summary (q : bq) : ostring =
  let (((((( g, p), f), gc), bsz), good), eof) = bq_obs q in
  "|" ^ string_of_z g ^ "," ^ string_of_z p ^ "," ^ string_of_z f ^ "," ^ b01 good ^ b01 eof ^ "," ^ string_of_z gc ^ "," ^ string_of_z bsz
let run_bq (ops : ostring list) : ostring =
  let b = Buffer.create 400 in
  Buffer.add_string b "BQ";
  let st = ref bq_init in
  let stop = ref false in
  List.iter (fun op -> if not !stop && String.length op > 0 then begin
    let rest = String.sub op 1 (String.length op - 1) in
    let num () = z_of_string (if rest = "" then "0" else rest) in
    let o = (match op.[0] with
      | 'r' -> Some (URead (num ())) | 's' -> Some (USeekg (num ())) | 'w' -> Some (UWrite (bytes_of_hex rest))
      | 'c' -> Some (UWriteC (bytes_of_hex rest)) | 'n' -> Some UNext | 'd' -> Some UDrop
      | 'F' -> Some (USetFileSize (num ())) | 'B' -> Some (USetBufferSize (num ())) | 'C' -> Some (USetDcs (num ()))
      | 'a' -> Some UAbort | _ -> None) in
    match o with
    | None -> Buffer.add_string b " ?"
    | Some o ->
        let blocked = (match o with URead n -> not (bq_read_ok !st n) | UWrite _ | UWriteC _ -> not (bq_write_ok !st) | _ -> false) in
        if blocked then (Buffer.add_string b " blocked"; stop := true)
        else match bq_step !st o with
          | None -> Buffer.add_string b " outofscope"; stop := true
          | Some (q', bytes) ->
              st := q';
              Buffer.add_char b ' ';
              Buffer.add_char b op.[0];
              (match o with URead _ -> Buffer.add_string b ("=" ^ hex_of_bytes bytes) | _ -> ());
              Buffer.add_string b (bq_summary q')
  end) ops;
  Buffer.contents b

(* ---------- file layer: Lib/FileModel.v with the real zlib ---------- *)
external vb_deflate : int -> ostring -> ostring = "vb_deflate"
external vb_inflate : ostring -> int -> int * ostring = "vb_inflate"
let ostring_of_bytes (l : z list) : ostring =
  let b = Buffer.create (List.length l) in List.iter (fun z -> Buffer.add_char b (Char.chr ((int_of_z z) land 255))) l; Buffer.contents b
let bytes_of_ostring (s : ostring) : z list =
  let rec go i acc = if i < 0 then acc else go (i - 1) (z_of_int (Char.code s.[i]) :: acc) in go (String.length s - 1) []
let m_deflate (level : z) (l : z list) : z list = bytes_of_ostring (vb_deflate (int_of_z level) (ostring_of_bytes l))
let m_inflate (l : z list) (expected : z) : z list option =
  let e = int_of_z expected in
  let (rc, out) = vb_inflate (ostring_of_bytes l) e in
  if rc = 0 && String.length out = e then Some (bytes_of_ostring out) else None
let stage_name = function EndClean -> "clean" | EndException -> "exception" | EndForeign -> "foreign" | EndUnsafe -> "unsafe" | EndFuel -> "fuel"
let split_on_bar (s : ostring) = String.split_on_char '|' s
let words (s : ostring) = List.filter (fun w -> w <> "") (String.split_on_char ' ' (String.trim s))
let type115 = z_of_int 115
type 'a r2 = Good of 'a | Bad of err
let run_fw (line : ostring) : ostring =
  match split_on_bar line with
  | [] -> "? bad case"
  | head :: objs ->
    (match words head with
     | _ :: level :: csz :: restore :: rest ->
        let hdr0 = fresh cs c_stats in
        let hdr = (match rest with "H" :: sets -> apply_sets (int_of_z c_stats) hdr0 sets | _ -> hdr0) in
        let cfg = { w_level = z_of_string level; w_cs = z_of_string csz; w_restore = (restore <> "0") } in
        let encs = List.fold_left (fun acc o ->
          match acc with Bad e -> Bad e | Good l ->
            (match words o with
             | [] -> Good l
             | c :: sets ->
                 let c = int_of_string c in
                 let s = apply_sets c (fresh cs (z_of_int c)) sets in
                 (match enc cs cap (z_of_int c) s with
                  | Model.Ok (s', bytes) ->
                      let counted = (match s' fid_objectType with VInt t -> not (Z.eqb t type115) | _ -> true) in
                      Good ((bytes, counted) :: l)
                  | Model.Err e -> Bad e))) (Good []) objs in
        (match encs with
         | Bad e -> "FW err " ^ err_name e
         | Good l ->
             let l = List.rev l in
             (match f_write_session m_deflate cap cfg hdr l with
              | Model.Ok bytes -> "FW ok " ^ hex_of_bytes bytes
              | Model.Err e -> "FW err " ^ err_name e))
     | _ -> "? bad case")
let run_fr (hex : ostring) : ostring =
  let r = f_read_session m_inflate cap (bytes_of_hex hex) in
  if r.r_open_throws then "FR throws" else
  let b = Buffer.create 1000 in
  Buffer.add_string b ("FR ok n=" ^ string_of_int (List.length r.r_objs) ^ " cend=" ^ stage_name r.r_cend ^ " oend=" ^ stage_name r.r_oend ^
    " count=" ^ string_of_z r.r_count ^ " usize=" ^ string_of_z r.r_usize ^ " stats |" ^ dump (int_of_z c_stats) r.r_stats);
  List.iter (fun (c, o) -> Buffer.add_string b (" || " ^ string_of_z c ^ " |" ^ dump (int_of_z c) o)) r.r_objs;
  Buffer.contents b

(* FK <k> <hex>: the read session when File::close() closes the compressed file after k more operations of the inflating
   worker on it — with the signature search as the source has it now, and as it was before repo fix b825602 *)
let run_fk (k : int) (hex : ostring) : ostring =
  let bytes = bytes_of_hex hex in
  let r = f_read_session_closing m_inflate cap bytes (nat_of_int k) in
  let o = f_read_session_closing_old m_inflate cap bytes (nat_of_int k) in
  if r.r_open_throws then "FK throws" else
  "FK cend=" ^ stage_name r.r_cend ^ " oend=" ^ stage_name r.r_oend ^ " n=" ^ string_of_int (List.length r.r_objs) ^
  " old_cend=" ^ stage_name o.r_cend

let process line =
  match String.split_on_char ' ' (String.trim line) with
  | "F" :: c :: _ ->
      let c = int_of_string c in
      "F ok |" ^ dump c (fresh cs (z_of_int c))
  | "W" :: c :: sets ->
      let c = int_of_string c in
      let s = apply_sets c (fresh cs (z_of_int c)) sets in
      (match enc cs cap (z_of_int c) s with
       | Ok (s', bytes) -> "W ok " ^ hex_of_bytes bytes ^ " |" ^ dump c s'
       | Err e -> "W err " ^ err_name e)
  | "R" :: c :: hex :: sets ->
      let c = int_of_string c in
      let s = apply_sets c (fresh cs (z_of_int c)) sets in
      let hex = if hex = "-" then "" else hex in
      (match dec cs scan_p cap (z_of_int c) s (mk_ustream (bytes_of_hex hex)) with
       | Ok (s', i) -> "R ok pos=" ^ string_of_z i.s_pos ^ " good=" ^ b01 i.s_good ^ " eof=" ^ b01 i.s_eof ^ " |" ^ dump c s'
       | Err e -> "R err " ^ err_name e)
  | "RT" :: c :: hex :: ntail :: _ ->
      (* as R, with ntail filler bytes behind the encoding; long byte members are abbreviated *)
      let c = int_of_string c in
      let hex = if hex = "-" then "" else hex in
      let rec fill n acc = if n <= 0 then acc else fill (n - 1) (z_of_int 0x5a :: acc) in
      let bytes = bytes_of_hex hex @ fill (int_of_string ntail) [] in
      let abbreviate d =
        String.concat " " (List.map (fun tok ->
          match String.index_opt tok '=' with
          | Some e when e + 1 < String.length tok && tok.[e + 1] = 'x' && String.length tok - e - 2 > 64 ->
              String.sub tok 0 e ^ "=#" ^ string_of_int ((String.length tok - e - 2) / 2)
          | _ -> tok) (List.filter (fun w -> w <> "") (String.split_on_char ' ' d))) in
      (match dec cs scan_p cap (z_of_int c) (fresh cs (z_of_int c)) (mk_ustream bytes) with
       | Ok (s', i) -> "RT ok pos=" ^ string_of_z i.s_pos ^ " good=" ^ b01 i.s_good ^ " eof=" ^ b01 i.s_eof ^ " | " ^ abbreviate (dump c s')
       | Err e -> "RT err " ^ err_name e)
  | "D" :: c :: hex :: _ ->
      (* decode into a fresh object, then encode the decoded object again *)
      let c = int_of_string c in
      let hex = if hex = "-" then "" else hex in
      (match dec cs scan_p cap (z_of_int c) (fresh cs (z_of_int c)) (mk_ustream (bytes_of_hex hex)) with
       | Ok (s', i) ->
           (match enc cs cap (z_of_int c) s' with
            | Ok (s'', bytes) -> "D ok pos=" ^ string_of_z i.s_pos ^ " good=" ^ b01 i.s_good ^ " " ^ hex_of_bytes bytes ^ " |" ^ dump c s''
            | Err e -> "D err " ^ err_name e)
       | Err e -> "D err " ^ err_name e)
  | "S" :: c :: sets ->
      let c = int_of_string c in
      let s = apply_sets c (fresh cs (z_of_int c)) sets in
      let p = function Ok z -> string_of_z z | Err e -> "err:" ^ err_name e in
      "S ok osz=" ^ p (osize cs (z_of_int c) s) ^ " hsz=" ^ p (hsize cs (z_of_int c) s)
  | "C" :: code :: _ ->
      (* File::createObject(code): class and the type code the new object carries *)
      let code = z_of_string code in
      let rec look = function [] -> None | (k, v) :: r -> if Z.eqb k code then Some v else look r in
      (match look factory_table with
       | Some c when int_of_z c > 0 ->
           let ty = (match fresh cs c fid_objectType with VInt z -> string_of_z z | _ -> "?") in
           "C ok cls=" ^ string_of_z c ^ " type=" ^ ty
       | _ -> "C ok cls=0 type=-")
  | "E" :: c :: sets ->
      (* members emitted by write() along the path taken in this state (model only) *)
      let c = int_of_string c in
      let s = apply_sets c (fresh cs (z_of_int c)) sets in
      (match enc cs cap (z_of_int c) s with
       | Ok (s', _) ->
           let l = emitted cs (callf cs (z_of_int c)) (emit_of (z_of_int c)) s' in
           "E ok " ^ String.concat "," (List.map string_of_z l)
       | Err e -> "E err " ^ err_name e)
  | "K" :: _ ->
      (* per-class verdicts of the reflective checks (evaluated outside Coq when an obligation broke) *)
      String.concat ";" (List.map (fun c ->
        string_of_z c ^ ":rt=" ^ b01 (rt_ok c) ^ ":rtx=" ^ b01 (List.exists (fun x -> Z.eqb x c) rt_exceptions)) object_classes)
  | "Q" :: ops -> run_queue ops
  | "U" :: ops -> run_uf ops
  | "BQ" :: ops -> run_bq ops
  | "FW" :: _ -> run_fw line
  | "FR" :: hex :: _ -> run_fr (if hex = "-" then "" else hex)
  | "FK" :: k :: hex :: _ -> run_fk (int_of_string k) (if hex = "-" then "" else hex)
  | [""] | [] -> ""
  | _ -> "? bad case"

let () =
  let ic = if Array.length Sys.argv > 1 then open_in Sys.argv.(1) else stdin in
  (try while true do
     let line = input_line ic in
     if String.length line > 0 && line.[0] <> '#' then print_endline (process line)
   done with End_of_file -> ())
