/* z_stub.c — the two zlib entry points the library uses, for the extracted model (ocaml/driver.ml). */
#include <string.h>
#include <zlib.h>
#include <caml/mlvalues.h>
#include <caml/memory.h>
#include <caml/alloc.h>

/* compress2(level): returns the compressed bytes ("" on error) */
value vb_deflate(value level, value src) {
    CAMLparam2(level, src);
    CAMLlocal1(res);
    uLong n = caml_string_length(src);
    uLong bound = compressBound(n);
    unsigned char * buf = (unsigned char *) malloc(bound ? bound : 1);
    uLong outlen = bound;
    int rc = compress2(buf, &outlen, (const Bytef *) String_val(src), n, Int_val(level));
    if (rc != Z_OK) outlen = 0;
    res = caml_alloc_string(outlen);
    memcpy(Bytes_val(res), buf, outlen);
    free(buf);
    CAMLreturn(res);
}

/* uncompress into a buffer of `expected` bytes: returns (rc, out) with out cut at the size zlib reports */
value vb_inflate(value src, value expected) {
    CAMLparam2(src, expected);
    CAMLlocal2(res, out);
    uLong cap = (uLong) Long_val(expected);
    unsigned char * buf = (unsigned char *) malloc(cap ? cap : 1);
    uLong size = cap;
    int rc = uncompress(buf, &size, (const Bytef *) String_val(src), caml_string_length(src));
    if (size > cap) size = cap;
    out = caml_alloc_string(size);
    memcpy(Bytes_val(out), buf, size);
    free(buf);
    res = caml_alloc_tuple(2);
    Store_field(res, 0, Val_int(rc));
    Store_field(res, 1, out);
    CAMLreturn(res);
}
