(* Properties_C04.v — C04: finished files consist of the statistics header followed only by log
   containers whose concatenated payload is the concatenation of the objects' encodings.
   Statements only.  Model: Lib/FileModel.write_session (File::open(out) ... close() as a sequential
   composition; tied to the code by the `file` harness: byte-identical files at every level) over
   the codecs regenerated from /repo.  zlib is a Section variable: the statements hold for ANY
   compress function (no hypothesis about zlib is needed for them).
   PARTIAL: that each container's bytes are accepted by an independent decoder (signature, header
   size/type, objectSize = 32 + stored, method, FLEVEL, inflate = declared size, padding) is not a
   theorem — it is checked by the stdlib-only decoder on every file the real library writes. *)
From VB Require Import Base IR Sem Tables BaseFacts FileModel FileFacts.
From VB Require Import Classes Consts Common FileDefs FileEq.
Local Open Scope Z_scope.

(* every finished file = encoded statistics ++ containers; containers = encodings of the pieces of
   the stream (+ one empty restore-point container when enabled); pieces concatenate to the objects'
   encodings in the order written — for every compression level, container size, header and objects *)
Theorem C04_file_is_header_then_containers : forall deflate cap cfg hdr objs f, f_write_session deflate cap cfg hdr objs = Ok f ->
  exists ps conts hbytes hdr' h0,
    f = hbytes ++ concat conts /\ enc cs cap C_stats hdr' = Ok (h0, hbytes) /\
    Forall2 (fun p c => lce deflate cap (w_level cfg) p = Ok c) (if w_restore cfg then ps ++ [[]] else ps) conts /\
    ps = pieces (length (concat (map fst objs))) (w_cs cfg) (concat (map fst objs)) /\
    concat ps = concat (map fst objs).
Proof.
  intros deflate cap cfg hdr objs f H.
  destruct (file_shape deflate cap cfg hdr objs f H) as (ps & conts & hdr' & hb & h0 & h00 & hb0 & A & B & _ & C & D & E & _).
  exists ps, conts, hb, hdr', h0. repeat split; assumption.
Qed.
Print Assumptions C04_file_is_header_then_containers.

(* no container holds more than the configured container size; all but the last are full *)
Theorem C04_container_sizes : forall n (U : list Z), 1 <= n ->
  Forall (fun p => zlen p <= n) (pieces (length U) n U) /\
  exists full last, pieces (length U) n U = full ++ [last] /\ Forall (fun p => zlen p = n) full /\ zlen last < n.
Proof. exact piece_sizes. Qed.
Print Assumptions C04_container_sizes.

(* the concatenated payload is identical for all container sizes (and does not involve the level at all) *)
Theorem C04_config_independent : forall n1 n2 (U : list Z),
  concat (pieces (length U) n1 U) = concat (pieces (length U) n2 U).
Proof. exact payload_config_independent. Qed.
Print Assumptions C04_config_independent.
