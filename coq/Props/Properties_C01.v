(* Properties_C01.v — C01 (object level): write-then-read returns the same object.
   Statement only; proved in Inst/Codec.v from the generic theorem Lib/ClassRT.object_roundtrip and
   boolean checks evaluated on the programs regenerated from /repo. *)
From VB Require Import Base IR Sem StreamFacts EvalFacts Roundtrip ClassRT.
From VB Require Import Classes Consts Common CodecDefs Codec.
Local Open Scope Z_scope.

(* For every class of the library outside the committed exception list, every API-expressible
   state s (well-shaped members, any scalars, any payload bytes and lengths representable in the
   length members, stale values in every derived member) whose encoding succeeds: decoding the
   emitted bytes, followed by ANY further bytes, into a fresh object
   - succeeds and consumes exactly the emitted bytes (the stream is left at `rest`),
   - reproduces every emitted member of the written object (s' = the object after write(), i.e.
     with its derived size/length members filled in),
   - leaves every other member at its freshly-constructed value,
   and write() itself changed nothing but the derived members. *)
Theorem C01_object : forall c, In c object_classes -> ~ In c rt_exceptions ->
  forall s s' bytes, api_state c s -> enc cs default_cap c s = Ok (s', bytes) ->
  forall rest, exists r' i',
    dec cs scan_p default_cap c (fresh cs c) (mk_ustream (bytes ++ rest)) = Ok (r', i') /\
    nstream i' /\ s_after i' = rest /\
    (forall f, In f (emitted cs (callf cs c) (emit_of c) s') -> r' f = s' f) /\
    (forall f, ~ In f (emitted cs (callf cs c) (emit_of c) s') -> r' f = fresh cs c f) /\
    (forall f, ~ In f (map fst (pre_of c)) -> s' f = s f).
Proof. exact object_rt. Qed.
Print Assumptions C01_object.

Example C01_nonvacuous :
  (100 <? Z.of_nat (length (minus object_classes rt_exceptions))) = true.
Proof. vm_compute. reflexivity. Qed.
