(* Properties_C01.v — C01: write-then-read returns the same objects, in order.
   Statements only.  C01_object (object level) is proved in Inst/Codec.v from the generic theorem
   Lib/ClassRT.object_roundtrip and boolean checks evaluated on the programs regenerated from /repo.
   C01_stream (the uncompressed stream) composes it, for ANY list of objects, with the parser stage of the file
   model (Inst/StreamRT.v): header peek, seek back, factory, decode, count — until the end of the stream.
   PARTIAL: the container layer between the two (cutting the stream into log containers, zlib, the LogContainer
   codec) is covered by C04/C07 theorems about the cut (concat (pieces U) = U) and otherwise by the
   correspondence runs: bin/check C01 reads back every file written in the file-layer run. *)
From VB Require Import Base IR Sem StreamFacts EvalFacts Roundtrip ClassRT.
From VB Require Import Classes Consts Common CodecDefs Codec FileModel FileDefs StreamRT.
Local Open Scope Z_scope.

(* For every class of the library outside the committed exception list, every API-expressible
   state s (well-shaped members, any scalars, any payload bytes and lengths representable in the
   length members, stale values in every derived member) whose encoding succeeds: decoding the
   emitted bytes, followed by ANY further bytes, into a fresh object
   - succeeds and consumes exactly the emitted bytes (the stream is left at `rest`),
   - reproduces every emitted member of the written object (s' = the object after write(), i.e.
     with its derived size/length members filled in),
   - leaves every other member at its freshly-constructed value,
   and write() itself changed nothing but the derived members. *)
Theorem C01_object : forall c, In c object_classes -> ~ In c rt_exceptions ->
  forall s s' bytes, api_state c s -> enc cs default_cap c s = Ok (s', bytes) ->
  forall rest, exists r' i',
    dec cs scan_p default_cap c (fresh cs c) (mk_ustream (bytes ++ rest)) = Ok (r', i') /\
    nstream i' /\ s_after i' = rest /\
    (forall f, In f (emitted cs (callf cs c) (emit_of c) s') -> r' f = s' f) /\
    (forall f, ~ In f (emitted cs (callf cs c) (emit_of c) s') -> r' f = fresh cs c f) /\
    (forall f, ~ In f (map fst (pre_of c)) -> s' f = s f).
Proof. exact object_rt. Qed.
Print Assumptions C01_object.

Example C01_nonvacuous :
  (100 <? Z.of_nat (length (minus object_classes rt_exceptions))) = true.
Proof. vm_compute. reflexivity. Qed.

(* The uncompressed stream: for EVERY list of well-formed written objects (regular classes, API-expressible states, a type
   code the factory maps back to the class, declared size not below a default object's), the parser stage of the file
   model — run with the fuel read_session gives it over the concatenation of their encodings, i.e. over what the write
   worker appended — delivers exactly those objects: same classes, every emitted member as written, every other member as
   freshly constructed; in order, each once; it counts them (restore-point objects excepted) and ends, by the library's
   end-of-stream exception, after the last one. *)
Theorem C01_stream : forall objs, Forall wobj_ok objs ->
  let U := concat (map w_bytes objs) in
  exists ds, Forall2 same_obj objs ds /\
    obj_loop cs scan_p default_cap factory_table C_ohb fid_objectSize fid_objectType (2 * length U + 16) (mk_ustream U) [] 0
    = (ds, fold_left (fun c o => next_count o c) objs 0, EndException).
Proof. exact stream_roundtrip. Qed.
Print Assumptions C01_stream.

(* non-vacuity: a default-constructed CanMessage is such an object, and two of them in a row come back *)
Example C01_stream_nonvacuous : match ex_obj "CanMessage" 1 48 48 with Some o => wobj_ok o | None => False end.
Proof. exact ex_can_ok. Qed.
