(* Properties_C17.v — C17: type codes agree between constructors, the object factory and files.
   Statements only; every proof is `exact <lemma of Inst/C17.v>` about the tables regenerated from
   /repo (File::createObject, the ObjectType enum, the documented table in File.h, every
   constructor and every member initialiser). *)
From VB Require Import Base IR Sem Tables.
From VB Require Import Classes Consts Common C17.
Local Open Scope Z_scope.

(* For EVERY type code (all integers, not only 0..255): the factory yields nothing exactly where
   the format assigns no class, and otherwise the class the format assigns. *)
Theorem C17_factory_total : forall code : Z, factory code = format code.
Proof. exact factory_total. Qed.
Print Assumptions C17_factory_total.

(* "the class that the format assigns": the assignment is the format's, pinned in /verif/translator/format_codes.json — for every
   pinned code the factory yields exactly the pinned class (nothing where the format has no decodable class), and no class the
   format knows is created under any other code.  (With C17_ctor: a default-constructed object carries a pinned code of its class.) *)
Theorem C17_factory_is_the_pinned_format : pinned_ok = true.
Proof. exact factory_is_pinned_format. Qed.
Print Assumptions C17_factory_is_the_pinned_format.

Theorem C17_factory_unknown_codes : forall code : Z, ~ In code (map fst factory_table) -> factory code = None.
Proof. exact factory_outside. Qed.
Print Assumptions C17_factory_unknown_codes.

(* A default-constructed object of any class carries a code the factory maps back to that class
   (exceptions: the committed, individually refuted list). *)
Theorem C17_ctor : forall c, In c object_classes -> ~ In c ctor_exceptions ->
  exists code, ctor_code c = Some code /\ factory code = Some c.
Proof.
  intros c H1 H2. pose proof (ctor_all c H1 H2) as H. unfold ctor_ok in H.
  destruct (ctor_code c) as [code|]; [|discriminate].
  exists code. split; [reflexivity|]. apply opt_z_eqb_eq. exact H.
Qed.
Print Assumptions C17_ctor.

(* ... is written under that code, and reading the bytes back yields the same class and code. *)
Theorem C17_written_code : forall c, In c object_classes -> ~ In c ctor_exceptions -> written_code_ok c = true.
Proof. exact written_all. Qed.
Print Assumptions C17_written_code.

(* A freshly constructed object has fully determined field values. *)
Theorem C17_determined : forall c, In c object_classes -> ~ In c init_exceptions ->
  forall fd, In fd (all_fields cs depth c) -> fresh cs c (f_id fd) <> VUndef.
Proof.
  intros c H1 H2 fd Hfd. pose proof (init_all c H1 H2) as H. unfold init_complete in H.
  rewrite forallb_forall in H. specialize (H fd Hfd). intros E. rewrite E in H. discriminate.
Qed.
Print Assumptions C17_determined.

(* non-vacuity: the lists quantified over are the real ones *)
Example C17_nonvacuous : (100 <? Z.of_nat (length object_classes)) = true /\ (100 <? Z.of_nat (length factory_table)) = true.
Proof. vm_compute. split; reflexivity. Qed.

(* known finding, kept as a theorem: EnvironmentVariable() carries UNKNOWN (0), which the factory maps to nothing *)
Theorem C17_ctor_refuted_EnvironmentVariable :
  let c := class_of_name "EnvironmentVariable" in ctor_code c = Some 0 /\ factory 0 = None.
Proof. exact ctor_refuted_EnvironmentVariable. Qed.
