(* Properties_C02.v — C02: objects from Vector-produced logs survive decode-then-encode byte for byte.
   Statement only.  The theorem ranges over EVERY object image of the reference logs shipped with the
   repository (cut out independently of the library by translator/images2coq.py on every run: all
   containers of all .blf files in events_from_binlog / events_from_converter and the .lobj samples,
   distinct images up to 4 KiB) — a finite, fully enumerated domain, evaluated in the kernel on the
   codec programs regenerated from the current source.
   PARTIAL: the second sentence of the property (any substitution of field values that leaves the
   shape unchanged) is not a theorem: it is decided by differential execution of model and
   implementation on byte / 16- / 32-bit substitutions of every image. *)
From VB Require Import Base IR Sem Tables.
From VB Require Import Classes Consts Common RefImages ImagesEq.
Local Open Scope Z_scope.

Theorem C02_reference_images : forall code b, In (code, b) ref_images ->
  forall r, decodes (class_of_code code) b = Some r -> class_of_code code <> 0 ->
  exists s' b', enc cs default_cap (class_of_code code) r = Ok (s', b') /\
    ztake (zlen b) b' = b /\ Forall (fun x => x = 0) (zdrop (zlen b) b') /\ zlen b' - zlen b <= 3.
Proof. exact images_reencode. Qed.
Print Assumptions C02_reference_images.

Theorem C02_nonvacuous : 150 <=? n_complete = true.
Proof. exact many_complete. Qed.
