(* Properties_C11.v — C11: an object handed over is never touched by the other side again; shared
   state is accessed under its monitor's mutex.  Statements only.
   PARTIAL: a data race in the sense of the C++ memory model is a property of the compiled program;
   the model knows mutexes, spawn/join and the declared atomics.  ASan/TSan runs are supporting evidence. *)
From Coq Require Import String List Bool ZArith Lia.
From VB Require Import Base IR Sem Mon OQModel WPipe RPipe PipeSkel FileSkel SkelEq.
From VB Require Import Queue QueueDefs QueueEq Sync SyncDefs SyncEq.
Import ListNotations.
Local Open Scope Z_scope.

(* File::write / File::read do nothing but the queue call; the read worker does not mention the
   object after m_readWriteQueue.write(obj); the write worker deletes the object it dequeued as its
   last action and only once — facts about the statement skeletons regenerated from File.cpp *)
Theorem C11_handover :
  skel_write = ["m_readWriteQueue . write ( ohb )"]%string /\
  skel_read = ["ObjectHeaderBase * ohb = m_readWriteQueue . read ( )"; "return ohb"]%string /\
  w1_read_step_ok skel_uncompressedFile2ReadWriteQueue = true /\
  deletes_last skel_readWriteQueue2UncompressedFile = true.
Proof.
  destruct handover_api as (A & B & _). destruct handover_workers as (C & D & _). repeat split; assumption.
Qed.
Print Assumptions C11_handover.

(* every object is in exactly one place at any time (read sessions): returned to the application,
   queued, or deleted by the queue's destructor — in every reachable state of every interleaving *)
Theorem C11_read_single_owner : forall cap buf c p k s, RPipe.reach cap buf c p k s ->
  made s = somes (got s) ++ RPipe.q s ++ freed s.
Proof. intros cap buf c p k s R. destruct (read_owned cap buf c p k s R) as (O & _). exact O. Qed.
Print Assumptions C11_read_single_owner.

(* ... and in write sessions: with the application, queued, being encoded, or deleted *)
Theorem C11_write_single_owner : forall cap buf cs, 1 <= cs -> forall l s, WPipe.reach cap buf cs l s ->
  deleted s ++ w1_ids (WPipe.w1 s) ++ map o_id (WPipe.q s) ++ map o_id (a_list (WPipe.a_pc s)) = map o_id l.
Proof. intros cap buf cs H l s R. destruct (cons_reach cap buf cs H l s R) as [[_ C] _]. exact C. Qed.
Print Assumptions C11_write_single_owner.

(* lock discipline: the interpreter of the translated ObjectQueue methods fails (MFail) on any access
   to a data member or to the queue without the mutex; no method ever fails, in any state *)
Theorem C11_queue_lock_discipline : forall s x n e, wf s ->
  run "read" 0 0 s <> MFail e /\ run "write" 0 x s <> MFail e /\ run "abort" 0 0 s <> MFail e /\
  run "setFileSize" n 0 s <> MFail e /\ run "setBufferSize" n 0 s <> MFail e /\
  run "tellg" 0 0 s <> MFail e /\ run "tellp" 0 0 s <> MFail e /\ run "good" 0 0 s <> MFail e /\ run "eof" 0 0 s <> MFail e.
Proof.
  intros s x n e W.
  rewrite (read_eq s W), (write_eq s x W), (abort_eq s W), (setFileSize_eq s n W), (setBufferSize_eq s n W),
          (tellg_eq s W), (tellp_eq s W), (good_eq s W), (eof_eq s W).
  repeat split; try discriminate.
  - destruct (read_guard s); [destruct (oq_read s) as [[? ?] ?]|]; discriminate.
  - destruct (write_guard s); [destruct (oq_write s x)|]; discriminate.
Qed.
Print Assumptions C11_queue_lock_discipline.

(* every UncompressedFile method takes the mutex before anything else *)
Theorem C11_stream_methods_lock_first :
  forallb (fun n => starts_locked (umeth n))
    ["gcount"; "read"; "tellg"; "seekg"; "write@bytes"; "tellp"; "good"; "eof"; "abort"; "write@container"; "nextLogContainer";
     "fileSize"; "setFileSize"; "setBufferSize"; "dropOldData"; "defaultLogContainerSize"; "setDefaultLogContainerSize"]%string = true.
Proof. exact all_locked. Qed.
Print Assumptions C11_stream_methods_lock_first.

(* open() starts the workers last: no statement of the application thread inside open() runs concurrently with them *)
Theorem C11_open_spawns_last : nothing_after_spawn skel_open = true /\ spawns skel_open = 4%nat.
Proof. exact open_spawns_last. Qed.
Print Assumptions C11_open_spawns_last.
