(* Properties_C12.v — C12: buffered data stays bounded however long the file is.  Statements only.
   PARTIAL: the theorems bound the logical bytes / objects held; allocator slack, vector capacity and
   zlib's state are measured by the correspondence run (live-heap high-water mark), not modelled. *)
From Coq Require Import String List Bool ZArith Lia.
From VB Require Import Base BaseFacts UFModel UFFacts WPipe RPipe PipeSkel FileSkel SkelEq.
Import ListNotations.
Local Open Scope Z_scope.

(* write sessions: bytes in the stream < buffer + one chunk; objects queued <= capacity: in every
   reachable state, for every number of objects *)
Theorem C12_write_bounded : forall cap buf cs M l s, 1 <= cs -> 0 <= M -> Forall (chunks_le M) l -> WPipe.reach cap buf cs l s ->
  zlen (ubuf s) <= Z.max 0 (buf - 1) + M /\ zlen (WPipe.q s) <= Z.max cap 0.
Proof.
  intros cap buf cs M l s Hc HM Hl R. destruct (write_bounded cap buf cs Hc M l s HM Hl R) as (A & B & _). split; assumption.
Qed.
Print Assumptions C12_write_bounded.

(* read sessions (before close() aborts): bytes buffered ahead of the reader < max(buffer, largest single
   read request R) + one container; objects queued <= capacity; for every number of containers *)
Theorem C12_read_bounded : forall cap buf M R c p k s, 0 <= M -> Forall (fun x => zlen x <= M) c -> req_bound R p -> RPipe.reach cap buf c p k s ->
  tg s <= hw s /\ dropat s <= hw s /\
  (u_abort s = false -> zlen (udata s) - hw s <= Z.max 0 (Z.max buf R - 1) + M) /\
  (q_abort s = false -> zlen (RPipe.q s) <= Z.max cap 0) /\
  buf <= bufsz s <= Z.max buf R.
Proof.
  intros cap buf M R c p k s HM Hc HR Hr. destruct (read_bounded cap buf M R c p k s HM Hc HR Hr) as (A & B & C & D & _ & _ & E & _). repeat split; try assumption; apply E.
Qed.
Print Assumptions C12_read_bounded.

(* dropOldData removes EVERY container that lies wholly behind the get position: the first container
   kept ends after it — so what is held behind the reader is less than one container *)
Theorem C12_drop_leaves_less_than_a_container : forall s,
  match u_data (uf_drop s) with [] => True | c :: _ => u_tellg s < c_end c \/ u_tellp s < c_end c \/ u_fsz s < c_end c end.
Proof. intros s. destruct (drop_frame s) as (_ & _ & _ & _ & _ & gone & _ & _ & H). exact H. Qed.
Print Assumptions C12_drop_leaves_less_than_a_container.

(* the parser calls dropOldData on every path that advances the get position — also when it skips an object of unknown
   type (the reader program of the model drops after every step; this is the same fact about the source) *)
Theorem C12_parser_drops_on_every_path : w1_every_path_drops skel_uncompressedFile2ReadWriteQueue = true.
Proof. exact parser_drops_on_every_path. Qed.
Print Assumptions C12_parser_drops_on_every_path.
