(* Properties_C08.v — C08: a file cut at any byte reads as an unmodified prefix of its objects.
   Statements only.  Proved here is the SPECIFICATION side for every cut position: a finished file is
   header ++ C1 ++ ... ++ Cn (C04_file_is_header_then_containers); a cut at byte k keeps exactly
   whole(k) complete containers followed by a proper prefix of the next one, and whole is monotone
   in k; the objects wholly inside complete containers are counted the same way one level down.
   PARTIAL: that read_session / the real reader deliver exactly those objects (and that the
   in-memory stream's state machine does not deliver an object cut inside its last member) is
   decided by differential execution on every cut offset, not by a theorem. *)
From Coq Require Import List ZArith Lia.
From VB Require Import PrefixFacts.
Import ListNotations.

Theorem C08_cut_structure : forall (bs : list (list Z)) k,
  let j := whole k bs in
  exists part, firstn k (concat bs) = concat (firstn j bs) ++ part /\
    match nth_error bs j with
    | Some nxt => exists rest, nxt = part ++ rest /\ rest <> []
    | None => part = []
    end.
Proof. exact cut_structure. Qed.
Print Assumptions C08_cut_structure.

Theorem C08_monotone : forall (bs : list (list Z)) k k', k <= k' -> whole k bs <= whole k' bs.
Proof. exact whole_monotone. Qed.
Print Assumptions C08_monotone.

Theorem C08_complete_file : forall (bs : list (list Z)), whole (length (concat bs)) bs = length bs.
Proof. exact whole_all. Qed.
Print Assumptions C08_complete_file.
