(* Properties_C08.v — C08: a file cut at any byte reads as an unmodified prefix of its objects.
   Statements only.
   Specification side, for every cut position: a finished file is header ++ C1 ++ ... ++ Cn
   (C04_file_is_header_then_containers); a cut at byte k keeps exactly whole(k) complete containers followed by a proper
   prefix of the next one, and whole is monotone in k (C08_cut_structure, C08_monotone, C08_complete_file).
   Reader side, at the level of the uncompressed stream (C08_stream_prefix, Inst/PrefixEq.v + Lib/PrefixRT.v): the parser
   stage of the file model (FileModel.obj_loop over the read programs regenerated from /repo) on the stream of ANY list of
   well-formed objects cut at ANY byte inside ANY of them delivers the objects before the cut as written, possibly the
   object the cut falls into (only when every read of its reader was served — the cut fell into bytes the reader merely
   skips), and nothing else.  Proof: a stream that has hit its end stays failed under every forward-seeking read program
   (dead_stays); as long as the cut stream is good, the complete stream simulates it read by read (run_r_sim: same bytes,
   same decoded state; a clamped forward seek leaves the cut stream at its end, where only zero-length reads survive).
   PARTIAL: the inflating stage on a file cut inside a container (the cut container is dropped, C08_cut_structure says which
   objects remain) and the real reader are tied by differential execution on every cut offset, not by a theorem. *)
From Coq Require Import List ZArith Lia.
From VB Require Import PrefixFacts.
From VB Require Import Base IR Sem FileModel FileDefs StreamRT PrefixEq UnknownEq.
From VB Require Import Classes Consts Common.
Import ListNotations.

Theorem C08_cut_structure : forall (bs : list (list Z)) k,
  let j := whole k bs in
  exists part, firstn k (concat bs) = concat (firstn j bs) ++ part /\
    match nth_error bs j with
    | Some nxt => exists rest, nxt = part ++ rest /\ rest <> []
    | None => part = []
    end.
Proof. exact cut_structure. Qed.
Print Assumptions C08_cut_structure.

Theorem C08_monotone : forall (bs : list (list Z)) k k', k <= k' -> whole k bs <= whole k' bs.
Proof. exact whole_monotone. Qed.
Print Assumptions C08_monotone.

Theorem C08_complete_file : forall (bs : list (list Z)), whole (length (concat bs)) bs = length bs.
Proof. exact whole_all. Qed.
Print Assumptions C08_complete_file.

(* the reader on a cut stream: pre = the objects before the cut, o = the object the cut falls into, part = what is left of its
   bytes, lost = what is gone (at least one byte) *)
Theorem C08_stream_prefix : forall pre o part lost, Forall wobj_ok pre -> wobj_ok o -> w_bytes o = part ++ lost -> lost <> [] ->
  let U := concat (map w_bytes pre) ++ part in
  exists ds,
    fst (fst (obj_loop cs scan_p default_cap factory_table C_ohb fid_objectSize fid_objectType (2 * length U + 16) (mk_ustream U) [] 0%Z)) = ds /\
    (Forall2 same_obj pre ds \/ Forall2 same_obj (pre ++ [o]) ds).
Proof. exact stream_prefix. Qed.
Print Assumptions C08_stream_prefix.

(* ... also when unknown-type objects stand between the known ones before the cut (C09_unknown_objects_skipped) *)
Theorem C08_mixed_stream_prefix : forall pre o part lost fuel i acc count, Forall item_ok pre -> wobj_ok o ->
  w_bytes o = part ++ lost -> lost <> [] ->
  StreamFacts.nstream i -> s_good i = true -> s_after i = concat (map item_bytes pre) ++ part -> (length pre + 1 < fuel)%nat ->
  exists ds, fst (fst (obj_loop cs scan_p default_cap factory_table C_ohb fid_objectSize fid_objectType fuel i acc count)) = acc ++ ds /\
    (Forall2 same_obj (knowns pre) ds \/ Forall2 same_obj (knowns pre ++ [o]) ds).
Proof. exact mixed_prefix_gen. Qed.
Print Assumptions C08_mixed_stream_prefix.

(* non-vacuity: a CanMessage (a well-formed written object: StreamRT.ex_can_ok) followed by the first 0, 20 or 47 bytes of
   another one — exactly one object is delivered *)
Example C08_stream_prefix_example : prefix_example_b = true /\ match ex_obj "CanMessage" 1 48 48 with Some o => wobj_ok o | None => False end.
Proof. split; [exact prefix_example|exact ex_can_ok]. Qed.
