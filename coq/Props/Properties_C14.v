(* Properties_C14.v — C14: output bytes are a deterministic function of objects and configuration.
   Statements only.  In a functional model determinism of the encoders is free; what is proved is
   (a) no dependence on the schedule (the containers of every finished write session are
   FileModel.pieces of the concatenated encodings), (b) no dependence on the container size /
   level for the payload, (c) fresh objects are fully determined (C17_determined, in Properties_C17).
   (d) no emitted byte depends on indeterminate memory: the encoder model marks a byte taken from an
   uninitialised member (C14_only_determined_bytes: if the members the write program may emit hold determined
   values, only real bytes come out — any class, any variant; C14_fresh_encodes_real_bytes: true of every
   freshly constructed object).  The tie of (d) to the code — that the model's "uninitialised" is the code's —
   is the poisoned-memory correspondence run (several fill patterns). *)
From Coq Require Import String List Bool ZArith Lia.
From VB Require Import Base IR Sem FileModel FileFacts WPipe PipeSkel FileSkel SkelEq DefFacts.
From VB Require Import Classes Consts Common C17 DefEq.
Import ListNotations.
Local Open Scope Z_scope.

Theorem C14_schedule_independent : forall cap buf cs cap' buf', 1 <= cs ->
  forall l s s', WPipe.reach cap buf cs l s -> WPipe.finished s -> WPipe.reach cap' buf' cs l s' -> WPipe.finished s' ->
  out s = out s'.
Proof.
  intros cap buf cs cap' buf' H l s s' R F R' F'.
  destruct (write_determinate cap buf cs H l s R F) as (A & _). destruct (write_determinate cap' buf' cs H l s' R' F') as (A' & _).
  rewrite A, A'. reflexivity.
Qed.
Print Assumptions C14_schedule_independent.

Theorem C14_payload_config_independent : forall n1 n2 (U : list Z),
  concat (pieces (length U) n1 U) = concat (pieces (length U) n2 U).
Proof. intros. apply pieces_config_independent. Qed.
Print Assumptions C14_payload_config_independent.

(* padding is a fresh zero-filled vector on every call; no function on the write path keeps state
   between calls (no function-local statics): facts about the statement skeletons regenerated from
   AbstractFile.cpp / File.cpp *)
Theorem C14_stateless_write_path :
  skel_skipp = skipp_expected /\
  no_static skel_uncompressedFile2CompressedFile = true /\ no_static skel_readWriteQueue2UncompressedFile = true /\
  no_static skel_close = true /\ no_static skel_write = true.
Proof. exact stateless_write_path. Qed.
Print Assumptions C14_stateless_write_path.

(* no emitted byte depends on indeterminate memory *)
Theorem C14_only_determined_bytes : forall cs cap c s s' out,
  (forall f, In f (emit_fields (prog_of cs c M_write)) -> defined_val (s f)) ->
  enc cs cap c s = Ok (s', out) -> Forall byte out.
Proof. exact enc_defined. Qed.
Print Assumptions C14_only_determined_bytes.

Theorem C14_fresh_encodes_real_bytes : forall c, In c object_classes -> ~ In c init_exceptions ->
  forall s' out, enc Common.cs default_cap c (fresh Common.cs c) = Ok (s', out) -> Forall byte out.
Proof. exact fresh_encodes_real_bytes. Qed.
Print Assumptions C14_fresh_encodes_real_bytes.
