(* Properties_C14.v — C14: output bytes are a deterministic function of objects and configuration.
   Statements only.  In a functional model determinism of the encoders is free; what is proved is
   (a) no dependence on the schedule (the containers of every finished write session are
   FileModel.pieces of the concatenated encodings), (b) no dependence on the container size /
   level for the payload, (c) fresh objects are fully determined (C17_determined, in Properties_C17).
   PARTIAL: "no emitted byte depends on indeterminate memory" for caller-populated objects is decided
   by the poisoned-memory runs of the correspondence, not yet by a theorem. *)
From Coq Require Import String List Bool ZArith Lia.
From VB Require Import Base FileModel FileFacts WPipe PipeSkel FileSkel SkelEq.
Import ListNotations.
Local Open Scope Z_scope.

Theorem C14_schedule_independent : forall cap buf cs cap' buf', 1 <= cs ->
  forall l s s', WPipe.reach cap buf cs l s -> WPipe.finished s -> WPipe.reach cap' buf' cs l s' -> WPipe.finished s' ->
  out s = out s'.
Proof.
  intros cap buf cs cap' buf' H l s s' R F R' F'.
  destruct (write_determinate cap buf cs H l s R F) as (A & _). destruct (write_determinate cap' buf' cs H l s' R' F') as (A' & _).
  rewrite A, A'. reflexivity.
Qed.
Print Assumptions C14_schedule_independent.

Theorem C14_payload_config_independent : forall n1 n2 (U : list Z),
  concat (pieces (length U) n1 U) = concat (pieces (length U) n2 U).
Proof. intros. apply pieces_config_independent. Qed.
Print Assumptions C14_payload_config_independent.

(* padding is a fresh zero-filled vector on every call; no function on the write path keeps state
   between calls (no function-local statics): facts about the statement skeletons regenerated from
   AbstractFile.cpp / File.cpp *)
Theorem C14_stateless_write_path :
  skel_skipp = skipp_expected /\
  no_static skel_uncompressedFile2CompressedFile = true /\ no_static skel_readWriteQueue2UncompressedFile = true /\
  no_static skel_close = true /\ no_static skel_write = true.
Proof. exact stateless_write_path. Qed.
Print Assumptions C14_stateless_write_path.
