(* Properties_C10.v — C10: hostile input never crashes, misbehaves or hangs.
   Statements only (over terms regenerated from /repo on every run).
   C10_decoders_memory_safe: for EVERY object class and EVERY input stream (any bytes, any declared
   sizes and lengths, either stream flavour) decoding into a fresh object never writes beyond the
   capacity of a destination container — by a reflective check on the read programs regenerated
   from /repo (Lib/SafeFacts.rd_safe), proved sound once (rd_safe_sound) and evaluated in the kernel.
   C10_parser_terminates: for EVERY uncompressed stream (any bytes) and every allocation cap, the parser stage
   of the file model (FileModel.obj_loop, the loop of uncompressedFile2ReadWriteQueue) ends by itself with
   the fuel read_session gives it: every iteration that continues moves the get position forward by at least
   one byte (Lib/TermFacts.v: the stream on arbitrary positions, read programs that only seek forward, the
   base header reader consuming 16 bytes, the seek back to the declared end never going behind it).
   C10_read_session_terminates: the same for the whole sequential read session — header, inflating stage
   (cont_loop over the std::fstream flavour: every accepted container lies inside the file and moves the
   position on by at least its 16-byte base header) and parser stage — for EVERY file content, every cap and
   whatever zlib answers.  A signature search that does not end is an error of its own in the model (Err ESpin, mapped to
   EndFuel by the two loops), so the theorems also say that the search of ObjectHeaderBase::read ends on every input.
   PARTIAL: memory-safety outside the decoders (container copy in UncompressedFile, zlib) is decided by
   differential execution under ASan/UBSan + watchdog on truncations, field mutations and
   hand-assembled hostile headers. *)
From Coq Require Import String List Bool.
From VB Require Import Base IR Sem Tables SafeFacts.
From VB Require Import Classes Consts Common Threads SafeEq.
From VB Require Import FileModel FileDefs TermFacts TermEq.
Import ListNotations.
Local Open Scope string_scope.

Theorem C10_no_escape : map sk_name thread_skeletons =
    ["uncompressedFileReadThread"; "uncompressedFileWriteThread"; "compressedFileReadThread"; "compressedFileWriteThread"] /\
  forallb sk_catch_all thread_skeletons = true.
Proof. exact no_escape. Qed.
Print Assumptions C10_no_escape.

Theorem C10_end_of_stream_on_every_exit :
  forallb (fun x => negb (is_read_thread (sk_name x)) || (sk_handler_eof x && sk_normal_eof x && sk_inner x)) thread_skeletons = true.
Proof. exact read_workers_always_declare_end. Qed.
Print Assumptions C10_end_of_stream_on_every_exit.

Theorem C10_decoders_memory_safe : forall c, In c object_classes ->
  forall i, dec cs scan_p default_cap c (fresh cs c) i <> Err EOOBWrite.
Proof.
  intros c Hc i. apply decoders_memory_safe; [exact Hc|intros H; exact H|].
  exact (forallb_minus (FreshFacts.fresh_wf_b cs) _ _ fresh_all_wf c Hc (fun H => H)).
Qed.
Print Assumptions C10_decoders_memory_safe.

(* the check is not vacuous: there are read programs with length-driven copies, e.g. AppText *)
Example C10_nonvacuous : rd_safe cs (Rd (class_of_name "AppText")) = true /\ (100 <? Z.of_nat (length object_classes))%Z = true.
Proof. vm_compute. split; reflexivity. Qed.

(* the parser stage never hangs, whatever the bytes *)
Theorem C10_parser_terminates : forall cap (U : list Z),
  snd (obj_loop cs scan_p cap factory_table C_ohb fid_objectSize fid_objectType (2 * length U + 16) (mk_ustream U) [] 0%Z) <> EndFuel.
Proof. exact parser_terminates. Qed.
Print Assumptions C10_parser_terminates.

(* its premises, as facts about the regenerated terms: the signature search seeks back by at most 3 bytes after reading 4,
   the base header reader is the search followed by 2+2+4+4 bytes, and the reader of every class the factory can create
   begins with that search and only seeks forward *)
Theorem C10_termination_premises :
  rules_ok scan_p = true /\ ohb_shape cs (prog_of cs C_ohb M_read) = true /\
  forallb (fun p => (snd p =? 0)%Z || class_ok cs (snd p)) factory_table = true /\ sp_stop_on_fail scan_p = true.
Proof. split; [exact scan_rules_back_at_most_3|]. split; [exact ohb_reader_shape|]. split; [exact factory_classes_ok_b|exact scan_stops_on_failed_stream]. Qed.
Print Assumptions C10_termination_premises.

(* the whole read session never hangs: for every file content, every allocation cap, whatever zlib answers *)
Theorem C10_read_session_terminates : forall (inflate : list Z -> Z -> option (list Z)) cap (bytes : list Z),
  r_cend (f_read_session inflate cap bytes) <> EndFuel /\ r_oend (f_read_session inflate cap bytes) <> EndFuel.
Proof. exact read_session_terminates. Qed.
Print Assumptions C10_read_session_terminates.
