(* Properties_C10.v — C10: hostile input never crashes, misbehaves or hangs.
   Statements only (over terms regenerated from /repo on every run).
   PARTIAL: termination of read_session for every byte string and memory-safety of the container
   copy are decided by differential execution under ASan/UBSan + watchdog on truncations, field
   mutations and hand-assembled hostile headers; they are not theorems. *)
From Coq Require Import String List Bool.
From VB Require Import Threads SafeEq.
Import ListNotations.
Local Open Scope string_scope.

Theorem C10_no_escape : map sk_name thread_skeletons =
    ["uncompressedFileReadThread"; "uncompressedFileWriteThread"; "compressedFileReadThread"; "compressedFileWriteThread"] /\
  forallb sk_catch_all thread_skeletons = true.
Proof. exact no_escape. Qed.
Print Assumptions C10_no_escape.

Theorem C10_end_of_stream_on_every_exit :
  forallb (fun x => negb (is_read_thread (sk_name x)) || (sk_handler_eof x && sk_normal_eof x && sk_inner x)) thread_skeletons = true.
Proof. exact read_workers_always_declare_end. Qed.
Print Assumptions C10_end_of_stream_on_every_exit.
