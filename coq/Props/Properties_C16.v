(* Properties_C16.v — C16: the object queue is a bounded FIFO with exact end-of-stream and abort.
   Statements only.  The model (Lib/OQModel.v) is proved equal, method by method and for every
   state and argument, to the code translated from ObjectQueue.{h,cpp} on this run
   (C16_code_is_model); the remaining theorems are about that model. *)
From VB Require Import Base IR Sem Mon OQModel OQFacts.
From VB Require Import Queue QueueDefs QueueEq.
Local Open Scope Z_scope.

(* the translated methods, run by the interpreter of Lib/Mon.v (C integer typing, mutex discipline:
   an access to a data member without the mutex makes the interpreter fail), compute the model *)
Theorem C16_code_is_model : forall s, wf s ->
  (run "read" 0 0 s =
     if read_guard s then let '(s', ret, notes) := oq_read s in
       MDone {| mr_st := abs s'; mr_local := match ret with Some x => x | None => 0 end;
                mr_ret := Some (match ret with Some x => x | None => 0 end); mr_notes := notes; mr_locked := true; mr_deleted := [] |}
     else MBlocked CV_tellp) /\
  (forall x, run "write" 0 x s =
     if write_guard s then let '(s', notes) := oq_write s x in
       MDone {| mr_st := abs s'; mr_local := 0; mr_ret := None; mr_notes := notes; mr_locked := true; mr_deleted := [] |}
     else MBlocked CV_tellg) /\
  (run "abort" 0 0 s = let '(s', notes) := oq_abort s in
     MDone {| mr_st := abs s'; mr_local := 0; mr_ret := None; mr_notes := notes; mr_locked := true; mr_deleted := [] |}) /\
  (forall n, run "setFileSize" n 0 s = let '(s', notes) := oq_setFileSize s n in
     MDone {| mr_st := abs s'; mr_local := 0; mr_ret := None; mr_notes := notes; mr_locked := true; mr_deleted := [] |}) /\
  (forall n, run "setBufferSize" n 0 s = let '(s', notes) := oq_setBufferSize s n in
     MDone {| mr_st := abs s'; mr_local := 0; mr_ret := None; mr_notes := notes; mr_locked := true; mr_deleted := [] |}) /\
  run "tellg" 0 0 s = done s (q_tellg s) [] [] /\
  run "tellp" 0 0 s = done s (q_tellp s) [] [] /\
  run "good" 0 0 s = done s (b2z (oq_good s)) [] [] /\
  run "eof" 0 0 s = done s (b2z (oq_eof s)) [] [] /\
  (run "~ObjectQueue" 0 0 s = let '(s', del) := oq_destroy s in
     MDone {| mr_st := abs s'; mr_local := 0; mr_ret := None; mr_notes := [CV_tellg; CV_tellp]; mr_locked := false; mr_deleted := del |}).
Proof.
  intros s W. repeat split; intros;
    auto using read_eq, write_eq, abort_eq, setFileSize_eq, setBufferSize_eq, tellg_eq, tellp_eq, good_eq, eof_eq, destroy_eq.
Qed.
Print Assumptions C16_code_is_model.

(* ... on every state a history can reach *)
Theorem C16_wf_reachable : wf oq_init /\ forall s o, wf s -> wf (fst (fst (qstep s o))).
Proof. exact (conj wf_init wf_step). Qed.
Print Assumptions C16_wf_reachable.

(* insertion order, exactly once — for every history of calls, of any length *)
Theorem C16_fifo : forall ops s' outs,
  qrun oq_init ops = Some (s', outs) -> outs ++ q_items s' = written ops.
Proof. exact oq_fifo_init. Qed.
Print Assumptions C16_fifo.

(* end-of-stream is reported exactly when the queue is empty, and then only after abort() or when
   the declared size has been consumed; never while objects remain *)
Theorem C16_eof_exact : forall s, read_guard s = true ->
  let '(s', ret, _) := oq_read s in
  (ret = None <-> q_items s = []) /\
  (ret = None -> (q_abort s = true \/ q_fsz s <= q_tellg s) /\ oq_eof s' = true /\ oq_good s' = false) /\
  (forall x, ret = Some x -> exists r, q_items s = x :: r /\ q_items s' = r /\ oq_good s' = true /\ oq_eof s' = false).
Proof. exact oq_eof_exact. Qed.
Print Assumptions C16_eof_exact.

(* a producer is held back exactly while the queue is at its capacity (and abort() was not called) *)
Theorem C16_backpressure : forall s,
  write_guard s = false <-> (q_abort s = false /\ q_cap s <= wrap32 (Z.of_nat (length (q_items s)))).
Proof. exact oq_backpressure. Qed.
Print Assumptions C16_backpressure.

Theorem C16_bounded : forall ops s s' outs,
  forallb no_cfg ops = true -> q_abort s = false -> 0 <= q_cap s < M32 ->
  Z.of_nat (length (q_items s)) <= q_cap s ->
  qrun s ops = Some (s', outs) ->
  Z.of_nat (length (q_items s')) <= q_cap s' /\ q_cap s' = q_cap s /\ q_abort s' = false.
Proof. exact oq_bounded. Qed.
Print Assumptions C16_bounded.

(* abort() releases every waiter: both predicates hold afterwards and both condition variables are
   notified; and it stays in force whatever is called afterwards *)
Theorem C16_abort_releases : forall s,
  let '(s', notes) := oq_abort s in
  read_guard s' = true /\ write_guard s' = true /\ In CV_tellg notes /\ In CV_tellp notes.
Proof. exact oq_abort_releases. Qed.
Print Assumptions C16_abort_releases.

Theorem C16_abort_never_blocks : forall ops s s' outs o,
  q_abort s = true -> qrun s ops = Some (s', outs) -> qenabled s' o = true.
Proof. exact oq_abort_never_blocks. Qed.
Print Assumptions C16_abort_never_blocks.

(* no lost wake-up among read / write / abort / setFileSize *)
Theorem C16_no_lost_wakeup : forall s o, pipeline_op o = true -> qenabled s o = true ->
  let '(s', _, notes) := qstep s o in
  (read_guard s = false -> read_guard s' = true -> In CV_tellp notes) /\
  (write_guard s = false -> write_guard s' = true -> In CV_tellg notes).
Proof. exact oq_no_lost_wakeup. Qed.
Print Assumptions C16_no_lost_wakeup.

(* the destructor releases every object still queued, once *)
Theorem C16_destroy_releases : forall s,
  let '(s', del) := oq_destroy s in del = q_items s /\ q_items s' = [] /\ q_abort s' = true.
Proof. exact oq_destroy_releases. Qed.
Print Assumptions C16_destroy_releases.
