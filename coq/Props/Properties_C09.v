(* Properties_C09.v — C09: filler bytes (and hence anything skipped) in front of an object do not
   hide it.  Statement only.  The loop is Sem.scan_loop (ObjectHeaderBase::read as written: 4-byte
   reads, the three seek-back rules, stale tmp after short reads) over the in-memory stream model;
   the signature and the rules are regenerated from the source on every run (Inst/ScanEq.v).
   C09_unknown_objects_skipped (Inst/UnknownEq.v): the parser stage of the file model over ANY sequence of well-formed known
   objects and unknown-type objects (any code the factory does not know, any payload — images of known objects included —, any
   declared header size / version, declared size = actual size >= 16) delivers exactly the known ones, as written, in order.
   PARTIAL: filler bytes BETWEEN objects in the object loop (the search theorem covers them at the level of the search), unknown
   objects whose declared size is not their actual size, and the real reader against the model are decided by the
   correspondence run on hand-assembled streams. *)
From VB Require Import Base IR Sem BaseFacts StreamFacts ScanFacts.
From VB Require Import FileModel FileDefs StreamRT UnknownEq.
From VB Require Import Classes Consts Common ScanEq.
Local Open Scope Z_scope.

(* For every byte string `pre` (any length, any content: single 'L's, "LO", "LOB", "LOLOB", ending in
   any proper prefix of the signature), if no 4-byte window starting inside `pre` is the signature,
   then from a cursor standing before pre ++ "LOBJ" ++ rest the search stops exactly behind the first
   signature — it neither stops early nor runs past it — with the stream good. *)
Theorem C09_scan_finds_first : forall fuel pre rest s tmp,
  nstream s -> Forall byte pre -> s_after s = pre ++ SIGB ++ rest ->
  no_sig_before (length pre) (pre ++ SIGB ++ rest) -> (length pre < fuel)%nat -> 0 <= tmp ->
  scan_loop scan_p fuel tmp s = Ok (SIG, advance (zlen pre + 4) s true false).
Proof. exact scan_first. Qed.
Print Assumptions C09_scan_finds_first.

(* the fuel the decoders give the loop (stream length + 2) always suffices *)
Corollary C09_fuel_suffices : forall pre rest s tmp,
  nstream s -> Forall byte pre -> s_after s = pre ++ SIGB ++ rest ->
  no_sig_before (length pre) (pre ++ SIGB ++ rest) -> 0 <= tmp ->
  scan_loop scan_p (S (S (length (s_data s)))) tmp s = Ok (SIG, advance (zlen pre + 4) s true false).
Proof.
  intros pre rest s tmp Hs Hb Ha Hno Ht.
  refine (scan_first _ pre rest s tmp Hs Hb Ha Hno _ Ht).
  unfold s_data. rewrite rev_append_rev, app_length, Ha, !app_length. lia.
Qed.
Print Assumptions C09_fuel_suffices.

(* unknown-type objects are skipped as a whole, the known objects around them are delivered as written *)
Theorem C09_unknown_objects_skipped : forall items, Forall item_ok items ->
  let U := concat (map item_bytes items) in
  exists ds, Forall2 same_obj (knowns items) ds /\
    obj_loop cs scan_p default_cap factory_table C_ohb fid_objectSize fid_objectType (2 * length U + 16) (mk_ustream U) [] 0 =
      (ds, fold_left (fun c o => next_count o c) (knowns items) 0, EndException).
Proof. exact mixed_stream. Qed.
Print Assumptions C09_unknown_objects_skipped.

(* non-vacuity: an unknown object whose payload starts with the signature; a known object (StreamRT.ex_can_ok) *)
Example C09_unknown_example : uobj_ok {| u_hsz := 32; u_hver := 7; u_osz := 24; u_type := 200; u_payload := [76; 79; 66; 74; 1; 2; 3; 4] |}.
Proof. exact ex_unknown. Qed.
