(* Properties_C09.v — C09: filler bytes (and hence anything skipped) in front of an object do not
   hide it.  Statement only.  The loop is Sem.scan_loop (ObjectHeaderBase::read as written: 4-byte
   reads, the three seek-back rules, stale tmp after short reads) over the in-memory stream model;
   the signature and the rules are regenerated from the source on every run (Inst/ScanEq.v).
   PARTIAL: that File's object loop then delivers exactly the known objects around unknown-type
   objects is decided by the correspondence run on hand-assembled streams, not by a theorem. *)
From VB Require Import Base IR Sem BaseFacts StreamFacts ScanFacts.
From VB Require Import Classes Consts Common ScanEq.
Local Open Scope Z_scope.

(* For every byte string `pre` (any length, any content: single 'L's, "LO", "LOB", "LOLOB", ending in
   any proper prefix of the signature), if no 4-byte window starting inside `pre` is the signature,
   then from a cursor standing before pre ++ "LOBJ" ++ rest the search stops exactly behind the first
   signature — it neither stops early nor runs past it — with the stream good. *)
Theorem C09_scan_finds_first : forall fuel pre rest s tmp,
  nstream s -> Forall byte pre -> s_after s = pre ++ SIGB ++ rest ->
  no_sig_before (length pre) (pre ++ SIGB ++ rest) -> (length pre < fuel)%nat -> 0 <= tmp ->
  scan_loop scan_p fuel tmp s = Ok (SIG, advance (zlen pre + 4) s true false).
Proof. exact scan_first. Qed.
Print Assumptions C09_scan_finds_first.

(* the fuel the decoders give the loop (stream length + 2) always suffices *)
Corollary C09_fuel_suffices : forall pre rest s tmp,
  nstream s -> Forall byte pre -> s_after s = pre ++ SIGB ++ rest ->
  no_sig_before (length pre) (pre ++ SIGB ++ rest) -> 0 <= tmp ->
  scan_loop scan_p (S (S (length (s_data s)))) tmp s = Ok (SIG, advance (zlen pre + 4) s true false).
Proof.
  intros pre rest s tmp Hs Hb Ha Hno Ht.
  refine (scan_first _ pre rest s tmp Hs Hb Ha Hno _ Ht).
  unfold s_data. rewrite rev_append_rev, app_length, Ha, !app_length. lia.
Qed.
Print Assumptions C09_fuel_suffices.
