(* Properties_C06.v — C06: no API call blocks forever.  Statements only.
   Models: Lib/WPipe.v (write session), Lib/RPipe.v (read session): three threads, one step per critical
   section, blocking exactly where the wait predicates of ObjectQueue / UncompressedFile are false.
   Ties (all re-checked on every run): the wait predicates and notifications are proved equal to the
   terms translated from the source (C16_code_is_model, C15_guards_are_code, C16_no_lost_wakeup,
   C15 notifications); the order of calls in close(), the four worker loops, the hand-over points and
   the constructor / setDefaultLogContainerSize are decidable facts about statement skeletons
   regenerated from File.cpp (C06_code_shape).
   C06_close_under_inflating_worker: the one place where a worker runs a loop of its own between two synchronisation
   points — the signature search of ObjectHeaderBase::read, on the compressed std::fstream — ends for every file content
   and wherever File::close() (which closes that fstream BEFORE it joins the worker) takes effect: Sem.s_open counts the
   worker's operations on the stream down to the close; on a closed fstream a read sets eofbit|failbit, a seek failbit only.
   The pipeline models take each worker step between two synchronisation points as finite; this theorem discharges that
   for the inflating worker (C10_parser_terminates does for the parser).
   PARTIAL: progress needs weak fairness of the OS scheduler; condition variables are modelled with
   monitor semantics; thread spawn/join and the C++ memory model are outside the model. *)
From Coq Require Import String List Bool ZArith Lia.
From VB Require Import WPipe RPipe PipeSkel FileSkel SkelEq.
From VB Require Import Base IR Sem FileModel FileDefs TermFacts TermEq CloseEq.
From VB Require Import Consts.
Import ListNotations.
Local Open Scope Z_scope.

(* write sessions: for every object list, every queue capacity >= 1 and every container size that is
   at most the buffer (File keeps buffer = container size), in every reachable state — i.e. under
   every interleaving — either the session is over or some thread can move *)
Theorem C06_write_stuck_free : forall cap buf cs, 1 <= cap -> cs <= buf ->
  forall l s, WPipe.reach cap buf cs l s -> ~ WPipe.finished s -> exists t s', WPipe.step cap buf cs t s = Some s'.
Proof. intros cap buf cs H1 H2 l s R NF. apply WPipe.stuck_free; auto. eapply WPipe.inv_reach; eauto. Qed.
Print Assumptions C06_write_stuck_free.

(* ... and every step strictly decreases a natural-number measure: every run ends, hence in the
   finished state (write(), close() and the destructor return) *)
Theorem C06_write_terminates : forall cap buf cs, 1 <= cs ->
  forall s t s', WPipe.step cap buf cs t s = Some s' -> (WPipe.mu s' < WPipe.mu s)%nat.
Proof. intros cap buf cs H s t s' St. eapply WPipe.step_decreases; eauto. Qed.
Print Assumptions C06_write_terminates.

(* read sessions: for every file content, every reader behaviour (any request sizes), every number of
   read() calls before close() (early close included), every initial buffer size, every interleaving *)
Theorem C06_read_stuck_free : forall cap buf, 1 <= cap ->
  forall c p k s, RPipe.reach cap buf c p k s -> ~ RPipe.finished s ->
  exists t s', RPipe.step cap t s = Some s'.
Proof. intros cap buf H c p k s R NF. apply RPipe.stuck_free; auto. eapply RPipe.inv_reach; eauto. Qed.
Print Assumptions C06_read_stuck_free.

(* the former deadlock — buffer 2, one request of 3 bytes, containers of 2 bytes — now runs to the end:
   read() raises the buffer size to the request before it waits (C15_read_grows_buffer ties that to the source) *)
Theorem C06_read_request_above_buffer_finishes :
  let s := run_sched 10 40 (RPipe.init 2 [[1; 2]; [3; 4]] big_prog 1) in
  RPipe.a_pc s = RPipe.ADone /\ RPipe.w1 s = RPipe.W1Done /\ RPipe.w2 s = RPipe.W2Done /\ RPipe.got s = [Some 1] /\ bufsz s = 3.
Proof. exact big_request_finishes. Qed.
Print Assumptions C06_read_request_above_buffer_finishes.

(* what the models assume about File.cpp holds for the source as it is now *)
Theorem C06_code_shape :
  block "if ( m_openMode & std :: ios_base :: in ) {" skel_close = close_read_expected /\
  close_write_order skel_close = true /\
  skel_uncompressedFileReadThread = w1_read_expected /\ skel_uncompressedFileWriteThread = w1_write_expected /\
  skel_compressedFileReadThread = w2_read_expected /\ skel_compressedFileWriteThread = w2_write_expected /\
  skel_File = ctor_expected /\ skel_setDefaultLogContainerSize = setdcs_expected /\
  w2_step_ok skel_uncompressedFile2CompressedFile = true.
Proof.
  destruct worker_loops as (A & B & C & D). destruct configuration as (E & F).
  repeat split; auto using close_read_order, close_write_order_ok, w2_write_step.
Qed.
Print Assumptions C06_code_shape.

(* close() in the middle of a read session, the inflating worker anywhere in compressedFile2UncompressedFile: for EVERY file
   content, every allocation cap, whatever zlib answers and EVERY number k of stream operations the worker still completes
   before the close takes effect, both stages of the session end (so the joins in close() return) *)
Theorem C06_close_under_inflating_worker : forall (inflate : list Z -> Z -> option (list Z)) cap (bytes : list Z) (k : nat),
  r_cend (f_read_session_closing inflate cap bytes k) <> EndFuel /\ r_oend (f_read_session_closing inflate cap bytes k) <> EndFuel.
Proof. exact read_session_closing_terminates. Qed.
Print Assumptions C06_close_under_inflating_worker.

(* what it rests on, as a fact about the term regenerated from ObjectHeaderBase.cpp: the search gives up on ANY failed stream *)
Theorem C06_search_stops_on_failed_stream : sp_stop_on_fail scan_p = true.
Proof. exact scan_stops_on_failed_stream. Qed.
Print Assumptions C06_search_stops_on_failed_stream.

(* the statement is false of the search as it was (giving up at end of file only; repaired by repo fix b825602): on a stream that
   has failed without reaching its end — what a seek on the closed file leaves — it spins, for every fuel; on a concrete
   three-object file the session hangs exactly when the close falls just before the seek back to a container's start *)
Theorem C06_old_search_refuted :
  (forall n i, s_sticky i = true -> s_good i = false -> s_eof i = false -> scan_loop scan_p_old n 0 i = Err ESpin) /\
  filter (fun k => is_fuel (r_cend (f_read_session_closing_old no_zlib default_cap ex_file k))) (seq 0 60) = [20; 38]%nat.
Proof. split; [exact old_search_spins|exact close_old_search_hangs]. Qed.
Print Assumptions C06_old_search_refuted.

(* non-vacuity: a concrete file; the session ends for each of the first 60 close points; a late close lets all objects through *)
Example C06_close_example :
  zlen ex_file = 352 /\
  forallb (fun k => negb (is_fuel (r_cend (f_read_session_closing no_zlib default_cap ex_file k)))) (seq 0 60) = true /\
  length (r_objs (f_read_session_closing no_zlib default_cap ex_file 20)) = 0%nat /\
  length (r_objs (f_read_session_closing no_zlib default_cap ex_file 55)) = 3%nat.
Proof. exact close_example. Qed.
