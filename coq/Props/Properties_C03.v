(* Properties_C03.v — C03: every written object is framed as its own header declares.
   Proved here (for all states of every class outside the exception list):
     C03_consumes           decoding the emitted bytes consumes exactly what was emitted;
     C03_lengths            every derived length/count member equals the payload emitted for it;
     C03_encoder_in_bounds  encoding never reads outside the caller's containers, whatever stale
                            values the derived members hold.
     C03_object_size_default_partial  for the default-constructed object of each of the 106 regular classes (finite
                            domain, swept in the kernel): objectSize left by write() = calculateObjectSize() >= 16
                            and the bytes emitted are objectSize + objectSize mod 4 (object plus padding).
   NOT yet a theorem for non-default states (named so the gap stays visible): C03_object_size_partial — that the
   objectSize/headerSize members equal the bytes emitted minus (objectSize mod 4) zero bytes of
   padding is currently decided by the correspondence run and the direct oracle on the
   implementation only (DESIGN.md section 4 C03). *)
From VB Require Import Base IR Sem StreamFacts EvalFacts Roundtrip ClassRT.
From VB Require Import Classes Consts Common CodecDefs Codec StreamRT.
Local Open Scope Z_scope.

Theorem C03_consumes : forall c, In c object_classes -> ~ In c rt_exceptions ->
  forall s s' bytes, api_state c s -> enc cs default_cap c s = Ok (s', bytes) ->
  forall rest, exists r' i',
    dec cs scan_p default_cap c (fresh cs c) (mk_ustream (bytes ++ rest)) = Ok (r', i') /\ s_after i' = rest.
Proof.
  intros c Hc Hex s s' bytes Ha He rest.
  destruct (object_rt c Hc Hex s s' bytes Ha He rest) as (r' & i' & H1 & _ & H3 & _).
  exists r', i'. split; assumption.
Qed.
Print Assumptions C03_consumes.

Theorem C03_lengths : forall c, In c object_classes -> ~ In c rt_exceptions ->
  forall s s' bytes, api_state c s -> enc cs default_cap c s = Ok (s', bytes) ->
  forall g f k, mlook g (pre_M cs (pre_of c)) = Some (CSize f k) ->
    s' g = VInt (elems cs s' f * k).
Proof.
  intros c Hc Hex s s' bytes Ha He g f k Hl.
  destruct (lengths_exact c Hc Hex s s' bytes Ha He g _ Hl) as (x & t & _ & _ & Hv & _). exact Hv.
Qed.
Print Assumptions C03_lengths.

Theorem C03_encoder_in_bounds : forall c, In c object_classes -> ~ In c rt_exceptions ->
  forall s, api_state c s -> enc cs default_cap c s <> Err EOOBRead.
Proof. exact enc_in_bounds. Qed.
Print Assumptions C03_encoder_in_bounds.

(* non-vacuity: some class really has derived lengths *)
Example C03_nonvacuous :
  pre_M cs (pre_of (class_of_name "AppText")) <> [].
Proof. vm_compute. discriminate. Qed.

(* objectSize of default-constructed objects, all regular classes (finite sweep, lifted by forallb_minus) *)
Definition default_size_ok (c : Z) : bool :=
  match enc cs default_cap c (fresh cs c) with
  | Ok (s', b) =>
      match s' fid_objectSize, osize cs c s' with
      | VInt v, Ok z => (v =? z) && (zlen b =? v + v mod 4) && (16 <=? v)
      | _, _ => false
      end
  | Err _ => false
  end.

Lemma default_size_all : forallb default_size_ok (minus object_classes rt_exceptions) = true.
Proof. vm_compute. reflexivity. Qed.

Theorem C03_object_size_default_partial : forall c, In c object_classes -> ~ In c rt_exceptions ->
  default_size_ok c = true.
Proof. exact (forallb_minus default_size_ok _ _ default_size_all). Qed.
Print Assumptions C03_object_size_default_partial.

Example C03_default_sweep_nonvacuous : length (minus object_classes rt_exceptions) = 106%nat.
Proof. vm_compute. reflexivity. Qed.
