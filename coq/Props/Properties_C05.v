(* Properties_C05.v — C05: the statistics header of a finished file is exact.
   Statements only; model and tie as for C04.  The reader half of the property (running counters
   equal the header values for every complete file) is decided by the correspondence run: the
   extracted read_session, the real reader and the header are compared on every file written and on
   the reference logs.  Proved on the reader side, at the level of the uncompressed stream: C05_reader_counts_as_header —
   for ANY list of well-formed objects, the objectCount that write_session stores in the header is the value of the parser
   stage's running counter (currentObjectCount) after it has read those objects back (both: the objects written, type-115
   restore-point objects excluded, modulo 2^32).  PARTIAL: the uncompressed-size counter of the inflating stage
   (currentUncompressedFileSize) against the header is decided by the correspondence run only. *)
From VB Require Import Base IR Sem Tables BaseFacts FileModel FileFacts.
From VB Require Import Classes Consts Common FileDefs FileEq StreamRT.
Local Open Scope Z_scope.

Theorem C05_header : forall deflate cap cfg hdr objs f, f_write_session deflate cap cfg hdr objs = Ok f ->
  let U := concat (map fst objs) in
  exists ps conts hdr' hbytes h0 h00 hbytes0,
    f = hbytes ++ concat conts /\
    enc cs cap C_stats hdr' = Ok (h0, hbytes) /\ enc cs cap C_stats hdr = Ok (h00, hbytes0) /\
    Forall2 (fun p c => lce deflate cap (w_level cfg) p = Ok c) (if w_restore cfg then ps ++ [[]] else ps) conts /\
    ps = pieces (length U) (w_cs cfg) U /\ concat ps = U /\
    (* object count: the objects written, restore-point objects (type 115) excluded *)
    hdr' (fid_of "FileStatistics" "objectCount") = VInt (Z.of_nat (length (filter snd objs)) mod 2 ^ 32) /\
    (* uncompressed size: header size + per container (32 + payload) *)
    hdr' (fid_of "FileStatistics" "uncompressedFileSize") =
      VInt ((geti hdr (fid_of "FileStatistics" "statisticsSize") + zlen U + 32 * zlen (if w_restore cfg then ps ++ [[]] else ps)) mod 2 ^ 64) /\
    (* file size: bytes of the header as first written + bytes of all containers *)
    hdr' (fid_of "FileStatistics" "fileSize") = VInt (zlen hbytes0 + zlen (concat conts)) /\
    (* restore-point offset: start of the trailing container when enabled, untouched otherwise *)
    (w_restore cfg = true -> hdr' (fid_of "FileStatistics" "restorePointsOffset") = VInt (zlen hbytes0 + zlen (concat (firstn (length ps) conts)))) /\
    (w_restore cfg = false -> hdr' (fid_of "FileStatistics" "restorePointsOffset") = hdr (fid_of "FileStatistics" "restorePointsOffset")) /\
    (* every other caller-supplied member is encoded as supplied *)
    (forall g, g <> fid_of "FileStatistics" "fileSize" -> g <> fid_of "FileStatistics" "uncompressedFileSize" ->
               g <> fid_of "FileStatistics" "objectCount" -> g <> fid_of "FileStatistics" "restorePointsOffset" -> hdr' g = hdr g).
Proof. exact file_shape. Qed.
Print Assumptions C05_header.

(* the header's objectCount is what the reader's own counter arrives at *)
Theorem C05_reader_counts_as_header : forall deflate cap cfg hdr (objs : list wobj) f, Forall wobj_ok objs ->
  f_write_session deflate cap cfg hdr (map (fun o => (w_bytes o, counted o)) objs) = Ok f ->
  let U := concat (map w_bytes objs) in
  exists hdr' hbytes h0 conts, f = hbytes ++ concat conts /\ enc cs cap C_stats hdr' = Ok (h0, hbytes) /\
    hdr' (fid_of "FileStatistics" "objectCount") =
      VInt (snd (fst (obj_loop cs scan_p default_cap factory_table C_ohb fid_objectSize fid_objectType (2 * length U + 16) (mk_ustream U) [] 0))).
Proof.
  intros deflate cap cfg hdr objs f Hall Hw U.
  destruct (file_shape deflate cap cfg hdr _ f Hw) as (ps & conts & hdr' & hbytes & h0 & h00 & hbytes0 & E1 & E2 & _ & _ & _ & _ & Hc & _).
  exists hdr', hbytes, h0, conts. split; [exact E1|]. split; [exact E2|].
  rewrite Hc, counted_tags. unfold U. rewrite (stream_count objs Hall). reflexivity.
Qed.
Print Assumptions C05_reader_counts_as_header.

(* non-vacuity: there are counted and uncounted well-formed objects (StreamRT.ex_can_ok is one of the former) *)
Example C05_count_example : match ex_obj "CanMessage" 1 48 48 with Some o => wobj_ok o /\ counted o = true | None => False end.
Proof. pose proof ex_can_ok as H. destruct (ex_obj "CanMessage" 1 48 48) as [o|] eqn:E; [|exact H]. split; [exact H|].
  unfold ex_obj in E. destruct (enc cs default_cap _ _) as [[s' b]|]; [|discriminate]. inversion E; subst. reflexivity. Qed.
