(* Properties_C05.v — C05: the statistics header of a finished file is exact.
   Statements only; model and tie as for C04.  The reader half of the property (running counters
   equal the header values for every complete file) is decided by the correspondence run: the
   extracted read_session, the real reader and the header are compared on every file written and on
   the reference logs (PARTIAL: no theorem about read_session yet). *)
From VB Require Import Base IR Sem Tables BaseFacts FileModel FileFacts.
From VB Require Import Classes Consts Common FileDefs FileEq.
Local Open Scope Z_scope.

Theorem C05_header : forall deflate cap cfg hdr objs f, f_write_session deflate cap cfg hdr objs = Ok f ->
  let U := concat (map fst objs) in
  exists ps conts hdr' hbytes h0 h00 hbytes0,
    f = hbytes ++ concat conts /\
    enc cs cap C_stats hdr' = Ok (h0, hbytes) /\ enc cs cap C_stats hdr = Ok (h00, hbytes0) /\
    Forall2 (fun p c => lce deflate cap (w_level cfg) p = Ok c) (if w_restore cfg then ps ++ [[]] else ps) conts /\
    ps = pieces (length U) (w_cs cfg) U /\ concat ps = U /\
    (* object count: the objects written, restore-point objects (type 115) excluded *)
    hdr' (fid_of "FileStatistics" "objectCount") = VInt (Z.of_nat (length (filter snd objs)) mod 2 ^ 32) /\
    (* uncompressed size: header size + per container (32 + payload) *)
    hdr' (fid_of "FileStatistics" "uncompressedFileSize") =
      VInt ((geti hdr (fid_of "FileStatistics" "statisticsSize") + zlen U + 32 * zlen (if w_restore cfg then ps ++ [[]] else ps)) mod 2 ^ 64) /\
    (* file size: bytes of the header as first written + bytes of all containers *)
    hdr' (fid_of "FileStatistics" "fileSize") = VInt (zlen hbytes0 + zlen (concat conts)) /\
    (* restore-point offset: start of the trailing container when enabled, untouched otherwise *)
    (w_restore cfg = true -> hdr' (fid_of "FileStatistics" "restorePointsOffset") = VInt (zlen hbytes0 + zlen (concat (firstn (length ps) conts)))) /\
    (w_restore cfg = false -> hdr' (fid_of "FileStatistics" "restorePointsOffset") = hdr (fid_of "FileStatistics" "restorePointsOffset")) /\
    (* every other caller-supplied member is encoded as supplied *)
    (forall g, g <> fid_of "FileStatistics" "fileSize" -> g <> fid_of "FileStatistics" "uncompressedFileSize" ->
               g <> fid_of "FileStatistics" "objectCount" -> g <> fid_of "FileStatistics" "restorePointsOffset" -> hdr' g = hdr g).
Proof. exact file_shape. Qed.
Print Assumptions C05_header.
