(* Properties_C15.v — C15: the in-memory stream is a byte FIFO with iostream-like state.
   Statements only.  The model is Lib/UFModel.v (UncompressedFile method by method, as written);
   its wait predicates and notifications are proved equal to the terms translated from the source
   on every run (C15_guards_are_code); the rest of the tie is the `uf` correspondence harness.
   The byte-order statement is C15_refines: for every history the property describes (any length,
   any chunking, any default container size 1..2^32-1) the model behaves as the flat byte queue of
   Lib/UFSpec.v — same enabledness, same bytes delivered, same accessor values after every call —
   and C15_fifo / C15_buf_is_writes say what that byte queue guarantees.  Histories the byte queue
   rejects (bq_step = None: a read of unwritten or possibly-dropped bytes, container size 0) are
   outside the property; the correspondence run still compares model and code on them. *)
From VB Require Import Base IR Sem Mon UFModel UFFacts UFSpec UFRefine.
From VB Require Import Sync SyncDefs SyncEq.
Local Open Scope Z_scope.

Theorem C15_guards_are_code : forall s, wfu s ->
  (forall n, 0 <= n < B62 -> ueval s n 0 (pred1 "read") = Ok (ub2z (uf_read_guard s n), TBool)) /\
  ueval s 0 0 (pred1 "write@bytes") = Ok (ub2z (uf_write_guard s), TBool) /\
  ueval s 0 0 (pred1 "write@container") = Ok (ub2z (uf_writec_guard s), TBool).
Proof. intros s W. repeat split; auto using read_guard_eq, write_guard_eq, writec_guard_eq. Qed.
Print Assumptions C15_guards_are_code.

Theorem C15_notifications_are_code :
  unotes "read" = [CVU_tellg; CVU_tellg] /\ unotes "seekg" = [CVU_tellg] /\ unotes "write@bytes" = [CVU_tellp] /\
  unotes "write@container" = [CVU_tellp] /\ unotes "abort" = [CVU_tellg; CVU_tellp] /\ unotes "setFileSize" = [CVU_tellp] /\
  unotes "nextLogContainer" = [] /\ unotes "dropOldData" = [] /\ unotes "setBufferSize" = [] /\ unotes "setDefaultLogContainerSize" = [].
Proof. exact notes_eq. Qed.
Print Assumptions C15_notifications_are_code.

(* read(n) first raises the buffer size to n when the request is larger (and tells the writer), then waits:
   the statement as it stands in the source *)
Theorem C15_read_grows_buffer : exists pred rest,
  umeth "read" = TSeq TLock (TSeq (TIf (XBin OGt (XArg I64) (XVar 5)) (TSeq (TSet 5 (XArg I64)) (TNotify CVU_tellg)) TSkip) (TSeq (TWait CVU_tellp pred) rest))
  /\ nth_error (map (fun x => fst (fst x)) uf_vars) 5 = Some "m_bufferSize"%string.
Proof. exact read_grows_buffer. Qed.
Print Assumptions C15_read_grows_buffer.

(* dropping old data never discards a byte that has not been read: for every container list *)
Theorem C15_drop_keeps_unread : forall s x, u_tellg s <= x ->
  containing (u_data (uf_drop s)) x = containing (u_data s) x.
Proof. exact drop_keeps_unread. Qed.
Print Assumptions C15_drop_keeps_unread.

Theorem C15_drop_frame : forall s,
  let s' := uf_drop s in
  u_tellg s' = u_tellg s /\ u_tellp s' = u_tellp s /\ u_fsz s' = u_fsz s /\ u_rd s' = u_rd s /\ u_gcount s' = u_gcount s /\
  exists gone, u_data s = gone ++ u_data s' /\
    Forall (fun c => c_end c <= u_tellg s /\ c_end c <= u_tellp s /\ c_end c <= u_fsz s) gone /\
    match u_data s' with [] => True | c :: _ => u_tellg s < c_end c \/ u_tellp s < c_end c \/ u_fsz s < c_end c end.
Proof. exact drop_frame. Qed.
Print Assumptions C15_drop_frame.

(* put position: advances by exactly the bytes written, for every chunking and container size *)
Theorem C15_write_advances : forall s bs s' notes, uf_write s bs = Some (s', notes) ->
  u_tellp s' = u_tellp s + Z.of_nat (length bs) /\ u_tellg s' = u_tellg s /\ u_gcount s' = u_gcount s /\ u_rd s' = u_rd s /\
  u_tellp s' <= u_fsz s' /\ (u_fsz s' = u_fsz s \/ u_fsz s' = u_tellp s') /\ notes = [CVU_tellp].
Proof. exact write_advances. Qed.
Print Assumptions C15_write_advances.

(* read counts, get position, good/eof *)
Theorem C15_read_counts : forall s n,
  let '(s', bytes, notes) := uf_read s n in
  u_gcount s' = Z.of_nat (length bytes) /\ u_tellg s' = u_tellg s + u_gcount s' /\
  0 <= u_gcount s' <= Z.max 0 n /\ (u_fsz s < n + u_tellg s -> u_tellg s' <= Z.max (u_tellg s) (u_fsz s)) /\
  (u_fsz s < n + u_tellg s -> uf_good s' = false /\ uf_eof s' = true) /\ (n + u_tellg s <= u_fsz s -> 0 < n -> uf_good s' = true /\ uf_eof s' = false) /\
  (n + u_tellg s <= u_fsz s -> n <= 0 -> u_rd s' = u_rd s) /\
  u_tellp s' = u_tellp s /\ u_data s' = u_data s /\ u_fsz s' = u_fsz s /\ u_buf s' = Z.max (u_buf s) n /\ In CVU_tellg notes.
Proof. exact read_counts. Qed.
Print Assumptions C15_read_counts.

Theorem C15_seekg_clamped : forall s off,
  let '(s', notes) := uf_seekg s off in
  u_tellg s' = Z.min (u_tellg s + off) (u_fsz s) /\ u_tellp s' = u_tellp s /\ u_data s' = u_data s /\ u_rd s' = u_rd s /\ notes = [CVU_tellg].
Proof. exact seekg_clamped. Qed.
Print Assumptions C15_seekg_clamped.

Theorem C15_abort_releases : forall s n,
  let '(s', notes) := uf_abort s in
  uf_read_guard s' n = true /\ uf_write_guard s' = true /\ uf_writec_guard s' = true /\ In CVU_tellg notes /\ In CVU_tellp notes.
Proof. exact uf_abort_releases. Qed.
Print Assumptions C15_abort_releases.

(* ---- the in-memory stream is a byte FIFO for any chunking: refinement to the flat byte queue ---- *)
Theorem C15_refines : forall ops q' outs, bq_run bq_init ops = Some (q', outs) ->
  exists s', uf_run uf_init ops = Some (s', outs) /\ uf_obs s' = bq_obs q'.
Proof. exact uf_refines. Qed.
Print Assumptions C15_refines.

Theorem C15_refines_prefix : forall ops1 ops2 q' outs, bq_run bq_init (ops1 ++ ops2) = Some (q', outs) ->
  exists q1 outs1 s1, bq_run bq_init ops1 = Some (q1, outs1) /\ uf_run uf_init ops1 = Some (s1, outs1) /\ uf_obs s1 = bq_obs q1.
Proof. exact uf_refines_prefix. Qed.
Print Assumptions C15_refines_prefix.

(* one step, from any related pair of states (not only those reachable from the initial one) *)
Theorem C15_refine_step : forall s q o q' out, R s q -> bq_step q o = Some (q', out) ->
  uenabled s o = true /\ exists s', ustep s o = Some (s', out) /\ R s' q'.
Proof. exact refine_step. Qed.
Print Assumptions C15_refine_step.

(* what the byte queue guarantees: its string is everything written, in order ... *)
Theorem C15_buf_is_writes : forall ops q q' outs, bq_run q ops = Some (q', outs) ->
  q_buf q' = q_buf q ++ concat (map wbytes ops).
Proof. exact bq_buf_is_writes. Qed.
Print Assumptions C15_buf_is_writes.

(* ... and without seeks the reads together deliver one contiguous stretch of it, however cut *)
Theorem C15_fifo : forall ops q q' outs, 0 <= q_hor q -> bq_run q ops = Some (q', outs) -> existsb is_seek ops = false ->
  q_g q <= q_g q' /\ concat outs = slice (q_g q) (q_g q' - q_g q) (q_buf q ++ concat (map wbytes ops)).
Proof. exact bq_fifo. Qed.
Print Assumptions C15_fifo.

(* non-vacuity: a history with writes across container boundaries, an appended container, a closed
   container, drops and a backward seek is accepted by the byte queue *)
Example C15_refines_nonvacuous :
  match bq_run bq_init [USetDcs 4; UWrite [1;2;3]; UNext; UWriteC [4;5]; UWrite [6;7;8;9;10]; URead 4; USeekg (-1); UDrop; URead 7; UDrop; USetFileSize 10; URead 1] with
  | Some (q, outs) => concat outs = [1;2;3;4;4;5;6;7;8;9;10] /\ q_g q = 10 /\ q_rd q = 6
  | None => False end.
Proof. vm_compute. repeat split; reflexivity. Qed.
