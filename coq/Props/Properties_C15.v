(* Properties_C15.v — C15: the in-memory stream is a byte FIFO with iostream-like state.
   Statements only.  The model is Lib/UFModel.v (UncompressedFile method by method, as written);
   its wait predicates and notifications are proved equal to the terms translated from the source
   on every run (C15_guards_are_code); the rest of the tie is the `uf` correspondence harness.
   PARTIAL: the byte-order statement for arbitrary histories (refinement to a flat byte queue,
   uf_refines) is not a theorem yet — named C15_fifo_partial in the evidence — and is decided by
   the correspondence run against the reference byte queue. *)
From VB Require Import Base IR Sem Mon UFModel UFFacts.
From VB Require Import Sync SyncDefs SyncEq.
Local Open Scope Z_scope.

Theorem C15_guards_are_code : forall s, wfu s ->
  (forall n, 0 <= n < B62 -> ueval s n 0 (pred1 "read") = Ok (ub2z (uf_read_guard s n), TBool)) /\
  ueval s 0 0 (pred1 "write@bytes") = Ok (ub2z (uf_write_guard s), TBool) /\
  ueval s 0 0 (pred1 "write@container") = Ok (ub2z (uf_writec_guard s), TBool).
Proof. intros s W. repeat split; auto using read_guard_eq, write_guard_eq, writec_guard_eq. Qed.
Print Assumptions C15_guards_are_code.

Theorem C15_notifications_are_code :
  unotes "read" = [CVU_tellg] /\ unotes "seekg" = [CVU_tellg] /\ unotes "write@bytes" = [CVU_tellp] /\
  unotes "write@container" = [CVU_tellp] /\ unotes "abort" = [CVU_tellg; CVU_tellp] /\ unotes "setFileSize" = [CVU_tellp] /\
  unotes "nextLogContainer" = [] /\ unotes "dropOldData" = [] /\ unotes "setBufferSize" = [] /\ unotes "setDefaultLogContainerSize" = [].
Proof. exact notes_eq. Qed.
Print Assumptions C15_notifications_are_code.

(* dropping old data never discards a byte that has not been read: for every container list *)
Theorem C15_drop_keeps_unread : forall s x, u_tellg s <= x ->
  containing (u_data (uf_drop s)) x = containing (u_data s) x.
Proof. exact drop_keeps_unread. Qed.
Print Assumptions C15_drop_keeps_unread.

Theorem C15_drop_frame : forall s,
  let s' := uf_drop s in
  u_tellg s' = u_tellg s /\ u_tellp s' = u_tellp s /\ u_fsz s' = u_fsz s /\ u_rd s' = u_rd s /\ u_gcount s' = u_gcount s /\
  exists gone, u_data s = gone ++ u_data s' /\
    Forall (fun c => c_end c <= u_tellg s /\ c_end c <= u_tellp s /\ c_end c <= u_fsz s) gone /\
    match u_data s' with [] => True | c :: _ => u_tellg s < c_end c \/ u_tellp s < c_end c \/ u_fsz s < c_end c end.
Proof. exact drop_frame. Qed.
Print Assumptions C15_drop_frame.

(* put position: advances by exactly the bytes written, for every chunking and container size *)
Theorem C15_write_advances : forall s bs s' notes, uf_write s bs = Some (s', notes) ->
  u_tellp s' = u_tellp s + Z.of_nat (length bs) /\ u_tellg s' = u_tellg s /\ u_gcount s' = u_gcount s /\ u_rd s' = u_rd s /\
  u_tellp s' <= u_fsz s' /\ (u_fsz s' = u_fsz s \/ u_fsz s' = u_tellp s') /\ notes = [CVU_tellp].
Proof. exact write_advances. Qed.
Print Assumptions C15_write_advances.

(* read counts, get position, good/eof *)
Theorem C15_read_counts : forall s n,
  let '(s', bytes, notes) := uf_read s n in
  u_gcount s' = Z.of_nat (length bytes) /\ u_tellg s' = u_tellg s + u_gcount s' /\
  0 <= u_gcount s' <= Z.max 0 n /\ (u_fsz s < n + u_tellg s -> u_tellg s' <= Z.max (u_tellg s) (u_fsz s)) /\
  (u_fsz s < n + u_tellg s -> uf_good s' = false /\ uf_eof s' = true) /\ (n + u_tellg s <= u_fsz s -> 0 < n -> uf_good s' = true /\ uf_eof s' = false) /\
  (n + u_tellg s <= u_fsz s -> n <= 0 -> u_rd s' = u_rd s) /\
  u_tellp s' = u_tellp s /\ u_data s' = u_data s /\ u_fsz s' = u_fsz s /\ notes = [CVU_tellg].
Proof. exact read_counts. Qed.
Print Assumptions C15_read_counts.

Theorem C15_seekg_clamped : forall s off,
  let '(s', notes) := uf_seekg s off in
  u_tellg s' = Z.min (u_tellg s + off) (u_fsz s) /\ u_tellp s' = u_tellp s /\ u_data s' = u_data s /\ u_rd s' = u_rd s /\ notes = [CVU_tellg].
Proof. exact seekg_clamped. Qed.
Print Assumptions C15_seekg_clamped.

Theorem C15_abort_releases : forall s n,
  let '(s', notes) := uf_abort s in
  uf_read_guard s' n = true /\ uf_write_guard s' = true /\ uf_writec_guard s' = true /\ In CVU_tellg notes /\ In CVU_tellp notes.
Proof. exact uf_abort_releases. Qed.
Print Assumptions C15_abort_releases.
