(* Properties_C07.v — C07: results are independent of thread interleaving.  Statements only.
   The read half is C07_read_determinate / C07_read_complete over the read-session model Lib/RPipe.v with an
   arbitrary reader program (hypothesis: its relative seeks stay inside the stream, which holds for the
   library's parser on well-formed files); that the parser thread touches the stream and the queue only
   through read / seekg / dropOldData / write(obj) is the skeleton fact C07_worker_loops_as_modelled.
   PARTIAL: the reader program is abstract — that the library's parser, run as such a program, yields
   FileModel.obj_loop's objects is decided by the correspondence runs (plain and perturbed schedules). *)
From Coq Require Import String List Bool ZArith Lia.
From VB Require Import Base FileModel WPipe RPipe RDet PipeSkel FileSkel SkelEq.
Import ListNotations.
Local Open Scope Z_scope.

(* write sessions: in EVERY finished run — whatever the interleaving, queue capacity and buffer size —
   the containers emitted are exactly the pieces the sequential model cuts the concatenated
   encodings into (FileModel.pieces, the function C04/C05 are proved about), every object written
   was deleted exactly once in write order, and nothing is left behind *)
Theorem C07_write_determinate : forall cap buf cs, 1 <= cs ->
  forall l s, WPipe.reach cap buf cs l s -> WPipe.finished s ->
  out s = pieces (length (objs_bytes l)) cs (objs_bytes l) /\ deleted s = map o_id l /\ WPipe.q s = [] /\ ubuf s = [].
Proof. intros cap buf cs H l s R F. eapply write_determinate; eauto. Qed.
Print Assumptions C07_write_determinate.

(* the stop tests of the worker loops are the ones the model has (a test that looks at other state
   than the last read's outcome would make the last container depend on timing) *)
Theorem C07_worker_loops_as_modelled :
  skel_uncompressedFileReadThread = w1_read_expected /\ skel_uncompressedFileWriteThread = w1_write_expected /\
  skel_compressedFileReadThread = w2_read_expected /\ skel_compressedFileWriteThread = w2_write_expected.
Proof. exact worker_loops. Qed.
Print Assumptions C07_worker_loops_as_modelled.

(* read sessions: in EVERY reachable state of EVERY interleaving — any queue capacity, any buffer size, any
   cut of the stream into containers, any number k of read() calls — the objects read() has returned are a
   prefix of the schedule-free meaning of the reader over the whole stream, in order, each once; and once
   read() has returned nullptr they are all of it (end-of-file only after the last object) *)
Theorem C07_read_determinate : forall cap buf c p k s, wf_prog (concat c) p 0 -> RPipe.reach cap buf c p k s ->
  (exists rest, seq (concat c) p 0 = somes (got s) ++ rest) /\ (In None (got s) -> somes (got s) = seq (concat c) p 0).
Proof. intros cap buf c p k s W R. eapply read_determinate; eauto. Qed.
Print Assumptions C07_read_determinate.

(* a finished session that called read() more often than there are objects received exactly those objects, then nullptr *)
Theorem C07_read_complete : forall cap buf c p k s, wf_prog (concat c) p 0 -> RPipe.reach cap buf c p k s ->
  RPipe.a_pc s = RPipe.ADone -> (length (seq (concat c) p 0) < k)%nat ->
  somes (got s) = seq (concat c) p 0 /\ In None (got s).
Proof. intros cap buf c p k s W R D K. eapply read_complete; eauto. Qed.
Print Assumptions C07_read_complete.

(* non-vacuity: a parser-like reader over two objects cut across two containers *)
Theorem C07_read_example :
  wf_prog (concat ex_conts) (ex_parser 5) 0 /\ seq (concat ex_conts) (ex_parser 5) 0 = [7; 8] /\
  let s := run_sched 1 80 (RPipe.init 2 ex_conts (ex_parser 5) 4) in RPipe.a_pc s = RPipe.ADone /\ got s = [Some 7; Some 8; None; None].
Proof. split; [exact ex_wf|]. split; [exact ex_seq|exact ex_session]. Qed.
