(* Properties_C07.v — C07: results are independent of thread interleaving.  Statements only.
   PARTIAL: the read half (objects delivered = file order for every interleaving) is not a theorem
   yet; it rests on the FIFO theorems C15/C16 plus differential execution under perturbed schedules. *)
From Coq Require Import String List Bool ZArith Lia.
From VB Require Import Base FileModel WPipe PipeSkel FileSkel SkelEq.
Import ListNotations.
Local Open Scope Z_scope.

(* write sessions: in EVERY finished run — whatever the interleaving, queue capacity and buffer size —
   the containers emitted are exactly the pieces the sequential model cuts the concatenated
   encodings into (FileModel.pieces, the function C04/C05 are proved about), every object written
   was deleted exactly once in write order, and nothing is left behind *)
Theorem C07_write_determinate : forall cap buf cs, 1 <= cs ->
  forall l s, WPipe.reach cap buf cs l s -> WPipe.finished s ->
  out s = pieces (length (objs_bytes l)) cs (objs_bytes l) /\ deleted s = map o_id l /\ q s = [] /\ ubuf s = [].
Proof. intros cap buf cs H l s R F. eapply write_determinate; eauto. Qed.
Print Assumptions C07_write_determinate.

(* the stop tests of the worker loops are the ones the model has (a test that looks at other state
   than the last read's outcome would make the last container depend on timing) *)
Theorem C07_worker_loops_as_modelled :
  skel_uncompressedFileReadThread = w1_read_expected /\ skel_uncompressedFileWriteThread = w1_write_expected /\
  skel_compressedFileReadThread = w2_read_expected /\ skel_compressedFileWriteThread = w2_write_expected.
Proof. exact worker_loops. Qed.
Print Assumptions C07_worker_loops_as_modelled.
