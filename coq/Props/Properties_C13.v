(* Properties_C13.v — C13: every object is released exactly once; sessions shut down cleanly.
   Statements only.  PARTIAL: histories with failed opens / repeated close and the is_open/good/eof
   flags are decided by differential execution (session harness with instance counting and
   LeakSanitizer), not by a theorem; leaks outside the model (zlib, fstream) likewise. *)
From Coq Require Import String List Bool ZArith Lia.
From VB Require Import Base OQModel OQFacts WPipe RPipe.
Import ListNotations.
Local Open Scope Z_scope.

(* write sessions: when close() has returned, every object passed to write() was deleted by the
   library exactly once, in write order; nothing is queued or buffered; both workers are done *)
Theorem C13_write_released : forall cap buf cs, 1 <= cs -> forall l s, WPipe.reach cap buf cs l s -> WPipe.finished s ->
  deleted s = map o_id l /\ WPipe.q s = [] /\ ubuf s = [].
Proof. intros cap buf cs H l s R F. destruct (write_determinate cap buf cs H l s R F) as (_ & A & B & C). auto. Qed.
Print Assumptions C13_write_released.

(* read sessions, closed or destroyed at any point (any number of reads first): every object the
   reader created was returned by read() (the caller's) or deleted by the queue's destructor — each
   exactly once — and nothing stays queued *)
Theorem C13_read_released : forall cap buf c p k s, RPipe.reach cap buf c p k s -> RPipe.a_pc s = RPipe.ADone ->
  made s = somes (got s) ++ freed s /\ RPipe.q s = [].
Proof. exact read_released. Qed.
Print Assumptions C13_read_released.

(* the queue's destructor deletes exactly what is still queued *)
Theorem C13_queue_destructor : forall s,
  let '(s', del) := oq_destroy s in del = q_items s /\ q_items s' = [] /\ OQModel.q_abort s' = true.
Proof. exact oq_destroy_releases. Qed.
Print Assumptions C13_queue_destructor.
