(* Extract.v — extraction of the executable model (ExtrOcamlBasic only; Z/positive/N stay inductive). *)
From Coq Require Import Extraction ExtrOcamlBasic.
From VB Require Import Base IR Sem Roundtrip ClassRT.
From VB Require Import Classes Consts Common CodecDefs.
From VB Require Import Mon OQModel Queue QueueDefs UFModel UFSpec FileModel FileDefs.
Extraction Language OCaml.
Set Extraction KeepSingleton.
Extraction "model.ml"
  enc dec fresh osize hsize all_fields all_classes scan_p find_field find_class
  factory_table format_table object_types method_names fid_objectType fid_objectSize fid_headerSize object_classes rt_ok rt_exceptions name_of_class emitted emit_of pre_of callf
  mk_ustream mk_fstream s_read s_seek prog_of
  mcall oq_methods oq_vt meth abs oq_init
  uf_init ustep uenabled uf_tellg_val uf_tellp_val uf_good uf_eof c_size
  bq_init bq_step bq_read_ok bq_write_ok bq_obs
  f_write_session f_read_session f_read_session_closing f_read_session_closing_old C_stats fid_of
  Z.of_nat Z.to_nat Z.add Z.mul Z.sub Z.div Z.modulo Z.compare Z.eqb Z.ltb Z.opp Z.div_eucl.
