(* Inst/Codec.v — the reflective codec checks evaluated on the generated programs (re-checked on
   every run), and the class-level theorems they yield. *)
From VB Require Import Base IR Sem Tables BaseFacts StreamFacts EvalFacts Roundtrip ClassRT CallFacts FreshFacts.
From VB Require Import Classes Consts Common CodecDefs.
Local Open Scope Z_scope.

Lemma sig_ok : 0 <= sp_sig scan_p < 2 ^ 32.
Proof. vm_compute. split; [discriminate|reflexivity]. Qed.

Lemma scan_recognised_ok : scan_recognised = true.
Proof. reflexivity. Qed.

Lemma rt_all_b : forallb rt_ok (minus object_classes rt_exceptions) = true.
Proof. vm_compute. reflexivity. Qed.

(* the states the property quantifies over: well-shaped members, populated containers, the
   signature untouched, and every derived length representable in its length member *)
Definition api_state (c : Z) (s : state) : Prop :=
  wf_state cs s /\
  defined_on (wfields (emit_of c) ++ deriv_conts cs (pre_of c)) s /\
  s (sp_field scan_p) = VInt (sp_sig scan_p) /\
  pre_guard cs (pre_of c) s.

Theorem object_rt : forall c, In c object_classes -> ~ In c rt_exceptions ->
  forall s s' bytes, api_state c s -> enc cs default_cap c s = Ok (s', bytes) ->
  forall rest, exists r' i',
    dec cs scan_p default_cap c (fresh cs c) (mk_ustream (bytes ++ rest)) = Ok (r', i') /\
    nstream i' /\ s_after i' = rest /\
    (forall f, In f (emitted cs (callf cs c) (emit_of c) s') -> r' f = s' f) /\
    (forall f, ~ In f (emitted cs (callf cs c) (emit_of c) s') -> r' f = fresh cs c f) /\
    (forall f, ~ In f (map fst (pre_of c)) -> s' f = s f).
Proof.
  intros c Hc Hex s s' bytes (Hw & Hd & Hsig & Hg) Henc rest.
  pose proof (forallb_minus rt_ok _ _ rt_all_b c Hc Hex) as Hok. unfold rt_ok in Hok.
  apply andb_prop in Hok. destruct Hok as [Hok Hdef]. apply andb_prop in Hok. destruct Hok as [Hrt Hfw].
  unfold enc in Henc. unfold dec.
  destruct (object_roundtrip cs (callf cs c) scan_p default_cap cap_ok sig_ok (Wp c) (Rp c) Hrt
              s s' bytes Henc Hw Hd Hsig Hg (fresh cs c) rest (fresh_wf cs c Hfw) (defined_b_ok _ _ Hdef))
    as (r' & i' & H1 & H2 & H3 & H4 & H5 & H6).
  exists r', i'. exact (conj H1 (conj H2 (conj H3 (conj H4 (conj H5 H6))))).
Qed.

(* the same on any in-memory stream that stands at the object (not only one that starts there), with the good flag *)
Theorem object_rt_stream : forall c, In c object_classes -> ~ In c rt_exceptions ->
  forall s s' bytes, api_state c s -> enc cs default_cap c s = Ok (s', bytes) ->
  forall i rest, nstream i -> s_after i = bytes ++ rest -> exists r' i',
    dec cs scan_p default_cap c (fresh cs c) i = Ok (r', i') /\
    nstream i' /\ s_after i' = rest /\ (s_good i = true -> s_good i' = true) /\
    (forall f, In f (emitted cs (callf cs c) (emit_of c) s') -> r' f = s' f) /\
    (forall f, ~ In f (emitted cs (callf cs c) (emit_of c) s') -> r' f = fresh cs c f).
Proof.
  intros c Hc Hex s s' bytes (Hw & Hd & Hsig & Hg) Henc i rest Hi Ha.
  pose proof (forallb_minus rt_ok _ _ rt_all_b c Hc Hex) as Hok. unfold rt_ok in Hok.
  apply andb_prop in Hok. destruct Hok as [Hok Hdef]. apply andb_prop in Hok. destruct Hok as [Hrt Hfw].
  unfold enc in Henc. unfold dec.
  destruct (object_roundtrip_stream cs (callf cs c) scan_p default_cap cap_ok sig_ok (Wp c) (Rp c) Hrt
              s s' bytes Henc Hw Hd Hsig Hg (fresh cs c) i rest Hi Ha (fresh_wf cs c Hfw) (defined_b_ok _ _ Hdef))
    as (r' & i' & H1 & H2 & H3 & Hgd & H4 & H5 & H6).
  exists r', i'. exact (conj H1 (conj H2 (conj H3 (conj Hgd (conj H4 H5))))).
Qed.

(* the state write() leaves behind and its emission *)
Theorem object_written : forall c, In c object_classes -> ~ In c rt_exceptions ->
  forall s s' bytes, api_state c s -> enc cs default_cap c s = Ok (s', bytes) ->
  run_w cs (callf cs c) default_cap (emit_of c) s' no_locals = Ok (s', bytes) /\ wf_state cs s' /\
  defined_on (emitted cs (callf cs c) (emit_of c) s') s' /\ s' (sp_field scan_p) = VInt (sp_sig scan_p).
Proof.
  intros c Hc Hex s s' bytes (Hw & Hd & Hsig & Hg) Henc.
  pose proof (forallb_minus rt_ok _ _ rt_all_b c Hc Hex) as Hok. unfold rt_ok in Hok.
  apply andb_prop in Hok. destruct Hok as [Hok Hdef]. apply andb_prop in Hok. destruct Hok as [Hrt Hfw].
  unfold enc in Henc.
  exact (object_write_facts cs (callf cs c) scan_p default_cap cap_ok sig_ok (Wp c) (Rp c) Hrt s s' bytes Henc Hw Hd Hsig Hg).
Qed.

(* ---- framing facts that follow from the same checks (C03) ---- *)
Lemma rt_ok_class c : In c object_classes -> ~ In c rt_exceptions -> class_rt_ok cs scan_p (Wp c) (Rp c) = true.
Proof.
  intros Hc Hex. pose proof (forallb_minus rt_ok _ _ rt_all_b c Hc Hex) as Hok. unfold rt_ok in Hok.
  apply andb_prop in Hok. destruct Hok as [Hok _]. apply andb_prop in Hok. destruct Hok as [Hrt _]. exact Hrt.
Qed.

(* encoding never reads outside the caller's containers, whatever stale values the derived members hold *)
Theorem enc_in_bounds : forall c, In c object_classes -> ~ In c rt_exceptions ->
  forall s, api_state c s -> enc cs default_cap c s <> Err EOOBRead.
Proof.
  intros c Hc Hex s (Hw & Hd & Hsig & Hg). unfold enc.
  exact (encoder_in_bounds cs (callf cs c) scan_p default_cap (callf_no_oob cs c) (Wp c) (Rp c) (rt_ok_class c Hc Hex) s Hw Hd Hg).
Qed.

(* every derived length/count member holds exactly the size of the payload emitted for its container *)
Theorem lengths_exact : forall c, In c object_classes -> ~ In c rt_exceptions ->
  forall s s' bytes, api_state c s -> enc cs default_cap c s = Ok (s', bytes) ->
  M_sound cs (pre_M cs (pre_of c)) s'.
Proof.
  intros c Hc Hex s s' bytes (Hw & Hd & Hsig & Hg) Henc.
  pose proof (rt_ok_class c Hc Hex) as Hok. unfold class_rt_ok in Hok.
  unfold pre_of. destruct (split_pre (Wp c)) as [A We] eqn:Esp. cbn [fst].
  apply andb_prop in Hok. destruct Hok as [Hok Hpair]. apply andb_prop in Hok. destruct Hok as [Hpre Hnsig].
  destruct (pre_ok_entries cs A Hpre) as [Hent Hnd].
  unfold enc in Henc. fold (Wp c) in Henc. rewrite (run_w_split cs (callf cs c) default_cap (Wp c) s A We Esp) in Henc.
  destruct (run_pre cs (callf cs c) A s) as [s1|] eqn:Epre; [|discriminate]. cbn [bind] in Henc.
  assert (Hs1 : s' = s1) by (eapply run_w_pure_state; eauto). subst s1.
  unfold pre_of, emit_of in Hd, Hg. rewrite Esp in Hd, Hg. cbn [fst snd] in Hd, Hg.
  apply (pre_M_sound cs (callf cs c) A s s' Epre Hent Hnd Hw). intros fe g t cc Hin Hder. split; [|eapply Hg; eauto].
  assert (Hcc : In (cnt_field cc) (deriv_conts cs A)).
  { unfold deriv_conts. apply in_flat_map. exists fe. split; [exact Hin|]. rewrite Hder. left. reflexivity. }
  assert (Hdef : s (cnt_field cc) <> VUndef) by (apply Hd; apply in_or_app; right; exact Hcc).
  rewrite Forall_forall in Hent. destruct (Hent fe Hin) as [_ Hdd]. destruct (Hdd g t cc Hder) as [Hcont _].
  pose proof Hcont as Hcont'. unfold is_vec, is_arr, kind_of in Hcont'.
  destruct (find_field cs (cnt_field cc)) as [x|] eqn:Hx; [|discriminate]. cbn [option_map] in Hcont'.
  pose proof (Hw _ x Hx) as Hsh. unfold shape_ok in Hsh.
  destruct (f_kind x); try discriminate; destruct (s (cnt_field cc)) as [|b|]; try contradiction; try congruence; exists b; reflexivity.
Qed.

(* non-vacuity: AppText with a 3-byte text is an api_state and encodes *)
Definition ex_apptext : state :=
  let c := class_of_name "AppText" in
  match find (fun x => String.eqb (f_name x) "text") (all_fields cs depth c) with
  | Some x => upd (fresh cs c) (f_id x) (VBytes [97; 98; 99])
  | None => fresh cs c end.
Example ex_apptext_encodes :
  match enc cs default_cap (class_of_name "AppText") ex_apptext with
  | Ok (_, bytes) => zlen bytes = 54 | Err _ => False end.
Proof. vm_compute. reflexivity. Qed.
