(* Inst/SkelEq.v — the assumptions of the pipeline models about File.cpp, evaluated on the statement
   skeletons regenerated from the source on this run. *)
From Coq Require Import String List Bool.
From VB Require Import PipeSkel FileSkel.
Import ListNotations.
Local Open Scope string_scope.

Lemma close_read_order : block "if ( m_openMode & std :: ios_base :: in ) {" skel_close = close_read_expected.
Proof. vm_compute. reflexivity. Qed.

Lemma close_write_order_ok : close_write_order skel_close = true.
Proof. vm_compute. reflexivity. Qed.

Lemma worker_loops :
  skel_uncompressedFileReadThread = w1_read_expected /\ skel_uncompressedFileWriteThread = w1_write_expected /\
  skel_compressedFileReadThread = w2_read_expected /\ skel_compressedFileWriteThread = w2_write_expected.
Proof. vm_compute. repeat split; reflexivity. Qed.

Lemma handover_api :
  skel_write = ["m_readWriteQueue . write ( ohb )"] /\
  skel_read = ["ObjectHeaderBase * ohb = m_readWriteQueue . read ( )"; "return ohb"] /\
  skel_dtor_File = ["close ( )"].
Proof. vm_compute. repeat split; reflexivity. Qed.

Lemma handover_workers :
  w1_read_step_ok skel_uncompressedFile2ReadWriteQueue = true /\
  deletes_last skel_readWriteQueue2UncompressedFile = true /\
  before "ohb -> write ( m_uncompressedFile )" "delete ohb" skel_readWriteQueue2UncompressedFile = true.
Proof. vm_compute. repeat split; reflexivity. Qed.

Lemma configuration : skel_File = ctor_expected /\ skel_setDefaultLogContainerSize = setdcs_expected.
Proof. vm_compute. split; reflexivity. Qed.

Lemma w2_write_step : w2_step_ok skel_uncompressedFile2CompressedFile = true.
Proof. vm_compute. reflexivity. Qed.

Lemma stateless_write_path :
  skel_skipp = skipp_expected /\
  no_static skel_uncompressedFile2CompressedFile = true /\ no_static skel_readWriteQueue2UncompressedFile = true /\
  no_static skel_close = true /\ no_static skel_write = true.
Proof. vm_compute. repeat split; reflexivity. Qed.

(* open(): the two thread creations are the last statements of their branch, and nothing follows the branches *)
Lemma open_spawns_last : nothing_after_spawn skel_open = true /\ spawns skel_open = 4%nat.
Proof. vm_compute. split; reflexivity. Qed.

(* the parser step drops consumed data on the unknown-type path too *)
Lemma parser_drops_on_every_path : w1_every_path_drops skel_uncompressedFile2ReadWriteQueue = true.
Proof. vm_compute. reflexivity. Qed.
