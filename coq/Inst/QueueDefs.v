(* Inst/QueueDefs.v — definitions tying the generated ObjectQueue methods to the model (extracted too). *)
From VB Require Import Base IR Sem Mon OQModel.
From VB Require Import Queue.
Local Open Scope Z_scope.

(* ---- names -> indices, computed from the generated tables ---- *)
Fixpoint index_of (n : string) (l : list string) (i : nat) : nat :=
  match l with [] => i | x :: r => if String.eqb x n then i else index_of n r (S i) end.
Definition meth (n : string) : nat := index_of n (map mm_name oq_methods) 0.
Definition oq_vt : list ity := map (fun x => snd (fst x)) oq_vars.

(* the store of the generated code that represents a model state *)
Definition b2z (b : bool) : Z := if b then 1 else 0.
Definition member_of (s : oq) (n : string) : Z :=
  if String.eqb n "m_abort" then b2z (q_abort s)
  else if String.eqb n "m_tellg" then q_tellg s
  else if String.eqb n "m_tellp" then q_tellp s
  else if String.eqb n "m_bufferSize" then q_cap s
  else if String.eqb n "m_fileSize" then q_fsz s
  else if String.eqb n "m_rdstate" then q_rd s
  else 0.
Definition abs (s : oq) : mstate :=
  {| ms_vars := map (fun x => member_of s (fst (fst x))) oq_vars; ms_q := q_items s |}.

Definition run (m : string) (arg obj : Z) (s : oq) : mout := mcall oq_vt arg 0 oq_methods (meth m) obj (abs s).
Definition done (s : oq) (ret : Z) (notes : list nat) (del : list Z) : mout :=
  MDone {| mr_st := abs s; mr_local := 0; mr_ret := Some ret; mr_notes := notes; mr_locked := true; mr_deleted := del |}.

