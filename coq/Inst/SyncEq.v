(* Inst/SyncEq.v — the wait predicates and notifications of UncompressedFile, translated from the
   source on every run (Gen/Sync.v), are those of the model Lib/UFModel.v: for every state. *)
From VB Require Import Base IR Sem Mon UFModel.
From VB Require Import Sync SyncDefs.
Local Open Scope Z_scope.

Definition B62 : Z := 4611686018427387904.     (* 2^62: positions and requests stay far below 2^63 *)
Definition wfu (s : uf) : Prop :=
  0 <= u_tellg s < B62 /\ 0 <= u_tellp s < B62 /\ 0 <= u_fsz s <= MAXSZ /\ 0 <= u_buf s <= MAXSZ.

Lemma init_members : map (fun x => snd x) uf_vars = map Some (ms_vars (uabs uf_init)).
Proof. vm_compute. reflexivity. Qed.

Lemma waits_shape :
  map fst (uwaits "read") = [CVU_tellp] /\ map fst (uwaits "write@bytes") = [CVU_tellg] /\
  map fst (uwaits "write@container") = [CVU_tellg] /\
  uwaits "seekg" = [] /\ uwaits "abort" = [] /\ uwaits "setFileSize" = [] /\ uwaits "dropOldData" = [] /\
  uwaits "nextLogContainer" = [] /\ uwaits "setBufferSize" = [] /\ uwaits "setDefaultLogContainerSize" = [].
Proof. vm_compute. repeat split. Qed.

Lemma notes_eq :
  unotes "read" = [CVU_tellg; CVU_tellg] /\ unotes "seekg" = [CVU_tellg] /\ unotes "write@bytes" = [CVU_tellp] /\
  unotes "write@container" = [CVU_tellp] /\ unotes "abort" = [CVU_tellg; CVU_tellp] /\ unotes "setFileSize" = [CVU_tellp] /\
  unotes "nextLogContainer" = [] /\ unotes "dropOldData" = [] /\ unotes "setBufferSize" = [] /\ unotes "setDefaultLogContainerSize" = [].
Proof. vm_compute. repeat split. Qed.

(* read(n): the buffer grows to a larger request, and the writer is told, before the wait *)
Lemma read_grows_buffer : exists pred rest,
  umeth "read" = TSeq TLock (TSeq (TIf (XBin OGt (XArg I64) (XVar 5)) (TSeq (TSet 5 (XArg I64)) (TNotify CVU_tellg)) TSkip) (TSeq (TWait CVU_tellp pred) rest))
  /\ nth_error (map (fun x => fst (fst x)) uf_vars) 5 = Some "m_bufferSize"%string.
Proof. eexists. eexists. split; vm_compute; reflexivity. Qed.

(* every method takes the mutex before anything else *)
Definition starts_locked (s : mstmt) : bool :=
  match s with TSeq TLock _ => true | TLock => true | _ => false end.
Lemma all_locked : forallb (fun n => starts_locked (umeth n))
  ["gcount"; "read"; "tellg"; "seekg"; "write@bytes"; "tellp"; "good"; "eof"; "abort"; "write@container"; "nextLogContainer";
   "fileSize"; "setFileSize"; "setBufferSize"; "dropOldData"; "defaultLogContainerSize"; "setDefaultLogContainerSize"]%string = true.
Proof. vm_compute. reflexivity. Qed.

Ltac Zify.zify_post_hook ::= Z.div_mod_to_equations.

Definition i64r (z : Z) : Prop := - 9223372036854775808 <= z < 9223372036854775808.
Lemma norm_i64 z : i64r z -> norm I64 z = z.
Proof.
  unfold i64r, norm. cbn [signed]. intros H.
  replace (bits I64 - 1) with 63 by reflexivity. replace (bits I64) with 64 by reflexivity.
  change (2 ^ 63) with 9223372036854775808. change (2 ^ 64) with 18446744073709551616. lia.
Qed.
Lemma in_range_i64 z : i64r z -> in_range I64 z = true.
Proof.
  unfold i64r, in_range. cbn [signed]. intros H. replace (bits I64 - 1) with 63 by reflexivity.
  change (2 ^ 63) with 9223372036854775808. lia.
Qed.
Lemma norm_u32 z : norm U32 z = z mod 4294967296.
Proof. reflexivity. Qed.

Local Arguments Z.add : simpl never.
Local Arguments Z.sub : simpl never.
Local Arguments Z.mul : simpl never.
Local Arguments Z.modulo : simpl never.
Local Arguments Z.pow : simpl never.
Local Arguments Z.ltb : simpl nomatch.
Local Arguments Z.leb : simpl nomatch.
Local Arguments Z.eqb : simpl nomatch.
Local Arguments norm : simpl never.
Local Arguments in_range : simpl never.

Definition pred1 (n : string) : mexpr := match uwaits n with (_, p) :: _ => p | [] => XConst 0 TBool end.

Ltac i64 := unfold i64r, B62, MAXSZ in *; lia.
Ltac simp64 :=
  repeat match goal with
         | |- context [norm I64 ?z] => rewrite (norm_i64 z) by i64
         | |- context [in_range I64 ?z] => rewrite (in_range_i64 z) by i64
         end.

Lemma read_guard_eq : forall s n, wfu s -> 0 <= n < B62 ->
  ueval s n 0 (pred1 "read") = Ok (ub2z (uf_read_guard s n), TBool).
Proof.
  intros [ab d tg tp gc fs bf rd dcs] n (H1 & H2 & H3 & H4) Hn. cbn in *.
  unfold ueval, uf_read_guard. cbn. unfold arith. cbn. simp64. cbn. simp64.
  destruct ab; cbn; [reflexivity|].
  destruct (n + tg <=? tp); cbn; [reflexivity|].
  destruct (fs <? n + tg); reflexivity.
Qed.

Lemma write_guard_eq : forall s, wfu s ->
  ueval s 0 0 (pred1 "write@bytes") = Ok (ub2z (uf_write_guard s), TBool).
Proof.
  intros [ab d tg tp gc fs bf rd dcs] (H1 & H2 & H3 & H4). cbn in *.
  unfold ueval, uf_write_guard. cbn. unfold arith. cbn. simp64. cbn. simp64.
  destruct ab; cbn; [reflexivity|].
  destruct (tp - tg <? bf); reflexivity.
Qed.

Lemma writec_guard_eq : forall s, wfu s ->
  ueval s 0 0 (pred1 "write@container") = Ok (ub2z (uf_writec_guard s), TBool).
Proof.
  intros [ab d tg tp gc fs bf rd dcs] (H1 & H2 & H3 & H4). cbn in *.
  unfold ueval, uf_writec_guard. cbn. unfold arith. cbn. simp64. cbn. simp64.
  destruct ab; cbn; [reflexivity|].
  destruct (tp - tg <? bf); reflexivity.
Qed.
