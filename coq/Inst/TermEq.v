(* Inst/TermEq.v — C10: the premises of TermFacts.obj_loop_never_out_of_fuel, evaluated on the tables and programs
   regenerated from /repo (signature-search rules, the base header reader, every class the factory can create). *)
From VB Require Import Base IR Sem Tables BaseFacts StreamFacts FileModel TermFacts.
From VB Require Import Classes Consts Common FileDefs.
Local Open Scope Z_scope.

Lemma scan_rules_back_at_most_3 : rules_ok scan_p = true.
Proof. vm_compute. reflexivity. Qed.
Lemma scan_sig_nonzero : sp_sig scan_p <> 0.
Proof. vm_compute. discriminate. Qed.
Lemma ohb_reader_shape : ohb_shape cs (prog_of cs C_ohb M_read) = true.
Proof. vm_compute. reflexivity. Qed.

(* every class the factory can create: its reader begins with the signature search and only seeks forward *)
Lemma factory_classes_ok_b : forallb (fun p => (snd p =? 0) || class_ok cs (snd p)) factory_table = true.
Proof. vm_compute. reflexivity. Qed.

Lemma factory_classes_ok : forall code, lookup_factory factory_table code <> 0 ->
  class_ok cs (lookup_factory factory_table code) = true.
Proof.
  intros code Hc. unfold lookup_factory in *.
  destruct (find (fun p => fst p =? code) factory_table) as [p|] eqn:F; [|contradiction].
  apply find_some in F. destruct F as [Hin _].
  pose proof (proj1 (forallb_forall _ _) factory_classes_ok_b p Hin) as H. cbn beta in H.
  apply orb_prop in H. destruct H as [H|H]; [apply Z.eqb_eq in H; contradiction|exact H].
Qed.

(* the parser stage of a read session never runs out of fuel: for EVERY uncompressed stream U and every allocation cap
   the loop that read_session runs (fuel 2|U| + 16) ends by itself — each iteration that continues moves the get position
   forward by at least one byte *)
Theorem parser_terminates : forall cap (U : list Z),
  snd (obj_loop cs scan_p cap factory_table C_ohb fid_objectSize fid_objectType (2 * length U + 16) (mk_ustream U) [] 0) <> EndFuel.
Proof.
  intros cap U. apply obj_loop_never_out_of_fuel.
  - exact scan_rules_back_at_most_3.
  - exact scan_sig_nonzero.
  - exact ohb_reader_shape.
  - exact factory_classes_ok.
  - split; [apply wstream_mk|cbn; lia].
  - cbn [s_size s_pos mk_ustream]. unfold zlen. lia.
Qed.

(* non-vacuity: the factory does create classes, and their readers do seek *)
Example term_nonvacuous : (100 <? Z.of_nat (length (filter (fun p => negb (snd p =? 0)) factory_table))) = true.
Proof. vm_compute. reflexivity. Qed.

(* ---------- the inflating stage and the whole read session ---------- *)
Lemma ohb_prefix_ohb : ohb_prefix cs (prog_of cs C_ohb M_read) = true.
Proof. vm_compute. reflexivity. Qed.
Lemma ohb_prefix_lc : ohb_prefix cs (prog_of cs C_lc M_read) = true.
Proof. vm_compute. reflexivity. Qed.
Lemma stats_seeks_ok : seeks_ok cs (prog_of cs C_stats M_read) = true.
Proof. vm_compute. reflexivity. Qed.

Lemma scan_stops_on_failed_stream : sp_stop_on_fail scan_p = true.
Proof. vm_compute. reflexivity. Qed.

(* for EVERY file content, every allocation cap, whatever zlib answers and wherever a concurrent File::close() closes the
   compressed file (s_open i0 arbitrary): neither stage of the read session runs out of fuel *)
Lemma read_session_on_terminates : forall (inflate : list Z -> Z -> option (list Z)) cap (i0 : istream) (n : nat),
  sstream i0 -> s_pos i0 = 0 -> s_size i0 = Z.of_nat n ->
  let r := read_session_on cs scan_p cap factory_table C_stats C_lc C_ohb fid_objectSize fid_objectType
             (fid_of "LogContainer" "compressionMethod") (fid_of "LogContainer" "uncompressedFileSize") (fid_of "LogContainer" "compressedFile")
             (fid_of "FileStatistics" "statisticsSize") inflate i0 n in
  r_cend r <> EndFuel /\ r_oend r <> EndFuel.
Proof.
  intros inflate cap i0 n Hst Hp0 Hsz. unfold read_session_on.
  destruct (dec cs scan_p cap C_stats (fresh cs C_stats) i0) as [[st i1]|e] eqn:E0; [|cbn; split; discriminate].
  unfold dec in E0.
  destruct (st_run_mono cs (callf cs C_stats) scan_p cap scan_rules_back_at_most_3 _ _ _ _ _ _ stats_seeks_ok Hst E0) as (T1 & Z1 & G1).
  match goal with |- context [cont_loop ?a ?b ?c ?d ?e ?f ?g ?h ?k ?infl ?fuel ?i ?acc ?u] =>
    pose proof (fun H => cont_loop_never_out_of_fuel a b c d e f g h k infl scan_rules_back_at_most_3 scan_stops_on_failed_stream ohb_prefix_ohb ohb_prefix_lc fuel i acc u T1 H) as HC;
    pose proof (cont_loop_failed_start a b c d e f g h k infl scan_rules_back_at_most_3 scan_stops_on_failed_stream ohb_prefix_ohb (S (n / 16)) i acc u T1) as HB;
    destruct (cont_loop a b c d e f g h k infl fuel i acc u) as [[conts usize] cend] eqn:EC
  end.
  pose proof (parser_terminates cap (concat conts)) as HP.
  destruct (obj_loop cs scan_p cap factory_table C_ohb fid_objectSize fid_objectType (2 * length (concat conts) + 16) (mk_ustream (concat conts)) [] 0) as [[objs count] oend] eqn:EO.
  cbn [r_cend r_oend snd] in *. split; [|exact HP].
  destruct (s_good i1) eqn:Gi.
  - apply HC. destruct (G1 eq_refl) as [_ Hpos]. rewrite Hp0 in Hpos. rewrite Z1, Hsz.
    assert (Z.max 0 (Z.of_nat n - s_pos i1) / 16 <= Z.of_nat n / 16) by (apply Z.div_le_mono; lia).
    assert (0 <= Z.max 0 (Z.of_nat n - s_pos i1) / 16) by (apply Z.div_pos; lia).
    assert (Z.of_nat n / 16 = Z.of_nat (n / 16)) by (rewrite Nat2Z.inj_div; reflexivity).
    lia.
  - apply HB. reflexivity.
Qed.

Theorem read_session_terminates : forall (inflate : list Z -> Z -> option (list Z)) cap (bytes : list Z),
  r_cend (f_read_session inflate cap bytes) <> EndFuel /\ r_oend (f_read_session inflate cap bytes) <> EndFuel.
Proof.
  intros inflate cap bytes. unfold f_read_session, read_session.
  apply read_session_on_terminates; [apply sstream_mk|reflexivity|reflexivity].
Qed.

(* C06: ... and wherever File::close() closes the compressed file under the inflating worker's feet *)
Theorem read_session_closing_terminates : forall (inflate : list Z -> Z -> option (list Z)) cap (bytes : list Z) (k : nat),
  r_cend (f_read_session_closing inflate cap bytes k) <> EndFuel /\ r_oend (f_read_session_closing inflate cap bytes k) <> EndFuel.
Proof.
  intros inflate cap bytes k. unfold f_read_session_closing, read_session_closing.
  apply read_session_on_terminates; [apply sstream_mk_closing|reflexivity|reflexivity].
Qed.
