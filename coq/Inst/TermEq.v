(* Inst/TermEq.v — C10: the premises of TermFacts.obj_loop_never_out_of_fuel, evaluated on the tables and programs
   regenerated from /repo (signature-search rules, the base header reader, every class the factory can create). *)
From VB Require Import Base IR Sem Tables BaseFacts StreamFacts FileModel TermFacts.
From VB Require Import Classes Consts Common FileDefs.
Local Open Scope Z_scope.

Lemma scan_rules_back_at_most_3 : rules_ok scan_p = true.
Proof. vm_compute. reflexivity. Qed.
Lemma scan_sig_nonzero : sp_sig scan_p <> 0.
Proof. vm_compute. discriminate. Qed.
Lemma ohb_reader_shape : ohb_shape cs (prog_of cs C_ohb M_read) = true.
Proof. vm_compute. reflexivity. Qed.

(* every class the factory can create: its reader begins with the signature search and only seeks forward *)
Lemma factory_classes_ok_b : forallb (fun p => (snd p =? 0) || class_ok cs (snd p)) factory_table = true.
Proof. vm_compute. reflexivity. Qed.

Lemma factory_classes_ok : forall code, lookup_factory factory_table code <> 0 ->
  class_ok cs (lookup_factory factory_table code) = true.
Proof.
  intros code Hc. unfold lookup_factory in *.
  destruct (find (fun p => fst p =? code) factory_table) as [p|] eqn:F; [|contradiction].
  apply find_some in F. destruct F as [Hin _].
  pose proof (proj1 (forallb_forall _ _) factory_classes_ok_b p Hin) as H. cbn beta in H.
  apply orb_prop in H. destruct H as [H|H]; [apply Z.eqb_eq in H; contradiction|exact H].
Qed.

(* the parser stage of a read session never runs out of fuel: for EVERY uncompressed stream U and every allocation cap
   the loop that read_session runs (fuel 2|U| + 16) ends by itself — each iteration that continues moves the get position
   forward by at least one byte *)
Theorem parser_terminates : forall cap (U : list Z),
  snd (obj_loop cs scan_p cap factory_table C_ohb fid_objectSize fid_objectType (2 * length U + 16) (mk_ustream U) [] 0) <> EndFuel.
Proof.
  intros cap U. apply obj_loop_never_out_of_fuel.
  - exact scan_rules_back_at_most_3.
  - exact scan_sig_nonzero.
  - exact ohb_reader_shape.
  - exact factory_classes_ok.
  - split; [apply wstream_mk|cbn; lia].
  - cbn [s_size s_pos mk_ustream]. unfold zlen. lia.
Qed.

(* non-vacuity: the factory does create classes, and their readers do seek *)
Example term_nonvacuous : (100 <? Z.of_nat (length (filter (fun p => negb (snd p =? 0)) factory_table))) = true.
Proof. vm_compute. reflexivity. Qed.
