(* Inst/StreamRT.v — C01 at the level of the uncompressed stream: what the write worker appends for a list of objects
   (the concatenation of their encodings) is parsed back by the parser stage of the file model (FileModel.obj_loop)
   into exactly those objects, in order, each once, and the end is reported after the last one.  Proofs only. *)
From Coq Require Import Lia.
From VB Require Import Base IR Sem Tables BaseFacts StreamFacts EvalFacts Roundtrip ClassRT CallFacts FreshFacts FileModel TermFacts StreamLevel.
From VB Require Import Classes Consts Common CodecDefs Codec FileDefs TermEq.
Local Open Scope Z_scope.

(* ---------- the 16-byte base header: written first by every regular class, read by ObjectHeaderBase::read ---------- *)
Definition hdr_fields : list Z :=
  match Rp C_ohb with
  | PScan (PRead a (PRead b (PRead c (PRead d PEnd)))) => [sp_field scan_p; a; b; c; d]
  | _ => []
  end.
Definition W_of (fs : list Z) (k : prog) : prog := fold_right PWrite k fs.
Definition W_ohb : prog := W_of hdr_fields PEnd.

Fixpoint strip_writes (fs : list Z) (p : prog) : option prog :=
  match fs with
  | [] => Some p
  | f :: r => match p with PWrite g k => if g =? f then strip_writes r k else None | _ => None end
  end.
Definition header_ok (c : Z) : bool :=
  match strip_writes hdr_fields (emit_of c) with Some _ => true | None => false end.

Lemma header_ok_all : forallb header_ok (minus object_classes rt_exceptions) = true.
Proof. vm_compute. reflexivity. Qed.

Lemma hdr_fields_eq : hdr_fields = [sp_field scan_p; 31233; 31234; fid_objectSize; fid_objectType].
Proof. vm_compute. reflexivity. Qed.

Lemma run_w_strip call : forall fs p k s s' out, strip_writes fs p = Some k ->
  run_w cs call default_cap p s no_locals = Ok (s', out) ->
  exists hdr rb, out = hdr ++ rb /\ (forall call', run_w cs call' default_cap (W_of fs PEnd) s no_locals = Ok (s, hdr)) /\
                 run_w cs call default_cap k s no_locals = Ok (s', rb).
Proof.
  induction fs as [|f r IH]; intros p k s s' out Hs H; cbn [strip_writes] in Hs.
  - inversion Hs; subst. exists [], out. split; [reflexivity|]. split; [intros; reflexivity|exact H].
  - destruct p; try discriminate. destruct (f0 =? f) eqn:E; [|discriminate]. apply Z.eqb_eq in E. subst f0.
    cbn [run_w] in H. destruct (find_field cs f) as [x|] eqn:Hx; [|discriminate].
    destruct (field_bytes x (s f)) as [b|] eqn:Hb; cbn [bind] in H; [|discriminate].
    destruct (run_w cs call default_cap p s no_locals) as [[s1 o1]|] eqn:Ek; cbn [bind fst snd] in H; [|discriminate].
    inversion H; subst. destruct (IH _ _ _ _ _ Hs Ek) as (hdr & rb & E1 & E2 & E3).
    exists (b ++ hdr), rb. split; [rewrite E1, app_assoc; reflexivity|]. split; [|exact E3].
    intros call'. cbn [W_of fold_right run_w]. rewrite Hx, Hb. cbn [bind]. fold (W_of r PEnd). rewrite (E2 call'). reflexivity.
Qed.

Lemma emitted_W_of call fs s : emitted cs call (W_of fs PEnd) s = fs.
Proof. induction fs as [|f r IH]; cbn [W_of fold_right emitted]; [reflexivity|]. fold (W_of r PEnd). rewrite IH. reflexivity. Qed.

Lemma ohb_pair : pair_wr cs scan_p [] [] W_ohb (Rp C_ohb) = true.
Proof. vm_compute. reflexivity. Qed.
Lemma ohb_fresh_wf : fresh_wf_b cs C_ohb = true.
Proof. vm_compute. reflexivity. Qed.
Lemma ohb_fresh_defined : defined_b hdr_fields (fresh cs C_ohb) = true.
Proof. vm_compute. reflexivity. Qed.

(* ObjectHeaderBase::read on a stream that stands at an encoded header: 16 bytes consumed, size and type as written *)
Lemma header_decode : forall s' hdr i rest', wf_state cs s' -> defined_on hdr_fields s' ->
  s' (sp_field scan_p) = VInt (sp_sig scan_p) ->
  (forall call', run_w cs call' default_cap W_ohb s' no_locals = Ok (s', hdr)) ->
  nstream i -> s_after i = hdr ++ rest' ->
  exists h i1, dec cs scan_p default_cap C_ohb (fresh cs C_ohb) i = Ok (h, i1) /\ nstream i1 /\ s_after i1 = rest' /\
    (s_good i = true -> s_good i1 = true) /\ h fid_objectSize = s' fid_objectSize /\ h fid_objectType = s' fid_objectType.
Proof.
  intros s' hdr i rest' Hw Hd Hsig Hrun Hi Ha.
  assert (Hd' : defined_on (emitted cs (callf cs C_ohb) W_ohb s') s') by (unfold W_ohb; rewrite emitted_W_of; exact Hd).
  assert (Hfd : defined_on (emitted cs (callf cs C_ohb) W_ohb s') (fresh cs C_ohb)) by (unfold W_ohb; rewrite emitted_W_of; apply defined_b_ok; exact ohb_fresh_defined).
  assert (Hag : agree_on [] (fresh cs C_ohb) s') by (intros f []).
  destruct (pair_sound cs (callf cs C_ohb) scan_p default_cap cap_ok sig_ok W_ohb [] [] (Rp C_ohb) s' hdr ohb_pair (Hrun _)
              (M_sound_nil cs s') Hw Hd' Hsig (fresh cs C_ohb) i rest' Hi Ha Hag (fresh_wf cs C_ohb ohb_fresh_wf) Hfd)
    as (h & i1 & Hr & (P1 & P2 & P3 & P4 & P5) & Pg).
  exists h, i1. unfold dec. split; [exact Hr|]. split; [exact P1|]. split; [exact P2|]. split; [exact Pg|].
    unfold W_ohb in P3. rewrite emitted_W_of in P3. rewrite app_nil_r in P3. rewrite hdr_fields_eq in P3.
    split; apply P3; cbn [In]; [right; right; right; left; reflexivity|right; right; right; right; left; reflexivity].
Qed.

(* the header is 16 bytes *)
Definition width_of (f : Z) : Z :=
  match find_field cs f with Some x => match f_kind x with KScalar t => width t | _ => 0 end | None => 0 end.
Definition scalar_field (f : Z) : bool :=
  match find_field cs f with Some x => match f_kind x with KScalar _ => true | _ => false end | None => false end.

Lemma W_of_len call : forall fs s out, run_w cs call default_cap (W_of fs PEnd) s no_locals = Ok (s, out) ->
  forallb scalar_field fs = true -> wf_state cs s -> defined_on fs s ->
  zlen out = fold_right (fun f a => width_of f + a) 0 fs.
Proof.
  induction fs as [|f r IH]; intros s out H Hk Hw Hd; cbn [W_of fold_right] in *.
  - cbn in H. inversion H; subst. reflexivity.
  - fold (W_of r PEnd) in H. cbn [run_w] in H. cbn [forallb] in Hk. apply andb_prop in Hk. destruct Hk as [Hk1 Hk2].
    unfold scalar_field in Hk1. unfold width_of at 1.
    destruct (find_field cs f) as [x|] eqn:Hx; [|discriminate].
    destruct (field_bytes x (s f)) as [b|] eqn:Hb; cbn [bind] in H; [|discriminate].
    destruct (run_w cs call default_cap (W_of r PEnd) s no_locals) as [[s1 o1]|] eqn:Ek; cbn [bind fst snd] in H; [|discriminate].
    inversion H; subst. rewrite zlen_app.
    assert (Hd2 : defined_on r s) by (intros g Hg; apply Hd; right; exact Hg).
    rewrite (IH _ _ Ek Hk2 Hw Hd2). f_equal.
    unfold field_bytes in Hb. destruct (f_kind x) as [t| |] eqn:Hkd; try discriminate.
    pose proof (Hd f (or_introl eq_refl)) as Hdef. destruct (s f) as [z| |]; try discriminate; try contradiction.
    inversion Hb; subst. apply zlen_le_enc. pose proof (width_pos t). lia.
Qed.

Lemma hdr_scalars : forallb scalar_field hdr_fields = true.
Proof. vm_compute. reflexivity. Qed.
Lemma hdr_width : fold_right (fun f a => width_of f + a) 0 hdr_fields = 16.
Proof. vm_compute. reflexivity. Qed.

Lemma hdr_len call s hdr : run_w cs call default_cap W_ohb s no_locals = Ok (s, hdr) -> wf_state cs s -> defined_on hdr_fields s ->
  zlen hdr = 16.
Proof. intros H Hw Hd. rewrite <- hdr_width. eapply W_of_len; eauto using hdr_scalars. Qed.

Lemma strip_emitted call : forall fs p k s, strip_writes fs p = Some k -> forall f, In f fs -> In f (emitted cs call p s).
Proof.
  induction fs as [|g r IH]; intros p k s Hs f Hf; [destruct Hf|].
  cbn [strip_writes] in Hs. destruct p; try discriminate. destruct (f0 =? g) eqn:E; [|discriminate]. apply Z.eqb_eq in E. subst f0.
  cbn [emitted]. destruct Hf as [<-|Hf]; [left; reflexivity|right; eapply IH; eauto].
Qed.

(* ---------- one written object ---------- *)
Record wobj := { w_cls : Z; w_st : state; w_st' : state; w_bytes : list Z; w_code : Z; w_osz : Z; w_sz0 : Z }.

(* an object as the application hands it to File::write: a regular class, an API-expressible state, a type code the factory
   maps back to the class, and a declared size not below what a default-constructed object of the class computes
   (false only for objects written in an older layout version than the library's default) *)
Definition wobj_ok (o : wobj) : Prop :=
  In (w_cls o) object_classes /\ ~ In (w_cls o) rt_exceptions /\
  api_state (w_cls o) (w_st o) /\ enc cs default_cap (w_cls o) (w_st o) = Ok (w_st' o, w_bytes o) /\
  w_st' o fid_objectType = VInt (w_code o) /\ lookup_factory factory_table (w_code o) = w_cls o /\ w_cls o <> 0 /\
  w_st' o fid_objectSize = VInt (w_osz o) /\ osize cs (w_cls o) (fresh cs (w_cls o)) = Ok (w_sz0 o) /\ w_sz0 o <= Z.max (w_osz o) 16.

Definition same_obj (o : wobj) (d : delivered) : Prop :=
  fst d = w_cls o /\
  (forall f, In f (emitted cs (callf cs (w_cls o)) (emit_of (w_cls o)) (w_st' o)) -> snd d f = w_st' o f) /\
  (forall f, ~ In f (emitted cs (callf cs (w_cls o)) (emit_of (w_cls o)) (w_st' o)) -> snd d f = fresh cs (w_cls o) f).

Definition next_count (o : wobj) (count : Z) : Z := if w_code o =? 115 then count else (count + 1) mod 2 ^ 32.

Notation OL := (obj_loop cs scan_p default_cap factory_table C_ohb fid_objectSize fid_objectType).

(* the pieces of one iteration on a stream that holds the whole object: the header, the seek back, the object *)
Lemma obj_step_parts : forall o i rest, wobj_ok o -> nstream i -> s_good i = true -> s_after i = w_bytes o ++ rest ->
  exists h i1 r' i3,
    dec cs scan_p default_cap C_ohb (fresh cs C_ohb) i = Ok (h, i1) /\ nstream i1 /\ s_good i1 = true /\ s_pos i1 = s_pos i + 16 /\
    geti h fid_objectSize = w_osz o /\ geti h fid_objectType = w_code o /\
    nstream (s_seek (-16) i1) /\ s_good (s_seek (-16) i1) = true /\ s_pos (s_seek (-16) i1) = s_pos i /\
    dec cs scan_p default_cap (w_cls o) (fresh cs (w_cls o)) (s_seek (-16) i1) = Ok (r', i3) /\
    nstream i3 /\ s_good i3 = true /\ s_after i3 = rest /\ same_obj o (w_cls o, r') /\ geti r' fid_objectType = w_code o.
Proof.
  intros o i rest (Hc & Hex & Hapi & Henc & Htype & Hfac & Hnz & Hosz & Hsz0 & Hle) Hi Hg Ha.
  destruct (object_written _ Hc Hex _ _ _ Hapi Henc) as (Hrunw & Hws' & Hds' & Hsig').
  pose proof (forallb_minus header_ok _ _ header_ok_all _ Hc Hex) as Hh. unfold header_ok in Hh.
  destruct (strip_writes hdr_fields (emit_of (w_cls o))) as [k|] eqn:Hstrip; [|discriminate].
  destruct (run_w_strip _ _ _ _ _ _ _ Hstrip Hrunw) as (hdr & rb & Ebytes & Hhdr & _).
  assert (Hdh : defined_on hdr_fields (w_st' o)).
  { intros f Hf. apply Hds'. exact (strip_emitted (callf cs (w_cls o)) _ _ _ (w_st' o) Hstrip f Hf). }
  assert (Hlen : zlen hdr = 16) by (exact (hdr_len (callf cs C_ohb) _ _ (Hhdr _) Hws' Hdh)).
  rewrite Ebytes, <- app_assoc in Ha.
  destruct (header_decode _ _ _ _ Hws' Hdh Hsig' Hhdr Hi Ha) as (h & i1 & Hdec1 & Hn1 & Ha1 & Hg1 & Hho & Hht).
  specialize (Hg1 Hg).
  assert (Hdata : s_data i1 = s_data i) by (unfold dec in Hdec1; eapply run_r_data; eauto).
  destruct (seek_back_restores i i1 hdr (rb ++ rest) Hi Hn1 Hdata Ha Ha1) as (Hn2 & Ha2 & Hg2 & Hp2 & Hz2). rewrite Hlen in *.
  set (i2 := s_seek (-16) i1) in *.
  assert (Hp1 : s_pos i1 = s_pos i + 16).
  { destruct Hi as (A1 & A2 & A3 & A4). destruct Hn1 as (B1 & B2 & B3 & B4).
    unfold s_data in Hdata. rewrite !rev_append_rev in Hdata. rewrite Ha, Ha1 in Hdata.
    apply (f_equal (@zlen Z)) in Hdata. rewrite !zlen_app, !zlen_rev in Hdata. lia. }
  rewrite app_assoc, <- Ebytes in Ha2. rewrite Hg1 in Hg2.
  destruct (object_rt_stream _ Hc Hex _ _ _ Hapi Henc i2 rest Hn2 Ha2) as (r' & i3 & Hdec3 & Hn3 & Ha3 & Hg3 & Hem & Hnem).
  specialize (Hg3 Hg2).
  assert (Hrt : r' fid_objectType = VInt (w_code o)).
  { rewrite <- Htype. apply Hem. apply (strip_emitted (callf cs (w_cls o)) _ _ _ (w_st' o) Hstrip). rewrite hdr_fields_eq. cbn [In]. right; right; right; right; left; reflexivity. }
  exists h, i1, r', i3.
  split; [exact Hdec1|]. split; [exact Hn1|]. split; [exact Hg1|]. split; [exact Hp1|].
  split; [unfold geti; rewrite Hho, Hosz; reflexivity|]. split; [unfold geti; rewrite Hht, Htype; reflexivity|].
  split; [exact Hn2|]. split; [exact Hg2|]. split; [exact Hp2|]. split; [exact Hdec3|]. split; [exact Hn3|]. split; [exact Hg3|]. split; [exact Ha3|].
  split; [split; [reflexivity|split; assumption]|unfold geti; rewrite Hrt; reflexivity].
Qed.

Lemma obj_step : forall o fuel i rest acc count, wobj_ok o -> nstream i -> s_good i = true -> s_after i = w_bytes o ++ rest ->
  exists d i', same_obj o d /\ nstream i' /\ s_good i' = true /\ s_after i' = rest /\
    OL (S fuel) i acc count = OL fuel i' (acc ++ [d]) (next_count o count).
Proof.
  intros o fuel i rest acc count Ho Hi Hg Ha.
  destruct (obj_step_parts o i rest Ho Hi Hg Ha) as (h & i1 & r' & i3 & Hdec1 & Hn1 & Hg1 & Hp1 & Hho & Hht & Hn2 & Hg2 & Hp2 & Hdec3 & Hn3 & Hg3 & Ha3 & Hsame & Hrt).
  destruct Ho as (Hc & Hex & Hapi & Henc & Htype & Hfac & Hnz & Hosz & Hsz0 & Hle).
  exists (w_cls o, r'), i3. split; [exact Hsame|]. split; [exact Hn3|]. split; [exact Hg3|]. split; [exact Ha3|].
  cbn [obj_loop]. rewrite Hdec1. rewrite Hg1. cbn [negb].
  rewrite Hho, Hht. rewrite Hfac.
  replace (w_cls o =? 0) with false by (symmetry; apply Z.eqb_neq; exact Hnz).
  rewrite Hsz0.
  replace ((if 16 <? w_osz o then w_osz o else 16) <? w_sz0 o) with false
    by (symmetry; apply Z.ltb_ge; destruct (16 <? w_osz o) eqn:E; [apply Z.ltb_lt in E|apply Z.ltb_ge in E]; lia).
  rewrite Hdec3. rewrite Hg3. cbn [negb]. rewrite Z.eqb_refl. rewrite Hrt. unfold next_count. reflexivity.
Qed.

Lemma wobj_len o : wobj_ok o -> 16 <= zlen (w_bytes o).
Proof.
  intros (Hc & Hex & Hapi & Henc & _).
  destruct (object_written _ Hc Hex _ _ _ Hapi Henc) as (Hrunw & Hws' & Hds' & Hsig').
  pose proof (forallb_minus header_ok _ _ header_ok_all _ Hc Hex) as Hh. unfold header_ok in Hh.
  destruct (strip_writes hdr_fields (emit_of (w_cls o))) as [k|] eqn:Hstrip; [|discriminate].
  destruct (run_w_strip _ _ _ _ _ _ _ Hstrip Hrunw) as (hdr & rb & Ebytes & Hhdr & _).
  assert (Hdh : defined_on hdr_fields (w_st' o)).
  { intros f Hf. apply Hds'. exact (strip_emitted (callf cs (w_cls o)) _ _ _ (w_st' o) Hstrip f Hf). }
  pose proof (hdr_len (callf cs C_ohb) _ _ (Hhdr _) Hws' Hdh) as Hlen.
  rewrite Ebytes, zlen_app. pose proof (zlen_nonneg rb). lia.
Qed.

Lemma ohb_prog_eq : exists a b c d, prog_of cs C_ohb M_read = PScan (PRead a (PRead b (PRead c (PRead d PEnd)))).
Proof. do 4 eexists. vm_compute. reflexivity. Qed.

(* at the end of the stream the header read fails with the library's exception: the normal end of the parser stage *)
Lemma obj_end : forall fuel i acc count, nstream i -> s_after i = [] -> OL (S fuel) i acc count = (acc, count, EndException).
Proof.
  intros fuel i acc count Hi Ha. cbn [obj_loop]. unfold dec. destruct ohb_prog_eq as (a & b & c & d & ->).
  cbn [run_r scan_loop].
  assert (Hp : pstream i).
  { destruct Hi as (H1 & H2 & H3 & H4). split; [|pose proof (zlen_nonneg (s_before i)); lia].
    unfold wstream. pose proof (zlen_nonneg (s_before i)). pose proof (zlen_nonneg (s_after i)). repeat split; try assumption; lia. }
  pose proof (pstream_read 4 i Hp) as R. destruct (s_read 4 i) as [got i1]. destruct R as (_ & _ & _ & Lg & Eg & Ee).
  assert (Hsz : s_size i = s_pos i).
  { destruct Hi as (H1 & H2 & H3 & H4). rewrite Ha in H4. change (zlen (@nil Z)) with 0 in H4. lia. }
  assert (L0 : rd_len i 4 = 0).
  { unfold rd_len. replace (s_size i <? 4 + s_pos i) with true by lia. replace (s_size i - s_pos i <=? 0) with true by lia. reflexivity. }
  assert (got = []) by (destruct got; [reflexivity|unfold zlen in Lg; cbn in Lg; lia]). subst got.
  change (merge_scalar 4 0 []) with 0. replace (0 =? sp_sig scan_p) with false by (symmetry; apply Z.eqb_neq; intros E; apply scan_sig_nonzero; symmetry; exact E).
  assert (Ee' : scan_stop scan_p i1 = true).
  { unfold scan_stop. rewrite Ee, Eg. unfold rd_short. replace (s_size i <? 4 + s_pos i) with true by lia.
    destruct (sp_stop_on_fail scan_p); reflexivity. }
  rewrite Ee'. reflexivity.
Qed.

(* ---------- the whole stream ---------- *)
Theorem stream_roundtrip_gen : forall objs fuel i acc count, Forall wobj_ok objs -> nstream i -> s_good i = true ->
  s_after i = concat (map w_bytes objs) -> (length objs < fuel)%nat ->
  exists ds, Forall2 same_obj objs ds /\
    OL fuel i acc count = (acc ++ ds, fold_left (fun c o => next_count o c) objs count, EndException).
Proof.
  induction objs as [|o r IH]; intros fuel i acc count Hall Hi Hg Ha Hf.
  - destruct fuel as [|fuel]; [cbn in Hf; lia|]. exists []. split; [constructor|]. rewrite app_nil_r. cbn [fold_left]. apply obj_end; assumption.
  - destruct fuel as [|fuel]; [cbn in Hf; lia|]. inversion Hall as [|? ? Ho Hr]; subst.
    cbn [map concat] in Ha.
    destruct (obj_step o fuel i (concat (map w_bytes r)) acc count Ho Hi Hg Ha) as (d & i' & Hd & Hn' & Hg' & Ha' & Estep).
    destruct (IH fuel i' (acc ++ [d]) (next_count o count) Hr Hn' Hg' Ha') as (ds & Hds & Erest); [cbn [length] in Hf; lia|].
    exists (d :: ds). split; [constructor; assumption|]. rewrite Estep, Erest. rewrite <- app_assoc. reflexivity.
Qed.

(* C01 at the stream level: the parser stage run, with the fuel read_session gives it, over the concatenation of the
   encodings of ANY list of well-formed objects delivers exactly those objects — same classes, every emitted member as
   written (derived size/length members as write() filled them in), every other member as freshly constructed — in order,
   each once, counts them (restore-point objects excepted) and reports the end after the last one *)
Theorem stream_roundtrip : forall objs, Forall wobj_ok objs ->
  let U := concat (map w_bytes objs) in
  exists ds, Forall2 same_obj objs ds /\
    OL (2 * length U + 16) (mk_ustream U) [] 0 = (ds, fold_left (fun c o => next_count o c) objs 0, EndException).
Proof.
  intros objs Hall U.
  destruct (stream_roundtrip_gen objs (2 * length U + 16) (mk_ustream U) [] 0 Hall (nstream_mk U) eq_refl eq_refl) as (ds & H1 & H2).
  - assert (Hlen : Z.of_nat (length objs) * 16 <= zlen U).
    { unfold U. clear U. induction Hall as [|o r Ho Hr IH]; [cbn; lia|]. cbn [map concat length]. rewrite zlen_app.
      pose proof (wobj_len o Ho). lia. }
    unfold zlen in Hlen. lia.
  - exists ds. split; [exact H1|exact H2].
Qed.

(* ---------- non-vacuity: default-constructed objects of two classes are well-formed written objects ---------- *)
Definition ex_obj (name : string) (code osz sz0 : Z) : option wobj :=
  let c := class_of_name name in
  match enc cs default_cap c (fresh cs c) with
  | Ok (s', b) => Some {| w_cls := c; w_st := fresh cs c; w_st' := s'; w_bytes := b; w_code := code; w_osz := osz; w_sz0 := sz0 |}
  | Err _ => None
  end.

Lemma fresh_api c : In c object_classes -> ~ In c rt_exceptions ->
  defined_b (ClassRT.wfields (emit_of c) ++ deriv_conts cs (pre_of c)) (fresh cs c) = true ->
  fresh cs c (sp_field scan_p) = VInt (sp_sig scan_p) ->
  (forall fe, In fe (pre_of c) -> derivation cs fe = None) ->
  api_state c (fresh cs c).
Proof.
  intros Hc Hex Hd Hs Hder.
  pose proof (forallb_minus rt_ok _ _ rt_all_b c Hc Hex) as Hok. unfold rt_ok in Hok.
  apply andb_prop in Hok. destruct Hok as [Hok _]. apply andb_prop in Hok. destruct Hok as [_ Hfw].
  split; [apply fresh_wf; exact Hfw|]. split; [apply defined_b_ok; exact Hd|]. split; [exact Hs|].
  intros fe g t cnt Hin Hdv. rewrite (Hder fe Hin) in Hdv. discriminate.
Qed.

Definition ex_can : Z := class_of_name "CanMessage".
Example ex_can_ok : match ex_obj "CanMessage" 1 48 48 with Some o => wobj_ok o | None => False end.
Proof.
  unfold ex_obj. fold ex_can. destruct (enc cs default_cap ex_can (fresh cs ex_can)) as [[s' b]|e] eqn:E.
  2:{ vm_compute in E. discriminate. }
  assert (Hc : In ex_can object_classes) by (vm_compute; tauto).
  assert (Hex : ~ In ex_can rt_exceptions) by (vm_compute; intuition discriminate).
  assert (Hapi : api_state ex_can (fresh cs ex_can)).
  { apply fresh_api; [exact Hc|exact Hex|vm_compute; reflexivity|vm_compute; reflexivity|].
    intros fe Hin. vm_compute in Hin. destruct Hin as [<-|[<-|[]]]; reflexivity. }
  unfold wobj_ok. cbn [w_cls w_st w_st' w_bytes w_code w_osz w_sz0].
  assert (Ht : s' fid_objectType = VInt 1 /\ s' fid_objectSize = VInt 48).
  { assert (Hv : match enc cs default_cap ex_can (fresh cs ex_can) with Ok (s1, _) => s1 fid_objectType = VInt 1 /\ s1 fid_objectSize = VInt 48 | Err _ => False end)
      by (vm_compute; split; reflexivity).
    rewrite E in Hv. exact Hv. }
  destruct Ht as [Ht1 Ht2].
  split; [exact Hc|]. split; [exact Hex|]. split; [exact Hapi|]. split; [exact E|]. split; [exact Ht1|].
  split; [vm_compute; reflexivity|]. split; [vm_compute; discriminate|]. split; [exact Ht2|]. split; [vm_compute; reflexivity|].
  intros C; vm_compute in C; discriminate.
Qed.

(* two objects in a row are parsed back, and the parser reports the end after them *)
Example ex_stream : match ex_obj "CanMessage" 1 48 48 with
  | Some o => exists ds, Forall2 same_obj [o; o] ds /\
      snd (obj_loop cs scan_p default_cap factory_table C_ohb fid_objectSize fid_objectType
             (2 * length (w_bytes o ++ w_bytes o ++ []) + 16) (mk_ustream (w_bytes o ++ w_bytes o ++ [])) [] 0) = EndException
  | None => False end.
Proof.
  pose proof ex_can_ok as H. destruct (ex_obj "CanMessage" 1 48 48) as [o|]; [|exact H].
  destruct (stream_roundtrip [o; o] (Forall_cons _ H (Forall_cons _ H (Forall_nil _)))) as (ds & H1 & H2).
  exists ds. split; [exact H1|]. cbn [map concat] in H2. rewrite H2. reflexivity.
Qed.

(* ---------- C05, reader side at the stream level: the running object counter ---------- *)
Definition counted (o : wobj) : bool := negb (w_code o =? 115).

Lemma next_count_fold : forall objs c,
  fold_left (fun c o => next_count o c) objs (c mod 2 ^ 32) = (c + Z.of_nat (length (filter counted objs))) mod 2 ^ 32.
Proof.
  induction objs as [|o r IH]; intros c; cbn [fold_left filter length].
  - rewrite Z.add_0_r. reflexivity.
  - unfold next_count at 2, counted at 1. destruct (w_code o =? 115); cbn [negb].
    + apply IH.
    + rewrite Zplus_mod_idemp_l. rewrite IH. cbn [length]. f_equal. lia.
Qed.

(* the parser's currentObjectCount after the stream of any list of well-formed objects: the objects written, restore-point
   objects (type 115) excluded, modulo 2^32 — the value write_session puts into the header (C05_header) when it is told the
   same thing about each object *)
Theorem stream_count : forall objs, Forall wobj_ok objs ->
  let U := concat (map w_bytes objs) in
  snd (fst (OL (2 * length U + 16) (mk_ustream U) [] 0)) = Z.of_nat (length (filter counted objs)) mod 2 ^ 32.
Proof.
  intros objs Hall U. destruct (stream_roundtrip objs Hall) as (ds & _ & E). fold U in E. rewrite E. cbn [fst snd].
  change 0 with (0 mod 2 ^ 32) at 1. rewrite next_count_fold. reflexivity.
Qed.

Lemma counted_tags objs : length (filter snd (map (fun o => (w_bytes o, counted o)) objs)) = length (filter counted objs).
Proof. induction objs as [|o r IH]; [reflexivity|]. cbn [map filter snd]. destruct (counted o); cbn [length]; rewrite IH; reflexivity. Qed.
