(* Inst/FileEq.v — the file-layer theorems instantiated with the tables regenerated from /repo. *)
From VB Require Import Base IR Sem Tables BaseFacts FileModel FileFacts.
From VB Require Import Classes Consts Common FileDefs.
Local Open Scope Z_scope.

Lemma stat_ids_distinct :
  NoDup [fid_of "FileStatistics" "statisticsSize"; fid_of "FileStatistics" "fileSize"; fid_of "FileStatistics" "uncompressedFileSize";
         fid_of "FileStatistics" "objectCount"; fid_of "FileStatistics" "restorePointsOffset"].
Proof. vm_compute. repeat constructor; cbn; intuition discriminate. Qed.

Lemma classes_found : 0 < C_stats /\ 0 < C_lc /\ 0 < C_ohb /\ 0 < fid_of "LogContainer" "compressedFile".
Proof. vm_compute. repeat split; reflexivity. Qed.

Section Z.
Variable deflate : Z -> list Z -> list Z.
Variable cap : Z.

Definition lce := lc_encode cs cap C_lc (fid_of "LogContainer" "compressionMethod") (fid_of "LogContainer" "uncompressedFileSize")
                            (fid_of "LogContainer" "compressedFile") deflate.

Theorem file_shape : forall cfg hdr objs f, f_write_session deflate cap cfg hdr objs = Ok f ->
  let U := concat (map fst objs) in
  exists ps conts hdr' hbytes h0 h00 hbytes0,
    f = hbytes ++ concat conts /\
    enc cs cap C_stats hdr' = Ok (h0, hbytes) /\ enc cs cap C_stats hdr = Ok (h00, hbytes0) /\
    Forall2 (fun p c => lce (w_level cfg) p = Ok c) (if w_restore cfg then ps ++ [[]] else ps) conts /\
    ps = pieces (length U) (w_cs cfg) U /\ concat ps = U /\
    hdr' (fid_of "FileStatistics" "objectCount") = VInt (Z.of_nat (length (filter snd objs)) mod 2 ^ 32) /\
    hdr' (fid_of "FileStatistics" "uncompressedFileSize") =
      VInt ((geti hdr (fid_of "FileStatistics" "statisticsSize") + zlen U + 32 * zlen (if w_restore cfg then ps ++ [[]] else ps)) mod 2 ^ 64) /\
    hdr' (fid_of "FileStatistics" "fileSize") = VInt (zlen hbytes0 + zlen (concat conts)) /\
    (w_restore cfg = true -> hdr' (fid_of "FileStatistics" "restorePointsOffset") = VInt (zlen hbytes0 + zlen (concat (firstn (length ps) conts)))) /\
    (w_restore cfg = false -> hdr' (fid_of "FileStatistics" "restorePointsOffset") = hdr (fid_of "FileStatistics" "restorePointsOffset")) /\
    (forall g, g <> fid_of "FileStatistics" "fileSize" -> g <> fid_of "FileStatistics" "uncompressedFileSize" ->
               g <> fid_of "FileStatistics" "objectCount" -> g <> fid_of "FileStatistics" "restorePointsOffset" -> hdr' g = hdr g).
Proof.
  intros cfg hdr objs f H. unfold f_write_session in H.
  exact (write_session_shape cs cap C_stats C_lc _ _ _ _ _ _ _ _ deflate stat_ids_distinct cfg hdr objs f H).
Qed.

(* the pieces respect the configured container size (at least one byte) *)
Theorem piece_sizes : forall n (U : list Z), 1 <= n ->
  Forall (fun p => zlen p <= n) (pieces (length U) n U) /\
  exists full last, pieces (length U) n U = full ++ [last] /\ Forall (fun p => zlen p = n) full /\ zlen last < n.
Proof. intros n U Hn. apply pieces_sizes; [exact Hn|apply le_n]. Qed.

(* the concatenated payload is the same for every container size *)
Theorem payload_config_independent : forall n1 n2 (U : list Z),
  concat (pieces (length U) n1 U) = concat (pieces (length U) n2 U).
Proof. intros. apply pieces_config_independent. Qed.
End Z.

(* non-vacuity: one CanMessage-sized stream of 48 bytes, container size 48 -> one full and one empty piece *)
Example pieces_example : map (fun p => zlen p) (pieces 48 48 (repeat 7 48)) = [48; 0].
Proof. vm_compute. reflexivity. Qed.
