(* Inst/CodecDefs.v — the reflective codec checks as definitions over the generated programs
   (no proofs here: this file is also extracted, so the checks can be evaluated per class when
   an obligation breaks). *)
From VB Require Import Base IR Sem Tables EvalFacts Roundtrip ClassRT FreshFacts.
From VB Require Import Classes Consts Common.
Local Open Scope Z_scope.

Definition Wp (c : Z) : prog := prog_of cs c M_write.
Definition Rp (c : Z) : prog := prog_of cs c M_read.
Definition pre_of (c : Z) : list (Z * expr) := fst (split_pre (Wp c)).
Definition emit_of (c : Z) : prog := snd (split_pre (Wp c)).

(* ---- round trip ---- *)
Definition rt_ok (c : Z) : bool :=
  class_rt_ok cs scan_p (Wp c) (Rp c) && fresh_wf_b cs c && defined_b (wfields (emit_of c)) (fresh cs c).

(* classes outside the generic round-trip theorem (by name; see DESIGN.md for each) *)
Definition rt_exception_names : list string :=
  ["CanErrorFrameExt"; "CanFdErrorFrame64"; "CanFdMessage64"; "CanMessage2"; "CanSettingChanged";
   "EthernetStatus"; "FlexRayVFrReceiveMsgEx"; "LinMessage"; "LinMessage2";
   "LinSendError2"; "LogContainer"; "RestorePointContainer"; "SerialEvent"]%string.
Definition rt_exceptions : list Z := map class_of_name rt_exception_names.

