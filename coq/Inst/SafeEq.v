(* Inst/SafeEq.v — C10 obligations over generated terms. *)
From Coq Require Import String List Bool.
From VB Require Import Threads.
Import ListNotations.
Local Open Scope string_scope.

Definition sk_name (x : string * bool * bool * bool * bool * bool) := fst (fst (fst (fst (fst x)))).
Definition sk_catch_all (x : string * bool * bool * bool * bool * bool) := snd (fst (fst (fst (fst x)))).
Definition sk_handler_eof (x : string * bool * bool * bool * bool * bool) := snd (fst (fst x)).
Definition sk_normal_eof (x : string * bool * bool * bool * bool * bool) := snd (fst x).
Definition sk_inner (x : string * bool * bool * bool * bool * bool) := snd x.

Definition is_read_thread (n : string) : bool :=
  String.eqb n "uncompressedFileReadThread" || String.eqb n "compressedFileReadThread".

(* no exception leaves a worker thread: the whole body of each of the four thread functions is
   inside try { } catch (...) { } *)
Lemma no_escape : map sk_name thread_skeletons =
    ["uncompressedFileReadThread"; "uncompressedFileWriteThread"; "compressedFileReadThread"; "compressedFileWriteThread"] /\
  forallb sk_catch_all thread_skeletons = true.
Proof. vm_compute. split; reflexivity. Qed.

(* in read mode a worker declares end of stream to its consumer on EVERY exit: after its loop, after a
   library Exception (inner catch stops the loop), and in the catch-all handler (allocation failure) *)
Lemma read_workers_always_declare_end :
  forallb (fun x => negb (is_read_thread (sk_name x)) || (sk_handler_eof x && sk_normal_eof x && sk_inner x)) thread_skeletons = true.
Proof. vm_compute. reflexivity. Qed.

(* ====================================================================================== *)
(* memory safety of the decoders regenerated from /repo: rd_safe evaluated on every read program *)
From VB Require Import Base IR Sem Tables BaseFacts EvalFacts Roundtrip FreshFacts SafeFacts.
From VB Require Import Classes Consts Common.
From Coq Require Import ZArith Lia.
Local Open Scope Z_scope.

Definition Rd (c : Z) : prog := prog_of cs c M_read.

(* classes whose read program is outside the check (reported in the evidence; exercised under ASan only) *)
Definition safe_exception_names : list string := []%list.
Definition safe_exceptions : list Z := map class_of_name safe_exception_names.

Definition all_fdefs : list fdef := flat_map c_fields cs.

Lemma rd_safe_all : forallb (fun c => rd_safe cs (Rd c)) (minus object_classes safe_exceptions) = true.
Proof. vm_compute. reflexivity. Qed.

Lemma field_sizes_ok : forallb (fun x => (0 <=? kelt (f_kind x)) && match ksize (f_kind x) with Some w => (0 <=? w) && (w <? 2 ^ 60) | None => true end) all_fdefs = true.
Proof. vm_compute. reflexivity. Qed.

Lemma find_field_in f x : find_field cs f = Some x -> In x all_fdefs.
Proof.
  unfold find_field, find_class. intros H. destruct (find (fun d => c_id d =? f / 256) cs) as [d|] eqn:Hd; [|discriminate].
  apply find_some in Hd. destruct Hd as [Hd _]. apply find_some in H. destruct H as [H _].
  unfold all_fdefs. apply in_flat_map. exists d. split; assumption.
Qed.

Lemma kelt_nonneg f x : find_field cs f = Some x -> 0 <= kelt (f_kind x).
Proof.
  intros H. pose proof (proj1 (forallb_forall _ _) field_sizes_ok x (find_field_in f x H)) as B.
  apply andb_prop in B. destruct B as [B _]. apply Z.leb_le. exact B.
Qed.
Lemma ksize_small f x w : find_field cs f = Some x -> ksize (f_kind x) = Some w -> 0 <= w < 2 ^ 60.
Proof.
  intros H Hw. pose proof (proj1 (forallb_forall _ _) field_sizes_ok x (find_field_in f x H)) as B.
  apply andb_prop in B. destruct B as [_ B]. rewrite Hw in B. apply andb_prop in B. destruct B as [B1 B2].
  split; [apply Z.leb_le; exact B1|apply Z.ltb_lt; exact B2].
Qed.

Lemma sig_in_type : forall x t, find_field cs (sp_field scan_p) = Some x -> f_kind x = KScalar t -> in_type t (sp_sig scan_p) = true.
Proof.
  intros x t H K. vm_compute in H. inversion H; subst x. cbn in K. inversion K; subst t. reflexivity.
Qed.

Lemma cap_small : default_cap < 2 ^ 60.
Proof. reflexivity. Qed.

(* a well-shaped state (as every freshly constructed object is) satisfies the invariant of the theorem *)
Lemma wf_st_ok s : wf_state cs s -> st_ok cs s.
Proof.
  intros W. split.
  - intros f x t z Hx Hk Hv. specialize (W f x Hx). unfold shape_ok in W. rewrite Hk, Hv in W. exact W.
  - intros f x b Hx Hv. specialize (W f x Hx). unfold shape_ok in W. rewrite Hv in W.
    destruct (f_kind x) as [t|e n|e] eqn:Hk; try contradiction.
    + rewrite W. assert (Hw : ksize (f_kind x) = Some (e * n)) by (rewrite Hk; reflexivity).
      apply (ksize_small f x (e * n) Hx Hw).
    + destruct W as [_ W]. change (2 ^ 28) with 268435456 in W. change (2 ^ 60) with 1152921504606846976. lia.
Qed.

(* C10 (decoders): for every object class of the library, decoding ANY byte stream into a fresh object
   never writes beyond the capacity of a destination container, whatever sizes and lengths it declares *)
Theorem decoders_memory_safe : forall c, In c object_classes -> ~ In c safe_exceptions ->
  fresh_wf_b cs c = true ->
  forall i, dec cs scan_p default_cap c (fresh cs c) i <> Err EOOBWrite.
Proof.
  intros c Hc Hex Hw i. unfold dec.
  pose proof (forallb_minus (fun c => rd_safe cs (Rd c)) _ _ rd_safe_all c Hc Hex) as Hs. unfold rd_safe, Rd in Hs.
  apply (rd_safe_sound cs (callf cs c) scan_p default_cap (callf_no_oobw cs c) sig_in_type cap_small kelt_nonneg ksize_small
           (prog_of cs c M_read) None Hs (fresh cs c) no_locals i).
  - apply wf_st_ok. apply fresh_wf. exact Hw.
  - exact I.
Qed.

(* every class of the round-trip theorem has a well-shaped fresh object (used as the premise above) *)
Lemma fresh_all_wf : forallb (fresh_wf_b cs) (minus object_classes safe_exceptions) = true.
Proof. vm_compute. reflexivity. Qed.
