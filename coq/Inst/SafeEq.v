(* Inst/SafeEq.v — C10 obligations over generated terms. *)
From Coq Require Import String List Bool.
From VB Require Import Threads.
Import ListNotations.
Local Open Scope string_scope.

Definition sk_name (x : string * bool * bool * bool * bool * bool) := fst (fst (fst (fst (fst x)))).
Definition sk_catch_all (x : string * bool * bool * bool * bool * bool) := snd (fst (fst (fst (fst x)))).
Definition sk_handler_eof (x : string * bool * bool * bool * bool * bool) := snd (fst (fst x)).
Definition sk_normal_eof (x : string * bool * bool * bool * bool * bool) := snd (fst x).
Definition sk_inner (x : string * bool * bool * bool * bool * bool) := snd x.

Definition is_read_thread (n : string) : bool :=
  String.eqb n "uncompressedFileReadThread" || String.eqb n "compressedFileReadThread".

(* no exception leaves a worker thread: the whole body of each of the four thread functions is
   inside try { } catch (...) { } *)
Lemma no_escape : map sk_name thread_skeletons =
    ["uncompressedFileReadThread"; "uncompressedFileWriteThread"; "compressedFileReadThread"; "compressedFileWriteThread"] /\
  forallb sk_catch_all thread_skeletons = true.
Proof. vm_compute. split; reflexivity. Qed.

(* in read mode a worker declares end of stream to its consumer on EVERY exit: after its loop, after a
   library Exception (inner catch stops the loop), and in the catch-all handler (allocation failure) *)
Lemma read_workers_always_declare_end :
  forallb (fun x => negb (is_read_thread (sk_name x)) || (sk_handler_eof x && sk_normal_eof x && sk_inner x)) thread_skeletons = true.
Proof. vm_compute. reflexivity. Qed.
