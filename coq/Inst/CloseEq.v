(* Inst/CloseEq.v — C06: File::close() closing the compressed file while the inflating worker is between two operations on it.
   A concrete file (three CanMessage objects, two uncompressed containers, assembled by the write model from the codecs
   regenerated from /repo), every point at which the close can take effect. *)
From VB Require Import Base IR Sem Tables BaseFacts FileModel TermFacts.
From VB Require Import Classes Consts Common FileDefs TermEq.
Local Open Scope Z_scope.

Definition can_bytes : list Z :=
  match enc cs default_cap (class_of_name "CanMessage") (fresh cs (class_of_name "CanMessage")) with Ok (_, b) => b | Err _ => [] end.
Definition ex_file : list Z :=
  match f_write_session (fun _ b => b) default_cap {| w_level := 0; w_cs := 96; w_restore := false |} (fresh cs C_stats)
          [(can_bytes, true); (can_bytes, true); (can_bytes, true)] with Ok b => b | Err _ => [] end.
Definition is_fuel (e : stage_end) : bool := match e with EndFuel => true | _ => false end.
Definition no_zlib : list Z -> Z -> option (list Z) := fun _ _ => None.

(* the search as it is in the source now: the session ends wherever the close falls (an instance of
   read_session_closing_terminates), and a late close lets all three objects through *)
Example close_example :
  zlen ex_file = 352 /\
  forallb (fun k => negb (is_fuel (r_cend (f_read_session_closing no_zlib default_cap ex_file k)))) (seq 0 60) = true /\
  length (r_objs (f_read_session_closing no_zlib default_cap ex_file 20)) = 0%nat /\
  length (r_objs (f_read_session_closing no_zlib default_cap ex_file 55)) = 3%nat.
Proof. vm_compute. repeat split; reflexivity. Qed.

(* the search as it was before repo fix b825602 (gives up at end of file only): a close that takes effect just before the
   worker seeks back to the start of a container (k = 20: the first container, k = 38: the second) leaves the next signature
   search spinning on a stream that has failed without reaching its end — File::close() then waits in join() for ever *)
Example close_old_search_hangs :
  filter (fun k => is_fuel (r_cend (f_read_session_closing_old no_zlib default_cap ex_file k))) (seq 0 60) = [20; 38]%nat.
Proof. vm_compute. reflexivity. Qed.

Definition scan_p_old : scan_params :=
  {| sp_sig := sp_sig scan_p; sp_rules := sp_rules scan_p; sp_field := sp_field scan_p; sp_stop_on_fail := false |}.

(* ... for every fuel: it is a genuine non-termination, not a bound chosen too small *)
Lemma old_search_spins : forall n i, s_sticky i = true -> s_good i = false -> s_eof i = false ->
  scan_loop scan_p_old n 0 i = Err ESpin.
Proof.
  apply scan_spins_when_only_eof_stops; [reflexivity|exact scan_sig_nonzero|vm_compute; reflexivity].
Qed.
