(* Inst/UnknownEq.v — C09 at the level of the uncompressed stream: an object of a type the factory does not know, standing in
   front of any continuation of the stream, is skipped as a whole by the parser stage — by its declared size, whatever its
   payload holds (images of known objects included), whatever header size / version it declares. *)
From VB Require Import Base IR Sem Tables BaseFacts StreamFacts EvalFacts Roundtrip ClassRT CallFacts FreshFacts FileModel TermFacts StreamLevel.
From VB Require Import Classes Consts Common CodecDefs Codec FileDefs TermEq StreamRT.
From Coq Require Import ZifyBool.
Local Open Scope Z_scope.
Ltac Zify.zify_post_hook ::= Z.div_mod_to_equations.

Local Notation OL := (obj_loop cs scan_p default_cap factory_table C_ohb fid_objectSize fid_objectType).

Record uobj := { u_hsz : Z; u_hver : Z; u_osz : Z; u_type : Z; u_payload : list Z }.

Definition uobj_ok (u : uobj) : Prop :=
  0 <= u_hsz u < 2 ^ 16 /\ 0 <= u_hver u < 2 ^ 16 /\ 16 <= u_osz u < 2 ^ 32 /\ 0 <= u_type u < 2 ^ 32 /\
  lookup_factory factory_table (u_type u) = 0 /\ zlen (u_payload u) = u_osz u - 16.

Definition u_state (u : uobj) : state :=
  upd (upd (upd (upd (fresh cs C_ohb) 31233 (VInt (u_hsz u))) 31234 (VInt (u_hver u))) fid_objectSize (VInt (u_osz u))) fid_objectType (VInt (u_type u)).

Definition u_hdr (u : uobj) : list Z :=
  le_enc 4 (sp_sig scan_p) ++ le_enc 2 (u_hsz u) ++ le_enc 2 (u_hver u) ++ le_enc 4 (u_osz u) ++ le_enc 4 (u_type u).
Definition u_bytes (u : uobj) : list Z := u_hdr u ++ u_payload u.

Ltac field_step F K :=
  match goal with |- context [find_field cs ?f] =>
    destruct (find_field cs f) as [?x|] eqn:F; [|vm_compute in F; discriminate];
    match type of F with _ = Some ?x => assert (K : f_kind x = f_kind x) by reflexivity; vm_compute in F; inversion F; subst x; clear F K end
  end.

Lemma u_hdr_written call u : uobj_ok u -> run_w cs call default_cap W_ohb (u_state u) no_locals = Ok (u_state u, u_hdr u).
Proof.
  intros (H1 & H2 & H3 & H4 & _). unfold W_ohb, W_of. rewrite hdr_fields_eq. cbn [fold_right run_w].
  assert (V0 : u_state u (sp_field scan_p) = VInt (sp_sig scan_p)) by reflexivity.
  assert (V1 : u_state u 31233 = VInt (u_hsz u)) by reflexivity.
  assert (V2 : u_state u 31234 = VInt (u_hver u)) by reflexivity.
  assert (V3 : u_state u fid_objectSize = VInt (u_osz u)) by reflexivity.
  assert (V4 : u_state u fid_objectType = VInt (u_type u)) by reflexivity.
  rewrite V0, V1, V2, V3, V4.
  assert (F0 : exists x, find_field cs (sp_field scan_p) = Some x /\ f_kind x = KScalar U32) by (eexists; split; [vm_compute; reflexivity|reflexivity]).
  assert (F1 : exists x, find_field cs 31233 = Some x /\ f_kind x = KScalar U16) by (eexists; split; [vm_compute; reflexivity|reflexivity]).
  assert (F2 : exists x, find_field cs 31234 = Some x /\ f_kind x = KScalar U16) by (eexists; split; [vm_compute; reflexivity|reflexivity]).
  assert (F3 : exists x, find_field cs fid_objectSize = Some x /\ f_kind x = KScalar U32) by (eexists; split; [vm_compute; reflexivity|reflexivity]).
  assert (F4 : exists x, find_field cs fid_objectType = Some x /\ f_kind x = KScalar U32) by (eexists; split; [vm_compute; reflexivity|reflexivity]).
  destruct F0 as (x0 & -> & K0). destruct F1 as (x1 & -> & K1). destruct F2 as (x2 & -> & K2). destruct F3 as (x3 & -> & K3). destruct F4 as (x4 & -> & K4).
  unfold field_bytes. rewrite K0, K1, K2, K3, K4. cbn [bind fst snd].
  change (bits U32) with 32. change (bits U16) with 16. change (width U32) with 4. change (width U16) with 2.
  assert (S0 : 0 <= sp_sig scan_p < 2 ^ 32) by (vm_compute; split; [discriminate|reflexivity]).
  rewrite !Z.mod_small by lia. unfold u_hdr. rewrite app_nil_r. reflexivity.
Qed.

Lemma in_U16 z : 0 <= z < 2 ^ 16 -> in_type U16 z = true.
Proof. intros H. unfold in_type. cbn. lia. Qed.
Lemma in_U32 z : 0 <= z < 2 ^ 32 -> in_type U32 z = true.
Proof. intros H. unfold in_type. cbn. lia. Qed.

Lemma u_state_wf u : uobj_ok u -> wf_state cs (u_state u) /\ defined_on hdr_fields (u_state u) /\ u_state u (sp_field scan_p) = VInt (sp_sig scan_p).
Proof.
  intros (H1 & H2 & H3 & H4 & _). split; [|split; [|reflexivity]].
  - unfold u_state.
    assert (F1 : exists x, find_field cs 31233 = Some x /\ f_kind x = KScalar U16) by (eexists; split; [vm_compute; reflexivity|reflexivity]).
    assert (F2 : exists x, find_field cs 31234 = Some x /\ f_kind x = KScalar U16) by (eexists; split; [vm_compute; reflexivity|reflexivity]).
    assert (F3 : exists x, find_field cs fid_objectSize = Some x /\ f_kind x = KScalar U32) by (eexists; split; [vm_compute; reflexivity|reflexivity]).
    assert (F4 : exists x, find_field cs fid_objectType = Some x /\ f_kind x = KScalar U32) by (eexists; split; [vm_compute; reflexivity|reflexivity]).
    destruct F1 as (x1 & E1 & K1). destruct F2 as (x2 & E2 & K2). destruct F3 as (x3 & E3 & K3). destruct F4 as (x4 & E4 & K4).
    apply (wf_upd cs _ _ x4); [|exact E4|unfold shape_ok; rewrite K4; apply in_U32; lia].
    apply (wf_upd cs _ _ x3); [|exact E3|unfold shape_ok; rewrite K3; apply in_U32; lia].
    apply (wf_upd cs _ _ x2); [|exact E2|unfold shape_ok; rewrite K2; apply in_U16; lia].
    apply (wf_upd cs _ _ x1); [|exact E1|unfold shape_ok; rewrite K1; apply in_U16; lia].
    apply fresh_wf. exact ohb_fresh_wf.
  - rewrite hdr_fields_eq. intros f Hf. cbn [In] in Hf.
    destruct Hf as [<-|[<-|[<-|[<-|[<-|[]]]]]]; cbv; discriminate.
Qed.

Lemma u_hdr_len u : zlen (u_hdr u) = 16.
Proof. unfold u_hdr. rewrite !zlen_app. rewrite !zlen_le_enc by lia. reflexivity. Qed.

(* one iteration of the parser on an unknown object: nothing is delivered, nothing counted, the cursor stands behind the
   declared size *)
Lemma unknown_step : forall u fuel i rest acc count, uobj_ok u -> nstream i -> s_good i = true -> s_after i = u_bytes u ++ rest ->
  exists i', nstream i' /\ s_good i' = true /\ s_after i' = rest /\ OL (S fuel) i acc count = OL fuel i' acc count.
Proof.
  intros u fuel i rest acc count Hu Hi Hg Ha.
  destruct (u_state_wf u Hu) as (Hw & Hd & Hs).
  pose proof Hu as (H1 & H2 & H3 & H4 & Hfac & Hpl).
  unfold u_bytes in Ha. rewrite <- app_assoc in Ha.
  destruct (header_decode (u_state u) (u_hdr u) i (u_payload u ++ rest) Hw Hd Hs (fun c => u_hdr_written c u Hu) Hi Ha)
    as (h & i1 & Hdec1 & Hn1 & Ha1 & Hg1 & Hho & Hht).
  specialize (Hg1 Hg).
  assert (Hdata : s_data i1 = s_data i) by (unfold dec in Hdec1; eapply run_r_data; eauto).
  destruct (seek_back_restores i i1 (u_hdr u) (u_payload u ++ rest) Hi Hn1 Hdata Ha Ha1) as (Hn2 & Ha2 & Hg2 & Hp2 & Hz2).
  rewrite u_hdr_len in *. change (- (16)) with (-16) in *. set (i2 := s_seek (-16) i1) in *.
  assert (Hosz : geti h fid_objectSize = u_osz u) by (unfold geti; rewrite Hho; reflexivity).
  assert (Htyp : geti h fid_objectType = u_type u) by (unfold geti; rewrite Hht; reflexivity).
  set (k := if 16 <? u_osz u then u_osz u else 16).
  assert (Hk : k = u_osz u) by (unfold k; destruct (16 <? u_osz u) eqn:E; lia).
  assert (Hlen : zlen (u_hdr u ++ u_payload u) = k) by (rewrite zlen_app, u_hdr_len, Hpl; lia).
  rewrite app_assoc in Ha2.
  assert (Hkr : 0 <= k <= zlen (s_after i2)).
  { rewrite Ha2, zlen_app, Hlen. pose proof (zlen_nonneg rest). lia. }
  pose proof (s_seek_fwd k i2 Hn2 Hkr) as Hsk.
  exists (s_seek k i2). rewrite Hsk.
  split; [apply nstream_advance; assumption|]. split; [cbn [advance s_good]; congruence|].
  split.
  - cbn [advance s_after]. rewrite Ha2. apply zdrop_app_len. exact Hlen.
  - cbn [obj_loop]. rewrite Hdec1, Hg1. cbn [negb]. fold i2. rewrite Hosz, Htyp, Hfac. rewrite Z.eqb_refl. fold k. rewrite Hsk. reflexivity.
Qed.

(* ---------- streams of known and unknown objects ---------- *)
Inductive item := Known (o : wobj) | Unknown (u : uobj).
Definition item_ok (x : item) : Prop := match x with Known o => wobj_ok o | Unknown u => uobj_ok u end.
Definition item_bytes (x : item) : list Z := match x with Known o => w_bytes o | Unknown u => u_bytes u end.
Definition knowns (l : list item) : list wobj := flat_map (fun x => match x with Known o => [o] | Unknown _ => [] end) l.

Theorem mixed_stream_gen : forall items fuel i acc count, Forall item_ok items -> nstream i -> s_good i = true ->
  s_after i = concat (map item_bytes items) -> (length items < fuel)%nat ->
  exists ds, Forall2 same_obj (knowns items) ds /\
    OL fuel i acc count = (acc ++ ds, fold_left (fun c o => next_count o c) (knowns items) count, EndException).
Proof.
  induction items as [|x r IH]; intros fuel i acc count Hall Hi Hg Ha Hf.
  - destruct fuel as [|fuel]; [cbn in Hf; lia|]. exists []. split; [constructor|]. rewrite app_nil_r. cbn [knowns flat_map fold_left]. apply obj_end; assumption.
  - destruct fuel as [|fuel]; [cbn in Hf; lia|]. inversion Hall as [|? ? Hx Hr]; subst.
    cbn [map concat] in Ha. destruct x as [o|u]; cbn [item_bytes item_ok] in *.
    + destruct (obj_step o fuel i (concat (map item_bytes r)) acc count Hx Hi Hg Ha) as (d & i' & Hd & Hn' & Hg' & Ha' & Estep).
      destruct (IH fuel i' (acc ++ [d]) (next_count o count) Hr Hn' Hg' Ha') as (ds & Hds & Erest); [cbn [length] in Hf; lia|].
      exists (d :: ds). cbn [knowns flat_map app fold_left]. split; [constructor; assumption|]. rewrite Estep, Erest. rewrite <- app_assoc. reflexivity.
    + destruct (unknown_step u fuel i (concat (map item_bytes r)) acc count Hx Hi Hg Ha) as (i' & Hn' & Hg' & Ha' & Estep).
      destruct (IH fuel i' acc count Hr Hn' Hg' Ha') as (ds & Hds & Erest); [cbn [length] in Hf; lia|].
      exists ds. cbn [knowns flat_map app]. split; [exact Hds|]. rewrite Estep. exact Erest.
Qed.

Lemma item_len x : item_ok x -> 16 <= zlen (item_bytes x).
Proof.
  destruct x as [o|u]; cbn [item_ok item_bytes]; intros H; [apply wobj_len; exact H|].
  unfold u_bytes. rewrite zlen_app, u_hdr_len. pose proof (zlen_nonneg (u_payload u)). lia.
Qed.

(* C09 at the stream level: the parser stage over ANY sequence of well-formed known objects and unknown-type objects (any
   code the factory does not know, any payload — images of known objects included —, any declared header size / version,
   declared size = actual size >= 16) delivers exactly the known ones, as written, in order, counts them, and reports the end *)
Theorem mixed_stream : forall items, Forall item_ok items ->
  let U := concat (map item_bytes items) in
  exists ds, Forall2 same_obj (knowns items) ds /\
    OL (2 * length U + 16) (mk_ustream U) [] 0 = (ds, fold_left (fun c o => next_count o c) (knowns items) 0, EndException).
Proof.
  intros items Hall U.
  destruct (mixed_stream_gen items (2 * length U + 16) (mk_ustream U) [] 0 Hall (nstream_mk U) eq_refl eq_refl) as (ds & H1 & H2).
  - assert (Hlen : Z.of_nat (length items) * 16 <= zlen U).
    { unfold U. clear U. induction Hall as [|x r Hx Hr IH]; [cbn; lia|]. cbn [map concat length]. rewrite zlen_app.
      pose proof (item_len x Hx). lia. }
    unfold zlen in Hlen. lia.
  - exists ds. split; [exact H1|exact H2].
Qed.

(* non-vacuity: an unknown object (type 200, 24 bytes, the payload starts with the signature) is a well-formed unknown object *)
Example ex_unknown : uobj_ok {| u_hsz := 32; u_hver := 7; u_osz := 24; u_type := 200; u_payload := [76; 79; 66; 74; 1; 2; 3; 4] |}.
Proof. unfold uobj_ok. cbn [u_hsz u_hver u_osz u_type u_payload]. repeat split; try lia; try reflexivity. Qed.

(* ---------- C08 + C09: a mixed stream cut inside a known object ---------- *)
From VB Require Import PrefixRT PrefixEq.

Theorem mixed_prefix_gen : forall pre o part lost fuel i acc count, Forall item_ok pre -> wobj_ok o ->
  w_bytes o = part ++ lost -> lost <> [] ->
  nstream i -> s_good i = true -> s_after i = concat (map item_bytes pre) ++ part -> (length pre + 1 < fuel)%nat ->
  exists ds, fst (fst (OL fuel i acc count)) = acc ++ ds /\ (Forall2 same_obj (knowns pre) ds \/ Forall2 same_obj (knowns pre ++ [o]) ds).
Proof.
  induction pre as [|x r IH]; intros o part lost fuel i acc count Hall Ho Hb Hl Hi Hg Ha Hf.
  - destruct fuel as [|[|fuel]]; [cbn in Hf; lia|cbn in Hf; lia|]. cbn [map concat app] in Ha.
    destruct (cut_object o part lost fuel i acc count Ho Hb Hl Hi Hg Ha) as [E|(d & Hd & E)].
    + exists []. split; [rewrite app_nil_r; exact E|left; constructor].
    + exists [d]. split; [exact E|right; cbn [knowns flat_map app]; constructor; [exact Hd|constructor]].
  - destruct fuel as [|fuel]; [cbn in Hf; lia|]. inversion Hall as [|? ? Hx Hr]; subst.
    cbn [map concat] in Ha. rewrite <- app_assoc in Ha. destruct x as [p|u]; cbn [item_bytes item_ok] in *.
    + destruct (obj_step p fuel i (concat (map item_bytes r) ++ part) acc count Hx Hi Hg Ha) as (d & i' & Hd & Hn' & Hg' & Ha' & Estep).
      destruct (IH o part lost fuel i' (acc ++ [d]) (next_count p count) Hr Ho Hb Hl Hn' Hg' Ha') as (ds & E & Hds); [cbn [length] in Hf; lia|].
      exists (d :: ds). split; [rewrite Estep, E, <- app_assoc; reflexivity|].
      cbn [knowns flat_map app]. destruct Hds as [H|H]; [left|right]; constructor; assumption.
    + destruct (unknown_step u fuel i (concat (map item_bytes r) ++ part) acc count Hx Hi Hg Ha) as (i' & Hn' & Hg' & Ha' & Estep).
      destruct (IH o part lost fuel i' acc count Hr Ho Hb Hl Hn' Hg' Ha') as (ds & E & Hds); [cbn [length] in Hf; lia|].
      exists ds. split; [rewrite Estep; exact E|]. cbn [knowns flat_map app]. exact Hds.
Qed.
