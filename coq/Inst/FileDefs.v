(* Inst/FileDefs.v — the file-layer model instantiated with the tables and codecs regenerated from /repo. *)
From VB Require Import Base IR Sem Tables FileModel.
From VB Require Import Classes Consts Common.
Local Open Scope Z_scope.

Definition fid_of (cls fld : string) : Z :=
  match find (fun x => String.eqb (f_name x) fld) (all_fields cs depth (class_of_name cls)) with
  | Some x => f_id x | None => -1 end.

Definition C_stats := class_of_name "FileStatistics".
Definition C_lc := class_of_name "LogContainer".
Definition C_ohb := class_of_name "ObjectHeaderBase".

Section WithZlib.
Variable deflate : Z -> list Z -> list Z.
Variable inflate : list Z -> Z -> option (list Z).
Variable cap : Z.      (* allocation cap of the host *)

Definition f_write_session :=
  write_session cs cap C_stats C_lc
    (fid_of "LogContainer" "compressionMethod") (fid_of "LogContainer" "uncompressedFileSize") (fid_of "LogContainer" "compressedFile")
    (fid_of "FileStatistics" "statisticsSize") (fid_of "FileStatistics" "fileSize") (fid_of "FileStatistics" "uncompressedFileSize")
    (fid_of "FileStatistics" "objectCount") (fid_of "FileStatistics" "restorePointsOffset") deflate.

Definition f_read_session :=
  read_session cs scan_p cap factory_table C_stats C_lc C_ohb
    fid_objectSize fid_objectType
    (fid_of "LogContainer" "compressionMethod") (fid_of "LogContainer" "uncompressedFileSize") (fid_of "LogContainer" "compressedFile")
    (fid_of "FileStatistics" "statisticsSize") inflate.
Definition f_read_session_closing :=
  read_session_closing cs scan_p cap factory_table C_stats C_lc C_ohb
    fid_objectSize fid_objectType
    (fid_of "LogContainer" "compressionMethod") (fid_of "LogContainer" "uncompressedFileSize") (fid_of "LogContainer" "compressedFile")
    (fid_of "FileStatistics" "statisticsSize") inflate.
(* the same with the search of the signature as it was before repo fix b825602 (gives up at end of file only) *)
Definition f_read_session_closing_old :=
  read_session_closing cs {| sp_sig := sp_sig scan_p; sp_rules := sp_rules scan_p; sp_field := sp_field scan_p; sp_stop_on_fail := false |}
    cap factory_table C_stats C_lc C_ohb
    fid_objectSize fid_objectType
    (fid_of "LogContainer" "compressionMethod") (fid_of "LogContainer" "uncompressedFileSize") (fid_of "LogContainer" "compressedFile")
    (fid_of "FileStatistics" "statisticsSize") inflate.
End WithZlib.
