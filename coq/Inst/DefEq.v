(* Inst/DefEq.v — C14 on the generated classes: a freshly constructed object of every class holds a
   determined value in every member its write program may emit (any branch) — evaluated in the kernel on the
   programs regenerated from /repo — hence (DefFacts.enc_defined) its encoding consists of real bytes only. *)
From VB Require Import Base IR Sem Tables DefFacts.
From VB Require Import Classes Consts Common C17.
Local Open Scope Z_scope.

Definition fresh_defined (c : Z) : bool :=
  forallb (fun f => is_defined (fresh cs c f)) (emit_fields (prog_of cs c M_write)).

Lemma fresh_defined_all_b : forallb fresh_defined (minus object_classes init_exceptions) = true.
Proof. vm_compute. reflexivity. Qed.

Theorem fresh_encodes_real_bytes : forall c, In c object_classes -> ~ In c init_exceptions ->
  forall s' out, enc cs default_cap c (fresh cs c) = Ok (s', out) -> Forall byte out.
Proof.
  intros c H1 H2 s' out He. eapply enc_defined; [|exact He].
  intros f Hf. apply is_defined_ok.
  pose proof (proj1 (forallb_forall _ _) fresh_defined_all_b c (in_minus _ _ _ H1 H2)) as H.
  unfold fresh_defined in H. rewrite forallb_forall in H. apply H. exact Hf.
Qed.

(* non-vacuity: the write programs do emit members *)
Example emit_fields_nonempty : forallb (fun c => negb (Nat.eqb (length (emit_fields (prog_of cs c M_write))) 0)) object_classes = true.
Proof. vm_compute. reflexivity. Qed.
