(* Inst/SyncDefs.v — the translated UncompressedFile tables seen through the model's state. *)
From VB Require Import Base IR Sem Mon UFModel.
From VB Require Import Sync.
Local Open Scope Z_scope.

Fixpoint uindex_of (n : string) (l : list string) (i : nat) : nat :=
  match l with [] => i | x :: r => if String.eqb x n then i else uindex_of n r (S i) end.
Definition umeth (n : string) : mstmt :=
  match nth_error uf_methods (uindex_of n (map mm_name uf_methods) 0) with Some m => mm_body m | None => TUnsupported end.
Definition uf_vt : list ity := map (fun x => snd (fst x)) uf_vars.

Definition ub2z (b : bool) : Z := if b then 1 else 0.
Definition umember_of (s : uf) (n : string) : Z :=
  if String.eqb n "m_abort" then ub2z (u_abort s)
  else if String.eqb n "m_tellg" then u_tellg s
  else if String.eqb n "m_tellp" then u_tellp s
  else if String.eqb n "m_gcount" then u_gcount s
  else if String.eqb n "m_fileSize" then u_fsz s
  else if String.eqb n "m_bufferSize" then u_buf s
  else if String.eqb n "m_rdstate" then u_rd s
  else if String.eqb n "m_defaultLogContainerSize" then u_dcs s
  else 0.
Definition uabs (s : uf) : mstate :=
  {| ms_vars := map (fun x => umember_of s (fst (fst x))) uf_vars; ms_q := map c_pos (u_data s) |}.

(* the wait predicate(s) and notifications of a method, as translated *)
Definition uwaits (n : string) : list (nat * mexpr) := mwaits (umeth n).
Definition unotes (n : string) : list nat := mnotifies (umeth n).
Definition ueval (s : uf) (arg arg2 : Z) (e : mexpr) : res (Z * ity) := meval uf_vt arg arg2 (uabs s) e.
