(* Inst/PrefixEq.v — C08 at the level of the uncompressed stream: the parser stage over a stream that was cut off inside an
   object delivers the objects before it unmodified, possibly that object (only if every one of its reads was served: the cut
   fell into bytes its reader merely skips), and nothing else. *)
From VB Require Import Base IR Sem Tables BaseFacts StreamFacts Roundtrip ClassRT FileModel TermFacts StreamLevel PrefixRT.
From VB Require Import Classes Consts Common CodecDefs Codec FileDefs TermEq StreamRT.
From Coq Require Import ZifyBool.
Local Open Scope Z_scope.
Ltac Zify.zify_post_hook ::= Z.div_mod_to_equations.

Local Notation OL := (obj_loop cs scan_p default_cap factory_table C_ohb fid_objectSize fid_objectType).

(* the complete stream that a cut stream was cut from *)
Definition extend (lost : list Z) (i : istream) : istream :=
  {| s_before := s_before i; s_after := s_after i ++ lost; s_cur := s_cur i; s_pos := s_pos i; s_size := s_size i + zlen lost;
     s_good := s_good i; s_eof := s_eof i; s_sticky := s_sticky i; s_open := s_open i |}.

Lemma nstream_wstream i : nstream i -> wstream i /\ 0 <= s_pos i.
Proof.
  intros (H1 & H2 & H3 & H4). pose proof (zlen_nonneg (s_before i)). pose proof (zlen_nonneg (s_after i)).
  split; [|lia]. unfold wstream. repeat split; try assumption; lia.
Qed.

Lemma extend_ext lost i : nstream i -> ext lost i (extend lost i) /\ nstream (extend lost i).
Proof.
  intros Hn. destruct (nstream_wstream i Hn) as [W Hp]. pose proof Hn as (H1 & H2 & H3 & H4).
  assert (Hn2 : nstream (extend lost i)).
  { unfold nstream, extend. cbn [s_sticky s_cur s_before s_after s_pos s_size]. rewrite zlen_app. repeat split; try assumption; lia. }
  split; [|exact Hn2]. unfold ext. split; [exact W|]. split; [apply nstream_wstream; exact Hn2|].
  split; [unfold s_data, extend; cbn [s_before s_after]; rewrite !rev_append_rev, app_assoc; reflexivity|].
  unfold extend; cbn [s_pos s_size s_good s_eof]. repeat split; reflexivity.
Qed.

Lemma atend_ext X j' j : atend X j' j -> s_pos j = s_pos j' -> ext X j' j.
Proof. intros (W' & W & D & Sz & Pe & Pj & G & E) P. unfold ext. split; [exact W'|]. split; [exact W|]. split; [exact D|]. split; [exact P|]. split; [exact Sz|]. split; assumption. Qed.

(* at the end of the stream the header read fails with the library's exception *)
Lemma obj_end_p : forall fuel i acc count, pstream i -> s_pos i = s_size i -> OL (S fuel) i acc count = (acc, count, EndException).
Proof.
  intros fuel i acc count Hp Hsz. cbn [obj_loop]. unfold dec. destruct ohb_prog_eq as (a & b & c & d & ->).
  cbn [run_r scan_loop].
  pose proof (pstream_read 4 i Hp) as R. destruct (s_read 4 i) as [got i1]. destruct R as (_ & _ & _ & Lg & Eg & Ee).
  assert (L0 : rd_len i 4 = 0).
  { unfold rd_len. replace (s_size i <? 4 + s_pos i) with true by lia. replace (s_size i - s_pos i <=? 0) with true by lia. reflexivity. }
  assert (got = []) by (destruct got; [reflexivity|unfold zlen in Lg; cbn in Lg; lia]). subst got.
  change (merge_scalar 4 0 []) with 0. replace (0 =? sp_sig scan_p) with false by (symmetry; apply Z.eqb_neq; intros E; apply scan_sig_nonzero; symmetry; exact E).
  assert (Ee' : scan_stop scan_p i1 = true).
  { unfold scan_stop. rewrite Ee, Eg. unfold rd_short. replace (s_size i <? 4 + s_pos i) with true by lia.
    destruct (sp_stop_on_fail scan_p); reflexivity. }
  rewrite Ee'. reflexivity.
Qed.

Lemma ohb_seeks_ok : seeks_ok cs (prog_of cs C_ohb M_read) = true.
Proof. vm_compute. reflexivity. Qed.

(* ---------- the object the cut falls into ---------- *)
Lemma cut_object : forall o part lost fuel i' acc count, wobj_ok o -> w_bytes o = part ++ lost -> lost <> [] ->
  nstream i' -> s_good i' = true -> s_after i' = part ->
  fst (fst (OL (S (S fuel)) i' acc count)) = acc \/
  exists d, same_obj o d /\ fst (fst (OL (S (S fuel)) i' acc count)) = acc ++ [d].
Proof.
  intros o part lost fuel i' acc count Ho Hb Hl Hn' Hg' Ha'.
  assert (Hlz : 0 < zlen lost) by (destruct lost; [contradiction|unfold zlen; cbn; lia]).
  destruct (extend_ext lost i' Hn') as [Hext Hn]. set (i := extend lost i') in *.
  destruct (nstream_wstream i' Hn') as [W' Hp'].
  assert (Hg : s_good i = true) by exact Hg'.
  assert (Ha : s_after i = w_bytes o ++ []) by (rewrite app_nil_r, Hb; unfold i, extend; cbn [s_after]; rewrite Ha'; reflexivity).
  destruct (obj_step_parts o i [] Ho Hn Hg Ha) as (h & i1 & r' & i3 & Hdec1 & Hn1 & Hg1 & Hp1 & Hho & Hht & Hn2 & Hg2 & Hp2 & Hdec3 & Hn3 & Hg3 & Ha3 & Hsame & Hrt).
  destruct Ho as (Hc & Hex & Hapi & Henc & Htype & Hfac & Hnz & Hosz & Hsz0 & Hle).
  remember (S fuel) as f1 eqn:Ef1.
  cbn [obj_loop].
  destruct (dec cs scan_p default_cap C_ohb (fresh cs C_ohb) i') as [[h' i1']|e] eqn:E1; [|destruct e; left; reflexivity].
  destruct (s_good i1') eqn:G1; cbn [negb]; [|left; reflexivity].
  unfold dec in E1, Hdec1.
  destruct (run_r_sim cs (callf cs C_ohb) scan_p default_cap scan_rules_back_at_most_3 scan_sig_nonzero lost _ _ _ i' i _ _ ohb_seeks_ok (conj Hp' (or_introl Hext)) E1 G1)
    as (j1 & Hfull1 & S1).
  rewrite Hdec1 in Hfull1. inversion Hfull1; subst h' j1. clear Hfull1.
  (* the header read consumed exactly 16 bytes of both streams *)
  assert (Hpp : pstream i') by (split; assumption).
  destruct (ohb_consumes cs scan_p default_cap factory_table fid_objectType scan_rules_back_at_most_3 factory_classes_ok (callf cs C_ohb) _ _ _ _ _ _ ohb_reader_shape Hpp E1 G1) as (P1' & Z1' & Q1').
  assert (Hpi : s_pos i = s_pos i') by reflexivity.
  assert (E1x : ext lost i1' i1).
  { destruct S1 as [_ [E|A]]; [exact E|]. apply atend_ext; [exact A|]. destruct A as (_ & _ & _ & _ & Pe & Pj & _).
    destruct P1' as [(_ & _ & _ & _ & X5) _]. lia. }
  assert (Hp1' : s_pos i1' = s_pos i' + 16) by (destruct E1x as (_ & _ & _ & P & _); lia).
  assert (E2 : ext lost (s_seek (-16) i1') (s_seek (-16) i1)) by (apply ext_seek_back; [exact E1x|lia|lia]).
  set (i2' := s_seek (-16) i1') in *.
  assert (Hp2' : 0 <= s_pos i2').
  { destruct E2 as (_ & _ & _ & P & _). rewrite <- P, Hp2. lia. }
  rewrite Hho, Hht. rewrite Hfac.
  replace (w_cls o =? 0) with false by (symmetry; apply Z.eqb_neq; exact Hnz).
  rewrite Hsz0.
  replace ((if 16 <? w_osz o then w_osz o else 16) <? w_sz0 o) with false
    by (symmetry; apply Z.ltb_ge; destruct (16 <? w_osz o) eqn:E; [apply Z.ltb_lt in E|apply Z.ltb_ge in E]; lia).
  destruct (dec cs scan_p default_cap (w_cls o) (fresh cs (w_cls o)) i2') as [[o' i3']|e] eqn:E3; [|destruct e; left; reflexivity].
  destruct (s_good i3') eqn:G3; cbn [negb]; [|left; reflexivity].
  assert (Hcls : seeks_ok cs (prog_of cs (w_cls o) M_read) = true).
  { apply starts_seeks. rewrite <- Hfac. apply factory_classes_ok. rewrite Hfac. exact Hnz. }
  unfold dec in E3, Hdec3.
  destruct (run_r_sim cs (callf cs (w_cls o)) scan_p default_cap scan_rules_back_at_most_3 scan_sig_nonzero lost _ _ _ i2' _ _ _ Hcls (conj Hp2' (or_introl E2)) E3 G3)
    as (j3 & Hfull3 & S3).
  rewrite Hdec3 in Hfull3. inversion Hfull3; subst o' j3. clear Hfull3.
  right. exists (w_cls o, r'). split; [exact Hsame|].
  rewrite Z.eqb_refl.
  (* the complete stream is at its end; the cut one is shorter, so it sits at its own end *)
  assert (Hend : pstream i3' /\ s_pos i3' = s_size i3').
  { assert (Hi3 : s_pos i3 = s_size i3).
    { destruct Hn3 as (A1 & A2 & A3 & A4). rewrite Ha3 in A4. change (zlen (@nil Z)) with 0 in A4. lia. }
    destruct S3 as [P3 [E|A]].
    - exfalso. destruct E as (W3' & _ & _ & P & Sz & _). destruct W3' as (_ & _ & _ & _ & X5). lia.
    - destruct A as (W3' & _ & _ & _ & Pe & _). split; [split; assumption|exact Pe]. }
  destruct Hend as [P3 Pe3]. subst f1. rewrite (obj_end_p fuel i3' _ _ P3 Pe3). reflexivity.
Qed.

(* ---------- the whole cut stream ---------- *)
Theorem stream_prefix_gen : forall pre o part lost fuel i acc count, Forall wobj_ok pre -> wobj_ok o ->
  w_bytes o = part ++ lost -> lost <> [] ->
  nstream i -> s_good i = true -> s_after i = concat (map w_bytes pre) ++ part -> (length pre + 1 < fuel)%nat ->
  exists ds, fst (fst (OL fuel i acc count)) = acc ++ ds /\ (Forall2 same_obj pre ds \/ Forall2 same_obj (pre ++ [o]) ds).
Proof.
  induction pre as [|p r IH]; intros o part lost fuel i acc count Hall Ho Hb Hl Hi Hg Ha Hf.
  - destruct fuel as [|[|fuel]]; [cbn in Hf; lia|cbn in Hf; lia|]. cbn [map concat app] in Ha.
    destruct (cut_object o part lost fuel i acc count Ho Hb Hl Hi Hg Ha) as [E|(d & Hd & E)].
    + exists []. split; [rewrite app_nil_r; exact E|left; constructor].
    + exists [d]. split; [exact E|right; cbn [app]; constructor; [exact Hd|constructor]].
  - destruct fuel as [|fuel]; [cbn in Hf; lia|]. inversion Hall as [|? ? Hp Hr]; subst.
    cbn [map concat] in Ha. rewrite <- app_assoc in Ha.
    destruct (obj_step p fuel i (concat (map w_bytes r) ++ part) acc count Hp Hi Hg Ha) as (d & i' & Hd & Hn' & Hg' & Ha' & Estep).
    destruct (IH o part lost fuel i' (acc ++ [d]) (next_count p count) Hr Ho Hb Hl Hn' Hg' Ha') as (ds & E & Hds); [cbn [length] in Hf; lia|].
    exists (d :: ds). split; [rewrite Estep, E, <- app_assoc; reflexivity|].
    destruct Hds as [H|H]; [left|right; cbn [app]]; constructor; assumption.
Qed.

(* C08 at the stream level: the uncompressed stream of ANY list of well-formed objects, cut off at ANY byte inside ANY of them
   (pre: the objects before the cut, o: the object the cut falls into, part: what is left of it, lost: what is gone), read by
   the parser stage with the fuel read_session gives it: what is delivered is pre, or pre followed by o — each object as
   written — and nothing else *)
Theorem stream_prefix : forall pre o part lost, Forall wobj_ok pre -> wobj_ok o -> w_bytes o = part ++ lost -> lost <> [] ->
  let U := concat (map w_bytes pre) ++ part in
  exists ds, fst (fst (OL (2 * length U + 16) (mk_ustream U) [] 0)) = ds /\
    (Forall2 same_obj pre ds \/ Forall2 same_obj (pre ++ [o]) ds).
Proof.
  intros pre o part lost Hall Ho Hb Hl U.
  destruct (stream_prefix_gen pre o part lost (2 * length U + 16) (mk_ustream U) [] 0 Hall Ho Hb Hl (nstream_mk U) eq_refl eq_refl) as (ds & H1 & H2).
  - assert (Hlen : Z.of_nat (length pre) * 16 <= zlen U).
    { unfold U. clear U. rewrite zlen_app. pose proof (zlen_nonneg part) as Hp0. revert Hp0. generalize (zlen part). intros z Hz.
      induction Hall as [|p r Hp Hr IH]; [cbn; lia|]. cbn [map concat length]. rewrite zlen_app.
      pose proof (wobj_len p Hp). lia. }
    unfold zlen in Hlen. lia.
  - exists ds. split; [exact H1|exact H2].
Qed.

(* non-vacuity, computed: a CanMessage followed by the first 0, 20 or 47 bytes of another one — one object is delivered *)
Definition prefix_example_b : bool :=
  match ex_obj "CanMessage" 1 48 48 with
  | Some o => forallb (fun k =>
      let U := w_bytes o ++ firstn k (w_bytes o) in
      Nat.eqb (length (fst (fst (OL (2 * length U + 16) (mk_ustream U) [] 0)))) 1) [0; 20; 47]%nat
  | None => false end.
Example prefix_example : prefix_example_b = true.
Proof. vm_compute. reflexivity. Qed.
