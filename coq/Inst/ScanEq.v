(* Inst/ScanEq.v — the signature and the seek-back rules regenerated from ObjectHeaderBase.cpp are
   the ones the scan theorem is about. *)
From VB Require Import Base IR Sem BaseFacts StreamFacts ScanFacts.
From VB Require Import Classes Consts Common.
Local Open Scope Z_scope.

Lemma scan_constants : scan_recognised = true /\ scan_p = sp_std (sp_field scan_p) (sp_stop_on_fail scan_p).
Proof. split; reflexivity. Qed.

Theorem scan_first : forall fuel pre rest s tmp,
  nstream s -> Forall byte pre -> s_after s = pre ++ SIGB ++ rest ->
  no_sig_before (length pre) (pre ++ SIGB ++ rest) -> (length pre < fuel)%nat -> 0 <= tmp ->
  scan_loop scan_p fuel tmp s = Ok (SIG, advance (zlen pre + 4) s true false).
Proof.
  intros fuel pre rest s tmp H1 H2 H3 H4 H5 H6. destruct scan_constants as [_ E]. rewrite E.
  exact (scan_finds_first (sp_field scan_p) (sp_stop_on_fail scan_p) fuel pre rest s tmp H1 H2 H3 H4 H5 H6).
Qed.
