(* Inst/Common.v — shared definitions over the generated class table. *)
From VB Require Import Base IR Sem Tables.
From VB Require Import Classes Consts.
Local Open Scope Z_scope.

Definition cs := all_classes.

Definition class_of_name (n : string) : Z :=
  match find (fun p => String.eqb (snd p) n) class_names with Some p => fst p | None => -1 end.
Definition name_of_class (c : Z) : string :=
  match find (fun p => fst p =? c) class_names with Some p => snd p | None => ""%string end.

Definition minus (l ex : list Z) : list Z := filter (fun c => negb (existsb (Z.eqb c) ex)) l.

Lemma in_minus l ex c : In c l -> ~ In c ex -> In c (minus l ex).
Proof.
  intros Hl Hex. unfold minus. apply filter_In. split; [exact Hl|].
  apply negb_true_iff. apply not_true_iff_false. intros H. apply existsb_exists in H.
  destruct H as [x [Hx Heq]]. apply Z.eqb_eq in Heq. subst x. exact (Hex Hx).
Qed.

Lemma forallb_minus (P : Z -> bool) l ex : forallb P (minus l ex) = true ->
  forall c, In c l -> ~ In c ex -> P c = true.
Proof. intros H c H1 H2. exact (proj1 (forallb_forall _ _) H c (in_minus _ _ _ H1 H2)). Qed.

Lemma cap_ok : 2 ^ 28 <= default_cap.
Proof. vm_compute. discriminate. Qed.
