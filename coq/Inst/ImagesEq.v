(* Inst/ImagesEq.v — decode-then-encode evaluated inside the kernel on every object image cut from the
   Vector-produced reference logs (Gen/RefImages.v, regenerated on every run). *)
From VB Require Import Base IR Sem Tables.
From VB Require Import Classes Consts Common RefImages.
Local Open Scope Z_scope.

Definition class_of_code (code : Z) : Z :=
  match find (fun p => fst p =? code) factory_table with Some p => snd p | None => 0 end.

Fixpoint list_eqb (a b : list Z) : bool :=
  match a, b with
  | [], [] => true
  | x :: a', y :: b' => (x =? y) && list_eqb a' b'
  | _, _ => false
  end.
Lemma list_eqb_eq a : forall b, list_eqb a b = true -> a = b.
Proof.
  induction a as [|x a IH]; intros [|y b] H; cbn in H; try discriminate; [reflexivity|].
  apply andb_prop in H. destruct H as [H1 H2]. apply Z.eqb_eq in H1. subst. f_equal. apply IH. exact H2.
Qed.

(* the image decodes completely: the decoder succeeds, stays good and does not read past the image *)
Definition decodes (c : Z) (b : list Z) : option state :=
  match dec cs scan_p default_cap c (fresh cs c) (mk_ustream b) with
  | Ok (r, i) => if s_good i && (s_pos i <=? zlen b) then Some r else None
  | Err _ => None
  end.

(* ... and then encodes to the same bytes, followed only by (at most 3) zero bytes of padding *)
Definition reencodes (c : Z) (b : list Z) (r : state) : bool :=
  match enc cs default_cap c r with
  | Ok (_, b') => list_eqb (ztake (zlen b) b') b && forallb (Z.eqb 0) (zdrop (zlen b) b') && (zlen b' - zlen b <=? 3)
  | Err _ => false
  end.

Definition image_ok (im : Z * list Z) : bool :=
  let c := class_of_code (fst im) in
  if c =? 0 then true
  else match decodes c (snd im) with Some r => reencodes c (snd im) r | None => true end.

Definition image_complete (im : Z * list Z) : bool :=
  let c := class_of_code (fst im) in
  negb (c =? 0) && match decodes c (snd im) with Some _ => true | None => false end.

Lemma images_all_ok : forallb image_ok ref_images = true.
Proof. vm_compute. reflexivity. Qed.

Theorem images_reencode : forall code b, In (code, b) ref_images ->
  forall r, decodes (class_of_code code) b = Some r -> class_of_code code <> 0 ->
  exists s' b', enc cs default_cap (class_of_code code) r = Ok (s', b') /\
    ztake (zlen b) b' = b /\ Forall (fun x => x = 0) (zdrop (zlen b) b') /\ zlen b' - zlen b <= 3.
Proof.
  intros code b Hin r Hd Hc.
  pose proof (proj1 (forallb_forall _ _) images_all_ok (code, b) Hin) as H. unfold image_ok in H. cbn [fst snd] in H.
  destruct (class_of_code code =? 0) eqn:E; [apply Z.eqb_eq in E; contradiction|].
  rewrite Hd in H. unfold reencodes in H.
  destruct (enc cs default_cap (class_of_code code) r) as [[s' b']|]; [|discriminate].
  apply andb_prop in H. destruct H as [H H3]. apply andb_prop in H. destruct H as [H1 H2].
  exists s', b'. split; [reflexivity|]. split; [apply list_eqb_eq; exact H1|]. split.
  - apply Forall_forall. intros x Hx. rewrite forallb_forall in H2. specialize (H2 x Hx). apply Z.eqb_eq in H2. auto.
  - apply Z.leb_le. exact H3.
Qed.

(* non-vacuity: how many images decode completely *)
Definition n_complete : Z := zlen (filter image_complete ref_images).
Lemma many_complete : 150 <=? n_complete = true.
Proof. vm_compute. reflexivity. Qed.
