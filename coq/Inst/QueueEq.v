(* Inst/QueueEq.v — translation validation by proof, on every run: the methods translated from
   ObjectQueue.cpp (Gen/Queue.v), run by the interpreter of Lib/Mon.v, compute exactly the
   functions of the readable model Lib/OQModel.v, for every state and argument. *)
From VB Require Import Base IR Sem Mon OQModel OQFacts.
From VB Require Import Queue QueueDefs.
Local Open Scope Z_scope.

(* the initial values of the data members are those of the model *)
Lemma init_eq : map (fun x => snd x) oq_vars = map Some (ms_vars (abs oq_init)) /\ length oq_vars = 6%nat.
Proof. vm_compute. split; reflexivity. Qed.

Lemma cvs_eq : oq_cvs = ["tellgChanged"; "tellpChanged"]%string.
Proof. reflexivity. Qed.

(* well-formed model states: the counters are uint32 values *)
Definition u32 (z : Z) : Prop := 0 <= z < M32.
Definition wf (s : oq) : Prop :=
  u32 (q_tellg s) /\ u32 (q_tellp s) /\ u32 (q_cap s) /\ u32 (q_fsz s) /\ (q_rd s = 0 \/ q_rd s = 6).

Local Arguments Z.add : simpl never.
Local Arguments Z.sub : simpl never.
Local Arguments Z.mul : simpl never.
Local Arguments Z.modulo : simpl never.
Local Arguments Z.pow : simpl never.
Local Arguments Z.of_nat : simpl never.
Local Arguments Z.ltb : simpl nomatch.
Local Arguments Z.leb : simpl nomatch.
Local Arguments Z.eqb : simpl nomatch.
Local Arguments Z.land : simpl nomatch.
Local Arguments Z.lor : simpl nomatch.


Lemma M32_eq : 2 ^ bits U32 = M32. Proof. reflexivity. Qed.
Lemma mod_u32 z : u32 z -> z mod M32 = z. Proof. intros H. apply Z.mod_small. exact H. Qed.
Lemma wrap_wrap z : (z mod M32) mod M32 = z mod M32. Proof. apply Z.mod_mod. discriminate. Qed.
Lemma wrap_add1 z : ((z + 1) mod M32) mod M32 = wrap32 (z + 1).
Proof. rewrite wrap_wrap. reflexivity. Qed.

Ltac plit p := lazymatch p with xH => idtac | xO ?q => plit q | xI ?q => plit q end.
Ltac zlit t := lazymatch t with Z0 => idtac | Zpos ?p => plit p | Zneg ?p => plit p end.
Ltac closed_arith :=
  repeat match goal with
  | |- context [bits ?t] => let v := eval vm_compute in (bits t) in change (bits t) with v
  | |- context [?a mod ?b] => zlit a; zlit b; let v := eval vm_compute in (a mod b) in change (a mod b) with v
  | |- context [?a + ?b] => zlit a; zlit b; let v := eval vm_compute in (a + b) in change (a + b) with v
  | |- context [?a - ?b] => zlit a; zlit b; let v := eval vm_compute in (a - b) in change (a - b) with v
  | |- context [?a * ?b] => zlit a; zlit b; let v := eval vm_compute in (a * b) in change (a * b) with v
  | |- context [?a ^ ?b] => zlit a; zlit b; let v := eval vm_compute in (a ^ b) in change (a ^ b) with v
  end.
Lemma M32_lit : 4294967296 = M32. Proof. reflexivity. Qed.

Ltac clean :=
  closed_arith; rewrite ?M32_lit in *;
  repeat match goal with
         | H : u32 ?z |- context [?z mod M32] => rewrite (mod_u32 z H)
         end.

Ltac exec := unfold run, mcall, abs; cbn; clean.
Ltac fin :=
  unfold zlen;
  repeat (rewrite ?wrap_wrap;
          repeat match goal with |- context [?a mod M32] => change (a mod M32) with (wrap32 a) end;
          match goal with
          | |- context [?a <? ?b] => destruct (a <? b) eqn:?; cbn; clean
          | |- context [?a <=? ?b] => destruct (a <=? b) eqn:?; cbn; clean
          end);
  rewrite ?wrap_wrap;
  repeat match goal with |- context [?a mod M32] => change (a mod M32) with (wrap32 a) end;
  try reflexivity.

Lemma read_eq : forall s, wf s ->
  run "read" 0 0 s =
  if read_guard s then let '(s', ret, notes) := oq_read s in
    MDone {| mr_st := abs s'; mr_local := match ret with Some x => x | None => 0 end;
             mr_ret := Some (match ret with Some x => x | None => 0 end); mr_notes := notes; mr_locked := true; mr_deleted := [] |}
  else MBlocked CV_tellp.
Proof.
  intros [ab it tg tp cap fs rd] (H1 & H2 & H3 & H4 & H5). cbn in *.
  unfold read_guard, oq_read. cbn [q_abort q_items q_tellg q_tellp q_cap q_fsz q_rd].
  destruct ab, it as [|x r]; exec; rewrite ?wrap_add1; try reflexivity.
  destruct (fs <=? tg); cbn; reflexivity.
Qed.

Lemma write_eq : forall s x, wf s ->
  run "write" 0 x s =
  if write_guard s then let '(s', notes) := oq_write s x in
    MDone {| mr_st := abs s'; mr_local := 0; mr_ret := None; mr_notes := notes; mr_locked := true; mr_deleted := [] |}
  else MBlocked CV_tellg.
Proof.
  intros [ab it tg tp cap fs rd] x (H1 & H2 & H3 & H4 & H5). cbn in *.
  unfold write_guard, oq_write. cbn [q_abort q_items q_tellg q_tellp q_cap q_fsz q_rd].
  destruct ab; exec; fin.
Qed.

Lemma abort_eq : forall s, wf s ->
  run "abort" 0 0 s = let '(s', notes) := oq_abort s in
    MDone {| mr_st := abs s'; mr_local := 0; mr_ret := None; mr_notes := notes; mr_locked := true; mr_deleted := [] |}.
Proof. intros [ab it tg tp cap fs rd] _. exec. reflexivity. Qed.

Lemma setFileSize_eq : forall s n, wf s ->
  run "setFileSize" n 0 s = let '(s', notes) := oq_setFileSize s n in
    MDone {| mr_st := abs s'; mr_local := 0; mr_ret := None; mr_notes := notes; mr_locked := true; mr_deleted := [] |}.
Proof. intros [ab it tg tp cap fs rd] n _. exec; fin. Qed.

Lemma setBufferSize_eq : forall s n, wf s ->
  run "setBufferSize" n 0 s = let '(s', notes) := oq_setBufferSize s n in
    MDone {| mr_st := abs s'; mr_local := 0; mr_ret := None; mr_notes := notes; mr_locked := true; mr_deleted := [] |}.
Proof. intros [ab it tg tp cap fs rd] n _. exec; fin. Qed.

Lemma tellg_eq : forall s, wf s -> run "tellg" 0 0 s = done s (q_tellg s) [] [].
Proof. intros [ab it tg tp cap fs rd] (H1 & H2 & H3 & H4 & H5). cbn in *. unfold done. exec; fin. Qed.
Lemma tellp_eq : forall s, wf s -> run "tellp" 0 0 s = done s (q_tellp s) [] [].
Proof. intros [ab it tg tp cap fs rd] (H1 & H2 & H3 & H4 & H5). cbn in *. unfold done. exec; fin. Qed.
Lemma good_eq : forall s, wf s -> run "good" 0 0 s = done s (b2z (oq_good s)) [] [].
Proof.
  intros [ab it tg tp cap fs rd] (H1 & H2 & H3 & H4 & H5). cbn in *. unfold done, oq_good. cbn [q_rd].
  destruct H5; subst rd; exec; reflexivity.
Qed.
Lemma eof_eq : forall s, wf s -> run "eof" 0 0 s = done s (b2z (oq_eof s)) [] [].
Proof.
  intros [ab it tg tp cap fs rd] (H1 & H2 & H3 & H4 & H5). cbn in *. unfold done, oq_eof. cbn [q_rd].
  destruct H5; subst rd; exec; reflexivity.
Qed.

Lemma destroy_eq : forall s, wf s ->
  run "~ObjectQueue" 0 0 s = let '(s', del) := oq_destroy s in
    MDone {| mr_st := abs s'; mr_local := 0; mr_ret := None; mr_notes := [CV_tellg; CV_tellp]; mr_locked := false; mr_deleted := del |}.
Proof. intros [ab it tg tp cap fs rd] _. exec. reflexivity. Qed.

(* the model preserves well-formedness, so the equalities above apply along every history *)
Lemma wrap32_u32 z : u32 (wrap32 z).
Proof. unfold u32, wrap32. apply Z.mod_pos_bound. reflexivity. Qed.

Lemma wf_init : wf oq_init.
Proof. unfold wf, u32. cbn. repeat split; try discriminate; try reflexivity. left. reflexivity. Qed.

Lemma wf_step : forall s o, wf s -> wf (fst (fst (qstep s o))).
Proof.
  intros [ab it tg tp cap fs rd] o (H1 & H2 & H3 & H4 & H5). cbn in *.
  assert (W : forall z, u32 (wrap32 z)) by exact wrap32_u32.
  destruct o; cbn [qstep]; unfold wf, oq_read, oq_write, oq_abort, oq_setFileSize, oq_setBufferSize; cbn.
  - destruct it; cbn; (split; [|split; [|split; [|split]]]); auto.
  - destruct (fs <? wrap32 (tp + 1)); (split; [|split; [|split; [|split]]]); auto.
  - (split; [|split; [|split; [|split]]]); auto.
  - (split; [|split; [|split; [|split]]]); auto.
  - (split; [|split; [|split; [|split]]]); auto.
Qed.

(* every access to a data member happens with the mutex held: an access without the lock makes
   the interpreter fail, and the equalities above show that no method fails *)
