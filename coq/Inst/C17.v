(* Inst/C17.v — facts about the generated type tables (re-checked on every run). *)
From VB Require Import Base IR Sem Tables.
From VB Require Import Classes Consts Common.
Local Open Scope Z_scope.

Definition no_zero (o : option Z) : option Z := match o with Some 0 => None | x => x end.
(* File::createObject as a function of the type code: the class it instantiates, if any *)
Definition factory (code : Z) : option Z := no_zero (lookup code factory_table).
(* the class the format documentation (File.h) assigns to a code *)
Definition format (code : Z) : option Z := no_zero (lookup code format_table).

(* the type code a default-constructed object of class c carries *)
Definition ctor_code (c : Z) : option Z :=
  match fresh cs c fid_objectType with VInt z => Some z | _ => None end.

Definition ctor_ok (c : Z) : bool :=
  match ctor_code c with Some code => opt_z_eqb (factory code) (Some c) | None => false end.

Definition init_complete (c : Z) : bool :=
  forallb (fun fd => match fresh cs c (f_id fd) with VUndef => false | _ => true end) (all_fields cs depth c).

(* a default object is written under its constructor code, the factory maps the written code back
   to the class, and decoding the bytes into a fresh object of that class reproduces the code *)
Definition written_code_ok (c : Z) : bool :=
  match ctor_code c, enc cs default_cap c (fresh cs c) with
  | Some code, Ok (_, bytes) =>
      (le_dec (ztake 4 (zdrop 12 bytes)) =? code) &&
      match factory code with
      | Some c' =>
          (c' =? c) &&
          match dec cs scan_p default_cap c' (fresh cs c') (mk_ustream bytes) with
          | Ok (s', _) => match s' fid_objectType with VInt z => z =? code | _ => false end
          | Err _ => false
          end
      | None => false
      end
  | _, _ => false
  end.

(* ---- committed exception lists (by class name): each entry has a refutation below ---- *)
Definition ctor_exception_names : list string := ["EnvironmentVariable"%string].
Definition init_exception_names : list string := [].

Definition ctor_exceptions := map class_of_name ctor_exception_names.
Definition init_exceptions := map class_of_name init_exception_names.

(* ---- the factory agrees with the format table on every code ---- *)
Lemma factory_format_keys :
  forallb (fun k => opt_z_eqb (factory k) (format k)) (map fst factory_table ++ map fst format_table) = true.
Proof. vm_compute. reflexivity. Qed.

Lemma factory_total_b : forall code, opt_z_eqb (factory code) (format code) = true.
Proof.
  apply (forall_keys _ _ factory_format_keys). intros k Hk.
  unfold factory, format.
  rewrite (lookup_not_in k factory_table), (lookup_not_in k format_table); [reflexivity| |];
    intros Hin; apply Hk; apply in_or_app; [right|left]; exact Hin.
Qed.

Lemma factory_total : forall code, factory code = format code.
Proof. intros code. apply opt_z_eqb_eq. apply factory_total_b. Qed.

(* ---- ... and both are the format's own assignment as pinned in /verif (translator/format_codes.json), not merely each other:
   every pinned code yields exactly the pinned class, and a class the format knows is created under no other code ---- *)
Definition pinned (code : Z) : option Z := no_zero (lookup code pinned_format).
Definition pinned_ok : bool :=
  forallb (fun p => opt_z_eqb (factory (fst p)) (pinned (fst p))) pinned_format &&
  forallb (fun p => (snd p =? 0) || negb (existsb (fun q => snd q =? snd p) pinned_format) ||
                    existsb (fun q => (fst q =? fst p) && (snd q =? snd p)) pinned_format) factory_table.
Lemma factory_is_pinned_format : pinned_ok = true.
Proof. vm_compute. reflexivity. Qed.

Lemma factory_recognised_ok : factory_recognised = true.
Proof. reflexivity. Qed.

(* codes the factory maps to nothing: exactly those the format table leaves unassigned; in
   particular everything outside the table *)
Lemma factory_outside : forall code, ~ In code (map fst factory_table) -> factory code = None.
Proof. intros code H. unfold factory. rewrite lookup_not_in; [reflexivity|exact H]. Qed.

Lemma ctor_all_b : forallb ctor_ok (minus object_classes ctor_exceptions) = true.
Proof. vm_compute. reflexivity. Qed.
Lemma ctor_all : forall c, In c object_classes -> ~ In c ctor_exceptions -> ctor_ok c = true.
Proof. intros c H1 H2. exact (proj1 (forallb_forall _ _) ctor_all_b c (in_minus _ _ _ H1 H2)). Qed.

Lemma written_all_b : forallb written_code_ok (minus object_classes ctor_exceptions) = true.
Proof. vm_compute. reflexivity. Qed.
Lemma written_all : forall c, In c object_classes -> ~ In c ctor_exceptions -> written_code_ok c = true.
Proof. intros c H1 H2. exact (proj1 (forallb_forall _ _) written_all_b c (in_minus _ _ _ H1 H2)). Qed.

Lemma init_all_b : forallb init_complete (minus object_classes init_exceptions) = true.
Proof. vm_compute. reflexivity. Qed.
Lemma init_all : forall c, In c object_classes -> ~ In c init_exceptions -> init_complete c = true.
Proof. intros c H1 H2. exact (proj1 (forallb_forall _ _) init_all_b c (in_minus _ _ _ H1 H2)). Qed.

(* ---- refutations for the committed exceptions (known findings) ---- *)
Lemma ctor_refuted_EnvironmentVariable :
  let c := class_of_name "EnvironmentVariable" in ctor_code c = Some 0 /\ factory 0 = None.
Proof. vm_compute. split; reflexivity. Qed.
