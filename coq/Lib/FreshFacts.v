(* FreshFacts.v — a freshly constructed object: untouched outside its own members, and
   well-shaped when a finite check over its members says so. *)
From VB Require Import Base IR Sem BaseFacts EvalFacts Roundtrip.
Local Open Scope Z_scope.
Set Default Proof Using "Type".

Section FF.
Variable cs : classes.

Lemma fold_upd_other {A} (g : A -> Z) (h : A -> value) (l : list A) : forall s f,
  ~ In f (map g l) -> fold_left (fun s x => upd s (g x) (h x)) l s f = s f.
Proof.
  induction l as [|x r IH]; intros s f Hf; cbn [fold_left]; [reflexivity|].
  rewrite IH by (intros Hin; apply Hf; right; exact Hin).
  unfold upd. destruct (Z.eqb_spec f (g x)); [subst; exfalso; apply Hf; left; reflexivity|reflexivity].
Qed.

Lemma fold_ctor_other (l : list (Z * Z)) : forall s f, ~ In f (map fst l) ->
  fold_left (fun s (p : Z * Z) =>
               match find_field cs (fst p) with
               | Some x => match f_kind x with KScalar t => upd s (fst p) (VInt (norm t (snd p))) | _ => s end
               | None => s end) l s f = s f.
Proof.
  induction l as [|p r IH]; intros s f Hf; cbn [fold_left]; [reflexivity|].
  rewrite IH by (intros Hin; apply Hf; right; exact Hin).
  destruct (find_field cs (fst p)) as [x|]; [|reflexivity]. destruct (f_kind x); try reflexivity.
  unfold upd. destruct (Z.eqb_spec f (fst p)); [subst; exfalso; apply Hf; left; reflexivity|reflexivity].
Qed.

Lemma fold_call_other (c : cid) (s0 : state) (l : list fdef) : forall s f, ~ In f (map f_id l) ->
  fold_left (fun s x =>
               match f_kind x, f_init x with
               | KScalar t, ICall m =>
                   match callf cs c CDyn m s0 with Ok v => upd s (f_id x) (VInt (norm t (fst v))) | Err _ => s end
               | _, _ => s end) l s f = s f.
Proof.
  induction l as [|x r IH]; intros s f Hf; cbn [fold_left]; [reflexivity|].
  rewrite IH by (intros Hin; apply Hf; right; exact Hin).
  destruct (f_kind x); try reflexivity. destruct (f_init x); try reflexivity.
  destruct (callf cs c CDyn m s0); [|reflexivity].
  unfold upd. destruct (Z.eqb_spec f (f_id x)); [subst; exfalso; apply Hf; left; reflexivity|reflexivity].
Qed.

Definition ids (c : cid) : list Z := map f_id (all_fields cs depth c).

Lemma fresh_outside c f : incl_b (map fst (all_ctor cs depth c)) (ids c) = true -> ~ In f (ids c) -> fresh cs c f = VUndef.
Proof.
  intros Hinc Hf. unfold fresh. rewrite fold_call_other by exact Hf.
  unfold fresh0. rewrite fold_ctor_other by (intros Hin; apply Hf; eapply incl_b_In; eauto).
  rewrite fold_upd_other by exact Hf. reflexivity.
Qed.

Definition shape_okb (x : fdef) (v : value) : bool :=
  match f_kind x, v with
  | _, VUndef => true
  | KScalar t, VInt z => in_type t z
  | KArray e n, VBytes b => zlen b =? e * n
  | KVec e, VBytes b => (zlen b mod e =? 0) && (zlen b <? 2 ^ 28)
  | _, _ => false
  end.
Lemma shape_okb_ok x v : shape_okb x v = true -> shape_ok x v.
Proof.
  unfold shape_okb, shape_ok. destruct (f_kind x); destruct v; intros H; try exact I; try discriminate; try exact H.
  - apply Z.eqb_eq. exact H.
  - apply andb_prop in H. destruct H as [H1 H2]. split; [apply Z.eqb_eq; exact H1|apply Z.ltb_lt; exact H2].
Qed.

(* finite check: every member of a fresh object of class c is well-shaped *)
Definition fresh_wf_b (c : cid) : bool :=
  incl_b (map fst (all_ctor cs depth c)) (ids c) &&
  forallb (fun f => match find_field cs f with Some x => shape_okb x (fresh cs c f) | None => true end) (ids c).

Lemma fresh_wf c : fresh_wf_b c = true -> wf_state cs (fresh cs c).
Proof.
  unfold fresh_wf_b. intros H. apply andb_prop in H. destruct H as [H1 H2].
  intros f x Hx. destruct (in_dec Z.eq_dec f (ids c)) as [Hin|Hnin].
  - rewrite forallb_forall in H2. specialize (H2 f Hin). rewrite Hx in H2. apply shape_okb_ok. exact H2.
  - rewrite (fresh_outside c f H1 Hnin). unfold shape_ok. destruct (f_kind x); exact I.
Qed.

Definition defined_b (fs : list Z) (s : state) : bool :=
  forallb (fun f => match s f with VUndef => false | _ => true end) fs.
Lemma defined_b_ok fs s : defined_b fs s = true -> defined_on fs s.
Proof.
  unfold defined_b, defined_on. intros H f Hf. rewrite forallb_forall in H. specialize (H f Hf).
  intros E. rewrite E in H. discriminate.
Qed.

End FF.
