(* Base.v — bytes, little-endian coding, result monad.  Definitions only (proofs in BaseFacts.v). *)
From Coq Require Export String.
From Coq Require Export List ZArith Bool Lia.
Export ListNotations.
Local Open Scope Z_scope.

(* ---------- outcome ---------- *)
Inductive err :=
| EOOBRead      (* encoder reads beyond the caller's container *)
| EOOBWrite     (* decoder writes beyond the destination's capacity *)
| EAlloc        (* resize beyond the allocation cap / max_size *)
| EThrow        (* library Exception *)
| EUnsupported  (* construct outside the translated grammar *)
| EUB           (* signed overflow, division by zero *)
| EFuel         (* call depth exhausted *)
| ESpin         (* the signature search of ObjectHeaderBase::read does not end *)
| EType.        (* ill-typed IR (scalar op on container etc.) *)

Inductive res (A : Type) := Ok (a : A) | Err (e : err).
Arguments Ok {A} a.
Arguments Err {A} e.

Definition bind {A B} (r : res A) (f : A -> res B) : res B :=
  match r with Ok a => f a | Err e => Err e end.
Notation "'do' x <- r ; k" := (bind r (fun x => k)) (at level 200, x pattern, r at level 100, k at level 200).

(* ---------- lengths with Z ---------- *)
Definition zlen {A} (l : list A) : Z := Z.of_nat (length l).
Definition ztake {A} (n : Z) (l : list A) : list A := firstn (Z.to_nat n) l.
Definition zdrop {A} (n : Z) (l : list A) : list A := skipn (Z.to_nat n) l.
Definition zeros (n : Z) : list Z := repeat 0 (Z.to_nat n).

(* ---------- little endian ---------- *)
Fixpoint le_enc_nat (w : nat) (z : Z) : list Z :=
  match w with O => [] | S w' => (z mod 256) :: le_enc_nat w' (z / 256) end.
Definition le_enc (w : Z) (z : Z) : list Z := le_enc_nat (Z.to_nat w) z.

Fixpoint le_dec (l : list Z) : Z :=
  match l with [] => 0 | b :: r => b + 256 * le_dec r end.

Definition is_byte (b : Z) : bool := (0 <=? b) && (b <? 256).
Definition bytes_ok (l : list Z) : bool := forallb is_byte l.

(* cap on a single allocation: 256 MiB in the property text; the interpreters take it as a parameter *)
Definition default_cap : Z := 268435456.
