(* StreamLevel.v — facts about streams needed to chain decoders over a whole uncompressed stream (C01, stream level):
   reading and seeking only move the cursor (the data is the same), and seeking back over what was just consumed
   restores the stream.  Proofs only. *)
From VB Require Import Base IR Sem BaseFacts StreamFacts TermFacts.
From Coq Require Import ZifyBool.
Local Open Scope Z_scope.

Lemma data_zip (b a : list Z) n : rev_append (rev (firstn n a) ++ b) (skipn n a) = rev_append b a.
Proof.
  rewrite !rev_append_rev. rewrite rev_app_distr, rev_involutive. rewrite <- app_assoc. rewrite firstn_skipn. reflexivity.
Qed.

Lemma s_read_data n i : s_data (snd (s_read n i)) = s_data i.
Proof.
  unfold s_read, s_data. destruct (s_sticky i).
  - destruct (negb (s_good i)); [reflexivity|]. destruct (n <=? 0); [reflexivity|]. destruct (closed_now i); [reflexivity|].
    rewrite zip_take_spec. cbn [snd s_before s_after]. apply data_zip.
  - destruct ((_ <=? 0) || _); [reflexivity|]. rewrite zip_take_spec. cbn [snd s_before s_after]. apply data_zip.
Qed.

Lemma zip_move_data b a cur p : let '(b', a', _) := zip_move b a cur p in rev_append b' a' = rev_append b a.
Proof.
  unfold zip_move. destruct (cur <=? p).
  - rewrite zip_fwd_gen. apply data_zip.
  - rewrite zip_fwd_gen. cbv beta iota zeta. rewrite !rev_append_rev. rewrite app_assoc. f_equal.
    rewrite <- rev_app_distr. rewrite firstn_skipn. reflexivity.
Qed.

Lemma s_seek_data off i : s_data (s_seek off i) = s_data i.
Proof.
  unfold s_seek, s_data. destruct (s_sticky i).
  - destruct (s_good i); [|reflexivity]. destruct (closed_now i || (s_pos i + off <? 0)); [reflexivity|].
    pose proof (zip_move_data (s_before i) (s_after i) (s_cur i) (s_pos i + off)) as H.
    destruct (zip_move _ _ _ _) as [[b a] c]. exact H.
  - pose proof (zip_move_data (s_before i) (s_after i) (s_cur i) (Z.min (s_pos i + off) (s_size i))) as H.
    destruct (zip_move _ _ _ _) as [[b a] c]. exact H.
Qed.

Lemma scan_data sp : forall n tmp i r i', scan_loop sp n tmp i = Ok (r, i') -> s_data i' = s_data i.
Proof.
  induction n as [|n IH]; intros tmp i r i' H; [discriminate|]. cbn [scan_loop] in H.
  pose proof (s_read_data 4 i) as D. destruct (s_read 4 i) as [got i1]. cbn [snd] in D.
  destruct (_ =? sp_sig sp); [inversion H; subst; exact D|]. destruct (scan_stop sp i1); [discriminate|].
  destruct (scan_rule _ _ =? 0); [rewrite (IH _ _ _ _ H); exact D|rewrite (IH _ _ _ _ H), s_seek_data; exact D].
Qed.

Theorem run_r_data cs call sp cap : forall p s l i s' i', run_r cs call sp cap p s l i = Ok (s', i') -> s_data i' = s_data i.
Proof.
  induction p as [| e | | | f k IH | f k IH | f e k IH | f e k IH | f e k IH | e k IH | e k IH | f e k IH | x t e k IH | x e k IH | k IH | c a IHa b IHb];
    intros s l i s' i' H; cbn [run_r] in H; try discriminate.
  - inversion H; subst. reflexivity.
  - destruct (find_field cs f) as [x|]; [|discriminate]. destruct (ksize (f_kind x)) as [w|]; [|discriminate].
    pose proof (s_read_data w i) as D. destruct (s_read w i) as [got i1]. cbn [snd] in D.
    destruct (read_into x (s f) got) as [v|]; cbn [bind] in H; [|discriminate]. rewrite (IH _ _ _ _ _ H). exact D.
  - destruct (eval_as cs call I64 s l e) as [n|]; cbn [bind] in H; [|discriminate]. destruct (s f) as [|b|]; try discriminate.
    pose proof (s_read_data n i) as D. destruct (s_read n i) as [got i1]. cbn [snd] in D.
    destruct (zlen b <? zlen got); [discriminate|]. rewrite (IH _ _ _ _ _ H). exact D.
  - destruct (eval_as cs call U64 s l e) as [n|]; cbn [bind] in H; [|discriminate].
    destruct (find_field cs f) as [x|]; [|discriminate]. destruct (s f) as [|b|]; try discriminate.
    destruct (cap <? n * kelt (f_kind x)); [discriminate|]. eapply IH; eauto.
  - destruct (eval_as cs call I64 s l e) as [off|]; cbn [bind] in H; [|discriminate]. rewrite (IH _ _ _ _ _ H). apply s_seek_data.
  - destruct (find_field cs f) as [x|]; [|discriminate]. destruct (f_kind x) as [t| |]; try discriminate.
    destruct (eval_as cs call t s l e) as [v|]; cbn [bind] in H; [|discriminate]. eapply IH; eauto.
  - destruct (eval_as cs call t s l e) as [v|]; cbn [bind] in H; [|discriminate]. eapply IH; eauto.
  - destruct (l x) as [[? t]|]; [|discriminate].
    destruct (eval_as cs call t s l e) as [v|]; cbn [bind] in H; [|discriminate]. eapply IH; eauto.
  - destruct (scan_loop sp (S (S (length (s_data i)))) 0 i) as [[r i1]|] eqn:Es; cbn [bind] in H; [|discriminate].
    cbn [fst snd] in H. rewrite (IH _ _ _ _ _ H). eapply scan_data; eauto.
  - destruct (eval cs call s l c) as [v|]; cbn [bind] in H; [|discriminate].
    destruct (fst v =? 0); [eapply IHb|eapply IHa]; eauto.
Qed.

Lemma firstn_len_app {A} (a b : list A) n : length a = n -> firstn n (a ++ b) = a.
Proof. intros <-. rewrite firstn_app, Nat.sub_diag, firstn_all. cbn. apply app_nil_r. Qed.
Lemma skipn_len_app {A} (a b : list A) n : length a = n -> skipn n (a ++ b) = b.
Proof. intros <-. rewrite skipn_app, Nat.sub_diag, skipn_all. reflexivity. Qed.

(* seeking back over the k bytes just consumed restores what lies ahead *)
Lemma seek_back_restores i i1 (hdr : list Z) rest' : nstream i -> nstream i1 ->
  s_data i1 = s_data i -> s_after i = hdr ++ rest' -> s_after i1 = rest' ->
  let i2 := s_seek (- zlen hdr) i1 in
  nstream i2 /\ s_after i2 = hdr ++ rest' /\ s_good i2 = s_good i1 /\ s_pos i2 = s_pos i /\ s_size i2 = s_size i.
Proof.
  intros (A1 & A2 & A3 & A4) (B1 & B2 & B3 & B4) D Ha Ha1.
  unfold s_data in D. rewrite !rev_append_rev in D. rewrite Ha, Ha1 in D. rewrite app_assoc in D. apply app_inv_tail in D.
  assert (Hb1 : s_before i1 = rev hdr ++ s_before i).
  { apply (f_equal (@rev Z)) in D. rewrite rev_involutive, rev_app_distr, rev_involutive in D. exact D. }
  assert (Hsz : s_size i1 = s_size i).
  { rewrite A4, B4, Ha, Ha1, Hb1. rewrite !zlen_app, zlen_rev. lia. }
  assert (Hpos : s_pos i1 = s_pos i + zlen hdr).
  { rewrite B3, B2, A3, A2, Hb1, zlen_app, zlen_rev. lia. }
  pose proof (zlen_nonneg hdr) as Hh. pose proof (zlen_nonneg (s_before i)) as Hbb.
  cbv zeta. unfold s_seek. rewrite B1.
  replace (Z.min (s_pos i1 + - zlen hdr) (s_size i1)) with (s_pos i) by (rewrite A4 in *; pose proof (zlen_nonneg (s_after i)); lia).
  unfold zip_move. replace (s_cur i1 <=? s_pos i) with (zlen hdr =? 0) by lia.
  destruct (zlen hdr =? 0) eqn:E0.
  - assert (hdr = []) by (destruct hdr; [reflexivity|unfold zlen in E0; cbn in E0; lia]). subst hdr.
    replace (s_pos i - s_cur i1) with 0 by (unfold zlen in *; cbn in *; lia). cbn [Z.to_nat zip_fwd].
    destruct (s_after i1); cbn [s_before s_after s_cur s_pos s_size s_good s_sticky];
      (split; [unfold nstream; cbn [s_before s_after s_cur s_pos s_size s_sticky]; cbn [app rev] in Hb1; rewrite Hb1 in *; cbn [app] in *; repeat split; lia|]);
      cbn [app] in *; repeat split; try reflexivity; try lia; congruence.
  - rewrite zip_fwd_gen.
    replace (Z.to_nat (s_cur i1 - Z.max 0 (s_pos i))) with (length hdr) by (unfold zlen in *; lia).
    rewrite Hb1. rewrite (firstn_len_app (rev hdr) (s_before i) _ (rev_length hdr)), rev_involutive.
    rewrite (skipn_len_app (rev hdr) (s_before i) _ (rev_length hdr)).
    rewrite Nat.min_l by (rewrite app_length, rev_length; lia).
    cbn [s_before s_after s_cur s_pos s_size s_good s_sticky].
    split; [unfold nstream; cbn [s_before s_after s_cur s_pos s_size s_sticky]; rewrite zlen_app; unfold zlen in *; repeat split; lia|].
    rewrite Ha1. repeat split; try reflexivity; lia.
Qed.
