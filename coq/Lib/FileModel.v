(* FileModel.v — the container and file layer: File::open / the two worker loops of each direction /
   close(), as a sequential composition over byte lists (DESIGN.md 2.3).  Hand-written; tied to the
   code by the `file` correspondence harness.  The object and container codecs it calls (enc / dec
   on FileStatistics, LogContainer, ObjectHeaderBase and every object class) are the programs
   regenerated from the source.  zlib is a pair of Section variables.  Definitions only. *)
From VB Require Export Sem.
Local Open Scope Z_scope.

Section FileModel.
Variable cs : classes.
Variable sp : scan_params.
Variable cap : Z.
Variable factory : list (Z * Z).          (* type code -> class id (0: nothing) *)
Variables C_stats C_lc C_ohb : Z.         (* class ids: FileStatistics, LogContainer, ObjectHeaderBase *)
(* member ids *)
Variables F_sig F_hsz F_osz F_otype : Z.                       (* ObjectHeaderBase *)
Variables F_method F_usize F_cfile : Z.                        (* LogContainer *)
Variables S_statsize S_fsize S_usize S_count S_rpo : Z.        (* FileStatistics *)
(* zlib: compress2(level) and uncompress(expected size) as oracles *)
Variable deflate : Z -> list Z -> list Z.
Variable inflate : list Z -> Z -> option (list Z).   (* Some out iff Z_OK and |out| = expected size *)

Definition geti (s : state) (f : Z) : Z := match s f with VInt z => z | _ => 0 end.
Definition getb (s : state) (f : Z) : list Z := match s f with VBytes b => b | _ => [] end.

(* ================= writing ================= *)
Record wcfg := { w_level : Z; w_cs : Z; w_restore : bool }.

(* worker 2 cuts the stream into reads of exactly w_cs bytes; the last read is the short one (possibly empty) *)
Fixpoint pieces (fuel : nat) (n : Z) (l : list Z) : list (list Z) :=
  match fuel with
  | O => [l]
  | S f => if zlen l <? n then [l] else ztake n l :: pieces f n (zdrop n l)
  end.

Definition lc_state (method : Z) (piece stored : list Z) : state :=
  upd (upd (upd (fresh cs C_lc) F_method (VInt method)) F_usize (VInt (zlen piece mod 2 ^ 32))) F_cfile (VBytes stored).

Definition lc_encode (level : Z) (piece : list Z) : res (list Z) :=
  let method := if level =? 0 then 0 else 2 in
  let stored := if level =? 0 then piece else deflate level piece in
  do r <- enc cs cap C_lc (lc_state method piece stored); Ok (snd r).

Fixpoint encode_all (level : Z) (ps : list (list Z)) : res (list (list Z)) :=
  match ps with
  | [] => Ok []
  | p :: r => do b <- lc_encode level p; do rest <- encode_all level r; Ok (b :: rest)
  end.

Definition sumlen (ps : list (list Z)) : Z := fold_right (fun p a => zlen p + a) 0 ps.

(* hdr: the caller's FileStatistics; objs: the encodings of the objects written, with "counts as an object" *)
Definition write_session (cfg : wcfg) (hdr : state) (objs : list (list Z * bool)) : res (list Z) :=
  let U := concat (map fst objs) in
  let ps := pieces (length U) (w_cs cfg) U in
  let ps' := if w_restore cfg then ps ++ [[]] else ps in
  do conts <- encode_all (w_level cfg) ps';
  do h0 <- enc cs cap C_stats hdr;
  let hlen := zlen (snd h0) in
  let body := concat conts in
  let body_main := concat (firstn (length ps) conts) in
  let count := Z.of_nat (length (filter snd objs)) in
  let hdr1 := if w_restore cfg then upd hdr S_rpo (VInt (hlen + zlen body_main)) else hdr in
  let hdr2 := upd (upd (upd hdr1 S_fsize (VInt (hlen + zlen body)))
                       S_usize (VInt ((geti hdr S_statsize + sumlen ps' + 32 * zlen ps') mod 2 ^ 64)))
                  S_count (VInt (count mod 2 ^ 32)) in
  do h <- enc cs cap C_stats hdr2;
  Ok (snd h ++ body).

(* ================= reading ================= *)
Inductive stage_end :=
| EndClean        (* the stage met the end of its input and declared end of stream *)
| EndException    (* a library Exception ended the stage (declares end of stream) *)
| EndForeign      (* another exception (allocation failure) ended the stage (declares end of stream) *)
| EndUnsafe       (* an out-of-bounds access *)
| EndFuel.        (* no end: the loop does not terminate *)

Definition lookup_factory (code : Z) : Z :=
  match find (fun p => fst p =? code) factory with Some p => snd p | None => 0 end.

(* ---- worker 2: CompressedFile -> UncompressedFile ---- *)
Definition uncompress_lc (s : state) : res (list Z) :=
  let m := geti s F_method in
  let stored := getb s F_cfile in
  let usz := geti s F_usize in
  if m =? 0 then (if zlen stored =? usz then Ok stored else Err EThrow)
  else if m =? 2 then
    (if cap <? usz then Err EAlloc
     else match inflate stored usz with Some out => Ok out | None => Err EThrow end)
  else Err EThrow.

Fixpoint cont_loop (fuel : nat) (i : istream) (acc : list (list Z)) (usize : Z) : list (list Z) * Z * stage_end :=
  match fuel with O => (acc, usize, EndFuel) | S fuel' =>
    match dec cs sp cap C_ohb (fresh cs C_ohb) i with
    | Err EThrow => (acc, usize, EndException)
    | Err EAlloc => (acc, usize, EndForeign)
    | Err ESpin => (acc, usize, EndFuel)
    | Err EOOBWrite => (acc, usize, EndUnsafe)
    | Err _ => (acc, usize, EndUnsafe)
    | Ok (h, i1) =>
        if negb (s_good i1) then (acc, usize, EndException)
        else
          let i2 := s_seek (-16) i1 in
          if negb (geti h F_otype =? 10) then (acc, usize, EndException)
          else match dec cs sp cap C_lc (fresh cs C_lc) i2 with
               | Err EThrow => (acc, usize, EndException)
               | Err EAlloc => (acc, usize, EndForeign)
               | Err ESpin => (acc, usize, EndFuel)
               | Err _ => (acc, usize, EndUnsafe)
               | Ok (lc, i3) =>
                   if negb (s_good i3) then (acc, usize, EndException)
                   else
                     let usize' := (usize + (32 + geti lc F_usize) mod 2 ^ 32) mod 2 ^ 64 in      (* uint16 + uint32 is computed in 32 bits *)
                     match uncompress_lc lc with
                     | Err EAlloc => (acc, usize', EndForeign)
                     | Err _ => (acc, usize', EndException)
                     | Ok out => cont_loop fuel' i3 (acc ++ [out]) usize'
                     end
               end
    end end.

(* ---- worker 1: UncompressedFile -> ObjectQueue ---- *)
Definition delivered := (Z * state)%type.      (* class id, decoded object *)

Fixpoint obj_loop (fuel : nat) (i : istream) (acc : list delivered) (count : Z) : list delivered * Z * stage_end :=
  match fuel with O => (acc, count, EndFuel) | S fuel' =>
    match dec cs sp cap C_ohb (fresh cs C_ohb) i with
    | Err EThrow => (acc, count, EndException)
    | Err EAlloc => (acc, count, EndForeign)
    | Err ESpin => (acc, count, EndFuel)
    | Err _ => (acc, count, EndUnsafe)
    | Ok (h, i1) =>
        if negb (s_good i1) then (acc, count, EndClean)
        else
          let i2 := s_seek (-16) i1 in
          let osz := geti h F_osz in
          let c := lookup_factory (geti h F_otype) in
          if c =? 0 then
            (* unknown type: skip by the declared size, at least one base header *)
            obj_loop fuel' (s_seek (if 16 <? osz then osz else 16) i2) acc count
          else
            let o0 := fresh cs c in
            match osize cs c o0 with
            | Err _ => (acc, count, EndUnsafe)
            | Ok sz0 =>
                let dsz := if 16 <? osz then osz else 16 in     (* a declared size below one base header counts as one header *)
                let tmp := if dsz <? sz0 then norm I32 (norm U32 (dsz - sz0)) else 0 in
                match dec cs sp cap c o0 i2 with
                | Err EThrow => (acc, count, EndException)
                | Err EAlloc => (acc, count, EndForeign)
                | Err ESpin => (acc, count, EndFuel)
                | Err _ => (acc, count, EndUnsafe)
                | Ok (o, i3) =>
                    if negb (s_good i3) then (acc, count, EndException)
                    else
                      (* the seek back to the declared end never goes behind it (the reader has to make progress) *)
                      let i4 := if tmp =? 0 then i3
                                else let j := s_seek tmp i3 in
                                     let dend := s_pos i2 + dsz in
                                     if s_pos j <? dend then s_seek (dend - s_pos j) j else j in
                      let count' := if geti o F_otype =? 115 then count else (count + 1) mod 2 ^ 32 in
                      obj_loop fuel' i4 (acc ++ [(c, o)]) count'
                end
            end
    end end.

Record rresult := {
  r_open_throws : bool;
  r_stats : state;                   (* fileStatistics as read *)
  r_conts : list (list Z);           (* inflated containers, in order *)
  r_cend : stage_end;
  r_objs : list delivered;
  r_oend : stage_end;
  r_count : Z;                       (* currentObjectCount *)
  r_usize : Z                        (* currentUncompressedFileSize *)
}.

(* the session on a given compressed-file stream (n = number of bytes in it) *)
Definition read_session_on (i0 : istream) (n : nat) : rresult :=
  match dec cs sp cap C_stats (fresh cs C_stats) i0 with
  | Err _ => {| r_open_throws := true; r_stats := fresh cs C_stats; r_conts := []; r_cend := EndException;
                r_objs := []; r_oend := EndException; r_count := 0; r_usize := 0 |}
  | Ok (st, i1) =>
      let '(conts, usize, cend) := cont_loop (S (S (n / 16))) i1 [] (geti st S_statsize) in
      let U := concat conts in
      let '(objs, count, oend) := obj_loop (2 * length U + 16) (mk_ustream U) [] 0 in
      {| r_open_throws := false; r_stats := st; r_conts := conts; r_cend := cend;
         r_objs := objs; r_oend := oend; r_count := count; r_usize := usize |}
  end.

Definition read_session (bytes : list Z) : rresult := read_session_on (mk_fstream bytes) (length bytes).

(* the same session when File::close() closes the compressed file under the inflating worker's feet after k more effective
   operations on it (k ranges over every point at which the close can take effect; what the parser then still finds in the
   inflated stream is what the inflating stage had appended) *)
Definition read_session_closing (bytes : list Z) (k : nat) : rresult := read_session_on (mk_fstream_closing bytes k) (length bytes).

End FileModel.
