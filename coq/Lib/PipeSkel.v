(* PipeSkel.v — what the pipeline models (Lib/WPipe.v, Lib/RPipe.v) assume about the text of File.cpp,
   as decidable predicates over statement skeletons (lists of normalised statements).  The skeletons
   themselves are regenerated from the source on every run (Gen/FileSkel.v); Inst/SkelEq.v evaluates
   the predicates on them. *)
From Coq Require Import String List Bool Arith Ascii.
Import ListNotations.
Local Open Scope string_scope.

Fixpoint index_of (x : string) (l : list string) : option nat :=
  match l with
  | [] => None
  | y :: r => if String.eqb x y then Some 0 else option_map S (index_of x r)
  end.

Definition before (a b : string) (l : list string) : bool :=
  match index_of a l, index_of b l with Some i, Some j => Nat.ltb i j | _, _ => false end.

Definition has (a : string) (l : list string) : bool := match index_of a l with Some _ => true | None => false end.

(* words of a statement (tokens are separated by single spaces) *)
Fixpoint words_aux (s : string) (cur : string) : list string :=
  match s with
  | EmptyString => [cur]
  | String c r => if Ascii.eqb c " "%char then cur :: words_aux r EmptyString else words_aux r (cur ++ String c EmptyString)
  end.
Definition words (s : string) : list string := words_aux s EmptyString.
Definition mentions (w : string) (st : string) : bool := existsb (String.eqb w) (words st).

(* the statements after the first occurrence of a *)
Fixpoint after (a : string) (l : list string) : list string :=
  match l with [] => [] | y :: r => if String.eqb a y then r else after a r end.
(* the statements of the block opened by `opener` up to its closing brace (no nested blocks inside) *)
Fixpoint upto_close (l : list string) : list string :=
  match l with [] => [] | y :: r => if String.eqb y "}" then [] else y :: upto_close r end.
Definition block (opener : string) (l : list string) : list string := upto_close (after opener l).

(* ---- close(), read mode: flags, abort both monitors, THEN join both workers ---- *)
Definition close_read_expected : list string :=
  ["m_compressedFileThreadRunning = false";
   "m_compressedFile . close ( )";
   "m_uncompressedFileThreadRunning = false";
   "m_uncompressedFile . abort ( )";
   "m_readWriteQueue . abort ( )";
   "if ( m_compressedFileThread . joinable ( ) ) m_compressedFileThread . join ( )";
   "if ( m_uncompressedFileThread . joinable ( ) ) m_uncompressedFileThread . join ( )"].

(* ---- close(), write mode: declare the end of the queue, join worker 1, join worker 2, restore-point tail, statistics ---- *)
Definition close_write_order (l : list string) : bool :=
  let w := after "if ( m_openMode & std :: ios_base :: out ) {" l in
  before "m_readWriteQueue . setFileSize ( m_readWriteQueue . tellp ( ) )" "if ( m_uncompressedFileThread . joinable ( ) ) m_uncompressedFileThread . join ( )" w &&
  before "if ( m_uncompressedFileThread . joinable ( ) ) m_uncompressedFileThread . join ( )" "if ( m_compressedFileThread . joinable ( ) ) m_compressedFileThread . join ( )" w &&
  before "if ( m_compressedFileThread . joinable ( ) ) m_compressedFileThread . join ( )" "if ( writeRestorePoints ) {" w &&
  before "m_uncompressedFile . nextLogContainer ( )" "fileStatistics . restorePointsOffset = static_cast < uint64_t > ( m_compressedFile . tellp ( ) )" w &&
  before "fileStatistics . restorePointsOffset = static_cast < uint64_t > ( m_compressedFile . tellp ( ) )" "readWriteQueue2UncompressedFile ( )" w &&
  before "readWriteQueue2UncompressedFile ( )" "uncompressedFile2CompressedFile ( )" w &&
  before "uncompressedFile2CompressedFile ( )" "fileStatistics . fileSize = static_cast < uint64_t > ( m_compressedFile . tellp ( ) )" w &&
  before "fileStatistics . fileSize = static_cast < uint64_t > ( m_compressedFile . tellp ( ) )" "m_compressedFile . seekp ( 0 )" w &&
  has "fileStatistics . uncompressedFileSize = currentUncompressedFileSize" w &&
  has "fileStatistics . objectCount = currentObjectCount" w &&
  before "m_compressedFile . seekp ( 0 )" "fileStatistics . write ( m_compressedFile )" w &&
  before "fileStatistics . write ( m_compressedFile )" "m_compressedFile . close ( )" w.

(* ---- the four worker loops ---- *)
Definition w1_read_expected : list string :=
  ["try {"; "while ( file -> m_uncompressedFileThreadRunning ) {"; "try {"; "file -> uncompressedFile2ReadWriteQueue ( )";
   "} catch ( Vector :: BLF :: Exception & ) {"; "file -> m_uncompressedFileThreadRunning = false"; "}";
   "if ( ! file -> m_uncompressedFile . good ( ) ) file -> m_uncompressedFileThreadRunning = false"; "}";
   "file -> m_readWriteQueue . setFileSize ( file -> m_readWriteQueue . tellp ( ) )";
   "} catch ( . . . ) {"; "file -> m_uncompressedFileThreadException = std :: current_exception ( )";
   "file -> m_readWriteQueue . setFileSize ( file -> m_readWriteQueue . tellp ( ) )"; "}"].
Definition w1_write_expected : list string :=
  ["try {"; "while ( file -> m_uncompressedFileThreadRunning ) {"; "file -> readWriteQueue2UncompressedFile ( )";
   "if ( ! file -> m_readWriteQueue . good ( ) ) file -> m_uncompressedFileThreadRunning = false"; "}";
   "file -> m_uncompressedFile . setFileSize ( file -> m_uncompressedFile . tellp ( ) )";
   "} catch ( . . . ) {"; "file -> m_uncompressedFileThreadException = std :: current_exception ( )"; "}"].
Definition w2_read_expected : list string :=
  ["try {"; "while ( file -> m_compressedFileThreadRunning ) {"; "try {"; "file -> compressedFile2UncompressedFile ( )";
   "} catch ( Vector :: BLF :: Exception & ) {"; "file -> m_compressedFileThreadRunning = false"; "}";
   "if ( ! file -> m_compressedFile . good ( ) ) file -> m_compressedFileThreadRunning = false"; "}";
   "file -> m_uncompressedFile . setFileSize ( file -> m_uncompressedFile . tellp ( ) )";
   "} catch ( . . . ) {"; "file -> m_compressedFileThreadException = std :: current_exception ( )";
   "file -> m_uncompressedFile . setFileSize ( file -> m_uncompressedFile . tellp ( ) )"; "}"].
Definition w2_write_expected : list string :=
  ["try {"; "while ( file -> m_compressedFileThreadRunning ) {"; "file -> uncompressedFile2CompressedFile ( )";
   "if ( ! file -> m_uncompressedFile . good ( ) ) file -> m_compressedFileThreadRunning = false"; "}";
   "} catch ( . . . ) {"; "file -> m_compressedFileThreadException = std :: current_exception ( )"; "}"].

(* ---- hand-over: nothing touches an object after it was given to the other side ---- *)
Definition no_use_after (handover var : string) (l : list string) : bool :=
  has handover l && forallb (fun st => negb (mentions var st)) (after handover l).

(* the writer deletes the object it took from the queue exactly once, as its last action *)
Definition deletes_last (l : list string) : bool :=
  match rev l with
  | last :: r => String.eqb last "delete ohb" && forallb (fun st => negb (mentions "delete" st)) r
  | [] => false
  end.

(* ---- configuration: queue capacity 10; the buffer is one container, also after setDefaultLogContainerSize ---- *)
Definition ctor_expected : list string :=
  ["m_readWriteQueue . setBufferSize ( 10 )";
   "m_uncompressedFile . setBufferSize ( m_uncompressedFile . defaultLogContainerSize ( ) )"].
Definition setdcs_expected : list string :=
  ["m_uncompressedFile . setDefaultLogContainerSize ( defaultLogContainerSize )";
   "if ( ! is_open ( ) ) m_uncompressedFile . setBufferSize ( defaultLogContainerSize )"].
(* (outside a session the buffer follows the container size; inside one it is never lowered: a worker may be waiting for a
   chunk of the previous size — UncompressedFile::read raises the buffer by itself for a larger chunk, C15_read_grows_buffer) *)

(* ---- worker 2 (write) asks for exactly one container and drops what it consumed ----
   The container size is read ONCE (repo fix: the application may change it at any moment — sizing the destination with one
   value and requesting another wrote past the end of the destination): one statement of the function mentions
   defaultLogContainerSize, and both the resize and the request use the local copy *)
Definition w2_step_ok (l : list string) : bool :=
  has "const uint32_t logContainerSize = m_uncompressedFile . defaultLogContainerSize ( )" l &&
  Nat.eqb (length (filter (mentions "defaultLogContainerSize") l)) 1 &&
  before "const uint32_t logContainerSize = m_uncompressedFile . defaultLogContainerSize ( )"
         "logContainer . uncompressedFile . resize ( logContainerSize )" l &&
  before "logContainer . uncompressedFile . resize ( logContainerSize )"
         "m_uncompressedFile . read ( reinterpret_cast < char * > ( logContainer . uncompressedFile . data ( ) ) , logContainerSize )" l &&
  has "LogContainer logContainer" l &&
  before "logContainer . write ( m_compressedFile )" "m_uncompressedFile . dropOldData ( )" l.

(* ---- worker 1 (read): the object is counted before and dropped after the hand-over; one container per call on the other side ---- *)
Definition w1_read_step_ok (l : list string) : bool :=
  no_use_after "m_readWriteQueue . write ( obj )" "obj" l &&
  before "obj -> read ( m_uncompressedFile )" "m_readWriteQueue . write ( obj )" l &&
  has "m_uncompressedFile . dropOldData ( )" (after "m_readWriteQueue . write ( obj )" l).
(* every path of the parser step that moves the get position forward releases what lies behind it: the branch for
   unknown types as well as the delivery path (else a run of unknown objects piles up in memory, C12) *)
Definition w1_every_path_drops (l : list string) : bool :=
  has "m_uncompressedFile . dropOldData ( )" (block "if ( obj == nullptr ) {" l) &&
  has "m_uncompressedFile . dropOldData ( )" (after "m_readWriteQueue . write ( obj )" l).

(* ---- no function of the write path keeps state between calls (function-local statics would make
        the output depend on earlier activity in the process and on other File objects) ---- *)
Definition no_static (l : list string) : bool := forallb (fun st => negb (mentions "static" st)) l.
Definition skipp_expected : list string :=
  ["std :: vector < char > zero"; "zero . resize ( s )"; "write ( zero . data ( ) , s )"].

(* ---- open(): once a worker thread has been started, open() does nothing but start the other one ----
   (a statement behind the thread creation that touches a member the workers also touch would race with them:
   the application thread is still inside open()) *)
Definition is_spawn (st : string) : bool := mentions "std" st && mentions "thread" st && mentions "=" st && (mentions "m_uncompressedFileThread" st || mentions "m_compressedFileThread" st).
Definition is_close_brace (st : string) : bool := match words st with w :: _ => String.eqb w "}" | [] => false end.
Definition opens_block (st : string) : bool := match rev (words st) with w :: _ => String.eqb w "{" | [] => false end.
(* depth: current block nesting; armed: a worker was started earlier in this straight-line stretch; seen: a worker was started
   somewhere before.  Rules: (1) behind a thread creation only further thread creations up to the end of the block;
   (2) once a worker may be running, no statement at the top level of the function (outside every block) *)
Fixpoint spawn_scan (l : list string) (depth : nat) (armed seen : bool) : bool :=
  match l with
  | [] => true
  | st :: r =>
      let closes := is_close_brace st in
      let d1 := if closes then pred depth else depth in
      let d2 := if opens_block st then S d1 else d1 in
      if is_spawn st then spawn_scan r d2 true true
      else if closes then spawn_scan r d2 false seen
      else if armed then false
      else if seen && Nat.eqb d1 0 then false
      else spawn_scan r d2 armed seen
  end.
Definition nothing_after_spawn (l : list string) : bool := spawn_scan l 0 false false.
(* in a branch of open() that starts workers, exactly both workers are started *)
Definition spawns (l : list string) : nat := length (filter is_spawn l).
