(* UFSpec.v — the reference byte queue of C15, written from the property text: ONE flat byte string
   (everything ever written, in order) and positions.  No containers, no chunking.  Definitions only.
   bq_step returns None when the call would block (the property speaks about non-blocking
   sequences) or when the history leaves what the property describes:
     - a read of n > 0 bytes that reaches beyond the bytes written (only possible after abort or
       with a declared end inside the unwritten region) or starts before the drop horizon (after
       a backward seek over data that dropOldData was allowed to discard);
     - a default container size outside 1 .. 2^32-1 (0 makes write() loop for ever). *)
From Coq Require Import List ZArith Bool.
From VB Require Import UFModel.
Import ListNotations.
Local Open Scope Z_scope.

Record bq := {
  q_buf : list Z;      (* every byte written so far, in order; the put position is its length *)
  q_g : Z;             (* get position *)
  q_F : Z;             (* declared end *)
  q_B : Z;             (* buffer size (flow control only; a larger read request raises it) *)
  q_gcount : Z;
  q_rd : Z;            (* 0 good, 6 eof|fail *)
  q_abort : bool;
  q_hor : Z;           (* bytes before this position may have been dropped *)
  q_dcs : Z            (* configuration: default container size — no effect on any result *)
}.
Definition q_p (q : bq) : Z := Z.of_nat (length (q_buf q)).

Definition bq_init : bq :=
  {| q_buf := []; q_g := 0; q_F := MAXSZ; q_B := MAXSZ; q_gcount := 0; q_rd := 0; q_abort := false; q_hor := 0; q_dcs := 131072 |}.

Definition bq_read_ok (q : bq) (n : Z) : bool := q_abort q || (n + q_g q <=? q_p q) || (q_F q <? n + q_g q).
Definition bq_write_ok (q : bq) : bool := q_abort q || (q_p q - q_g q <? q_B q).

Definition bq_step (q : bq) (o : uop) : option (bq * list Z) :=
  match o with
  | URead n =>
      if negb (bq_read_ok q n) then None else
      let beyond := q_F q <? n + q_g q in
      let n' := if beyond then q_F q - q_g q else n in
      if (0 <? n') && ((q_p q <? q_g q + n') || (q_g q <? q_hor q)) then None else
      Some ({| q_buf := q_buf q; q_g := q_g q + Z.max 0 n'; q_F := q_F q; q_B := if q_B q <? n then n else q_B q; q_gcount := Z.max 0 n';
               q_rd := if beyond then 6 else if 0 <? n then 0 else q_rd q;
               q_abort := q_abort q; q_hor := q_hor q; q_dcs := q_dcs q |},
            slice (q_g q) n' (q_buf q))
  | USeekg off =>
      Some ({| q_buf := q_buf q; q_g := Z.min (q_g q + off) (q_F q); q_F := q_F q; q_B := q_B q; q_gcount := q_gcount q;
               q_rd := q_rd q; q_abort := q_abort q; q_hor := q_hor q; q_dcs := q_dcs q |}, [])
  | UWrite bs =>
      if negb (bq_write_ok q) then None else
      let p' := q_p q + Z.of_nat (length bs) in
      Some ({| q_buf := q_buf q ++ bs; q_g := q_g q; q_F := if q_F q <=? p' then p' else q_F q; q_B := q_B q;
               q_gcount := q_gcount q; q_rd := q_rd q; q_abort := q_abort q; q_hor := q_hor q; q_dcs := q_dcs q |}, [])
  | UWriteC bs =>
      if negb (bq_write_ok q) then None else
      Some ({| q_buf := q_buf q ++ bs; q_g := q_g q; q_F := q_F q; q_B := q_B q;
               q_gcount := q_gcount q; q_rd := q_rd q; q_abort := q_abort q; q_hor := q_hor q; q_dcs := q_dcs q |}, [])
  | UNext => Some (q, [])
  | UDrop =>
      Some ({| q_buf := q_buf q; q_g := q_g q; q_F := q_F q; q_B := q_B q; q_gcount := q_gcount q; q_rd := q_rd q;
               q_abort := q_abort q; q_hor := Z.max (q_hor q) (Z.min (q_g q) (Z.min (q_p q) (q_F q))); q_dcs := q_dcs q |}, [])
  | USetFileSize n =>
      Some ({| q_buf := q_buf q; q_g := q_g q; q_F := n; q_B := q_B q; q_gcount := q_gcount q; q_rd := q_rd q;
               q_abort := q_abort q; q_hor := q_hor q; q_dcs := q_dcs q |}, [])
  | USetBufferSize n =>
      Some ({| q_buf := q_buf q; q_g := q_g q; q_F := q_F q; q_B := n; q_gcount := q_gcount q; q_rd := q_rd q;
               q_abort := q_abort q; q_hor := q_hor q; q_dcs := q_dcs q |}, [])
  | USetDcs n =>
      if (0 <? n) && (n <? 4294967296) then
        Some ({| q_buf := q_buf q; q_g := q_g q; q_F := q_F q; q_B := q_B q; q_gcount := q_gcount q; q_rd := q_rd q;
                 q_abort := q_abort q; q_hor := q_hor q; q_dcs := n |}, [])
      else None
  | UAbort =>
      Some ({| q_buf := q_buf q; q_g := q_g q; q_F := q_F q; q_B := q_B q; q_gcount := q_gcount q; q_rd := q_rd q;
               q_abort := true; q_hor := q_hor q; q_dcs := q_dcs q |}, [])
  end.

(* a whole history: the byte strings the reads deliver, one per call (empty for the other calls) *)
Fixpoint bq_run (q : bq) (ops : list uop) : option (bq * list (list Z)) :=
  match ops with
  | [] => Some (q, [])
  | o :: r => match bq_step q o with
              | Some (q', b) => match bq_run q' r with Some (q'', bs) => Some (q'', b :: bs) | None => None end
              | None => None end
  end.

(* the implementation model run the same way: every call must be enabled (not block) *)
Fixpoint uf_run (s : uf) (ops : list uop) : option (uf * list (list Z)) :=
  match ops with
  | [] => Some (s, [])
  | o :: r => if uenabled s o then
                match ustep s o with
                | Some (s', b) => match uf_run s' r with Some (s'', bs) => Some (s'', b :: bs) | None => None end
                | None => None end
              else None
  end.

(* what a caller can observe through the accessors *)
Definition uf_obs (s : uf) : Z * Z * Z * Z * Z * bool * bool :=
  (uf_tellg_val s, uf_tellp_val s, u_fsz s, u_gcount s, u_buf s, uf_good s, uf_eof s).
Definition bq_obs (q : bq) : Z * Z * Z * Z * Z * bool * bool :=
  (if Z.land (q_rd q) 5 =? 0 then q_g q else -1, if Z.land (q_rd q) 5 =? 0 then q_p q else -1, q_F q, q_gcount q, q_B q,
   q_rd q =? 0, negb (Z.land (q_rd q) 2 =? 0)).
