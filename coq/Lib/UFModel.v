(* UFModel.v — UncompressedFile, method by method as the C++ is written (container list, per-container
   offset arithmetic, the loops of read/write).  Hand-written; tied to the code by the `uf`
   correspondence harness (every accessor after every call) and, for the wait predicates and
   notifications, by Inst/SyncEq.v against the terms translated from the source.  Definitions only. *)
From Coq Require Import List ZArith Bool.
Import ListNotations.
Local Open Scope Z_scope.

Record cont := { c_pos : Z;             (* filePosition: offset of the first byte in the stream *)
                 c_data : list Z }.      (* uncompressedFile; uncompressedFileSize = its length *)
Definition c_size (c : cont) : Z := Z.of_nat (length (c_data c)).
Definition c_end (c : cont) : Z := c_pos c + c_size c.

Definition MAXSZ : Z := 9223372036854775807.   (* numeric_limits<streamsize>::max() *)

Record uf := {
  u_abort : bool;
  u_data : list cont;
  u_tellg : Z; u_tellp : Z; u_gcount : Z;
  u_fsz : Z;       (* m_fileSize: declared end of the stream *)
  u_buf : Z;       (* m_bufferSize *)
  u_rd : Z;        (* m_rdstate: 0 good, 6 eofbit|failbit *)
  u_dcs : Z        (* m_defaultLogContainerSize *)
}.

Definition uf_init : uf :=
  {| u_abort := false; u_data := []; u_tellg := 0; u_tellp := 0; u_gcount := 0;
     u_fsz := MAXSZ; u_buf := MAXSZ; u_rd := 0; u_dcs := 131072 |}.

Definition CVU_tellg : nat := 0%nat.
Definition CVU_tellp : nat := 1%nat.

(* logContainerContaining(pos): the FIRST container with filePosition <= pos < filePosition + size *)
Definition contains (pos : Z) (c : cont) : bool := (c_pos c <=? pos) && (pos <? c_end c).
Definition containing (d : list cont) (pos : Z) : option cont := find (contains pos) d.

(* ---- wait predicates ---- *)
Definition uf_read_guard (s : uf) (n : Z) : bool :=
  u_abort s || (n + u_tellg s <=? u_tellp s) || (u_fsz s <? n + u_tellg s).
Definition uf_write_guard (s : uf) : bool :=
  u_abort s || (u_tellp s - u_tellg s <? u_buf s).
Definition uf_writec_guard (s : uf) : bool :=
  u_abort s || (u_tellp s - u_tellg s <? u_buf s).

(* ---- read ---- *)
Definition slice (off len : Z) (l : list Z) : list Z := firstn (Z.to_nat len) (skipn (Z.to_nat off) l).

(* the copy loop: one iteration per container touched *)
Fixpoint read_loop (fuel : nat) (d : list cont) (tg n : Z) (acc : list Z) : Z * list Z :=
  match fuel with O => (tg, acc) | S fuel' =>
    if n <=? 0 then (tg, acc) else
    match containing d tg with
    | None => (tg, acc)
    | Some c =>
        let off := tg - c_pos c in
        let g := Z.min n (c_size c - off) in
        read_loop fuel' d (tg + g) (n - g) (acc ++ slice off g (c_data c))
    end end.

Definition uf_read (s : uf) (n : Z) : uf * list Z * list nat :=
  let beyond := u_fsz s <? n + u_tellg s in
  let n' := if beyond then u_fsz s - u_tellg s else n in
  let '(tg, bytes) := read_loop (S (length (u_data s))) (u_data s) (u_tellg s) n' [] in
  ({| u_abort := u_abort s; u_data := u_data s; u_tellg := tg; u_tellp := u_tellp s;
      u_gcount := tg - u_tellg s; u_fsz := u_fsz s;
      u_buf := if u_buf s <? n then n else u_buf s;      (* a request larger than the buffer grows the buffer (before waiting) *)
      u_rd := if beyond then 6 else if 0 <? n then 0 else u_rd s;      (* a zero-length read leaves the state as it was *)
      u_dcs := u_dcs s |}, bytes, [CVU_tellg; CVU_tellg]).

Definition uf_tellg_val (s : uf) : Z := if Z.land (u_rd s) 5 =? 0 then u_tellg s else -1.
Definition uf_tellp_val (s : uf) : Z := if Z.land (u_rd s) 5 =? 0 then u_tellp s else -1.
Definition uf_good (s : uf) : bool := u_rd s =? 0.
Definition uf_eof (s : uf) : bool := negb (Z.land (u_rd s) 2 =? 0).

Definition uf_seekg (s : uf) (off : Z) : uf * list nat :=
  ({| u_abort := u_abort s; u_data := u_data s; u_tellg := Z.min (u_tellg s + off) (u_fsz s); u_tellp := u_tellp s;
      u_gcount := u_gcount s; u_fsz := u_fsz s; u_buf := u_buf s; u_rd := u_rd s; u_dcs := u_dcs s |}, [CVU_tellg]).

(* ---- write(s, n) ---- *)
Definition splice (off : Z) (bs l : list Z) : list Z :=
  firstn (Z.to_nat off) l ++ bs ++ skipn (Z.to_nat off + length bs) l.

(* replace the first container that contains pos *)
Fixpoint update_containing (d : list cont) (pos : Z) (f : cont -> cont) : list cont :=
  match d with
  | [] => []
  | c :: r => if contains pos c then f c :: r else c :: update_containing r pos f
  end.

Definition new_cont (d : list cont) (tp dcs : Z) : cont :=
  {| c_pos := match d with [] => tp | _ => c_end (last d {| c_pos := 0; c_data := [] |}) end;
     c_data := repeat 0 (Z.to_nat dcs) |}.

Fixpoint write_loop (fuel : nat) (dcs : Z) (d : list cont) (tp : Z) (bs : list Z) : option (list cont * Z) :=
  match bs with [] => Some (d, tp) | _ =>
    match fuel with O => None | S fuel' =>
      match containing d tp with
      | Some c =>
          let off := tp - c_pos c in
          let p := Z.min (Z.of_nat (length bs)) (c_size c - off) in
          let now := firstn (Z.to_nat p) bs in
          write_loop fuel' dcs (update_containing d tp (fun c => {| c_pos := c_pos c; c_data := splice off now (c_data c) |}))
                     (tp + p) (skipn (Z.to_nat p) bs)
      | None =>
          (* append a default-sized container; it is used by the next iteration if it contains tp *)
          let c := new_cont d tp dcs in
          let d' := d ++ [c] in
          let off := tp - c_pos c in
          let p := Z.min (Z.of_nat (length bs)) (c_size c - off) in
          if off <? 0 then None      (* copy before the start of the new container: undefined behaviour *)
          else if 0 <? p then
            (* the C++ writes into the container it just appended, whether or not find_if would return it *)
            let now := firstn (Z.to_nat p) bs in
            write_loop fuel' dcs (d ++ [{| c_pos := c_pos c; c_data := splice off now (c_data c) |}]) (tp + p) (skipn (Z.to_nat p) bs)
          else write_loop fuel' dcs d' tp bs
      end end end.

(* iterations needed: one per container written into, plus the containers appended to reach tp *)
Definition write_fuel (s : uf) (n : Z) : nat :=
  S (S (length (u_data s))) + Z.to_nat ((n + Z.max 0 (u_tellp s)) / Z.max 1 (u_dcs s)) + 2.

Definition uf_write (s : uf) (bs : list Z) : option (uf * list nat) :=
  match write_loop (write_fuel s (Z.of_nat (length bs))) (u_dcs s) (u_data s) (u_tellp s) bs with
  | None => None      (* does not terminate: default container size 0 *)
  | Some (d, tp) =>
      Some ({| u_abort := u_abort s; u_data := d; u_tellg := u_tellg s; u_tellp := tp; u_gcount := u_gcount s;
               u_fsz := if u_fsz s <=? tp then tp else u_fsz s; u_buf := u_buf s; u_rd := u_rd s; u_dcs := u_dcs s |},
            [CVU_tellp])
  end.

(* ---- write(logContainer) ---- *)
(* a partly filled container is closed first (cut at the put position), as nextLogContainer does *)
Definition close_open (d : list cont) (tp : Z) : list cont :=
  match containing d tp with
  | Some c =>
      let off := tp - c_pos c in
      if 0 <? off then update_containing d tp (fun c => {| c_pos := c_pos c; c_data := firstn (Z.to_nat off) (c_data c) |})
      else d
  | None => d
  end.

Definition uf_writec (s : uf) (bs : list Z) : uf * list nat :=
  ({| u_abort := u_abort s; u_data := close_open (u_data s) (u_tellp s) ++ [{| c_pos := u_tellp s; c_data := bs |}];
      u_tellg := u_tellg s; u_tellp := u_tellp s + Z.of_nat (length bs); u_gcount := u_gcount s;
      u_fsz := u_fsz s; u_buf := u_buf s; u_rd := u_rd s; u_dcs := u_dcs s |}, [CVU_tellp]).

(* ---- nextLogContainer ---- *)
Definition uf_next (s : uf) : uf :=
  {| u_abort := u_abort s; u_data := close_open (u_data s) (u_tellp s);
     u_tellg := u_tellg s; u_tellp := u_tellp s; u_gcount := u_gcount s; u_fsz := u_fsz s; u_buf := u_buf s;
     u_rd := u_rd s; u_dcs := u_dcs s |}.

Definition uf_setFileSize (s : uf) (n : Z) : uf * list nat :=
  ({| u_abort := u_abort s; u_data := u_data s; u_tellg := u_tellg s; u_tellp := u_tellp s; u_gcount := u_gcount s;
      u_fsz := n; u_buf := u_buf s; u_rd := u_rd s; u_dcs := u_dcs s |}, [CVU_tellp]).
Definition uf_setBufferSize (s : uf) (n : Z) : uf :=
  {| u_abort := u_abort s; u_data := u_data s; u_tellg := u_tellg s; u_tellp := u_tellp s; u_gcount := u_gcount s;
     u_fsz := u_fsz s; u_buf := n; u_rd := u_rd s; u_dcs := u_dcs s |}.
Definition uf_setDcs (s : uf) (n : Z) : uf :=
  {| u_abort := u_abort s; u_data := u_data s; u_tellg := u_tellg s; u_tellp := u_tellp s; u_gcount := u_gcount s;
     u_fsz := u_fsz s; u_buf := u_buf s; u_rd := u_rd s; u_dcs := n mod 4294967296 |}.
Definition uf_abort (s : uf) : uf * list nat :=
  ({| u_abort := true; u_data := u_data s; u_tellg := u_tellg s; u_tellp := u_tellp s; u_gcount := u_gcount s;
      u_fsz := u_fsz s; u_buf := u_buf s; u_rd := u_rd s; u_dcs := u_dcs s |}, [CVU_tellg; CVU_tellp]).

(* ---- dropOldData: every front container that lies wholly behind tellg, tellp and the declared end ---- *)
Fixpoint drop_all (d : list cont) (tg tp fsz : Z) : list cont :=
  match d with
  | [] => []
  | c :: r => if (tg <? c_end c) || (tp <? c_end c) || (fsz <? c_end c) then d else drop_all r tg tp fsz
  end.

Definition uf_drop (s : uf) : uf :=
  {| u_abort := u_abort s; u_data := drop_all (u_data s) (u_tellg s) (u_tellp s) (u_fsz s);
     u_tellg := u_tellg s; u_tellp := u_tellp s; u_gcount := u_gcount s;
     u_fsz := u_fsz s; u_buf := u_buf s; u_rd := u_rd s; u_dcs := u_dcs s |}.

(* ---- the alphabet of the property ---- *)
Inductive uop :=
| URead (n : Z) | USeekg (off : Z) | UWrite (bs : list Z) | UWriteC (bs : list Z)
| UNext | UDrop | USetFileSize (n : Z) | USetBufferSize (n : Z) | USetDcs (n : Z) | UAbort.

Definition uenabled (s : uf) (o : uop) : bool :=
  match o with
  | URead n => uf_read_guard s n
  | UWrite _ => uf_write_guard s
  | UWriteC _ => uf_writec_guard s
  | _ => true
  end.

(* one call that does not block: new state and the bytes read() delivered *)
Definition ustep (s : uf) (o : uop) : option (uf * list Z) :=
  match o with
  | URead n => let '(s', b, _) := uf_read s n in Some (s', b)
  | USeekg off => Some (fst (uf_seekg s off), [])
  | UWrite bs => match uf_write s bs with Some (s', _) => Some (s', []) | None => None end
  | UWriteC bs => Some (fst (uf_writec s bs), [])
  | UNext => Some (uf_next s, [])
  | UDrop => Some (uf_drop s, [])
  | USetFileSize n => Some (fst (uf_setFileSize s n), [])
  | USetBufferSize n => Some (uf_setBufferSize s n, [])
  | USetDcs n => Some (uf_setDcs s n, [])
  | UAbort => Some (fst (uf_abort s), [])
  end.
