(* SpinFacts.v — Err ESpin ("the signature search of ObjectHeaderBase::read does not end") can only come from Sem.scan_loop:
   expression evaluation, member functions called from expressions and the call-depth bound never produce it.
   (Same induction as the EOOBWrite lemmas of SafeFacts.v.) *)
From VB Require Import Base IR Sem BaseFacts EvalFacts.
From Coq Require Import ZifyBool.
Local Open Scope Z_scope.

Ltac Zify.zify_post_hook ::= Z.div_mod_to_equations.

Section Spin.
Variable cs : classes.

Section WithCall.
Variable call : target -> mid -> state -> res (Z * ity).

Lemma eval_bin_no_spin o x y : eval_bin o x y <> Err ESpin.
Proof.
  destruct x as [a ta], y as [b tb]. unfold eval_bin, arith.
  destruct o; repeat match goal with |- context [if ?c then _ else _] => destruct c end; discriminate.
Qed.
Lemma eval_un_no_spin o x : eval_un o x <> Err ESpin.
Proof.
  destruct x as [a ta]. unfold eval_un, arith.
  destruct o; repeat match goal with |- context [if ?c then _ else _] => destruct c end; discriminate.
Qed.

Lemma eval_no_spin e : (forall tg m s, call tg m s <> Err ESpin) ->
  forall s l, eval cs call s l e <> Err ESpin.
Proof.
  intros Hcall.
  induction e as [z t|f|f|f|n|x|o a IHa|o a IHa b IHb|c IHc a IHa b IHb|t a IHa|tg m];
    intros s l; cbn [eval].
  - discriminate.
  - destruct (find_field cs f) as [x|]; [|discriminate]. destruct (s f); try discriminate.
    destruct (f_kind x); discriminate.
  - destruct (find_field cs f) as [x|]; [|discriminate]. destruct (s f); discriminate.
  - destruct (find_field cs f) as [x|]; [|discriminate]. destruct (ksize (f_kind x)); discriminate.
  - discriminate.
  - destruct (l x); discriminate.
  - specialize (IHa s l). destruct (eval cs call s l a); cbn [bind]; [apply eval_un_no_spin|exact IHa].
  - specialize (IHa s l). specialize (IHb s l).
    destruct o;
      try (destruct (eval cs call s l a); cbn [bind]; [|exact IHa];
           destruct (eval cs call s l b); cbn [bind]; [apply eval_bin_no_spin|exact IHb]).
    + destruct (eval cs call s l a) as [xa|]; cbn [bind]; [|exact IHa].
      destruct (fst xa =? 0); [discriminate|]. destruct (eval cs call s l b); cbn [bind]; [discriminate|exact IHb].
    + destruct (eval cs call s l a) as [xa|]; cbn [bind]; [|exact IHa].
      destruct (fst xa =? 0); [|discriminate]. destruct (eval cs call s l b); cbn [bind]; [discriminate|exact IHb].
  - specialize (IHc s l). destruct (eval cs call s l c) as [xc|]; cbn [bind]; [|exact IHc].
    destruct (fst xc =? 0); [apply IHb|apply IHa].
  - specialize (IHa s l). destruct (eval cs call s l a); cbn [bind]; [discriminate|exact IHa].
  - apply Hcall.
Qed.


End WithCall.

Ltac errne H := cbn [bind]; let E := fresh in intros E; apply H; injection E as ->; reflexivity.

Lemma run_f_no_spin call : (forall tg m s, call tg m s <> Err ESpin) ->
  forall p s l, run_f cs call p s l <> Err ESpin.
Proof.
  intros Hcall. induction p; intros s l; cbn [run_f]; try discriminate.
  - apply eval_no_spin. exact Hcall.
  - unfold eval_as. pose proof (eval_no_spin call e Hcall s l) as He.
    destruct (eval cs call s l e); cbn [bind]; [apply IHp|errne He].
  - destruct (l x) as [[v t]|]; [|discriminate].
    unfold eval_as. pose proof (eval_no_spin call e Hcall s l) as He.
    destruct (eval cs call s l e); cbn [bind]; [apply IHp|errne He].
  - pose proof (eval_no_spin call c Hcall s l) as He.
    destruct (eval cs call s l c) as [x|]; cbn [bind]; [|errne He].
    destruct (fst x =? 0); [apply IHp2|apply IHp1].
Qed.

Lemma call_n_no_spin n : forall dyn tg m s, call_n cs n dyn tg m s <> Err ESpin.
Proof.
  induction n as [|n IH]; intros dyn tg m s; cbn [call_n]; [discriminate|].
  assert (G : forall c dyn' s',
             match resolve cs depth c m with
             | Some md =>
                 match m_ret md with
                 | Some t => do v <- run_f cs (call_n cs n dyn') (compile cs (m_body md) PUnsupported PUnsupported) s' no_locals;
                             Ok (norm t (fst v), t)
                 | None => Err EType end
             | None => Err EUnsupported
             end <> Err ESpin).
  { intros c dyn' s'. destruct (resolve cs depth c m) as [md|]; [|discriminate].
    destruct (m_ret md); [|discriminate].
    pose proof (run_f_no_spin (call_n cs n dyn') (IH dyn') (compile cs (m_body md) PUnsupported PUnsupported) s' no_locals) as H.
    destruct (run_f cs (call_n cs n dyn') _ s' no_locals); cbn [bind]; [discriminate|errne H]. }
  destruct tg; apply G.
Qed.

Lemma callf_no_spin c : forall tg m s, callf cs c tg m s <> Err ESpin.
Proof. intros. apply call_n_no_spin. Qed.
Lemma eval_as_no_spin call t s l e : (forall tg m s, call tg m s <> Err ESpin) -> eval_as cs call t s l e <> Err ESpin.
Proof. intros Hcall. unfold eval_as. pose proof (eval_no_spin call e Hcall s l) as H. destruct (eval cs call s l e); cbn [bind]; [discriminate|errne H]. Qed.

End Spin.
