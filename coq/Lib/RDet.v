(* RDet.v — C07, the read half: what read() returns does not depend on the interleaving.
   The read session model is Lib/RPipe.v (application, parser worker W1 running an arbitrary reader
   program, inflating worker W2).  `seq p U tg` is the schedule-free meaning of a reader program over
   the complete uncompressed stream U: the objects it hands over, in order.
   Theorem (read_determinate): in EVERY reachable state of EVERY interleaving, with any queue capacity and
   buffer size, the objects read() has returned so far are a prefix of `seq p U 0`, and once read() has
   returned nullptr they are all of it.  Corollary (read_complete): a finished session whose application
   called read() more often than there are objects received exactly `seq p U 0`, then nullptr.
   Hypothesis wf_prog: the reader's relative seeks stay inside the stream (0 <= target <= |U|) and its
   requests are non-negative — true of the library's parser on well-formed files (it seeks back over the
   16-byte header it peeked and forward over padding); without it a seek past the end is clamped or not
   depending on whether the end was already declared (timing), which only a malformed file can provoke.
   Proofs only. *)
From Coq Require Import List ZArith Bool Lia.
From VB Require Import Base BaseFacts RPipe.
Import ListNotations.
Local Open Scope Z_scope.

Section Det.
Variable U : list Z.            (* the complete uncompressed stream *)

Fixpoint seq (p : rprog) (tg : Z) : list Z :=
  match p with
  | RRead n k => let bytes := ztake n (zdrop tg U) in seq (k bytes (negb (zlen U <? n + tg))) (tg + zlen bytes)
  | RSeek off k => seq k (tg + off)
  | RDeliver o k => o :: seq k tg
  | RDrop k => seq k tg
  | REnd => []
  end.

Fixpoint wf_prog (p : rprog) (tg : Z) : Prop :=
  match p with
  | RRead n k => 0 <= n /\ let bytes := ztake n (zdrop tg U) in wf_prog (k bytes (negb (zlen U <? n + tg))) (tg + zlen bytes)
  | RSeek off k => 0 <= tg + off <= zlen U /\ wf_prog k (tg + off)
  | RDeliver _ k => wf_prog k tg
  | RDrop k => wf_prog k tg
  | REnd => True
  end.

Definition future (s : rs) : list Z :=
  match w1 s with W1Run p => seq p (tg s) | W1Wait n k => seq (RRead n k) (tg s) | _ => [] end.
Definition wf_w1 (s : rs) : Prop :=
  match w1 s with W1Run p => wf_prog p (tg s) | W1Wait n k => wf_prog (RRead n k) (tg s) | _ => True end.
Definition rest2 (s : rs) : list Z :=
  match w2 s with W2Next r => concat r | W2Write c r => c ++ concat r | _ => [] end.

(* while the application has not started close(): nothing is aborted, the stream holds a prefix of U and
   worker 2 the rest, and what worker 1 has handed over plus what it will hand over is seq p U 0 *)
Definition Live (p0 : rprog) (s : rs) : Prop :=
  u_abort s = false /\ q_abort s = false /\ run2 s = true /\
  udata s ++ rest2 s = U /\ (u_eof s = true -> udata s = U) /\
  0 <= tg s /\ wf_w1 s /\
  made s ++ future s = seq p0 0 /\
  made s = somes (got s) ++ q s /\
  (q_eof s = true -> w1 s = W1Done).

Definition is_reading (p : apc) : bool := match p with ARead _ => true | _ => false end.

Definition Det (p0 : rprog) (k0 : nat) (s : rs) : Prop :=
  (exists rest, seq p0 0 = somes (got s) ++ rest) /\
  (In None (got s) -> somes (got s) = seq p0 0) /\
  (is_reading (a_pc s) = true -> Live p0 s) /\
  match a_pc s with ARead j => (length (got s) + j = k0)%nat | _ => length (got s) = k0 end.

Lemma read_prefix (a b : list Z) tg n : 0 <= tg -> 0 <= n -> n + tg <= zlen a ->
  ztake n (zdrop tg (a ++ b)) = ztake n (zdrop tg a).
Proof.
  intros H0 Hn H. unfold ztake, zdrop, zlen in *. rewrite skipn_app.
  replace (Z.to_nat tg - length a)%nat with 0%nat by lia. cbn [skipn].
  rewrite firstn_app. replace (Z.to_nat n - length (skipn (Z.to_nat tg) a))%nat with 0%nat by (rewrite skipn_length; lia).
  cbn [firstn]. apply app_nil_r.
Qed.

Lemma somes_snoc_some l o : somes (l ++ [Some o]) = somes l ++ [o].
Proof. rewrite somes_app. reflexivity. Qed.
Lemma somes_snoc_none l : somes (l ++ [None]) = somes l.
Proof. rewrite somes_app. cbn. apply app_nil_r. Qed.

Variables cap buf : Z.

Lemma det_init c p k : concat c = U -> wf_prog p 0 -> Det p k (init buf c p k).
Proof.
  intros HU Hwf. unfold Det, init; cbn. split; [exists (seq p 0); reflexivity|]. split; [intros []|]. split; [|lia].
  intros _. unfold Live, future, wf_w1, rest2; cbn. repeat split; auto; try lia; intros C; discriminate.
Qed.

Lemma det_step p0 k0 : forall s t s', Det p0 k0 s -> step cap t s = Some s' -> Det p0 k0 s'.
Proof.
  intros s t s' (G1 & G2 & GL & GK) H.
  destruct t; cbn [step] in H.
  - (* application *)
    unfold step_A in H. destruct (a_pc s) as [[|j]|i|] eqn:EA.
    + (* last read done: close() begins; nothing returned changes any more *)
      inversion H; subst; clear H. unfold Det, upd_a; cbn. repeat split; auto; try lia; try discriminate; try (intros C; discriminate).
    + specialize (GL eq_refl). destruct GL as (L1 & L2 & L3 & L4 & L5 & L6 & L7 & L8 & L9 & L10).
      destruct (q s) as [|o r] eqn:EQ.
      * destruct (q_eof s || q_abort s) eqn:EG; [|discriminate]. inversion H; subst; clear H.
        rewrite L2, orb_false_r in EG. specialize (L10 EG).
        assert (Hall : somes (got s) = seq p0 0).
        { rewrite <- L8, L9. unfold future. rewrite L10. rewrite !app_nil_r. reflexivity. }
        unfold Det, upd_a; cbn. rewrite somes_snoc_none. split; [exists []; rewrite app_nil_r; symmetry; exact Hall|].
        split; [intros _; exact Hall|]. split; [|rewrite app_length; cbn; lia].
        intros _. unfold Live, future, wf_w1, rest2 in *; cbn. rewrite somes_snoc_none, ?EQ. repeat split; auto.
      * inversion H; subst; clear H.
        assert (Hseq : seq p0 0 = (somes (got s) ++ [o]) ++ r ++ future s).
        { rewrite <- L8, L9. rewrite <- !app_assoc. reflexivity. }
        unfold Det; cbn. rewrite somes_snoc_some. split; [eexists; exact Hseq|]. split.
        { intros Hin. apply in_app_or in Hin. destruct Hin as [Hin|[C|[]]]; [|discriminate].
          exfalso. specialize (G2 Hin). rewrite G2 in Hseq.
          apply (f_equal (@length Z)) in Hseq. rewrite !app_length in Hseq. cbn in Hseq. lia. }
        split; [|rewrite app_length; cbn; lia].
        intros _. unfold Live, future, wf_w1, rest2 in *; cbn. rewrite somes_snoc_some. repeat split; auto.
        rewrite L9. rewrite <- app_assoc. reflexivity.
    + (* inside close(): got is frozen *)
      destruct i as [|[|[|[|[|[|[|i]]]]]]]; try discriminate; cbn in H.
      * inversion H; subst; clear H. unfold Det; cbn. repeat split; auto; try discriminate; try (intros C; discriminate).
      * inversion H; subst; clear H. unfold Det, upd_a; cbn. repeat split; auto; try discriminate; try (intros C; discriminate).
      * inversion H; subst; clear H. unfold Det; cbn. repeat split; auto; try discriminate; try (intros C; discriminate).
      * inversion H; subst; clear H. unfold Det; cbn. repeat split; auto; try discriminate; try (intros C; discriminate).
      * destruct (w2 s); try discriminate. inversion H; subst; clear H. unfold Det, upd_a; cbn. repeat split; auto; try discriminate; try (intros C; discriminate).
      * destruct (w1 s); try discriminate. inversion H; subst; clear H. unfold Det, upd_a; cbn. repeat split; auto; try discriminate; try (intros C; discriminate).
      * inversion H; subst; clear H. unfold Det; cbn. repeat split; auto; try discriminate; try (intros C; discriminate).
    + discriminate.
  - (* worker 1 *)
    assert (Hgot : forall s'', got s'' = got s -> a_pc s'' = a_pc s -> (is_reading (a_pc s) = true -> Live p0 s'') -> Det p0 k0 s'').
    { intros s'' E1 E2 HL. unfold Det. rewrite E1, E2. split; [exact G1|]. split; [exact G2|]. split; [exact HL|exact GK]. }
    unfold step_W1 in H. destruct (w1 s) as [[n k|off k|o k|k|]|n k| |] eqn:E1.
    + inversion H; subst; clear H. apply Hgot; cbn; auto. intros R. specialize (GL R).
      destruct GL as (L1 & L2 & L3 & L4 & L5 & L6 & L7 & L8 & L9 & L10).
      unfold Live, future, wf_w1, rest2 in *; cbn. rewrite E1 in *. cbn [wf_prog] in L7. destruct L7 as [Hn Hw].
      repeat split; auto; try lia; try (intros C; specialize (L10 C); discriminate).
    + inversion H; subst; clear H. apply Hgot; cbn; auto. intros R. specialize (GL R).
      destruct GL as (L1 & L2 & L3 & L4 & L5 & L6 & L7 & L8 & L9 & L10).
      unfold Live, future, wf_w1, rest2 in *; cbn. rewrite E1 in *. cbn [wf_prog seq] in *. destruct L7 as [Hs Hw].
      assert (Etg : (if u_eof s then Z.min (tg s + off) (zlen (udata s)) else tg s + off) = tg s + off).
      { destruct (u_eof s) eqn:Ee; [|reflexivity]. rewrite (L5 eq_refl). lia. }
      rewrite Etg. repeat split; auto; try lia; try (intros C; specialize (L10 C); discriminate).
    + destruct (q_abort s || (zlen (q s) <? cap)); [|discriminate]. inversion H; subst; clear H. apply Hgot; cbn; auto. intros R. specialize (GL R).
      destruct GL as (L1 & L2 & L3 & L4 & L5 & L6 & L7 & L8 & L9 & L10).
      unfold Live, future, wf_w1, rest2 in *; cbn. rewrite E1 in *. cbn [wf_prog seq] in *. repeat split; auto.
      * rewrite <- app_assoc. exact L8.
      * rewrite L9. rewrite <- app_assoc. reflexivity.
      * intros C. specialize (L10 C). discriminate.
    + inversion H; subst; clear H. apply Hgot; cbn; auto. intros R. specialize (GL R).
      destruct GL as (L1 & L2 & L3 & L4 & L5 & L6 & L7 & L8 & L9 & L10).
      unfold Live, future, wf_w1, rest2 in *; cbn. rewrite E1 in *. cbn [wf_prog seq] in *. repeat split; auto; try lia; try (intros C; specialize (L10 C); discriminate).
    + inversion H; subst; clear H. apply Hgot; cbn; auto. intros R. specialize (GL R).
      destruct GL as (L1 & L2 & L3 & L4 & L5 & L6 & L7 & L8 & L9 & L10).
      unfold Live, future, wf_w1, rest2, upd_w1 in *; cbn. rewrite E1 in *. cbn [seq] in *. repeat split; auto; try lia; try (intros C; specialize (L10 C); discriminate).
    + (* the read itself: the bytes are those of U, whether or not the end is declared yet *)
      destruct (u_abort s || (n + tg s <=? zlen (udata s)) || u_eof s) eqn:G; [|discriminate]. inversion H; subst; clear H. apply Hgot; cbn; auto. intros R. specialize (GL R).
      destruct GL as (L1 & L2 & L3 & L4 & L5 & L6 & L7 & L8 & L9 & L10).
      unfold Live, future, wf_w1, rest2 in *; cbn. rewrite E1 in *. cbn [wf_prog seq] in *. destruct L7 as [Hn Hw].
      rewrite L1 in G. cbn [orb] in G.
      assert (Eb : ztake n (zdrop (tg s) (udata s)) = ztake n (zdrop (tg s) U) /\
                   (u_eof s && (zlen (udata s) <? n + tg s)) = (zlen U <? n + tg s)).
      { destruct (u_eof s) eqn:Ee.
        - rewrite (L5 eq_refl). split; reflexivity.
        - rewrite orb_false_r in G. apply Z.leb_le in G. split.
          + rewrite <- L4. symmetry. apply read_prefix; lia.
          + cbn. symmetry. apply Z.ltb_ge. rewrite <- L4, zlen_app. match goal with |- _ <= _ + zlen ?x => pose proof (zlen_nonneg x) end. lia. }
      destruct Eb as [Eb1 Eb2]. rewrite Eb1, Eb2.
      pose proof (zlen_nonneg (ztake n (zdrop (tg s) U))).
      repeat split; auto; try lia; try (intros C; specialize (L10 C); discriminate).
    + inversion H; subst; clear H. apply Hgot; cbn; auto. intros R. specialize (GL R).
      destruct GL as (L1 & L2 & L3 & L4 & L5 & L6 & L7 & L8 & L9 & L10).
      unfold Live, future, wf_w1, rest2 in *; cbn. rewrite E1 in *. repeat split; auto.
    + discriminate.
  - (* worker 2 *)
    assert (Hgot : forall s'', got s'' = got s -> a_pc s'' = a_pc s -> (is_reading (a_pc s) = true -> Live p0 s'') -> Det p0 k0 s'').
    { intros s'' E1 E2 HL. unfold Det. rewrite E1, E2. split; [exact G1|]. split; [exact G2|]. split; [exact HL|exact GK]. }
    unfold step_W2 in H. destruct (w2 s) as [[|c r]|c r| |] eqn:E2.
    + inversion H; subst; clear H. apply Hgot; cbn; auto. intros R. specialize (GL R).
      destruct GL as (L1 & L2 & L3 & L4 & L5 & L6 & L7 & L8 & L9 & L10).
      unfold Live, future, wf_w1, rest2, upd_w2 in *; cbn. rewrite E2 in *. repeat split; auto.
    + destruct (run2 s) eqn:ER; inversion H; subst; clear H; apply Hgot; cbn; auto; intros R; specialize (GL R);
        destruct GL as (L1 & L2 & L3 & L4 & L5 & L6 & L7 & L8 & L9 & L10); [|congruence].
      unfold Live, future, wf_w1, rest2, upd_w2 in *; cbn. rewrite E2 in *. cbn [concat] in *. repeat split; auto.
    + destruct (u_abort s || (fill s <? bufsz s)); [|discriminate]. inversion H; subst; clear H. apply Hgot; cbn; auto. intros R. specialize (GL R).
      destruct GL as (L1 & L2 & L3 & L4 & L5 & L6 & L7 & L8 & L9 & L10).
      unfold Live, future, wf_w1, rest2 in *; cbn. rewrite E2 in *. repeat split; auto.
      * rewrite <- app_assoc. exact L4.
      * intros C. specialize (L5 C). rewrite L5 in L4. rewrite <- (app_nil_r U) in L4 at 2. apply app_inv_head in L4.
        apply app_eq_nil in L4. destruct L4 as [-> _]. rewrite app_nil_r. exact L5.
    + inversion H; subst; clear H. apply Hgot; cbn; auto. intros R. specialize (GL R).
      destruct GL as (L1 & L2 & L3 & L4 & L5 & L6 & L7 & L8 & L9 & L10).
      unfold Live, future, wf_w1, rest2 in *; cbn. rewrite E2 in *. repeat split; auto. intros _. rewrite app_nil_r in L4. exact L4.
    + discriminate.
Qed.

Lemma det_reach : forall c p k s, concat c = U -> wf_prog p 0 -> reach cap buf c p k s -> Det p k s.
Proof. intros c p k s HU Hwf R. induction R as [|s t s' R IH H]; [apply det_init; assumption|eapply det_step; eauto]. Qed.

Theorem read_determinate : forall c p k s, concat c = U -> wf_prog p 0 -> reach cap buf c p k s ->
  (exists rest, seq p 0 = somes (got s) ++ rest) /\ (In None (got s) -> somes (got s) = seq p 0).
Proof.
  intros c p k s HU Hwf R.
  destruct (det_reach c p k s HU Hwf R) as (A & B & _). split; assumption.
Qed.

Lemma none_or_all (l : list (option Z)) : In None l \/ length (somes l) = length l.
Proof.
  induction l as [|[x|] l IH]; cbn.
  - right. reflexivity.
  - destruct IH as [IH|IH]; [left; right; exact IH|right; f_equal; exact IH].
  - left. left. reflexivity.
Qed.

(* a finished session whose application called read() more often than there are objects: it received
   exactly the objects of the schedule-free meaning, in order, each once — and nullptr after them *)
Theorem read_complete : forall c p k s, concat c = U -> wf_prog p 0 -> reach cap buf c p k s ->
  a_pc s = ADone -> (length (seq p 0) < k)%nat -> somes (got s) = seq p 0 /\ In None (got s).
Proof.
  intros c p k s HU Hwf R HD Hk.
  destruct (det_reach c p k s HU Hwf R) as ((rest & A) & B & _ & K). rewrite HD in K.
  assert (Hnone : In None (got s)).
  { destruct (none_or_all (got s)) as [I|E]; [exact I|].
    exfalso. apply (f_equal (@length Z)) in A. rewrite app_length in A. lia. }
  split; [exact (B Hnone)|exact Hnone].
Qed.

End Det.

(* ---------- non-vacuity: a parser-like reader (peek a length byte, seek back, read the object, deliver its
   second byte, drop) over a stream of two objects cut across two containers ---------- *)
Fixpoint ex_parser (fuel : nat) : rprog :=
  match fuel with O => REnd | S f =>
    RRead 1 (fun b g => if g then match b with
                                   | [len] => RSeek (-1) (RRead len (fun b' g' => if g' then RDeliver (nth 1 b' 0) (RDrop (ex_parser f)) else REnd))
                                   | _ => REnd end
                        else REnd) end.
Definition ex_conts : list (list Z) := [[2; 7; 3]; [8; 8]].
Example ex_wf : wf_prog (concat ex_conts) (ex_parser 5) 0.
Proof. vm_compute. repeat split; intros C; discriminate C. Qed.
Example ex_seq : seq (concat ex_conts) (ex_parser 5) 0 = [7; 8].
Proof. reflexivity. Qed.
Example ex_session :
  let s := run_sched 1 80 (init 2 ex_conts (ex_parser 5) 4) in
  a_pc s = ADone /\ got s = [Some 7; Some 8; None; None].
Proof. vm_compute. split; reflexivity. Qed.
