(* CallFacts.v — calls in expressions (calculateObjectSize & co) never read a container out of bounds. *)
From VB Require Import Base IR Sem BaseFacts EvalFacts.
Local Open Scope Z_scope.
Set Default Proof Using "Type".

Section CF.
Variable cs : classes.

Ltac errne H := cbn [bind]; let E := fresh in intros E; apply H; injection E as ->; reflexivity.

Lemma run_f_no_oob call : (forall tg m s, call tg m s <> Err EOOBRead) ->
  forall p s l, run_f cs call p s l <> Err EOOBRead.
Proof.
  intros Hcall. induction p; intros s l; cbn [run_f]; try discriminate.
  - apply eval_no_oob. exact Hcall.
  - unfold eval_as. pose proof (eval_no_oob cs call e Hcall s l) as He.
    destruct (eval cs call s l e); cbn [bind]; [apply IHp|errne He].
  - destruct (l x) as [[v t]|]; [|discriminate].
    unfold eval_as. pose proof (eval_no_oob cs call e Hcall s l) as He.
    destruct (eval cs call s l e); cbn [bind]; [apply IHp|errne He].
  - pose proof (eval_no_oob cs call c Hcall s l) as He.
    destruct (eval cs call s l c) as [x|]; cbn [bind]; [|errne He].
    destruct (fst x =? 0); [apply IHp2|apply IHp1].
Qed.

Lemma call_n_no_oob n : forall dyn tg m s, call_n cs n dyn tg m s <> Err EOOBRead.
Proof.
  induction n as [|n IH]; intros dyn tg m s; cbn [call_n]; [discriminate|].
  assert (G : forall c dyn' s',
             match resolve cs depth c m with
             | Some md =>
                 match m_ret md with
                 | Some t => do v <- run_f cs (call_n cs n dyn') (compile cs (m_body md) PUnsupported PUnsupported) s' no_locals;
                             Ok (norm t (fst v), t)
                 | None => Err EType end
             | None => Err EUnsupported
             end <> Err EOOBRead).
  { intros c dyn' s'. destruct (resolve cs depth c m) as [md|]; [|discriminate].
    destruct (m_ret md); [|discriminate].
    pose proof (run_f_no_oob (call_n cs n dyn') (IH dyn') (compile cs (m_body md) PUnsupported PUnsupported) s' no_locals) as H.
    destruct (run_f cs (call_n cs n dyn') _ s' no_locals); cbn [bind]; [discriminate|errne H]. }
  destruct tg; apply G.
Qed.

Lemma callf_no_oob c : forall tg m s, callf cs c tg m s <> Err EOOBRead.
Proof. intros. apply call_n_no_oob. Qed.

End CF.
