(* PrefixRT.v — C08, reader side at the level of the uncompressed stream: running a read program on a stream that was
   cut off gives — as long as the stream is still good afterwards — exactly what it gives on the complete stream.
   Part 1: what a read returns, in terms of the data and the position; the relation between a cut stream and the complete
   one.  Proofs only. *)
From VB Require Import Base IR Sem BaseFacts StreamFacts TermFacts StreamLevel.
From Coq Require Import ZifyBool.
Local Open Scope Z_scope.
Ltac Zify.zify_post_hook ::= Z.div_mod_to_equations.

Lemma read_prefix (a b : list Z) tg n : 0 <= tg -> 0 <= n -> n + tg <= zlen a ->
  ztake n (zdrop tg (a ++ b)) = ztake n (zdrop tg a).
Proof.
  intros H0 Hn H. unfold ztake, zdrop, zlen in *. rewrite skipn_app.
  replace (Z.to_nat tg - length a)%nat with 0%nat by lia. cbn [skipn].
  rewrite firstn_app. replace (Z.to_nat n - length (skipn (Z.to_nat tg) a))%nat with 0%nat by (rewrite skipn_length; lia).
  cbn [firstn]. apply app_nil_r.
Qed.

Lemma wstream_after i : wstream i -> 0 <= s_pos i -> s_after i = zdrop (s_pos i) (s_data i).
Proof.
  intros (H1 & H2 & H3 & H4 & H5) Hp. unfold s_data. rewrite rev_append_rev.
  symmetry. apply zdrop_app_len. rewrite zlen_rev. lia.
Qed.

(* the bytes a read delivers: the next rd_len bytes of the data *)
Lemma got_spec n i : wstream i -> 0 <= s_pos i -> fst (s_read n i) = ztake (rd_len i n) (zdrop (s_pos i) (s_data i)).
Proof.
  intros W Hp. rewrite <- (wstream_after i W Hp). destruct W as (H1 & H2 & H3 & H4 & H5).
  unfold s_read, rd_len. rewrite H1.
  set (n' := if s_size i <? n + s_pos i then s_size i - s_pos i else n).
  destruct ((n' <=? 0) || (s_pos i <? 0)) eqn:E; cbn [fst]; [reflexivity|].
  rewrite zip_take_spec. cbn [fst]. reflexivity.
Qed.

(* a cut stream j' and the complete stream j at the same position: the data of j is the data of j' followed by X *)
Definition ext (X : list Z) (j' j : istream) : Prop :=
  wstream j' /\ wstream j /\ s_data j = s_data j' ++ X /\ s_pos j = s_pos j' /\ s_size j = s_size j' + zlen X /\
  s_good j = s_good j' /\ s_eof j = s_eof j'.

Lemma ws_data_len i : wstream i -> zlen (s_data i) = s_size i.
Proof. intros (H1 & H2 & H3 & H4 & H5). unfold s_data. rewrite rev_append_rev, zlen_app, zlen_rev. lia. Qed.

(* a read that the cut stream can serve completely: same bytes, still related *)
Lemma ext_read X n j' j : ext X j' j -> 0 <= s_pos j' -> rd_short j' n = false ->
  fst (s_read n j) = fst (s_read n j') /\ ext X (snd (s_read n j')) (snd (s_read n j)) /\ 0 <= s_pos (snd (s_read n j')).
Proof.
  intros (W' & W & D & P & S & G & E) Hp Hs.
  pose proof (zlen_nonneg X) as HX.
  assert (Hs2 : rd_short j n = false) by (unfold rd_short in *; lia).
  assert (HL : rd_len j n = rd_len j' n) by (unfold rd_len, rd_short in *; rewrite P, S; replace (s_size j' + zlen X <? n + s_pos j') with false by lia; rewrite Hs; reflexivity).
  pose proof (rd_len_nonneg j' n) as HLn.
  assert (HLle : s_pos j' + rd_len j' n <= s_size j').
  { unfold rd_len, rd_short in *. rewrite Hs. destruct ((n <=? 0) || (s_pos j' <? 0)) eqn:E0; [destruct W' as (_ & _ & _ & _ & X5); lia|lia]. }
  split.
  - rewrite (got_spec n j W) by lia. rewrite (got_spec n j' W' Hp). rewrite HL, P, D.
    apply read_prefix; [lia|lia|]. rewrite (ws_data_len j' W'). lia.
  - pose proof (ws_read n j' W') as R'. pose proof (ws_read n j W) as R.
    pose proof (s_read_data n j') as D'. pose proof (s_read_data n j) as D2.
    destruct (s_read n j') as [g' k']. destruct (s_read n j) as [g k]. cbn [snd] in *.
    destruct R' as (A1 & A2 & A3 & _ & A5 & A6). destruct R as (B1 & B2 & B3 & _ & B5 & B6).
    split; [|rewrite A3; lia]. unfold ext. split; [exact A1|]. split; [exact B1|]. split; [rewrite D2, D', D; reflexivity|].
    split; [rewrite A3, B3, HL, P; reflexivity|]. split; [rewrite A2, B2; exact S|].
    split; [rewrite A5, B5, Hs, Hs2, G; reflexivity|rewrite A6, B6, Hs, Hs2, E; reflexivity].
Qed.

(* ================= Part 2: a stream that has hit its end stays dead; simulation of a cut stream by the complete one ============ *)
Ltac errne H := cbn [bind]; let E := fresh in intros E; apply H; injection E as ->; reflexivity.

(* at the end, with the failure recorded *)
Definition dead (i : istream) : Prop := wstream i /\ 0 <= s_pos i /\ s_pos i = s_size i /\ s_good i = false.

Lemma read_nonpos n i : wstream i -> n <= 0 ->
  let '(got, i') := s_read n i in
  got = [] /\ wstream i' /\ s_pos i' = s_pos i /\ s_size i' = s_size i /\ s_good i' = s_good i /\ s_eof i' = s_eof i.
Proof.
  intros W Hn. pose proof (ws_read n i W) as R. destruct (s_read n i) as [got i']. destruct R as (A & B & C & D & E & F).
  assert (Hle : s_pos i <= s_size i) by (destruct W as (_ & _ & _ & _ & X); exact X).
  assert (Hs : rd_short i n = false) by (unfold rd_short; lia).
  assert (HL : rd_len i n = 0).
  { unfold rd_len. fold (rd_short i n). rewrite Hs. replace (n <=? 0) with true by lia. reflexivity. }
  rewrite Hs in E, F. cbn [negb andb] in E, F. replace (n <=? 0) with true in E, F by lia.
  split; [destruct got; [reflexivity|unfold zlen in D; cbn in D; lia]|]. split; [exact A|]. split; [lia|]. split; [exact B|]. split; assumption.
Qed.

Lemma short_read_dead n i : wstream i -> 0 <= s_pos i -> rd_short i n = true ->
  dead (snd (s_read n i)) /\ s_eof (snd (s_read n i)) = true.
Proof.
  intros W Hp Hs. pose proof (ws_read n i W) as R. destruct (s_read n i) as [got i']. destruct R as (A & B & C & D & E & F). cbn [snd].
  assert (Hle : s_pos i <= s_size i) by (destruct W as (_ & _ & _ & _ & X); exact X).
  rewrite Hs in E, F. cbn [negb andb] in E, F.
  assert (HL : s_pos i + rd_len i n = s_size i) by (apply rd_short_end; assumption).
  split; [|exact F]. split; [exact A|]. split; [pose proof (rd_len_nonneg i n); lia|]. split; [lia|exact E].
Qed.

Lemma dead_read n i : dead i -> dead (snd (s_read n i)).
Proof.
  intros (W & Hp & He & Hg).
  destruct (Z_le_gt_dec n 0) as [Hn|Hn].
  - pose proof (read_nonpos n i W Hn) as R. destruct (s_read n i) as [got i']. destruct R as (_ & A & B & C & D & _). cbn [snd].
    split; [exact A|]. split; [lia|]. split; [lia|]. rewrite D. exact Hg.
  - apply short_read_dead; [exact W|exact Hp|unfold rd_short; lia].
Qed.

Lemma dead_seek off i : 0 <= off -> dead i -> dead (s_seek off i).
Proof.
  intros Ho (W & Hp & He & Hg). destruct (ws_seek off i W) as (A & B & C & D & _).
  split; [exact A|]. split; [lia|]. split; [lia|]. rewrite D. exact Hg.
Qed.

Section Dead.
Variable cs : classes.
Variable call : target -> mid -> state -> res (Z * ity).
Variable sp : scan_params.
Variable cap : Z.
Hypothesis Hsig : sp_sig sp <> 0.

(* once a read has hit the end, no forward-seeking read program brings the stream back to good *)
Lemma dead_stays : forall p s l i s' i', seeks_ok cs p = true -> dead i ->
  run_r cs call sp cap p s l i = Ok (s', i') -> dead i'.
Proof.
  induction p as [| e | | | f k IH | f k IH | f e k IH | f e k IH | f e k IH | e k IH | e k IH | f e k IH | x t e k IH | x e k IH | k IH | c a IHa b IHb];
    intros s l i s' i' Hs Hd H; cbn [run_r] in H; cbn [seeks_ok] in Hs; try discriminate.
  - inversion H; subst. exact Hd.
  - destruct (find_field cs f) as [x|]; [|discriminate]. destruct (ksize (f_kind x)) as [w|]; [|discriminate].
    pose proof (dead_read w i Hd) as D1. destruct (s_read w i) as [got i1]. cbn [snd] in D1.
    destruct (read_into x (s f) got) as [v|]; cbn [bind] in H; [|discriminate]. eapply IH; eauto.
  - destruct (eval_as cs call I64 s l e) as [n|]; cbn [bind] in H; [|discriminate].
    destruct (s f) as [|b|]; try discriminate.
    pose proof (dead_read n i Hd) as D1. destruct (s_read n i) as [got i1]. cbn [snd] in D1.
    destruct (zlen b <? zlen got); [discriminate|]. eapply IH; eauto.
  - destruct (eval_as cs call U64 s l e) as [n|]; cbn [bind] in H; [|discriminate].
    destruct (find_field cs f) as [x|]; [|discriminate]. destruct (s f) as [|b|]; try discriminate.
    destruct (cap <? n * kelt (f_kind x)); [discriminate|]. eapply IH; eauto.
  - apply andb_prop in Hs. destruct Hs as [Hs1 Hs2].
    destruct (eval_as cs call I64 s l e) as [off|] eqn:Eo; cbn [bind] in H; [|discriminate].
    pose proof (seek_ok_nonneg cs call e s l off Hs1 Eo) as Hoff.
    eapply IH; [exact Hs2|apply dead_seek; [exact Hoff|exact Hd]|exact H].
  - destruct (find_field cs f) as [x|]; [|discriminate]. destruct (f_kind x) as [t| |]; try discriminate.
    destruct (eval_as cs call t s l e) as [v|]; cbn [bind] in H; [|discriminate]. eapply IH; eauto.
  - destruct (eval_as cs call t s l e) as [v|]; cbn [bind] in H; [|discriminate]. eapply IH; eauto.
  - destruct (l x) as [[? t]|]; [|discriminate].
    destruct (eval_as cs call t s l e) as [v|]; cbn [bind] in H; [|discriminate]. eapply IH; eauto.
  - (* the search: the first read delivers nothing, the failure stops it *)
    exfalso. cbn [scan_loop] in H.
    destruct Hd as (W & Hp & He & Hg).
    assert (Hsh : rd_short i 4 = true) by (unfold rd_short; lia).
    pose proof (ws_read 4 i W) as R. destruct (s_read 4 i) as [got i1]. destruct R as (A & B & C & D & E & F).
    rewrite Hsh in E, F. cbn [negb andb] in E, F.
    assert (HL : rd_len i 4 = 0).
    { pose proof (rd_short_end i 4 W Hp Hsh). pose proof (rd_len_nonneg i 4). lia. }
    assert (got = []) by (destruct got; [reflexivity|unfold zlen in D; cbn in D; lia]). subst got.
    change (merge_scalar 4 0 []) with 0 in H. replace (0 =? sp_sig sp) with false in H by lia.
    unfold scan_stop in H. rewrite E, F in H. destruct (sp_stop_on_fail sp); discriminate.
  - apply andb_prop in Hs. destruct Hs as [Hs1 Hs2].
    destruct (eval cs call s l c) as [v|]; cbn [bind] in H; [|discriminate].
    destruct (fst v =? 0); [eapply IHb|eapply IHa]; eauto.
Qed.
End Dead.

(* the cut stream sits at its end (a forward seek was clamped there); the complete stream is at or behind that point *)
Definition atend (X : list Z) (j' j : istream) : Prop :=
  wstream j' /\ wstream j /\ s_data j = s_data j' ++ X /\ s_size j = s_size j' + zlen X /\
  s_pos j' = s_size j' /\ s_size j' <= s_pos j /\ s_good j = s_good j' /\ s_eof j = s_eof j'.

Definition Sim (X : list Z) (j' j : istream) : Prop := 0 <= s_pos j' /\ (ext X j' j \/ atend X j' j).

Lemma Sim_wstream X j' j : Sim X j' j -> wstream j' /\ wstream j.
Proof. intros [_ [E|A]]; [destruct E as (A & B & _)|destruct A as (A & B & _)]; split; assumption. Qed.

Lemma sim_read X n j' j : Sim X j' j -> rd_short j' n = false ->
  fst (s_read n j) = fst (s_read n j') /\ Sim X (snd (s_read n j')) (snd (s_read n j)).
Proof.
  intros [Hp [E|A]] Hs.
  - destruct (ext_read X n j' j E Hp Hs) as (A & B & C). split; [exact A|]. split; [exact C|left; exact B].
  - destruct A as (W' & W & D & S & Pe & Pj & G & Ee).
    assert (Hn : n <= 0) by (unfold rd_short in Hs; lia).
    pose proof (read_nonpos n j' W' Hn) as R'. pose proof (read_nonpos n j W Hn) as R.
    pose proof (s_read_data n j') as D'. pose proof (s_read_data n j) as D2.
    destruct (s_read n j') as [g' k']. destruct (s_read n j) as [g k]. cbn [fst snd] in *.
    destruct R' as (A1 & A2 & A3 & A4 & A5 & A6). destruct R as (B1 & B2 & B3 & B4 & B5 & B6).
    split; [congruence|]. split; [lia|]. right. unfold atend.
    split; [exact A2|]. split; [exact B2|]. split; [rewrite D2, D', D; reflexivity|]. split; [lia|]. split; [lia|]. split; [lia|].
    split; congruence.
Qed.

Lemma sim_seek X off j' j : 0 <= off -> Sim X j' j -> Sim X (s_seek off j') (s_seek off j).
Proof.
  intros Ho [Hp S]. pose proof (zlen_nonneg X) as HX.
  assert (WW : wstream j' /\ wstream j) by (apply (Sim_wstream X); split; assumption). destruct WW as [W' W].
  destruct (ws_seek off j' W') as (A1 & A2 & A3 & A4 & A5). destruct (ws_seek off j W) as (B1 & B2 & B3 & B4 & B5).
  pose proof (s_seek_data off j') as D'. pose proof (s_seek_data off j) as D2.
  assert (Hle' : s_pos j' <= s_size j') by (destruct W' as (_ & _ & _ & _ & X5); exact X5).
  assert (Hle : s_pos j <= s_size j) by (destruct W as (_ & _ & _ & _ & X5); exact X5).
  split; [lia|].
  destruct S as [(_ & _ & D & P & Sz & G & E)|(_ & _ & D & Sz & Pe & Pj & G & E)].
  - destruct (Z_le_gt_dec (s_pos j' + off) (s_size j')) as [Hin|Hout].
    + left. unfold ext. split; [exact A1|]. split; [exact B1|]. split; [rewrite D2, D', D; reflexivity|]. split; [lia|]. split; [lia|]. split; congruence.
    + right. unfold atend. split; [exact A1|]. split; [exact B1|]. split; [rewrite D2, D', D; reflexivity|]. split; [lia|]. split; [lia|]. split; [lia|]. split; congruence.
  - right. unfold atend. split; [exact A1|]. split; [exact B1|]. split; [rewrite D2, D', D; reflexivity|]. split; [lia|]. split; [lia|]. split; [lia|]. split; congruence.
Qed.

(* a read of at least one byte that the cut stream can serve: the two streams are at the same position afterwards *)
Lemma sim_read_pos X n j' j : Sim X j' j -> rd_short j' n = false -> 0 < n ->
  fst (s_read n j) = fst (s_read n j') /\ ext X (snd (s_read n j')) (snd (s_read n j)) /\
  s_pos (snd (s_read n j')) = s_pos j' + n.
Proof.
  intros [Hp [E|A]] Hs Hn.
  - destruct (ext_read X n j' j E Hp Hs) as (A & B & C). split; [exact A|]. split; [exact B|].
    destruct E as (W' & _). pose proof (ws_read n j' W') as R. destruct (s_read n j') as [g' k']. destruct R as (_ & _ & R3 & _). cbn [snd].
    rewrite R3. rewrite rd_full; [reflexivity|exact Hp|exact Hn|exact Hs].
  - exfalso. destruct A as (W' & _ & _ & _ & Pe & _). unfold rd_short in Hs. lia.
Qed.

Lemma ext_seek_back X off j' j : ext X j' j -> off <= 0 -> 0 <= s_pos j' + off ->
  ext X (s_seek off j') (s_seek off j).
Proof.
  intros (W' & W & D & P & Sz & G & E) Ho Hp. pose proof (zlen_nonneg X) as HX.
  destruct (ws_seek off j' W') as (A1 & A2 & A3 & A4 & A5). destruct (ws_seek off j W) as (B1 & B2 & B3 & B4 & B5).
  pose proof (s_seek_data off j') as D'. pose proof (s_seek_data off j) as D2.
  assert (Hle' : s_pos j' <= s_size j') by (destruct W' as (_ & _ & _ & _ & X5); exact X5).
  unfold ext. split; [exact A1|]. split; [exact B1|]. split; [rewrite D2, D', D; reflexivity|]. split; [lia|]. split; [lia|]. split; congruence.
Qed.

Lemma scan_fuel_mono sp : forall n m tmp i r, scan_loop sp n tmp i = Ok r -> (n <= m)%nat -> scan_loop sp m tmp i = Ok r.
Proof.
  induction n as [|n IH]; intros m tmp i r H Hm; [discriminate|]. destruct m as [|m]; [lia|].
  cbn [scan_loop] in *. destruct (s_read 4 i) as [got i1]. destruct (_ =? sp_sig sp); [exact H|].
  destruct (scan_stop sp i1); [discriminate|]. apply IH; [exact H|lia].
Qed.

Section SimRun.
Variable cs : classes.
Variable call : target -> mid -> state -> res (Z * ity).
Variable sp : scan_params.
Variable cap : Z.
Hypothesis HR : rules_ok sp = true.
Hypothesis Hsig : sp_sig sp <> 0.
Variable X : list Z.

(* the search on the cut stream: either a read hit the end (the stream is dead), or the complete stream gives the same *)
Lemma scan_sim : forall n tmp j' j r j1', Sim X j' j -> scan_loop sp n tmp j' = Ok (r, j1') ->
  dead j1' \/ exists j1, scan_loop sp n tmp j = Ok (r, j1) /\ Sim X j1' j1.
Proof.
  induction n as [|n IH]; intros tmp j' j r j1' S H; [discriminate|].
  cbn [scan_loop] in *.
  assert (WW : wstream j' /\ wstream j) by (apply (Sim_wstream X); exact S). destruct WW as [W' W].
  destruct (rd_short j' 4) eqn:Sh.
  - (* the cut stream cannot serve 4 bytes: whatever happens next, it is dead *)
    pose proof (short_read_dead 4 j' W' (proj1 S) Sh) as [Dd De]. destruct (s_read 4 j') as [got' k']. cbn [snd] in Dd, De.
    destruct (_ =? sp_sig sp); [inversion H; subst; left; exact Dd|].
    exfalso. unfold scan_stop in H. destruct Dd as (Wk & _ & _ & Gk). rewrite Gk, De in H. destruct (sp_stop_on_fail sp); discriminate.
  - assert (H4 : 0 < 4) by lia.
    destruct (sim_read_pos X 4 j' j S Sh H4) as (Eg & E1 & P1).
    destruct (s_read 4 j') as [got' k']. destruct (s_read 4 j) as [got k]. cbn [fst snd] in *. subst got.
    destruct (merge_scalar 4 tmp got' =? sp_sig sp).
    + inversion H; subst. right. exists k. split; [reflexivity|]. split; [destruct S; lia|left; exact E1].
    + assert (Est : scan_stop sp k = scan_stop sp k').
      { unfold scan_stop. destruct E1 as (_ & _ & _ & _ & _ & G & E). rewrite G, E. reflexivity. }
      rewrite Est. destruct (scan_stop sp k'); [discriminate|].
      pose proof (scan_rule_range sp (merge_scalar 4 tmp got') HR) as Rk. set (kk := scan_rule (sp_rules sp) (merge_scalar 4 tmp got')) in *.
      assert (Hp0 : 0 <= s_pos j') by (destruct S; assumption).
      destruct (kk =? 0).
      * apply (IH _ k' k); [split; [lia|left; exact E1]|exact H].
      * apply (IH _ (s_seek kk k') (s_seek kk k)); [|exact H]. pose proof (ext_seek_back X kk k' k E1) as E2.
        assert (E3 : ext X (s_seek kk k') (s_seek kk k)) by (apply E2; lia).
        split; [|left; exact E3]. destruct E3 as (W3 & _). destruct E1 as (W1 & _).
        destruct (ws_seek kk k' W1) as (_ & _ & P3 & _). rewrite P3. destruct W1 as (_ & _ & _ & _ & X5). lia.
Qed.

(* a forward-seeking read program on the cut stream: if the stream is still good at the end, every read was served, and the
   complete stream gives the same object *)
Theorem run_r_sim : forall p s l j' j s' j2', seeks_ok cs p = true -> Sim X j' j ->
  run_r cs call sp cap p s l j' = Ok (s', j2') -> s_good j2' = true ->
  exists j2, run_r cs call sp cap p s l j = Ok (s', j2) /\ Sim X j2' j2.
Proof.
  induction p as [| e | | | f k IH | f k IH | f e k IH | f e k IH | f e k IH | e k IH | e k IH | f e k IH | x t e k IH | x e k IH | k IH | c a IHa b IHb];
    intros s l j' j s' j2' Hs HS H Hg; cbn [run_r] in H |- *; cbn [seeks_ok] in Hs; try discriminate.
  - inversion H; subst. exists j. split; [reflexivity|exact HS].
  - destruct (find_field cs f) as [x|]; [|discriminate]. destruct (ksize (f_kind x)) as [w|]; [|discriminate].
    assert (WW : wstream j' /\ wstream j) by (apply (Sim_wstream X); exact HS). destruct WW as [W' W].
    destruct (rd_short j' w) eqn:Sh.
    + exfalso. pose proof (short_read_dead w j' W' (proj1 HS) Sh) as [Dd _]. destruct (s_read w j') as [got' k']. cbn [snd] in Dd.
      destruct (read_into x (s f) got') as [v|]; cbn [bind] in H; [|discriminate].
      destruct (dead_stays cs call sp cap Hsig _ _ _ _ _ _ Hs Dd H) as (_ & _ & _ & G). congruence.
    + destruct (sim_read X w j' j HS Sh) as [Eg S1]. destruct (s_read w j') as [got' k']. destruct (s_read w j) as [got k0]. cbn [fst snd] in *. subst got.
      destruct (read_into x (s f) got') as [v|]; cbn [bind] in H |- *; [|discriminate]. eapply IH; eauto.
  - destruct (eval_as cs call I64 s l e) as [n|]; cbn [bind] in H |- *; [|discriminate].
    destruct (s f) as [|b|]; try discriminate.
    assert (WW : wstream j' /\ wstream j) by (apply (Sim_wstream X); exact HS). destruct WW as [W' W].
    destruct (rd_short j' n) eqn:Sh.
    + exfalso. pose proof (short_read_dead n j' W' (proj1 HS) Sh) as [Dd _]. destruct (s_read n j') as [got' k']. cbn [snd] in Dd.
      destruct (zlen b <? zlen got'); [discriminate|].
      destruct (dead_stays cs call sp cap Hsig _ _ _ _ _ _ Hs Dd H) as (_ & _ & _ & G). congruence.
    + destruct (sim_read X n j' j HS Sh) as [Eg S1]. destruct (s_read n j') as [got' k']. destruct (s_read n j) as [got k0]. cbn [fst snd] in *. subst got.
      destruct (zlen b <? zlen got'); [discriminate|]. eapply IH; eauto.
  - destruct (eval_as cs call U64 s l e) as [n|]; cbn [bind] in H |- *; [|discriminate].
    destruct (find_field cs f) as [x|]; [|discriminate]. destruct (s f) as [|b|]; try discriminate.
    destruct (cap <? n * kelt (f_kind x)); [discriminate|]. eapply IH; eauto.
  - apply andb_prop in Hs. destruct Hs as [Hs1 Hs2].
    destruct (eval_as cs call I64 s l e) as [off|] eqn:Eo; cbn [bind] in H |- *; [|discriminate].
    pose proof (seek_ok_nonneg cs call e s l off Hs1 Eo) as Hoff.
    eapply IH; [exact Hs2|apply sim_seek; [exact Hoff|exact HS]|exact H|exact Hg].
  - destruct (find_field cs f) as [x|]; [|discriminate]. destruct (f_kind x) as [t| |]; try discriminate.
    destruct (eval_as cs call t s l e) as [v|]; cbn [bind] in H |- *; [|discriminate]. eapply IH; eauto.
  - destruct (eval_as cs call t s l e) as [v|]; cbn [bind] in H |- *; [|discriminate]. eapply IH; eauto.
  - destruct (l x) as [[? t]|]; [|discriminate].
    destruct (eval_as cs call t s l e) as [v|]; cbn [bind] in H |- *; [|discriminate]. eapply IH; eauto.
  - destruct (scan_loop sp (S (S (length (s_data j')))) 0 j') as [[r k']|] eqn:Es; cbn [bind] in H; [|discriminate]. cbn [fst snd] in H.
    assert (Hfu : (S (S (length (s_data j'))) <= S (S (length (s_data j))))%nat).
    { destruct HS as [_ [(_ & _ & D & _)|(_ & _ & D & _)]]; rewrite D, app_length; lia. }
    destruct (scan_sim _ _ _ _ _ _ HS Es) as [Dd|(k0 & Es2 & S1)].
    + exfalso. destruct (dead_stays cs call sp cap Hsig _ _ _ _ _ _ Hs Dd H) as (_ & _ & _ & G). congruence.
    + rewrite (scan_fuel_mono sp _ _ _ _ _ Es2 Hfu). cbn [bind fst snd]. eapply IH; eauto.
  - apply andb_prop in Hs. destruct Hs as [Hs1 Hs2].
    destruct (eval cs call s l c) as [v|]; cbn [bind] in H |- *; [|discriminate].
    destruct (fst v =? 0); [eapply IHb|eapply IHa]; eauto.
Qed.
End SimRun.
