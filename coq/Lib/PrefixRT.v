(* PrefixRT.v — C08, reader side at the level of the uncompressed stream: running a read program on a stream that was
   cut off gives — as long as the stream is still good afterwards — exactly what it gives on the complete stream.
   Part 1: what a read returns, in terms of the data and the position; the relation between a cut stream and the complete
   one.  Proofs only. *)
From VB Require Import Base IR Sem BaseFacts StreamFacts TermFacts StreamLevel.
From Coq Require Import ZifyBool.
Local Open Scope Z_scope.
Ltac Zify.zify_post_hook ::= Z.div_mod_to_equations.

Lemma read_prefix (a b : list Z) tg n : 0 <= tg -> 0 <= n -> n + tg <= zlen a ->
  ztake n (zdrop tg (a ++ b)) = ztake n (zdrop tg a).
Proof.
  intros H0 Hn H. unfold ztake, zdrop, zlen in *. rewrite skipn_app.
  replace (Z.to_nat tg - length a)%nat with 0%nat by lia. cbn [skipn].
  rewrite firstn_app. replace (Z.to_nat n - length (skipn (Z.to_nat tg) a))%nat with 0%nat by (rewrite skipn_length; lia).
  cbn [firstn]. apply app_nil_r.
Qed.

Lemma wstream_after i : wstream i -> 0 <= s_pos i -> s_after i = zdrop (s_pos i) (s_data i).
Proof.
  intros (H1 & H2 & H3 & H4 & H5) Hp. unfold s_data. rewrite rev_append_rev.
  symmetry. apply zdrop_app_len. rewrite zlen_rev. lia.
Qed.

(* the bytes a read delivers: the next rd_len bytes of the data *)
Lemma got_spec n i : wstream i -> 0 <= s_pos i -> fst (s_read n i) = ztake (rd_len i n) (zdrop (s_pos i) (s_data i)).
Proof.
  intros W Hp. rewrite <- (wstream_after i W Hp). destruct W as (H1 & H2 & H3 & H4 & H5).
  unfold s_read, rd_len. rewrite H1.
  set (n' := if s_size i <? n + s_pos i then s_size i - s_pos i else n).
  destruct ((n' <=? 0) || (s_pos i <? 0)) eqn:E; cbn [fst]; [reflexivity|].
  rewrite zip_take_spec. cbn [fst]. reflexivity.
Qed.

(* a cut stream j' and the complete stream j at the same position: the data of j is the data of j' followed by X *)
Definition ext (X : list Z) (j' j : istream) : Prop :=
  wstream j' /\ wstream j /\ s_data j = s_data j' ++ X /\ s_pos j = s_pos j' /\ s_size j = s_size j' + zlen X /\
  s_good j = s_good j' /\ s_eof j = s_eof j'.

Lemma data_len i : wstream i -> zlen (s_data i) = s_size i.
Proof. intros (H1 & H2 & H3 & H4 & H5). unfold s_data. rewrite rev_append_rev, zlen_app, zlen_rev. lia. Qed.

(* a read that the cut stream can serve completely: same bytes, still related *)
Lemma ext_read X n j' j : ext X j' j -> 0 <= s_pos j' -> rd_short j' n = false ->
  fst (s_read n j) = fst (s_read n j') /\ ext X (snd (s_read n j')) (snd (s_read n j)) /\ 0 <= s_pos (snd (s_read n j')).
Proof.
  intros (W' & W & D & P & S & G & E) Hp Hs.
  pose proof (zlen_nonneg X) as HX.
  assert (Hs2 : rd_short j n = false) by (unfold rd_short in *; lia).
  assert (HL : rd_len j n = rd_len j' n) by (unfold rd_len, rd_short in *; rewrite P, S; replace (s_size j' + zlen X <? n + s_pos j') with false by lia; rewrite Hs; reflexivity).
  pose proof (rd_len_nonneg j' n) as HLn.
  assert (HLle : s_pos j' + rd_len j' n <= s_size j').
  { unfold rd_len, rd_short in *. rewrite Hs. destruct ((n <=? 0) || (s_pos j' <? 0)) eqn:E0; [destruct W' as (_ & _ & _ & _ & X5); lia|lia]. }
  split.
  - rewrite (got_spec n j W) by lia. rewrite (got_spec n j' W' Hp). rewrite HL, P, D.
    apply read_prefix; [lia|lia|]. rewrite (data_len j' W'). lia.
  - pose proof (ws_read n j' W') as R'. pose proof (ws_read n j W) as R.
    pose proof (s_read_data n j') as D'. pose proof (s_read_data n j) as D2.
    destruct (s_read n j') as [g' k']. destruct (s_read n j) as [g k]. cbn [snd] in *.
    destruct R' as (A1 & A2 & A3 & _ & A5 & A6). destruct R as (B1 & B2 & B3 & _ & B5 & B6).
    split; [|rewrite A3; lia]. unfold ext. split; [exact A1|]. split; [exact B1|]. split; [rewrite D2, D', D; reflexivity|].
    split; [rewrite A3, B3, HL, P; reflexivity|]. split; [rewrite A2, B2; exact S|].
    split; [rewrite A5, B5, Hs, Hs2, G; reflexivity|rewrite A6, B6, Hs, Hs2, E; reflexivity].
Qed.
