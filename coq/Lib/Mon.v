(* Mon.v — a small IR for the methods of the library's monitors (ObjectQueue, and the wait
   predicates / notifications of UncompressedFile), with an executable semantics.
   The translator (translator/sync2coq.py) emits terms of this IR statement for statement;
   C integer typing is the one of Sem.v.  Definitions only. *)
From VB Require Export Sem.
Local Open Scope Z_scope.

Inductive mexpr :=
| XConst (z : Z) (t : ity)
| XVar (v : nat)               (* data member: index into the store *)
| XArg (t : ity)               (* the integer parameter of the method *)
| XArg2 (t : ity)              (* a second integer quantity (e.g. logContainer->uncompressedFileSize) *)
| XQEmpty                      (* m_queue.empty() *)
| XQSize                       (* m_queue.size() : size_t *)
| XUn (o : unop) (e : mexpr)
| XBin (o : binop) (a b : mexpr)
| XCast (t : ity) (e : mexpr).

Inductive mstmt :=
| TSkip
| TSeq (a b : mstmt)
| TLock                        (* std::lock_guard / std::unique_lock on m_mutex *)
| TWait (cv : nat) (p : mexpr) (* cv.wait(lock, [&]{ return p; }) *)
| TNotify (cv : nat)           (* cv.notify_all() *)
| TSet (v : nat) (e : mexpr)   (* m = e, m++ *)
| TIf (c : mexpr) (a b : mstmt)
| TPush                        (* m_queue.push(obj) *)
| TLocalNull                   (* T * ohb = nullptr *)
| TLocalFront                  (* ohb = m_queue.front() *)
| TPop                         (* m_queue.pop() *)
| TRetLocal                    (* return ohb *)
| TRet (e : mexpr)             (* return e *)
| TCall (m : nat)              (* call of another method of the same object (abort() in the destructor) *)
| TDeleteAll                   (* while (!m_queue.empty()) { delete m_queue.front(); m_queue.pop(); } *)
| TUnsupported.

Record mmethod := { mm_name : string; mm_body : mstmt }.

(* ---- semantics ---- *)
Record mstate := { ms_vars : list Z; ms_q : list Z }.

Record mrun := {
  mr_st : mstate;
  mr_local : Z;                 (* the local pointer (0 = nullptr) *)
  mr_ret : option Z;            (* set once the method has returned *)
  mr_notes : list nat;          (* condition variables notified, in order *)
  mr_locked : bool;
  mr_deleted : list Z           (* objects deleted *)
}.

Inductive mout := MBlocked (cv : nat) | MDone (r : mrun) | MFail (e : err).

Definition set_nth (n : nat) (x : Z) (l : list Z) : list Z :=
  firstn n l ++ match skipn n l with [] => [] | _ :: r => x :: r end.

Section MonSem.
Variable vt : list ity.          (* types of the data members *)
Variable arg arg2 : Z.

Fixpoint meval (st : mstate) (e : mexpr) : res (Z * ity) :=
  match e with
  | XConst z t => Ok (z, t)
  | XVar v => match nth_error (ms_vars st) v, nth_error vt v with
              | Some z, Some t => Ok (z, t) | _, _ => Err EType end
  | XArg t => Ok (norm t arg, t)
  | XArg2 t => Ok (norm t arg2, t)
  | XQEmpty => Ok (match ms_q st with [] => 1 | _ => 0 end, TBool)
  | XQSize => Ok (zlen (ms_q st), U64)
  | XUn o a => do x <- meval st a; eval_un o x
  | XBin OLAnd a b =>
      do x <- meval st a;
      if fst x =? 0 then Ok (0, TBool) else do y <- meval st b; Ok (bool_of (fst y), TBool)
  | XBin OLOr a b =>
      do x <- meval st a;
      if fst x =? 0 then do y <- meval st b; Ok (bool_of (fst y), TBool) else Ok (1, TBool)
  | XBin o a b => do x <- meval st a; do y <- meval st b; eval_bin o x y
  | XCast t a => do x <- meval st a; Ok (norm t (fst x), t)
  end.

(* does the expression touch shared state? *)
Fixpoint mshared (e : mexpr) : bool :=
  match e with
  | XVar _ | XQEmpty | XQSize => true
  | XUn _ a | XCast _ a => mshared a
  | XBin _ a b => mshared a || mshared b
  | _ => false
  end.

Section Exec.
Variable call : nat -> Z -> mrun -> mout.     (* calls of other methods of the object *)

Fixpoint mexec_gen (obj : Z) (s : mstmt) (r : mrun) : mout :=
  match mr_ret r with Some _ => MDone r | None =>
  let st := mr_st r in
  let upd_st st' := {| mr_st := st'; mr_local := mr_local r; mr_ret := mr_ret r; mr_notes := mr_notes r;
                       mr_locked := mr_locked r; mr_deleted := mr_deleted r |} in
  let need_lock (k : mout) := if mr_locked r then k else MFail EUB in
  match s with
  | TSkip => MDone r
  | TSeq a b => match mexec_gen obj a r with MDone r' => mexec_gen obj b r' | o => o end
  | TLock => MDone {| mr_st := st; mr_local := mr_local r; mr_ret := None; mr_notes := mr_notes r;
                      mr_locked := true; mr_deleted := mr_deleted r |}
  | TWait cv p =>
      need_lock (match meval st p with
                 | Ok (z, _) => if z =? 0 then MBlocked cv else MDone r
                 | Err e => MFail e end)
  | TNotify cv => MDone {| mr_st := st; mr_local := mr_local r; mr_ret := None; mr_notes := mr_notes r ++ [cv];
                           mr_locked := mr_locked r; mr_deleted := mr_deleted r |}
  | TSet v e =>
      need_lock (match meval st e, nth_error vt v with
                 | Ok (z, _), Some t => MDone (upd_st {| ms_vars := set_nth v (norm t z) (ms_vars st); ms_q := ms_q st |})
                 | Err e, _ => MFail e
                 | _, None => MFail EType end)
  | TIf c a b =>
      (if mshared c then need_lock else fun k => k)
        (match meval st c with
         | Ok (z, _) => if z =? 0 then mexec_gen obj b r else mexec_gen obj a r
         | Err e => MFail e end)
  | TPush => need_lock (MDone (upd_st {| ms_vars := ms_vars st; ms_q := ms_q st ++ [obj] |}))
  | TLocalNull => MDone {| mr_st := st; mr_local := 0; mr_ret := None; mr_notes := mr_notes r;
                           mr_locked := mr_locked r; mr_deleted := mr_deleted r |}
  | TLocalFront =>
      need_lock (match ms_q st with
                 | x :: _ => MDone {| mr_st := st; mr_local := x; mr_ret := None; mr_notes := mr_notes r;
                                      mr_locked := mr_locked r; mr_deleted := mr_deleted r |}
                 | [] => MFail EUB end)            (* front() of an empty queue *)
  | TPop =>
      need_lock (match ms_q st with
                 | _ :: q => MDone (upd_st {| ms_vars := ms_vars st; ms_q := q |})
                 | [] => MFail EUB end)
  | TRetLocal => MDone {| mr_st := st; mr_local := mr_local r; mr_ret := Some (mr_local r); mr_notes := mr_notes r;
                          mr_locked := mr_locked r; mr_deleted := mr_deleted r |}
  | TRet e =>
      (if mshared e then need_lock else fun k => k)
        (match meval st e with
         | Ok (z, _) => MDone {| mr_st := st; mr_local := mr_local r; mr_ret := Some z; mr_notes := mr_notes r;
                                 mr_locked := mr_locked r; mr_deleted := mr_deleted r |}
         | Err e => MFail e end)
  | TCall m =>
      (* the callee takes and releases the mutex itself; its return value is dropped *)
      match call m obj {| mr_st := st; mr_local := 0; mr_ret := None; mr_notes := mr_notes r;
                          mr_locked := false; mr_deleted := mr_deleted r |} with
      | MDone r' => MDone {| mr_st := mr_st r'; mr_local := mr_local r; mr_ret := None; mr_notes := mr_notes r';
                             mr_locked := mr_locked r; mr_deleted := mr_deleted r' |}
      | o => o end
  | TDeleteAll =>
      (* the destructor runs when no other thread uses the object: no lock required *)
      MDone {| mr_st := {| ms_vars := ms_vars st; ms_q := [] |}; mr_local := mr_local r; mr_ret := None;
               mr_notes := mr_notes r; mr_locked := mr_locked r; mr_deleted := mr_deleted r ++ ms_q st |}
  | TUnsupported => MFail EUnsupported
  end end.

End Exec.

Variable methods : list mmethod.

(* nesting of calls: one level (the destructor calls abort()) *)
Definition mexec0 := mexec_gen (fun _ _ _ => MFail EFuel).
Definition mexec := mexec_gen (fun m obj r =>
  match nth_error methods m with Some md => mexec0 obj (mm_body md) r | None => MFail EType end).

Definition mcall (m : nat) (obj : Z) (st : mstate) : mout :=
  match nth_error methods m with
  | Some md => mexec obj (mm_body md)
                 {| mr_st := st; mr_local := 0; mr_ret := None; mr_notes := []; mr_locked := false; mr_deleted := [] |}
  | None => MFail EType
  end.

End MonSem.

(* the wait predicates of a method body, in order, with their condition variable *)
Fixpoint mwaits (s : mstmt) : list (nat * mexpr) :=
  match s with
  | TSeq a b => mwaits a ++ mwaits b
  | TWait cv p => [(cv, p)]
  | TIf _ a b => mwaits a ++ mwaits b
  | _ => []
  end.
Fixpoint mnotifies (s : mstmt) : list nat :=
  match s with
  | TSeq a b => mnotifies a ++ mnotifies b
  | TNotify cv => [cv]
  | TIf _ a b => mnotifies a ++ mnotifies b
  | _ => []
  end.
