(* IR.v — the intermediate representation the translator emits for codecs. Definitions only. *)
From VB Require Export Base.
Local Open Scope Z_scope.

(* scalar C types (LP64) *)
Inductive ity := U8 | U16 | U32 | U64 | I8 | I16 | I32 | I64 | TBool.

Definition ity_eqb (a b : ity) : bool :=
  match a, b with
  | U8,U8 | U16,U16 | U32,U32 | U64,U64 | I8,I8 | I16,I16 | I32,I32 | I64,I64 | TBool,TBool => true
  | _,_ => false end.

Definition width (t : ity) : Z :=
  match t with U8 | I8 | TBool => 1 | U16 | I16 => 2 | U32 | I32 => 4 | U64 | I64 => 8 end.
Definition signed (t : ity) : bool :=
  match t with I8 | I16 | I32 | I64 => true | _ => false end.

(* field kinds *)
Inductive fkind :=
| KScalar (t : ity)          (* integer / enum / bool / double (as its 64-bit pattern) *)
| KArray (elt n : Z)         (* std::array<T,n> or POD blob: n elements of elt bytes, fixed *)
| KVec (elt : Z).            (* std::vector<T>, std::string, std::u16string: elt bytes per element *)

Inductive finit :=
| INone                      (* no initialiser in the header: indeterminate *)
| IZero                      (* {} *)
| IVal (z : Z)               (* {constant} *)
| ICall (m : Z).             (* {constMemberFunction()} *)

Record fdef := { f_id : Z; f_name : string; f_kind : fkind; f_init : finit; f_float : bool }.

Definition cid := Z.
Definition mid := Z.
(* well-known method ids *)
Definition M_read : mid := 1.
Definition M_write : mid := 2.
Definition M_osz : mid := 3.   (* calculateObjectSize *)
Definition M_hsz : mid := 4.   (* calculateHeaderSize *)

Inductive unop := ONeg | ONot | OBNot.
Inductive binop := OAdd | OSub | OMul | ODiv | OMod | OAnd | OOr | OXor | OShl | OShr
                 | OLAnd | OLOr | OLt | OLe | OGt | OGe | OEq | ONe.

Inductive target :=
| CDyn                         (* unqualified call on this: virtual dispatch *)
| CStatic (c : cid)            (* Base::f() *)
| CMember (c : cid) (d : Z).   (* member.f(): member of class c whose fields live at id + d *)

Inductive expr :=
| EConst (z : Z) (t : ity)
| EField (f : Z)
| ESize (f : Z)                (* container.size() : element count, size_t *)
| ESizeof (f : Z)              (* sizeof(member) *)
| ESizeofT (n : Z)             (* sizeof(type) resolved syntactically (int64_t, char16_t ...) *)
| EVar (x : Z)
| EUn (o : unop) (e : expr)
| EBin (o : binop) (a b : expr)
| ECond (c a b : expr)
| ECast (t : ity) (e : expr)
| ECall (tg : target) (m : mid).

(* statements, as written in the source *)
Inductive stmt :=
| SNop
| SSeq (a b : stmt)
| SRead (f : Z)                  (* is.read(&f, sizeof(f)) / fixed array via .data(), .size() *)
| SWrite (f : Z)
| SReadBytes (f : Z) (e : expr)  (* is.read(f.data(), e) *)
| SWriteBytes (f : Z) (e : expr)
| SResize (f : Z) (e : expr)
| SSeek (e : expr)               (* is.seekg(e, cur) *)
| SZero (e : expr)               (* os.skipp(e) *)
| SAssign (f : Z) (e : expr)
| SDecl (x : Z) (t : ity) (e : expr)
| SSet (x : Z) (e : expr)
| SIf (c : expr) (a b : stmt)
| SRet (o : option expr)
| SCall (tg : target) (m : mid)  (* Base::read(is), member.write(os) *)
| SScan                          (* the signature search loop of ObjectHeaderBase::read *)
| SThrow
| SUnsupported (msg : string).

(* continuation-passing normal form: what the interpreters run *)
Inductive prog :=
| PEnd
| PRet (e : expr)
| PThrow
| PUnsupported
| PRead (f : Z) (k : prog)
| PWrite (f : Z) (k : prog)
| PReadBytes (f : Z) (e : expr) (k : prog)
| PWriteBytes (f : Z) (e : expr) (k : prog)
| PResize (f : Z) (e : expr) (k : prog)
| PSeek (e : expr) (k : prog)
| PZero (e : expr) (k : prog)
| PAssign (f : Z) (e : expr) (k : prog)
| PDecl (x : Z) (t : ity) (e : expr) (k : prog)
| PSet (x : Z) (e : expr) (k : prog)
| PScan (k : prog)
| PIf (c : expr) (a b : prog).

Record mdef := { m_id : mid; m_ret : option ity; m_body : stmt }.

Record cdef := {
  c_id : cid;
  c_name : string;
  c_bases : list cid;
  c_fields : list fdef;                    (* own members, declaration order *)
  c_members : list (cid * Z);              (* struct-typed members: class, id shift *)
  c_ctor : list (Z * Z);                   (* field id := constant, set by the constructor chain *)
  c_methods : list mdef
}.

Definition classes := list cdef.
