(* ScanFacts.v — the signature search of ObjectHeaderBase::read finds the FIRST occurrence of the
   object signature at or after the get position, whatever precedes it (C09). *)
From VB Require Import Base IR Sem BaseFacts StreamFacts.
From Coq Require Import Lia ZifyBool.
Local Open Scope Z_scope.
Ltac Zify.zify_post_hook ::= Z.div_mod_to_equations.

(* ---------- the constants as the source has them ---------- *)
Definition SIG : Z := 1245859660.                      (* 0x4A424F4C "LOBJ" *)
Definition SIGB : list Z := [76; 79; 66; 74].
Definition rules_std : list (Z * Z * Z) :=
  [(4294967040, 1112493056, -3); (4294901760, 1330380800, -2); (4278190080, 1275068416, -1)].
(* sf: what ends the search after a mismatch (see Sem.scan_stop) — the theorems here hold for either choice *)
Definition sp_std (f : Z) (sf : bool) : scan_params := {| sp_sig := SIG; sp_rules := rules_std; sp_field := f; sp_stop_on_fail := sf |}.

Lemma sig_bytes : le_dec SIGB = SIG. Proof. reflexivity. Qed.

(* ---------- masks of the form 0xff..00 ---------- *)
Lemma mask_high k t : (k = 8 \/ k = 16 \/ k = 24) -> 0 <= t < 2 ^ 32 ->
  Z.land (2 ^ 32 - 2 ^ k) t = (t / 2 ^ k) * 2 ^ k.
Proof.
  intros Hk Ht.
  assert (Hm : 2 ^ 32 - 2 ^ k = Z.land (Z.ones 32) (Z.lnot (Z.ones k))) by (destruct Hk as [->|[->| ->]]; reflexivity).
  rewrite Hm. rewrite (Z.land_comm (Z.ones 32)). rewrite <- Z.land_assoc. rewrite (Z.land_comm (Z.ones 32) t).
  rewrite Z.land_ones by lia. rewrite Z.mod_small by lia.
  rewrite Z.land_comm. rewrite <- Z.ldiff_land. rewrite Z.ldiff_ones_r by lia.
  rewrite Z.shiftl_mul_pow2 by lia. rewrite Z.shiftr_div_pow2 by lia. reflexivity.
Qed.

Definition byte (b : Z) : Prop := 0 <= b < 256.

(* what the three rules say about a 4-byte window, byte by byte *)
Definition abs_rule (b1 b2 b3 : Z) : Z :=
  if (b1 =? 76) && (b2 =? 79) && (b3 =? 66) then -3
  else if (b2 =? 76) && (b3 =? 79) then -2
  else if b3 =? 76 then -1 else 0.

Lemma le_dec4 b0 b1 b2 b3 : le_dec [b0; b1; b2; b3] = b0 + 256 * b1 + 65536 * b2 + 16777216 * b3.
Proof. cbn [le_dec]. lia. Qed.

Lemma scan_rule_abs b0 b1 b2 b3 : byte b0 -> byte b1 -> byte b2 -> byte b3 ->
  scan_rule rules_std (le_dec [b0; b1; b2; b3]) = abs_rule b1 b2 b3.
Proof.
  unfold byte. intros H0 H1 H2 H3. rewrite le_dec4.
  set (t := b0 + 256 * b1 + 65536 * b2 + 16777216 * b3).
  assert (Ht : 0 <= t < 2 ^ 32) by (change (2 ^ 32) with 4294967296; unfold t; lia).
  unfold scan_rule, rules_std.
  change 4294967040 with (2 ^ 32 - 2 ^ 8). change 4294901760 with (2 ^ 32 - 2 ^ 16). change 4278190080 with (2 ^ 32 - 2 ^ 24).
  rewrite !mask_high by (auto; lia).
  change (2 ^ 8) with 256. change (2 ^ 16) with 65536. change (2 ^ 24) with 16777216.
  assert (E1 : t / 256 = b1 + 256 * b2 + 65536 * b3) by (unfold t; lia).
  assert (E2 : t / 65536 = b2 + 256 * b3) by (unfold t; lia).
  assert (E3 : t / 16777216 = b3) by (unfold t; lia).
  rewrite E1, E2, E3. unfold abs_rule.
  destruct ((b1 =? 76) && (b2 =? 79) && (b3 =? 66)) eqn:A.
  - replace ((b1 + 256 * b2 + 65536 * b3) * 256 =? 1112493056) with true by lia. reflexivity.
  - replace ((b1 + 256 * b2 + 65536 * b3) * 256 =? 1112493056) with false by lia.
    destruct ((b2 =? 76) && (b3 =? 79)) eqn:B.
    + replace ((b2 + 256 * b3) * 65536 =? 1330380800) with true by lia. reflexivity.
    + replace ((b2 + 256 * b3) * 65536 =? 1330380800) with false by lia.
      destruct (b3 =? 76) eqn:C.
      * replace (b3 * 16777216 =? 1275068416) with true by lia. reflexivity.
      * replace (b3 * 16777216 =? 1275068416) with false by lia. reflexivity.
Qed.

Lemma le_dec4_sig b0 b1 b2 b3 : byte b0 -> byte b1 -> byte b2 -> byte b3 ->
  (le_dec [b0; b1; b2; b3] =? SIG) = (b0 =? 76) && (b1 =? 79) && (b2 =? 66) && (b3 =? 74).
Proof. unfold byte, SIG. intros. rewrite le_dec4. lia. Qed.

(* ---------- stepping the in-memory stream ---------- *)
Lemma seek_back s b0 b1 b2 b3 r k : nstream s -> s_after s = b0 :: b1 :: b2 :: b3 :: r ->
  (k = -3 \/ k = -2 \/ k = -1) ->
  s_seek k (advance 4 s true false) = advance (4 + k) s true false.
Proof.
  intros (N1 & N2 & N3 & N4) Ha Hk.
  destruct s as [bf af cur pos size gd ef st]. cbn [s_sticky s_cur s_before s_after s_pos s_size] in *. subst af st.
  pose proof (zlen_nonneg bf) as Hb. pose proof (zlen_nonneg r) as Hr.
  assert (Hsz : size = zlen bf + (4 + zlen r)) by (rewrite N4; rewrite !zlen_cons; lia).
  unfold s_seek, advance. cbn [s_sticky s_cur s_before s_after s_pos s_size s_good s_eof].
  replace (Z.min (pos + 4 + k) size) with (pos + 4 + k) by lia.
  unfold zip_move. replace (cur + 4 <=? pos + 4 + k) with false by lia.
  replace (Z.max 0 (pos + 4 + k)) with (pos + 4 + k) by lia.
  replace (cur + 4 - (pos + 4 + k)) with (- k) by lia.
  destruct Hk as [->|[->| ->]]; cbn;
    change (Pos.to_nat 4) with 4%nat; change (Pos.to_nat 3) with 3%nat; change (Pos.to_nat 2) with 2%nat; change (Pos.to_nat 1) with 1%nat;
    cbn; f_equal; try reflexivity; try lia.
Qed.

Lemma merge_full tmp b0 b1 b2 b3 : 0 <= tmp -> merge_scalar 4 tmp [b0; b1; b2; b3] = le_dec [b0; b1; b2; b3].
Proof.
  intros _. unfold merge_scalar. replace (zlen [b0; b1; b2; b3]) with 4 by reflexivity.
  replace (zdrop 4 (le_enc 4 tmp)) with (@nil Z); [rewrite app_nil_r; reflexivity|].
  unfold zdrop, le_enc. cbn. reflexivity.
Qed.

(* one iteration on a full window that is not the signature: the cursor moves to the next
   position at which the signature can still start *)
Lemma scan_step f sf n tmp s b0 b1 b2 b3 r :
  nstream s -> s_after s = b0 :: b1 :: b2 :: b3 :: r -> byte b0 -> byte b1 -> byte b2 -> byte b3 ->
  [b0; b1; b2; b3] <> SIGB -> 0 <= tmp ->
  scan_loop (sp_std f sf) (S n) tmp s =
  scan_loop (sp_std f sf) n (le_dec [b0; b1; b2; b3]) (advance (4 + abs_rule b1 b2 b3) s true false).
Proof.
  intros Hs Ha H0 H1 H2 H3 Hne Ht. cbn [scan_loop].
  assert (Hl : 0 <= 4 <= zlen (s_after s)) by (rewrite Ha; rewrite !zlen_cons; pose proof (zlen_nonneg r); lia).
  rewrite (s_read_exact 4 s Hs Hl). replace (0 <? 4) with true by reflexivity. rewrite Ha. replace (ztake 4 (b0 :: b1 :: b2 :: b3 :: r)) with [b0; b1; b2; b3] by reflexivity.
  rewrite merge_full by exact Ht. cbn [sp_sig sp_std sp_rules].
  rewrite le_dec4_sig by assumption.
  replace ((b0 =? 76) && (b1 =? 79) && (b2 =? 66) && (b3 =? 74)) with false.
  2:{ symmetry. apply not_true_is_false. intros E. apply Hne. unfold SIGB. repeat (apply andb_prop in E; destruct E as [E ?]).
      apply Z.eqb_eq in E. repeat match goal with H : (_ =? _) = true |- _ => apply Z.eqb_eq in H end. subst. reflexivity. }
  replace (scan_stop (sp_std f sf) (advance 4 s true false)) with false by (destruct sf; reflexivity).
  rewrite scan_rule_abs by assumption.
  unfold abs_rule.
  destruct ((b1 =? 76) && (b2 =? 79) && (b3 =? 66)).
  - replace (-3 =? 0) with false by reflexivity. rewrite (seek_back s b0 b1 b2 b3 r (-3) Hs Ha) by auto. reflexivity.
  - destruct ((b2 =? 76) && (b3 =? 79)).
    + replace (-2 =? 0) with false by reflexivity. rewrite (seek_back s b0 b1 b2 b3 r (-2) Hs Ha) by auto. reflexivity.
    + destruct (b3 =? 76).
      * replace (-1 =? 0) with false by reflexivity. rewrite (seek_back s b0 b1 b2 b3 r (-1) Hs Ha) by auto. reflexivity.
      * replace (0 =? 0) with true by reflexivity. replace (4 + 0) with 4 by reflexivity. reflexivity.
Qed.

(* ---------- composing advances ---------- *)
Lemma skipn_skipn' {A} (m n : nat) (l : list A) : skipn n (skipn m l) = skipn (m + n) l.
Proof. revert l. induction m as [|m IH]; intros l; [reflexivity|]. destruct l; [destruct n; reflexivity|]. cbn. apply IH. Qed.
Lemma firstn_add' {A} (m n : nat) (l : list A) : firstn (m + n) l = firstn m l ++ firstn n (skipn m l).
Proof. revert l. induction m as [|m IH]; intros l; [reflexivity|]. destruct l; [destruct n; reflexivity|]. cbn. f_equal. apply IH. Qed.

Lemma advance_advance a b s g1 e1 g2 e2 : 0 <= a -> 0 <= b ->
  advance b (advance a s g1 e1) g2 e2 = advance (a + b) s g2 e2.
Proof.
  intros Ha Hb. unfold advance. cbn [s_after s_before s_cur s_pos s_size].
  unfold ztake, zdrop. rewrite skipn_skipn', Z2Nat.inj_add by lia.
  f_equal; try lia.
  rewrite app_assoc. f_equal. rewrite firstn_add', rev_app_distr. reflexivity.
Qed.

(* ---------- the theorem ---------- *)
Definition no_sig_before (n : nat) (a : list Z) : Prop :=
  forall i, (i < n)%nat -> firstn 4 (skipn i a) <> SIGB.

Lemma no_sig_shift k n a : no_sig_before n a -> no_sig_before (n - k) (skipn k a).
Proof. intros H i Hi. rewrite skipn_skipn'. apply H. lia. Qed.

Lemma sigb_bytes : Forall byte SIGB.
Proof. unfold SIGB, byte. repeat constructor; lia. Qed.

(* Whatever bytes precede it, the loop stops exactly behind the FIRST occurrence of the signature:
   s_after s = pre ++ "LOBJ" ++ rest, no window starting inside pre is the signature (pre may end
   with any proper prefix of the signature, may contain 'L', "LO", "LOB" anywhere), any stale tmp. *)
Theorem scan_finds_first : forall f sf fuel pre rest s tmp,
  nstream s -> Forall byte pre -> s_after s = pre ++ SIGB ++ rest ->
  no_sig_before (length pre) (pre ++ SIGB ++ rest) -> (length pre < fuel)%nat -> 0 <= tmp ->
  scan_loop (sp_std f sf) fuel tmp s = Ok (SIG, advance (zlen pre + 4) s true false).
Proof.
  intros f sf. induction fuel as [|n IH]; intros pre rest s tmp Hs Hb Ha Hno Hf Ht; [lia|].
  assert (Hle : forall w, 0 <= le_dec w \/ True) by (intros; right; exact I).
  (* how an application of the induction hypothesis after a step of k bytes closes the goal *)
  assert (STEP : forall k pre' w, (1 <= k <= 4)%nat -> pre' = skipn k pre -> (k <= length pre)%nat ->
            0 <= le_dec w ->
            scan_loop (sp_std f sf) n (le_dec w) (advance (Z.of_nat k) s true false) = Ok (SIG, advance (zlen pre + 4) s true false)).
  { intros k pre' w Hk Hp Hkl Hw.
    assert (Hsplit : pre ++ SIGB ++ rest = firstn k pre ++ pre' ++ SIGB ++ rest).
    { rewrite <- (firstn_skipn k pre) at 1. rewrite <- app_assoc. rewrite Hp. reflexivity. }
    rewrite (IH pre' rest (advance (Z.of_nat k) s true false) (le_dec w)).
    - rewrite advance_advance by (unfold zlen; lia).
      replace (Z.of_nat k + (zlen pre' + 4)) with (zlen pre + 4); [reflexivity|].
      rewrite Hp. unfold zlen. rewrite skipn_length. lia.
    - apply nstream_advance; [exact Hs|]. rewrite Ha. unfold zlen. rewrite !app_length. lia.
    - rewrite Hp. apply Forall_forall. intros x Hx. rewrite Forall_forall in Hb. apply Hb.
      rewrite <- (firstn_skipn k pre). apply in_or_app. right. exact Hx.
    - unfold advance. cbn [s_after]. rewrite Ha. unfold zdrop. rewrite Nat2Z.id.
      rewrite Hsplit. rewrite skipn_app. rewrite firstn_length, Nat.min_l by lia. rewrite Nat.sub_diag. cbn [skipn app].
      rewrite skipn_all2 by (rewrite firstn_length; lia). reflexivity.
    - rewrite Hp, skipn_length.
      replace (skipn k pre ++ SIGB ++ rest) with (skipn k (pre ++ SIGB ++ rest)).
      + apply no_sig_shift. exact Hno.
      + rewrite skipn_app. replace (k - length pre)%nat with 0%nat by lia. reflexivity.
    - rewrite Hp, skipn_length. lia.
    - exact Hw. }
  assert (LD : forall b0 b1 b2 b3, byte b0 -> byte b1 -> byte b2 -> byte b3 -> 0 <= le_dec [b0; b1; b2; b3]).
  { intros b0 b1 b2 b3 A0 A1 A2 A3. rewrite le_dec4. unfold byte in *. lia. }
  pose proof sigb_bytes as SB. unfold SIGB in SB.
  inversion SB as [|? ? S0 SB1]; subst. inversion SB1 as [|? ? S1 SB2]; subst. inversion SB2 as [|? ? S2 SB3]; subst. inversion SB3 as [|? ? S3 _]; subst.
  destruct pre as [|p0 pre].
  - (* the signature stands at the cursor *)
    cbn [app] in Ha. cbn [scan_loop].
    assert (Hl : 0 <= 4 <= zlen (s_after s)) by (rewrite Ha; unfold SIGB; cbn [app]; rewrite !zlen_cons; pose proof (zlen_nonneg rest); lia).
    rewrite (s_read_exact 4 s Hs Hl). replace (0 <? 4) with true by reflexivity. rewrite Ha. replace (ztake 4 (SIGB ++ rest)) with SIGB by reflexivity.
    unfold SIGB at 1. rewrite merge_full by exact Ht. cbn [sp_sig sp_std].
    replace (le_dec [76; 79; 66; 74] =? SIG) with true by reflexivity. reflexivity.
  - inversion Hb as [|? ? B0 Hb1]; subst.
    assert (W0 : firstn 4 ((p0 :: pre) ++ SIGB ++ rest) <> SIGB) by (apply (Hno 0%nat); cbn; lia).
    destruct pre as [|p1 pre].
    + (* one byte before the signature: window p0 L O B *)
      cbn [app] in *. unfold SIGB in Ha at 1. cbn [app] in Ha.
      rewrite (scan_step f sf n tmp s p0 76 79 66 (74 :: rest) Hs Ha B0 S0 S1 S2 W0 Ht).
      replace (4 + abs_rule 76 79 66) with (Z.of_nat 1) by reflexivity.
      apply (STEP 1%nat [] [p0; 76; 79; 66]); [lia|reflexivity|cbn; lia|apply LD; assumption].
    + inversion Hb1 as [|? ? B1 Hb2]; subst. destruct pre as [|p2 pre].
      * (* two bytes before: window p0 p1 L O *)
        cbn [app] in *. unfold SIGB in Ha at 1. cbn [app] in Ha.
        rewrite (scan_step f sf n tmp s p0 p1 76 79 (66 :: 74 :: rest) Hs Ha B0 B1 S0 S1 W0 Ht).
        assert (E : abs_rule p1 76 79 = -2) by (unfold abs_rule; replace (76 =? 79) with false by reflexivity; rewrite andb_false_r; reflexivity).
        rewrite E. replace (4 + -2) with (Z.of_nat 2) by reflexivity.
        apply (STEP 2%nat [] [p0; p1; 76; 79]); [lia|reflexivity|cbn; lia|apply LD; assumption].
      * inversion Hb2 as [|? ? B2 Hb3]; subst. destruct pre as [|p3 pre].
        -- (* three bytes before: window p0 p1 p2 L *)
           cbn [app] in *. unfold SIGB in Ha at 1. cbn [app] in Ha.
           rewrite (scan_step f sf n tmp s p0 p1 p2 76 (79 :: 66 :: 74 :: rest) Hs Ha B0 B1 B2 S0 W0 Ht).
           assert (E : abs_rule p1 p2 76 = -1).
           { unfold abs_rule. replace (76 =? 66) with false by reflexivity. rewrite andb_false_r.
             replace (76 =? 79) with false by reflexivity. rewrite andb_false_r. reflexivity. }
           rewrite E. replace (4 + -1) with (Z.of_nat 3) by reflexivity.
           apply (STEP 3%nat [] [p0; p1; p2; 76]); [lia|reflexivity|cbn; lia|apply LD; assumption].
        -- (* at least four bytes before: any of the four moves stays in front of the signature *)
           inversion Hb3 as [|? ? B3 Hb4]; subst. cbn [app] in Ha.
           rewrite (scan_step f sf n tmp s p0 p1 p2 p3 (pre ++ SIGB ++ rest) Hs Ha B0 B1 B2 B3 W0 Ht).
           unfold abs_rule.
           destruct ((p1 =? 76) && (p2 =? 79) && (p3 =? 66)).
           ++ replace (4 + -3) with (Z.of_nat 1) by reflexivity.
              apply (STEP 1%nat (p1 :: p2 :: p3 :: pre) [p0; p1; p2; p3]); [lia|reflexivity|cbn; lia|apply LD; assumption].
           ++ destruct ((p2 =? 76) && (p3 =? 79)).
              ** replace (4 + -2) with (Z.of_nat 2) by reflexivity.
                 apply (STEP 2%nat (p2 :: p3 :: pre) [p0; p1; p2; p3]); [lia|reflexivity|cbn; lia|apply LD; assumption].
              ** destruct (p3 =? 76).
                 --- replace (4 + -1) with (Z.of_nat 3) by reflexivity.
                     apply (STEP 3%nat (p3 :: pre) [p0; p1; p2; p3]); [lia|reflexivity|cbn; lia|apply LD; assumption].
                 --- replace (4 + 0) with (Z.of_nat 4) by reflexivity.
                     apply (STEP 4%nat pre [p0; p1; p2; p3]); [lia|reflexivity|cbn; lia|apply LD; assumption].
Qed.

(* non-vacuity: "xLOLOBLOBJ" — the first signature starts at offset 6 *)
Example scan_example :
  scan_loop (sp_std 0 true) 20 0 (mk_ustream [120; 76; 79; 76; 79; 66; 76; 79; 66; 74; 1; 2]) =
  Ok (SIG, advance 10 (mk_ustream [120; 76; 79; 76; 79; 66; 76; 79; 66; 74; 1; 2]) true false).
Proof. vm_compute. reflexivity. Qed.
