(* Roundtrip.v — generic write-then-read theorem for paired codec programs (proved once; the
   per-class premises are boolean checks evaluated on the generated programs). *)
From VB Require Import Base IR Sem BaseFacts StreamFacts EvalFacts.
From Coq Require Import ZifyBool.
Local Open Scope Z_scope.
Set Default Proof Using "Type".
Ltac Zify.zify_post_hook ::= Z.div_mod_to_equations.

(* decidable equality of expressions *)
Definition ity_eq_dec (a b : ity) : {a = b} + {a <> b}.
Proof. decide equality. Defined.
Definition unop_eq_dec (a b : unop) : {a = b} + {a <> b}.
Proof. decide equality. Defined.
Definition binop_eq_dec (a b : binop) : {a = b} + {a <> b}.
Proof. decide equality. Defined.
Definition target_eq_dec (a b : target) : {a = b} + {a <> b}.
Proof. decide equality; apply Z.eq_dec. Defined.
Definition expr_eq_dec (a b : expr) : {a = b} + {a <> b}.
Proof.
  decide equality; try apply Z.eq_dec; try apply ity_eq_dec; try apply unop_eq_dec;
    try apply binop_eq_dec; try apply target_eq_dec.
Defined.
Definition expr_eqb (a b : expr) : bool := if expr_eq_dec a b then true else false.
Lemma expr_eqb_eq a b : expr_eqb a b = true -> a = b.
Proof. unfold expr_eqb. destruct (expr_eq_dec a b); [auto|discriminate]. Qed.

Definition incl_b (a b : list Z) : bool := forallb (fun x => existsb (Z.eqb x) b) a.
Lemma incl_b_In a b : incl_b a b = true -> forall x, In x a -> In x b.
Proof.
  unfold incl_b. intros H x Hx. rewrite forallb_forall in H. specialize (H x Hx).
  apply existsb_exists in H. destruct H as [y [Hy E]]. apply Z.eqb_eq in E. subst. exact Hy.
Qed.

Section RT.
Variable cs : classes.
Variable call : target -> mid -> state -> res (Z * ity).
Variable sp : scan_params.
Variable cap : Z.
Hypothesis cap_ge : 2 ^ 28 <= cap.
Hypothesis sig_range : 0 <= sp_sig sp < 2 ^ 32.

Notation ff := (find_field cs).
Notation evalc := (eval cs call).

Definition kind_of (f : Z) : option fkind := option_map f_kind (ff f).
Definition is_fixed (f : Z) : bool :=
  match kind_of f with Some (KScalar _) => true | Some (KArray e n) => (0 <? e) && (0 <=? n) | _ => false end.
Definition is_u32 (f : Z) : bool := match kind_of f with Some (KScalar U32) => true | _ => false end.
Definition is_vec (f : Z) : bool := match kind_of f with Some (KVec e) => (0 <? e) && (e <=? 8) | _ => false end.
Definition is_arr (f : Z) : bool :=
  match kind_of f with Some (KArray e n) => (0 <? e) && (e <=? 8) && (0 <=? n) && (e * n <? 2 ^ 28) | _ => false end.

Definition cnt_is (M : lenmap) (e : expr) (f k : Z) : bool :=
  match cnt_of M e with Some (CSize f' k') => (f' =? f) && (k' =? k) | None => false end.

Fixpoint pair_wr (M : lenmap) (known : list Z) (W R : prog) : bool :=
  match W, R with
  | PEnd, PEnd => true
  | PWrite f kw, PRead g kr => (f =? g) && is_fixed f && pair_wr M (f :: known) kw kr
  | PWrite f kw, PScan kr => (f =? sp_field sp) && is_u32 f && pair_wr M (f :: known) kw kr
  | PWriteBytes f e kw, PResize g e1 (PReadBytes h e2 kr) =>
      (f =? g) && (f =? h) && is_vec f && negb (existsb (Z.eqb f) known) &&
      cnt_is M e f (elt_of cs f) && cnt_is M e1 f 1 && cnt_is M e2 f (elt_of cs f) &&
      scalar_only e1 && scalar_only e2 && incl_b (reads e1) known && incl_b (reads e2) known &&
      pair_wr M known kw kr
  | PWriteBytes f e kw, PReadBytes h e2 kr =>
      (f =? h) && is_arr f && expr_eqb e e2 && cnt_is [] e f (elt_of cs f) && pair_wr M known kw kr
  | PZero e kw, PSeek e2 kr =>
      expr_eqb e e2 && scalar_only e && incl_b (reads e) known && pair_wr M known kw kr
  | PIf c a b, PIf c2 a2 b2 =>
      expr_eqb c c2 && scalar_only c && incl_b (reads c) known && pair_wr M known a a2 && pair_wr M known b b2
  | _, _ => false
  end.

(* fields emitted along the path the writer takes in state s *)
Fixpoint emitted (W : prog) (s : state) : list Z :=
  match W with
  | PWrite f k => f :: emitted k s
  | PWriteBytes f _ k => f :: emitted k s
  | PZero _ k => emitted k s
  | PIf c a b => match evalc s no_locals c with
                 | Ok x => if fst x =? 0 then emitted b s else emitted a s
                 | Err _ => [] end
  | PAssign f e k =>        (* only in programs outside the theorems; used by the executable oracle *)
      match kind_of f with
      | Some (KScalar t) => match eval_as cs call t s no_locals e with
                            | Ok v => emitted k (upd s f (VInt v)) | Err _ => [] end
      | _ => [] end
  | _ => []
  end.

(* every member that holds a value holds one of its declared shape *)
Definition shape_ok (x : fdef) (v : value) : Prop :=
  match f_kind x, v with
  | _, VUndef => True
  | KScalar t, VInt z => in_type t z = true
  | KArray e n, VBytes b => zlen b = e * n
  | KVec e, VBytes b => zlen b mod e = 0 /\ zlen b < 2 ^ 28
  | _, _ => False
  end.
Definition wf_state (s : state) : Prop := forall f x, ff f = Some x -> shape_ok x (s f).
Definition defined_on (fs : list Z) (s : state) : Prop := forall f, In f fs -> s f <> VUndef.

Lemma wf_upd s f x v : wf_state s -> ff f = Some x -> shape_ok x v -> wf_state (upd s f v).
Proof.
  intros Hw Hx Hv g y Hy. unfold upd. destruct (Z.eqb_spec g f) as [->|Hne].
  - rewrite Hx in Hy. injection Hy as <-. exact Hv.
  - apply Hw. exact Hy.
Qed.

Lemma cont_ok_vec s f : wf_state s -> is_vec f = true -> (exists b, s f = VBytes b) -> cont_ok cs s f.
Proof.  clear sig_range. try clear call.
  intros Hw Hv [b Hb]. unfold is_vec, kind_of in Hv. destruct (ff f) as [x|] eqn:Hx; [|discriminate].
  cbn [option_map] in Hv. destruct (f_kind x) as [t|e n|e] eqn:Hk; try discriminate.
  specialize (Hw f x Hx). unfold shape_ok in Hw. rewrite Hk, Hb in Hw.
  exists x, b. rewrite Hk. cbn [kelt]. repeat split; try tauto; try lia.
Qed.

Lemma cont_ok_arr s f : wf_state s -> is_arr f = true -> (exists b, s f = VBytes b) -> cont_ok cs s f.
Proof.  clear sig_range. try clear call.
  intros Hw Hv [b Hb]. unfold is_arr, kind_of in Hv. destruct (ff f) as [x|] eqn:Hx; [|discriminate].
  cbn [option_map] in Hv. destruct (f_kind x) as [t|e n|e] eqn:Hk; try discriminate.
  specialize (Hw f x Hx). unfold shape_ok in Hw. rewrite Hk, Hb in Hw.
  exists x, b. rewrite Hk. cbn [kelt]. repeat split; try tauto; try lia.
  rewrite Hw. rewrite Z.mul_comm. apply Z.mod_mul. lia.
Qed.

Definition agree_on (fs : list Z) (r s : state) : Prop := forall f, In f fs -> r f = s f.

Lemma eval_agree e r s : scalar_only e = true -> (forall x, In x (reads e) -> r x = s x) ->
  evalc r no_locals e = evalc s no_locals e.
Proof. intros H1 H2. apply eval_frame; assumption. Qed.

Lemma eval_as_agree t e r s : scalar_only e = true -> (forall x, In x (reads e) -> r x = s x) ->
  eval_as cs call t r no_locals e = eval_as cs call t s no_locals e.
Proof. intros H1 H2. unfold eval_as. rewrite (eval_agree e r s H1 H2). reflexivity. Qed.

(* M stays sound when a state is changed outside the members M talks about — here: not needed,
   the writer never changes the state while emitting. *)

Lemma run_w_pure_state W : forall M known R s l st bytes,
  pair_wr M known W R = true -> run_w cs call cap W s l = Ok (st, bytes) -> st = s.
Proof.
  induction W as [| | | |f k IH|f k IH|f e k IH|f e k IH|f e k IH|e k IH|e k IH|f e k IH|x t e k IH|x e k IH|k IH|c a IHa b IHb];
    intros M known R s l st bytes HP HR; cbn [pair_wr] in HP; try discriminate.
  - destruct R; try discriminate. cbn in HR. injection HR as <- _. reflexivity.
  - cbn [run_w] in HR. destruct (ff f) as [x|]; [|discriminate].
    destruct (field_bytes x (s f)); [|discriminate]. cbn [bind] in HR.
    destruct (run_w cs call cap k s l) as [[st' r]|] eqn:E; [|discriminate]. cbn [bind fst snd] in HR.
    injection HR as <- _.
    destruct R; try discriminate; repeat (apply andb_prop in HP; destruct HP as [HP ?]); eapply IH; eauto.
  - cbn [run_w] in HR. destruct (eval_as cs call I64 s l e) as [n|]; [|discriminate]. cbn [bind] in HR.
    destruct (s f) as [|bb|]; try discriminate.
    assert (HK : exists M' kn' R', pair_wr M' kn' k R' = true).
    { destruct R; try discriminate.
      - repeat (apply andb_prop in HP; destruct HP as [HP ?]). eauto.
      - destruct R; try discriminate. repeat (apply andb_prop in HP; destruct HP as [HP ?]). eauto. }
    destruct HK as (M' & kn' & R' & HK).
    destruct (n <=? 0); [eapply IH; eauto|].
    destruct (zlen bb <? n); [discriminate|].
    destruct (run_w cs call cap k s l) as [[st' r]|] eqn:E; [|discriminate]. cbn [bind fst snd] in HR.
    injection HR as <- _. eapply IH; eauto.
  - cbn [run_w] in HR. destruct (eval_as cs call I64 s l e) as [n|]; [|discriminate]. cbn [bind] in HR.
    destruct ((n <? 0) || (cap <? n)); [discriminate|].
    destruct (run_w cs call cap k s l) as [[st' r]|] eqn:E; [|discriminate]. cbn [bind fst snd] in HR.
    injection HR as <- _.
    destruct R; try discriminate. repeat (apply andb_prop in HP; destruct HP as [HP ?]). eapply IH; eauto.
  - cbn [run_w] in HR. destruct (evalc s l c) as [x|]; [|discriminate]. cbn [bind] in HR.
    destruct R; try discriminate. repeat (apply andb_prop in HP; destruct HP as [HP ?]).
    destruct (fst x =? 0); [eapply IHb|eapply IHa]; eauto.
Qed.


Lemma resize_len (old : list Z) nb : 0 <= nb -> zlen (ztake nb old ++ zeros (nb - zlen old)) = nb.
Proof.   clear call.
  intros H. rewrite zlen_app. pose proof (zlen_nonneg old).
  destruct (Z_le_gt_dec nb (zlen old)).
  - rewrite ztake_zlen by lia. rewrite zeros_nonpos by lia. rewrite zlen_nil. lia.
  - unfold ztake. rewrite firstn_all2 by (unfold zlen in *; lia).
    rewrite zlen_zeros by lia. lia.
Qed.

Lemma not_in_known f known : negb (existsb (Z.eqb f) known) = true -> ~ In f known.
Proof.
  intros H Hin. apply negb_true_iff in H. apply not_true_iff_false in H. apply H.
  apply existsb_exists. exists f. split; [exact Hin|apply Z.eqb_refl].
Qed.

Lemma cnt_is_eq M e f k : cnt_is M e f k = true -> cnt_of M e = Some (CSize f k).
Proof.
  unfold cnt_is. destruct (cnt_of M e) as [[f' k']|]; [|discriminate].
  intros H. apply andb_prop in H. destruct H as [H1 H2].
  apply Z.eqb_eq in H1, H2. subst. reflexivity.
Qed.

Lemma M_sound_nil s : M_sound cs [] s.
Proof. intros g c H. discriminate. Qed.

(* value of a whole-container byte count *)
Lemma whole_count M e f s : cnt_is M e f (elt_of cs f) = true -> M_sound cs M s -> cont_ok cs s f ->
  exists b, s f = VBytes b /\ eval_as cs call I64 s no_locals e = Ok (zlen b) /\ zlen b < 2 ^ 28.
Proof.
  intros Hc HM Hf. apply cnt_is_eq in Hc.
  destruct (cnt_of_sound cs call M e s no_locals f _ Hc HM Hf) as (_ & t & Hev).
  destruct (cont_elems cs s f Hf) as (H0 & H1 & b & Hb & H2 & H3).
  exists b. split; [exact Hb|]. unfold eval_as. rewrite Hev. cbn [bind fst].
  rewrite H2. pose proof (zlen_nonneg b).
  rewrite norm_small; [split; [reflexivity|lia]| |cbn; lia]. unfold small. lia.
Qed.

Lemma elem_count M e f s : cnt_is M e f 1 = true -> M_sound cs M s -> cont_ok cs s f ->
  exists b, s f = VBytes b /\ eval_as cs call U64 s no_locals e = Ok (zlen b / elt_of cs f) /\
            zlen b / elt_of cs f * elt_of cs f = zlen b.
Proof.
  intros Hc HM Hf. apply cnt_is_eq in Hc.
  destruct (cnt_of_sound cs call M e s no_locals f _ Hc HM Hf) as (_ & t & Hev).
  destruct (cont_elems cs s f Hf) as (H0 & H1 & b & Hb & H2 & H3).
  exists b. split; [exact Hb|]. unfold eval_as. rewrite Hev. cbn [bind fst].
  assert (E : elems cs s f = zlen b / elt_of cs f) by (unfold elems; rewrite Hb; reflexivity).
  rewrite Z.mul_1_r. rewrite E in *. pose proof (zlen_nonneg b).
  rewrite norm_small; [split; [reflexivity|lia]| |cbn; lia]. unfold small. nia.
Qed.


Definition rt_post (W : prog) (s r : state) (known : list Z) (rest : list Z) (r' : state) (i' : istream) : Prop :=
  nstream i' /\ s_after i' = rest /\
  agree_on (emitted W s ++ known) r' s /\
  (forall f, ~ In f (emitted W s) -> r' f = r f) /\ wf_state r'.

Lemma agree_cons f fs known r s :
  r f = s f -> agree_on (fs ++ f :: known) r s -> agree_on ((f :: fs) ++ known) r s.
Proof.
  intros Hf H g Hg. cbn in Hg. destruct Hg as [<-|Hg]; [exact Hf|].
  apply H. apply in_app_or in Hg. apply in_or_app. destruct Hg; [left|right; right]; assumption.
Qed.

(* the stream after a complete read / a forward seek / a hit of the signature search is good when the stream before was *)
Ltac good_i1 Hg0 :=
  match goal with i1 := _ |- s_good ?x = true => unfold x, advance; cbn [s_good]; rewrite ?Hg0;
    repeat match goal with |- context [if ?c then _ else _] => destruct c end; reflexivity end.

Theorem pair_sound W : forall M known R s bytes,
  pair_wr M known W R = true ->
  run_w cs call cap W s no_locals = Ok (s, bytes) ->
  M_sound cs M s -> wf_state s -> defined_on (emitted W s) s ->
  s (sp_field sp) = VInt (sp_sig sp) ->
  forall r i rest, nstream i -> s_after i = bytes ++ rest ->
    agree_on known r s -> wf_state r -> defined_on (emitted W s) r ->
  exists r' i', run_r cs call sp cap R r no_locals i = Ok (r', i') /\ rt_post W s r known rest r' i' /\
    (s_good i = true -> s_good i' = true).
Proof using cap_ge sig_range.
  induction W as [| | | |f k IH|f k IH|f e k IH|f e k IH|f e k IH|e k IH|e k IH|f e k IH|x t e k IH|x e k IH|k IH|c a IHa b IHb];
    intros M known R s bytes HP HR HM Hws Hds Hsig r i rest Hi Hbytes Hag Hwr Hdr;
    cbn [pair_wr] in HP; try discriminate.
  - (* PEnd *)
    destruct R; try discriminate. cbn in HR. injection HR as <-.
    exists r, i. split; [reflexivity|]. split; [|intros Hg0; exact Hg0]. unfold rt_post. cbn [emitted app].
    refine (conj Hi (conj Hbytes (conj Hag (conj _ Hwr)))). intros; reflexivity.
  - (* PWrite *)
    cbn [run_w] in HR. destruct (ff f) as [x|] eqn:Hx; [|discriminate].
    destruct (field_bytes x (s f)) as [b|] eqn:Hb; [|discriminate]. cbn [bind] in HR.
    destruct (run_w cs call cap k s no_locals) as [[st rb]|] eqn:Ek; [|discriminate].
    cbn [bind fst snd] in HR. injection HR as Hst <-.
    cbn [emitted] in Hds, Hdr.
    assert (Hsf : s f <> VUndef) by (apply Hds; left; reflexivity).
    assert (Hrf : r f <> VUndef) by (apply Hdr; left; reflexivity).
    assert (Hds' : defined_on (emitted k s) s) by (intros g Hg; apply Hds; right; exact Hg).
    assert (Hdr' : defined_on (emitted k s) r) by (intros g Hg; apply Hdr; right; exact Hg).
    pose proof (Hws f x Hx) as Hshape. pose proof (Hwr f x Hx) as Hshr.
    rewrite <- app_assoc in Hbytes.
    destruct R; try discriminate.
    + (* PRead *)
      apply andb_prop in HP. destruct HP as [HP HPk]. apply andb_prop in HP. destruct HP as [Hfg Hfix].
      apply Z.eqb_eq in Hfg. subst f0.
      assert (Ekk : run_w cs call cap k s no_locals = Ok (s, rb)).
      { rewrite Ek. f_equal. f_equal. eapply run_w_pure_state; eauto. }
      cbn [run_r]. rewrite Hx.
      unfold is_fixed, kind_of in Hfix. rewrite Hx in Hfix. cbn [option_map] in Hfix.
      unfold shape_ok in Hshape, Hshr. unfold field_bytes in Hb.
      destruct (f_kind x) as [t|e n|e] eqn:Hk; try discriminate.
      * (* scalar *)
        destruct (s f) as [z| |] eqn:Esf; try contradiction; try discriminate; try congruence.
        injection Hb as <-. cbn [ksize].
        assert (Hl : zlen (le_enc (width t) (z mod 2 ^ bits t)) = width t)
          by (apply zlen_le_enc; pose proof (width_pos t); lia).
        rewrite s_read_exact; [|exact Hi|rewrite Hbytes, zlen_app, Hl; pose proof (zlen_nonneg (rb ++ rest)); pose proof (width_pos t); lia].
        rewrite Hbytes. rewrite (ztake_app_len (width t)) by exact Hl.
        unfold read_into. rewrite Hk. rewrite Hl, Z.eqb_refl. cbn [bind].
        rewrite scalar_roundtrip by exact Hshape.
        set (r1 := upd r f (VInt z)). match goal with |- context [advance (width t) i ?g ?e] => set (i1 := advance (width t) i g e) end.
        destruct (IH M (f :: known) R s rb HPk Ekk HM Hws Hds' Hsig r1 i1 rest) as (r' & i' & Hrun & Hpost & Hgd).
        { apply nstream_advance; [exact Hi|]. rewrite Hbytes, zlen_app, Hl. pose proof (zlen_nonneg (rb ++ rest)). pose proof (width_pos t). lia. }
        { unfold i1, advance; cbn [s_after]. rewrite Hbytes. apply zdrop_app_len. exact Hl. }
        { intros g [<-|Hg]; unfold r1, upd; [rewrite Z.eqb_refl; symmetry; exact Esf|].
          destruct (Z.eqb_spec g f) as [->|]; [symmetry; exact Esf|apply Hag; exact Hg]. }
        { apply (wf_upd r f x); [exact Hwr|exact Hx|]. unfold shape_ok. rewrite Hk. exact Hshape. }
        { intros g Hg. unfold r1, upd. destruct (g =? f); [discriminate|apply Hdr'; exact Hg]. }
        exists r', i'. split; [exact Hrun|]. split; [|intros Hg0; apply Hgd; good_i1 Hg0]. destruct Hpost as (P1 & P2 & P3 & P4 & P5).
        unfold rt_post. cbn [emitted]. refine (conj P1 (conj P2 (conj _ (conj _ P5)))).
        -- apply agree_cons; [|exact P3].
           destruct (in_dec Z.eq_dec f (emitted k s)) as [Hin|Hnin].
           ++ apply P3. apply in_or_app. left. exact Hin.
           ++ rewrite (P4 f Hnin). unfold r1, upd. rewrite Z.eqb_refl. symmetry. exact Esf.
        -- intros g Hg. cbn in Hg. rewrite P4 by tauto. unfold r1, upd.
           destruct (Z.eqb_spec g f); [subst; tauto|reflexivity].
      * (* array *)
        destruct (s f) as [|bb|] eqn:Esf; try contradiction; try discriminate; try congruence.
        rewrite Hshape, Z.eqb_refl in Hb. injection Hb as <-. cbn [ksize].
        assert (Hn : 0 <= e * n) by lia.
        rewrite s_read_exact; [|exact Hi|rewrite Hbytes, zlen_app, Hshape; pose proof (zlen_nonneg (rb ++ rest)); lia].
        rewrite Hbytes. rewrite (ztake_app_len (e * n)) by exact Hshape.
        unfold read_into. rewrite Hk.
        destruct (r f) as [|old|] eqn:Erf; try contradiction; try congruence.
        cbn [bind]. rewrite Hshape. rewrite <- Hshr. rewrite zdrop_all. rewrite app_nil_r.
        set (r1 := upd r f (VBytes bb)). match goal with |- context [advance (zlen old) i ?g ?e] => set (i1 := advance (zlen old) i g e) end.
        destruct (IH M (f :: known) R s rb HPk Ekk HM Hws Hds' Hsig r1 i1 rest) as (r' & i' & Hrun & Hpost & Hgd).
        { apply nstream_advance; [exact Hi|]. rewrite Hbytes, zlen_app, Hshr, Hshape. pose proof (zlen_nonneg (rb ++ rest)). lia. }
        { unfold i1, advance; cbn [s_after]. rewrite Hbytes. apply zdrop_app_len. lia. }
        { intros g [<-|Hg]; unfold r1, upd; [rewrite Z.eqb_refl; symmetry; exact Esf|].
          destruct (Z.eqb_spec g f) as [->|]; [symmetry; exact Esf|apply Hag; exact Hg]. }
        { apply (wf_upd r f x); [exact Hwr|exact Hx|]. unfold shape_ok. rewrite Hk. exact Hshape. }
        { intros g Hg. unfold r1, upd. destruct (g =? f); [discriminate|apply Hdr'; exact Hg]. }
        exists r', i'. split; [exact Hrun|]. split; [|intros Hg0; apply Hgd; good_i1 Hg0]. destruct Hpost as (P1 & P2 & P3 & P4 & P5).
        unfold rt_post. cbn [emitted]. refine (conj P1 (conj P2 (conj _ (conj _ P5)))).
        -- apply agree_cons; [|exact P3].
           destruct (in_dec Z.eq_dec f (emitted k s)) as [Hin|Hnin].
           ++ apply P3. apply in_or_app. left. exact Hin.
           ++ rewrite (P4 f Hnin). unfold r1, upd. rewrite Z.eqb_refl. symmetry. exact Esf.
        -- intros g Hg. cbn in Hg. rewrite P4 by tauto. unfold r1, upd.
           destruct (Z.eqb_spec g f); [subst; tauto|reflexivity].
    + (* PScan *)
      apply andb_prop in HP. destruct HP as [HP HPk]. apply andb_prop in HP. destruct HP as [Hfg Hu32].
      apply Z.eqb_eq in Hfg. subst f.
      assert (Ekk : run_w cs call cap k s no_locals = Ok (s, rb)).
      { rewrite Ek. f_equal. f_equal. eapply run_w_pure_state; eauto. }
      unfold is_u32, kind_of in Hu32. rewrite Hx in Hu32. cbn [option_map] in Hu32.
      destruct (f_kind x) as [t|e n|e] eqn:Hk; try discriminate. destruct t; try discriminate.
      unfold field_bytes in Hb. rewrite Hk, Hsig in Hb. injection Hb as <-.
      change (bits U32) with 32 in Hbytes. change (width U32) with 4 in Hbytes.
      rewrite Z.mod_small in Hbytes by exact sig_range.
      cbn [run_r]. rewrite (scan_hit sp _ i (rb ++ rest) Hi sig_range Hbytes). cbn [bind fst snd].
      assert (Hl : zlen (le_enc 4 (sp_sig sp)) = 4) by (apply zlen_le_enc; lia).
      set (r1 := upd r (sp_field sp) (VInt (sp_sig sp))). set (i1 := advance 4 i true false).
      destruct (IH M (sp_field sp :: known) R s rb HPk Ekk HM Hws Hds' Hsig r1 i1 rest) as (r' & i' & Hrun & Hpost & Hgd).
      { apply nstream_advance; [exact Hi|]. rewrite Hbytes, zlen_app, Hl. pose proof (zlen_nonneg (rb ++ rest)). lia. }
      { unfold i1, advance; cbn [s_after]. rewrite Hbytes. apply zdrop_app_len. exact Hl. }
      { intros g [<-|Hg]; unfold r1, upd; [rewrite Z.eqb_refl; symmetry; exact Hsig|].
        destruct (Z.eqb_spec g (sp_field sp)) as [->|]; [symmetry; exact Hsig|apply Hag; exact Hg]. }
      { apply (wf_upd r _ x); [exact Hwr|exact Hx|]. unfold shape_ok. rewrite Hk.
        unfold in_type, in_range; simp_pow; lia. }
      { intros g Hg. unfold r1, upd. destruct (g =? sp_field sp); [discriminate|apply Hdr'; exact Hg]. }
      exists r', i'. split; [exact Hrun|]. split; [|intros Hg0; apply Hgd; good_i1 Hg0]. destruct Hpost as (P1 & P2 & P3 & P4 & P5).
      unfold rt_post. cbn [emitted]. refine (conj P1 (conj P2 (conj _ (conj _ P5)))).
      * apply agree_cons; [|exact P3].
        destruct (in_dec Z.eq_dec (sp_field sp) (emitted k s)) as [Hin|Hnin].
        -- apply P3. apply in_or_app. left. exact Hin.
        -- rewrite (P4 _ Hnin). unfold r1, upd. rewrite Z.eqb_refl. symmetry. exact Hsig.
      * intros g Hg. cbn in Hg. rewrite P4 by tauto. unfold r1, upd.
        destruct (Z.eqb_spec g (sp_field sp)); [subst; tauto|reflexivity].
  - (* PWriteBytes *)
    cbn [run_w] in HR.
    destruct (eval_as cs call I64 s no_locals e) as [n|] eqn:En; [|discriminate]. cbn [bind] in HR.
    cbn [emitted] in Hds, Hdr.
    assert (Hsf : s f <> VUndef) by (apply Hds; left; reflexivity).
    assert (Hrf : r f <> VUndef) by (apply Hdr; left; reflexivity).
    assert (Hds' : defined_on (emitted k s) s) by (intros g Hg; apply Hds; right; exact Hg).
    assert (Hdr' : defined_on (emitted k s) r) by (intros g Hg; apply Hdr; right; exact Hg).
    destruct R; try discriminate.
    + (* array: PReadBytes *)
      apply andb_prop in HP. destruct HP as [HP HPk]. apply andb_prop in HP. destruct HP as [HP Hcnt].
      apply andb_prop in HP. destruct HP as [HP Heq]. apply andb_prop in HP. destruct HP as [Hfh Harr].
      apply Z.eqb_eq in Hfh. subst f0. apply expr_eqb_eq in Heq. subst e0.
      assert (Hkind := Harr). unfold is_arr, kind_of in Hkind.
      destruct (ff f) as [x|] eqn:Hx; [|discriminate]. cbn [option_map] in Hkind.
      destruct (f_kind x) as [t|ee nn|ee] eqn:Hk; try discriminate.
      pose proof (Hws f x Hx) as Hshape. pose proof (Hwr f x Hx) as Hshr.
      unfold shape_ok in Hshape, Hshr. rewrite Hk in Hshape, Hshr.
      destruct (s f) as [|bb|] eqn:Esf; try contradiction; try congruence.
      destruct (r f) as [|old|] eqn:Erf; try contradiction; try congruence.
      destruct (whole_count [] e f s Hcnt (M_sound_nil s) (cont_ok_arr s f Hws Harr (ex_intro _ bb Esf)))
        as (b1 & Hb1 & Hev1 & Hsm1).
      rewrite Esf in Hb1. injection Hb1 as <-. rewrite Hev1 in En. injection En as <-.
      destruct (whole_count [] e f r Hcnt (M_sound_nil r) (cont_ok_arr r f Hwr Harr (ex_intro _ old Erf)))
        as (b2 & Hb2 & Hev2 & Hsm2).
      rewrite Erf in Hb2. injection Hb2 as <-.
      assert (Hrb : exists rb, run_w cs call cap k s no_locals = Ok (s, rb) /\ bytes = bb ++ rb).
      { pose proof (zlen_nonneg bb). destruct (zlen bb <=? 0) eqn:E0.
        - assert (bb = []) by (destruct bb; [reflexivity|rewrite zlen_cons in *; pose proof (zlen_nonneg bb); lia]).
          subst bb. exists bytes. split; [exact HR|reflexivity].
        - replace (zlen bb <? zlen bb) with false in HR by lia.
          destruct (run_w cs call cap k s no_locals) as [[st rb]|] eqn:Ek; [|discriminate].
          cbn [bind fst snd] in HR. injection HR as Hst <-. exists rb. rewrite ztake_all.
          split; [|reflexivity]. f_equal. f_equal. eapply run_w_pure_state; eauto. }
      destruct Hrb as (rb & Ekk & ->). rewrite <- app_assoc in Hbytes.
      cbn [run_r]. rewrite Hev2. cbn [bind]. rewrite Erf.
      assert (Hlen : zlen old = zlen bb) by lia.
      rewrite s_read_exact; [|exact Hi|rewrite Hbytes, zlen_app; pose proof (zlen_nonneg old); pose proof (zlen_nonneg (rb ++ rest)); lia].
      rewrite Hbytes. rewrite (ztake_app_len (zlen old)) by lia.
      replace (zlen old <? zlen bb) with false by lia.
      rewrite <- Hlen. rewrite zdrop_all, app_nil_r.
      set (r1 := upd r f (VBytes bb)). match goal with |- context [advance (zlen old) i ?g ?e] => set (i1 := advance (zlen old) i g e) end.
      destruct (IH M known R s rb HPk Ekk HM Hws Hds' Hsig r1 i1 rest) as (r' & i' & Hrun & Hpost & Hgd).
      { apply nstream_advance; [exact Hi|]. rewrite Hbytes, zlen_app. pose proof (zlen_nonneg old). pose proof (zlen_nonneg (rb ++ rest)). lia. }
      { unfold i1, advance; cbn [s_after]. rewrite Hbytes. apply zdrop_app_len. lia. }
      { intros g Hg. unfold r1, upd. destruct (Z.eqb_spec g f) as [->|]; [symmetry; exact Esf|apply Hag; exact Hg]. }
      { apply (wf_upd r f x); [exact Hwr|exact Hx|]. unfold shape_ok. rewrite Hk. exact Hshape. }
      { intros g Hg. unfold r1, upd. destruct (g =? f); [discriminate|apply Hdr'; exact Hg]. }
      exists r', i'. split; [exact Hrun|]. split; [|intros Hg0; apply Hgd; good_i1 Hg0]. destruct Hpost as (P1 & P2 & P3 & P4 & P5).
      unfold rt_post. cbn [emitted]. refine (conj P1 (conj P2 (conj _ (conj _ P5)))).
      * intros g Hg. cbn in Hg. destruct Hg as [<-|Hg]; [|apply P3; exact Hg].
        destruct (in_dec Z.eq_dec f (emitted k s)) as [Hin|Hnin].
        -- apply P3. apply in_or_app. left. exact Hin.
        -- rewrite (P4 f Hnin). unfold r1, upd. rewrite Z.eqb_refl. symmetry. exact Esf.
      * intros g Hg. cbn in Hg. rewrite P4 by tauto. unfold r1, upd.
        destruct (Z.eqb_spec g f); [subst; tauto|reflexivity].
    + (* vector: PResize; PReadBytes *)
      destruct R; try discriminate.
      repeat (apply andb_prop in HP; let H := fresh "HQ" in destruct HP as [HP H]).
      rename HQ into HPk. rename HQ0 into Hin2. rename HQ1 into Hin1. rename HQ2 into Hso2. rename HQ3 into Hso1.
      rename HQ4 into Hc2. rename HQ5 into Hc1. rename HQ6 into Hc. rename HQ7 into Hnk. rename HQ8 into Hvec.
      rename HQ9 into Hfh. rename HP into Hfg.
      apply Z.eqb_eq in Hfg, Hfh. subst f0 f1.
      assert (Hkind := Hvec). unfold is_vec, kind_of in Hkind.
      destruct (ff f) as [x|] eqn:Hx; [|discriminate]. cbn [option_map] in Hkind.
      destruct (f_kind x) as [t|ee nn|ee] eqn:Hk; try discriminate.
      pose proof (Hws f x Hx) as Hshape. pose proof (Hwr f x Hx) as Hshr.
      unfold shape_ok in Hshape, Hshr. rewrite Hk in Hshape, Hshr.
      destruct (s f) as [|bb|] eqn:Esf; try contradiction; try congruence.
      destruct (r f) as [|old|] eqn:Erf; try contradiction; try congruence.
      pose proof (cont_ok_vec s f Hws Hvec (ex_intro _ bb Esf)) as Hcok.
      destruct (whole_count M e f s Hc HM Hcok) as (b1 & Hb1 & Hev1 & Hsm1).
      rewrite Esf in Hb1. injection Hb1 as <-. rewrite Hev1 in En. injection En as <-.
      destruct (whole_count M e1 f s Hc2 HM Hcok) as (b2 & Hb2 & Hev2 & _).
      rewrite Esf in Hb2. injection Hb2 as <-.
      destruct (elem_count M e0 f s Hc1 HM Hcok) as (b3 & Hb3 & Hev3 & Hmul).
      rewrite Esf in Hb3. injection Hb3 as <-.
      assert (Helt : elt_of cs f = ee) by (unfold elt_of; rewrite Hx, Hk; reflexivity).
      assert (Hnotk : ~ In f known) by (apply not_in_known; exact Hnk).
      assert (Hrb : exists rb, run_w cs call cap k s no_locals = Ok (s, rb) /\ bytes = bb ++ rb).
      { pose proof (zlen_nonneg bb). destruct (zlen bb <=? 0) eqn:E0.
        - assert (bb = []) by (destruct bb; [reflexivity|rewrite zlen_cons in *; pose proof (zlen_nonneg bb); lia]).
          subst bb. exists bytes. split; [exact HR|reflexivity].
        - replace (zlen bb <? zlen bb) with false in HR by lia.
          destruct (run_w cs call cap k s no_locals) as [[st rb]|] eqn:Ek; [|discriminate].
          cbn [bind fst snd] in HR. injection HR as Hst <-. exists rb. rewrite ztake_all.
          split; [|reflexivity]. f_equal. f_equal. eapply run_w_pure_state; eauto. }
      destruct Hrb as (rb & Ekk & ->). rewrite <- app_assoc in Hbytes.
      cbn [run_r].
      rewrite (eval_as_agree U64 e0 r s Hso1) by (intros y Hy; apply Hag; exact (incl_b_In _ _ Hin1 y Hy)).
      rewrite Hev3. cbn [bind]. rewrite Hx, Erf. rewrite Hk. cbn [kelt]. rewrite Helt in Hmul. rewrite Helt. rewrite Hmul.
      pose proof (zlen_nonneg bb) as Hnn.
      replace (cap <? zlen bb) with false by lia.
      set (buf := ztake (zlen bb) old ++ zeros (zlen bb - zlen old)).
      assert (Hbuf : zlen buf = zlen bb) by (apply resize_len; lia).
      set (r0 := upd r f (VBytes buf)).
      rewrite (eval_as_agree I64 e1 r0 s Hso2).
      2:{ intros y Hy. assert (In y known) by (exact (incl_b_In _ _ Hin2 y Hy)). unfold r0, upd.
          destruct (Z.eqb_spec y f) as [->|]; [contradiction|apply Hag; assumption]. }
      rewrite Hev2. cbn [bind]. unfold r0 at 1. unfold upd at 1. rewrite Z.eqb_refl.
      rewrite s_read_exact; [|exact Hi|rewrite Hbytes, zlen_app; pose proof (zlen_nonneg (rb ++ rest)); lia].
      rewrite Hbytes. rewrite (ztake_app_len (zlen bb)) by reflexivity.
      replace (zlen buf <? zlen bb) with false by lia.
      rewrite <- Hbuf. rewrite zdrop_all, app_nil_r. rewrite Hbuf.
      set (r1 := upd r0 f (VBytes bb)). match goal with |- context [advance (zlen bb) i ?g ?e] => set (i1 := advance (zlen bb) i g e) end.
      destruct (IH M known R s rb HPk Ekk HM Hws Hds' Hsig r1 i1 rest) as (r' & i' & Hrun & Hpost & Hgd).
      { apply nstream_advance; [exact Hi|]. rewrite Hbytes, zlen_app. pose proof (zlen_nonneg (rb ++ rest)). lia. }
      { unfold i1, advance; cbn [s_after]. rewrite Hbytes. apply zdrop_app_len. reflexivity. }
      { intros g Hg. unfold r1, r0, upd. destruct (Z.eqb_spec g f) as [->|]; [contradiction|apply Hag; exact Hg]. }
      { apply (wf_upd r0 f x); [apply (wf_upd r f x); [exact Hwr|exact Hx|]|exact Hx|]; unfold shape_ok; rewrite Hk.
        - rewrite Hbuf. exact Hshape.
        - exact Hshape. }
      { intros g Hg. unfold r1, r0, upd. destruct (g =? f); [discriminate|apply Hdr'; exact Hg]. }
      exists r', i'. split; [exact Hrun|]. split; [|intros Hg0; apply Hgd; good_i1 Hg0]. destruct Hpost as (P1 & P2 & P3 & P4 & P5).
      unfold rt_post. cbn [emitted]. refine (conj P1 (conj P2 (conj _ (conj _ P5)))).
      * intros g Hg. cbn in Hg. destruct Hg as [<-|Hg]; [|apply P3; exact Hg].
        destruct (in_dec Z.eq_dec f (emitted k s)) as [Hin|Hnin].
        -- apply P3. apply in_or_app. left. exact Hin.
        -- rewrite (P4 f Hnin). unfold r1, upd. rewrite Z.eqb_refl. symmetry. exact Esf.
      * intros g Hg. cbn in Hg. rewrite P4 by tauto. unfold r1, r0, upd.
        destruct (Z.eqb_spec g f); [subst; tauto|reflexivity].
  - (* PZero *)
    destruct R; try discriminate.
    apply andb_prop in HP. destruct HP as [HP HPk]. apply andb_prop in HP. destruct HP as [HP Hin].
    apply andb_prop in HP. destruct HP as [Heq Hso]. apply expr_eqb_eq in Heq. subst e0.
    cbn [run_w] in HR.
    destruct (eval_as cs call I64 s no_locals e) as [n|] eqn:En; [|discriminate]. cbn [bind] in HR.
    destruct ((n <? 0) || (cap <? n)) eqn:Ecap; [discriminate|].
    destruct (run_w cs call cap k s no_locals) as [[st rb]|] eqn:Ek; [|discriminate].
    cbn [bind fst snd] in HR. injection HR as Hst <-.
    assert (Ekk : run_w cs call cap k s no_locals = Ok (s, rb)).
    { rewrite Ek. f_equal. f_equal. eapply run_w_pure_state; eauto. }
    cbn [emitted] in *. rewrite <- app_assoc in Hbytes.
    assert (Hn : 0 <= n) by lia.
    cbn [run_r].
    rewrite (eval_as_agree I64 e r s Hso) by (intros y Hy; apply Hag; exact (incl_b_In _ _ Hin y Hy)).
    rewrite En. cbn [bind].
    rewrite s_seek_fwd; [|exact Hi|rewrite Hbytes, zlen_app, zlen_zeros by lia; pose proof (zlen_nonneg (rb ++ rest)); lia].
    set (i1 := advance n i (s_good i) (s_eof i)).
    destruct (IH M known R s rb HPk Ekk HM Hws Hds Hsig r i1 rest) as (r' & i' & Hrun & Hpost & Hgd); try assumption.
    { apply nstream_advance; [exact Hi|]. rewrite Hbytes, zlen_app, zlen_zeros by lia. pose proof (zlen_nonneg (rb ++ rest)). lia. }
    { unfold i1, advance; cbn [s_after]. rewrite Hbytes. apply zdrop_app_len. apply zlen_zeros. lia. }
    exists r', i'. split; [exact Hrun|]. split; [exact Hpost|]. intros Hg0. apply Hgd. unfold i1, advance; cbn [s_good]. exact Hg0.
  - (* PIf *)
    destruct R; try discriminate.
    repeat (apply andb_prop in HP; let H := fresh "HQ" in destruct HP as [HP H]).
    apply expr_eqb_eq in HP. subst c0.
    cbn [run_w] in HR. destruct (evalc s no_locals c) as [x|] eqn:Ec; [|discriminate]. cbn [bind] in HR.
    cbn [emitted] in *. rewrite Ec in *.
    cbn [run_r].
    rewrite (eval_agree c r s HQ2) by (intros y Hy; apply Hag; exact (incl_b_In _ _ HQ1 y Hy)).
    rewrite Ec. cbn [bind]. unfold rt_post. cbn [emitted]. rewrite Ec.
    destruct (fst x =? 0) eqn:Ez.
    + destruct (IHb M known R2 s bytes HQ HR HM Hws Hds Hsig r i rest Hi Hbytes Hag Hwr Hdr) as (r' & i' & H1 & H2).
      exists r', i'. split; [exact H1|exact H2].
    + destruct (IHa M known R1 s bytes HQ0 HR HM Hws Hds Hsig r i rest Hi Hbytes Hag Hwr Hdr) as (r' & i' & H1 & H2).
      exists r', i'. split; [exact H1|exact H2].
Qed.

End RT.
