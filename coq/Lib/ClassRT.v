(* ClassRT.v — from the pairing theorem to whole classes: leading length derivations of write(),
   representability guard, and the object-level round trip. *)
From VB Require Import Base IR Sem BaseFacts StreamFacts EvalFacts Roundtrip.
From Coq Require Import ZifyBool.
Local Open Scope Z_scope.
Set Default Proof Using "Type".
Ltac Zify.zify_post_hook ::= Z.div_mod_to_equations.

Section CRT.
Variable cs : classes.
Variable call : target -> mid -> state -> res (Z * ity).
Variable sp : scan_params.
Variable cap : Z.
Hypothesis cap_ge : 2 ^ 28 <= cap.
Hypothesis sig_range : 0 <= sp_sig sp < 2 ^ 32.

Notation ff := (find_field cs).

(* the leading assignments of a write program (its "pre processing") *)
Fixpoint split_pre (W : prog) : list (Z * expr) * prog :=
  match W with
  | PAssign f e k => let '(A, We) := split_pre k in ((f, e) :: A, We)
  | _ => ([], W)
  end.

Definition scalar_ty (f : Z) : option ity :=
  match ff f with Some x => match f_kind x with KScalar t => Some t | _ => None end | None => None end.

(* a derivation  len := (T) <count of container g>  *)
Definition derivation (fe : Z * expr) : option (Z * ity * cnt) :=
  match snd fe with
  | ECast t a => match cnt_of [] a, scalar_ty (fst fe) with
                 | Some c, Some t' => if ity_eq_dec t t' then Some (fst fe, t, c) else None
                 | _, _ => None end
  | _ => None
  end.

Definition pre_M (A : list (Z * expr)) : lenmap :=
  flat_map (fun fe => match derivation fe with Some (g, _, c) => [(g, c)] | None => [] end) A.

Definition cnt_field (c : cnt) : Z := match c with CSize f _ => f end.
Definition cnt_k (c : cnt) : Z := match c with CSize _ k => k end.

(* static side conditions on the pre-processing: targets are distinct scalars, derivations talk
   about vector or array members with a small multiplier *)
Definition pre_ok (A : list (Z * expr)) : bool :=
  forallb (fun fe => match scalar_ty (fst fe) with Some _ => true | None => false end) A &&
  (fix nodup (l : list Z) := match l with [] => true | x :: r => negb (existsb (Z.eqb x) r) && nodup r end) (map fst A) &&
  forallb (fun fe => match derivation fe with
                     | Some (_, _, c) => (is_vec cs (cnt_field c) || is_arr cs (cnt_field c)) && (0 <? cnt_k c) && (cnt_k c <=? 8)
                     | None => true end) A.

(* the property's representability proviso: every derived length fits its length member *)
Definition pre_guard (A : list (Z * expr)) (s : state) : Prop :=
  forall fe g t c, In fe A -> derivation fe = Some (g, t, c) -> in_type t (cnt_val cs s c) = true.

Fixpoint run_pre (A : list (Z * expr)) (s : state) : res state :=
  match A with
  | [] => Ok s
  | (f, e) :: r =>
      match scalar_ty f with
      | Some t => do v <- eval_as cs call t s no_locals e; run_pre r (upd s f (VInt v))
      | None => Err EType
      end
  end.

Lemma run_w_split W : forall s A We, split_pre W = (A, We) ->
  run_w cs call cap W s no_locals = (do s' <- run_pre A s; run_w cs call cap We s' no_locals).
Proof.
  induction W; intros s A We H; cbn [split_pre] in H;
    try (injection H as <- <-; reflexivity).
  destruct (split_pre W) as [A' We'] eqn:E. injection H as <- <-.
  cbn [run_w run_pre]. unfold scalar_ty.
  destruct (ff f) as [x|]; [|reflexivity]. destruct (f_kind x); try reflexivity.
  destruct (eval_as cs call t s no_locals e); [|reflexivity]. cbn [bind].
  apply IHW. reflexivity.
Qed.

(* containers are untouched by the pre-processing, and untouched members keep their value *)
Lemma run_pre_frame A : forall s s', run_pre A s = Ok s' ->
  forall f, ~ In f (map fst A) -> s' f = s f.
Proof.
  induction A as [|[g e] r IH]; intros s s' H f Hf; cbn [run_pre] in H.
  - injection H as <-. reflexivity.
  - destruct (scalar_ty g); [|discriminate].
    destruct (eval_as cs call i s no_locals e); [|discriminate]. cbn [bind] in H.
    rewrite (IH _ _ H f) by (intros Hin; apply Hf; right; exact Hin).
    unfold upd. destruct (Z.eqb_spec f g); [subst; exfalso; apply Hf; left; reflexivity|reflexivity].
Qed.

Lemma run_pre_wf A : forall s s', run_pre A s = Ok s' -> wf_state cs s -> wf_state cs s'.
Proof.
  induction A as [|[g e] r IH]; intros s s' H Hw; cbn [run_pre] in H.
  - injection H as <-. exact Hw.
  - unfold scalar_ty in H. destruct (ff g) as [x|] eqn:Hx; [|discriminate].
    destruct (f_kind x) as [t| |] eqn:Hk; try discriminate.
    unfold eval_as in H. destruct (eval cs call s no_locals e) as [v|]; [|discriminate]. cbn [bind] in H.
    apply (IH _ _ H). apply (wf_upd cs s g x); [exact Hw|exact Hx|].
    unfold shape_ok. rewrite Hk. apply norm_in_type.
Qed.

Lemma run_pre_defined A : forall s s' fs, run_pre A s = Ok s' -> defined_on fs s -> defined_on fs s'.
Proof.
  induction A as [|[g e] r IH]; intros s s' fs H Hd; cbn [run_pre] in H.
  - injection H as <-. exact Hd.
  - destruct (scalar_ty g); [|discriminate].
    destruct (eval_as cs call i s no_locals e); [|discriminate]. cbn [bind] in H.
    apply (IH _ _ fs H). intros f Hf. unfold upd. destruct (f =? g); [discriminate|apply Hd; exact Hf].
Qed.


Lemma container_not_scalar f g t : (is_vec cs f || is_arr cs f) = true -> scalar_ty g = Some t -> f <> g.
Proof.
  intros Hc Hs E. subst g. unfold scalar_ty in Hs. unfold is_vec, is_arr, kind_of in Hc.
  destruct (ff f) as [x|]; [|discriminate]. cbn [option_map] in Hc.
  destruct (f_kind x); try discriminate; cbn in Hc; discriminate.
Qed.

Lemma cnt_val_upd s g v f k : f <> g -> cnt_val cs (upd s g v) (CSize f k) = cnt_val cs s (CSize f k).
Proof.
  intros H. unfold cnt_val, elems, upd. destruct (Z.eqb_spec f g); [contradiction|reflexivity].
Qed.

Lemma cont_ok_ext s s' f : s' f = s f -> cont_ok cs s f -> cont_ok cs s' f.
Proof.  clear sig_range. intros E (x & b & H1 & H2 & H3). exists x, b. rewrite E. tauto. Qed.

Lemma cont_ok_of s f : wf_state cs s -> (is_vec cs f || is_arr cs f) = true -> (exists b, s f = VBytes b) -> cont_ok cs s f.
Proof.
  intros Hw H Hb. apply orb_prop in H. destruct H; [apply cont_ok_vec|apply cont_ok_arr]; assumption.
Qed.

(* what the static check gives for one entry *)
Definition entry_ok (fe : Z * expr) : Prop :=
  (exists t, scalar_ty (fst fe) = Some t) /\
  (forall g t c, derivation fe = Some (g, t, c) ->
     (is_vec cs (cnt_field c) || is_arr cs (cnt_field c)) = true /\ 0 < cnt_k c <= 8).

Lemma derivation_fst fe g t c : derivation fe = Some (g, t, c) -> g = fst fe /\ scalar_ty g = Some t /\
  exists a, snd fe = ECast t a /\ cnt_of [] a = Some c.
Proof.
  unfold derivation. destruct (snd fe) as [| | | | | | | | |t' a|]; try discriminate.
  destruct (cnt_of [] a) as [c'|] eqn:Ec; [|discriminate].
  destruct (scalar_ty (fst fe)) as [t''|] eqn:Et; [|discriminate].
  destruct (ity_eq_dec t' t'') as [Eq|]; [|discriminate]. subst t''. intros H. injection H as Hg Ht Hc. subst g t c.
  split; [reflexivity|]. split; [exact Et|]. exists a. split; [reflexivity|exact Ec].
Qed.

Lemma pre_M_sound A : forall s s',
  run_pre A s = Ok s' ->
  Forall entry_ok A -> NoDup (map fst A) ->
  wf_state cs s ->
  (forall fe g t c, In fe A -> derivation fe = Some (g, t, c) ->
     (exists b, s (cnt_field c) = VBytes b) /\ in_type t (cnt_val cs s c) = true) ->
  M_sound cs (pre_M A) s'.
Proof.
  induction A as [|[g0 e0] r IH]; intros s s' Hrun Hok Hnd Hw Hg.
  - intros g c H. discriminate.
  - cbn [run_pre] in Hrun. inversion Hok as [|? ? [[t0 Ht0] Hd0] Hokr]; subst. cbn [fst] in *.
    inversion Hnd as [|? ? Hnotin Hndr]; subst.
    rewrite Ht0 in Hrun.
    destruct (eval_as cs call t0 s no_locals e0) as [v0|] eqn:Ev; [|discriminate]. cbn [bind] in Hrun.
    set (s1 := upd s g0 (VInt v0)) in *.
    assert (Hw1 : wf_state cs s1).
    { unfold scalar_ty in Ht0. destruct (ff g0) as [x|] eqn:Hx; [|discriminate].
      destruct (f_kind x) as [t| |] eqn:Hk; try discriminate. injection Ht0 as ->.
      apply (wf_upd cs s g0 x); [exact Hw|exact Hx|]. unfold shape_ok. rewrite Hk.
      unfold eval_as in Ev. destruct (eval cs call s no_locals e0); [|discriminate]. cbn in Ev. injection Ev as <-.
      apply norm_in_type. }
    assert (Hg1 : forall fe g t c, In fe r -> derivation fe = Some (g, t, c) ->
              (exists b, s1 (cnt_field c) = VBytes b) /\ in_type t (cnt_val cs s1 c) = true).
    { intros fe g t c Hin Hder. destruct (Hg fe g t c (or_intror Hin) Hder) as [Hb Hty].
      rewrite Forall_forall in Hokr. destruct (Hokr fe Hin) as [_ Hd]. destruct (Hd g t c Hder) as [Hcont Hk].
      assert (Hne : cnt_field c <> g0) by (eapply container_not_scalar; eauto).
      destruct c as [f k]. cbn [cnt_field] in *. unfold s1. rewrite cnt_val_upd by exact Hne.
      split; [|exact Hty]. unfold upd. destruct (Z.eqb_spec f g0); [contradiction|exact Hb]. }
    pose proof (IH s1 s' Hrun Hokr Hndr Hw1 Hg1) as IHs.
    intros g c Hlook. unfold pre_M in Hlook. cbn [flat_map] in Hlook.
    destruct (derivation (g0, e0)) as [[[gd td] cd]|] eqn:Hder.
    + cbn [app mlook] in Hlook.
      destruct (derivation_fst _ _ _ _ Hder) as (Egd & Etd & a & Esnd & Ecnt). cbn [fst snd] in Egd, Esnd. subst gd e0.
      rewrite Ht0 in Etd. injection Etd as <-.
      destruct (Z.eqb_spec g0 g) as [<-|Hne].
      * injection Hlook as <-.
        destruct (Hd0 g0 t0 cd eq_refl) as [Hcont Hk].
        destruct (Hg (g0, ECast t0 a) g0 t0 cd (or_introl eq_refl) Hder) as [[b Hb] Hty].
        destruct cd as [f k]. cbn [cnt_field cnt_k] in *.
        assert (Hne : f <> g0) by (eapply container_not_scalar; eauto).
        assert (Hcok : cont_ok cs s f) by (apply cont_ok_of; [exact Hw|exact Hcont|exists b; exact Hb]).
        destruct (cnt_of_sound cs call [] a s no_locals f k Ecnt (M_sound_nil cs s) Hcok) as (_ & ta & Hev).
        unfold eval_as in Ev. cbn [eval] in Ev. rewrite Hev in Ev. cbn [bind fst] in Ev. injection Ev as Ev.
        assert (Hv0 : v0 = cnt_val cs s (CSize f k)).
        { rewrite <- Ev. cbn [cnt_val]. rewrite norm_id by apply norm_in_type. apply norm_id. exact Hty. }
        assert (Hs'g : s' g0 = VInt v0).
        { rewrite (run_pre_frame r s1 s' Hrun g0 Hnotin). unfold s1, upd. rewrite Z.eqb_refl. reflexivity. }
        assert (Hs'f : s' f = s f).
        { assert (Hfr : ~ In f (map fst r)).
          { intros Hin. apply in_map_iff in Hin. destruct Hin as [fe [Efe Hin]].
            rewrite Forall_forall in Hokr. destruct (Hokr fe Hin) as [[t' Ht'] _]. rewrite Efe in Ht'.
            eapply container_not_scalar; eauto. }
          rewrite (run_pre_frame r s1 s' Hrun f Hfr). unfold s1, upd.
          destruct (Z.eqb_spec f g0); [contradiction|reflexivity]. }
        unfold scalar_ty in Ht0. destruct (ff g0) as [x|] eqn:Hx; [|discriminate].
        destruct (f_kind x) as [t| |] eqn:Hkx; try discriminate. injection Ht0 as ->.
        exists x, t0. split; [reflexivity|]. split; [exact Hkx|]. split.
        -- rewrite Hs'g, Hv0. f_equal. unfold cnt_val, elems. rewrite Hs'f. reflexivity.
        -- split; [apply (cont_ok_ext s s' f Hs'f Hcok)|exact Hk].
      * apply IHs. exact Hlook.
    + cbn [app] in Hlook. apply IHs. exact Hlook.
Qed.


(* ---------- boolean check -> the Prop-level premises ---------- *)
Lemma nodup_b l :
  (fix nodup (l : list Z) := match l with [] => true | x :: r => negb (existsb (Z.eqb x) r) && nodup r end) l = true ->
  NoDup l.
Proof.
  induction l as [|x r IH]; intros H; [constructor|].
  apply andb_prop in H. destruct H as [H1 H2]. constructor; [|apply IH; exact H2].
  apply not_in_known. exact H1.
Qed.

Lemma pre_ok_entries A : pre_ok A = true -> Forall entry_ok A /\ NoDup (map fst A).
Proof.   clear call.
  unfold pre_ok. intros H. apply andb_prop in H. destruct H as [H H3]. apply andb_prop in H. destruct H as [H1 H2].
  split; [|apply nodup_b; exact H2].
  rewrite forallb_forall in H1, H3. apply Forall_forall. intros fe Hin.
  specialize (H1 fe Hin). specialize (H3 fe Hin). split.
  - destruct (scalar_ty (fst fe)) as [t|]; [exists t; reflexivity|discriminate].
  - intros g t c Hd. rewrite Hd in H3. apply andb_prop in H3. destruct H3 as [H3 Hk2].
    apply andb_prop in H3. destruct H3 as [Hc Hk1]. split; [exact Hc|lia].
Qed.

(* members written anywhere in an emitter *)
Fixpoint wfields (W : prog) : list Z :=
  match W with
  | PWrite f k => f :: wfields k
  | PWriteBytes f _ k => f :: wfields k
  | PZero _ k => wfields k
  | PIf _ a b => wfields a ++ wfields b
  | PAssign _ _ k => wfields k
  | _ => []
  end.

Lemma emitted_wfields W : forall s f, In f (emitted cs call W s) -> In f (wfields W).
Proof.
  induction W; intros s g Hg; cbn [emitted wfields] in *; try contradiction.
  - destruct Hg as [<-|Hg]; [left; reflexivity|right; eapply IHW; exact Hg].
  - destruct Hg as [<-|Hg]; [left; reflexivity|right; eapply IHW; exact Hg].
  - eapply IHW; exact Hg.
  - destruct (kind_of cs f) as [[t| |]|]; try contradiction.
    destruct (eval_as cs call t s no_locals e); [|contradiction]. eapply IHW; exact Hg.
  - destruct (eval cs call s no_locals c) as [x|]; [|contradiction].
    apply in_or_app. destruct (fst x =? 0); [right; eapply IHW2|left; eapply IHW1]; exact Hg.
Qed.

Definition deriv_conts (A : list (Z * expr)) : list Z :=
  flat_map (fun fe => match derivation fe with Some (_, _, c) => [cnt_field c] | None => [] end) A.

Definition class_rt_ok (W R : prog) : bool :=
  let '(A, We) := split_pre W in
  pre_ok A && negb (existsb (Z.eqb (sp_field sp)) (map fst A)) && pair_wr cs sp (pre_M A) [] We R.

Theorem object_roundtrip_stream W R : class_rt_ok W R = true ->
  let A := fst (split_pre W) in let We := snd (split_pre W) in
  forall s s' bytes,
    run_w cs call cap W s no_locals = Ok (s', bytes) ->
    wf_state cs s -> defined_on (wfields We ++ deriv_conts A) s ->
    s (sp_field sp) = VInt (sp_sig sp) -> pre_guard A s ->
  forall r i rest, nstream i -> s_after i = bytes ++ rest -> wf_state cs r -> defined_on (wfields We) r ->
  exists r' i',
    run_r cs call sp cap R r no_locals i = Ok (r', i') /\
    nstream i' /\ s_after i' = rest /\ (s_good i = true -> s_good i' = true) /\
    agree_on (emitted cs call We s') r' s' /\
    (forall f, ~ In f (emitted cs call We s') -> r' f = r f) /\
    (forall f, ~ In f (map fst A) -> s' f = s f).
Proof using cap_ge sig_range.
  unfold class_rt_ok. destruct (split_pre W) as [A We] eqn:Esp. cbn [fst snd].
  intros Hok s s' bytes Hrun Hws Hds Hsig Hguard r i rest Hi Hafter Hwr Hdr.
  apply andb_prop in Hok. destruct Hok as [Hok Hpair]. apply andb_prop in Hok. destruct Hok as [Hpre Hnsig].
  destruct (pre_ok_entries A Hpre) as [Hent Hnd].
  rewrite (run_w_split W s A We Esp) in Hrun.
  destruct (run_pre A s) as [s1|] eqn:Epre; [|discriminate]. cbn [bind] in Hrun.
  assert (Hs1 : s' = s1) by (eapply run_w_pure_state; eauto). subst s1.
  assert (HM : M_sound cs (pre_M A) s').
  { apply (pre_M_sound A s s' Epre Hent Hnd Hws). intros fe g t c Hin Hder. split; [|eapply Hguard; eauto].
    assert (Hc : In (cnt_field c) (deriv_conts A)).
    { unfold deriv_conts. apply in_flat_map. exists fe. split; [exact Hin|]. rewrite Hder. left. reflexivity. }
    assert (Hdef : s (cnt_field c) <> VUndef) by (apply Hds; apply in_or_app; right; exact Hc).
    rewrite Forall_forall in Hent. destruct (Hent fe Hin) as [_ Hd]. destruct (Hd g t c Hder) as [Hcont _].
    pose proof Hcont as Hcont'. unfold is_vec, is_arr, kind_of in Hcont'.
    destruct (ff (cnt_field c)) as [x|] eqn:Hx; [|discriminate]. cbn [option_map] in Hcont'.
    pose proof (Hws _ x Hx) as Hsh. unfold shape_ok in Hsh.
    destruct (f_kind x); try discriminate; destruct (s (cnt_field c)) as [|b|]; try contradiction; try congruence; exists b; reflexivity. }
  assert (Hws' : wf_state cs s') by (eapply run_pre_wf; eauto).
  assert (Hds' : defined_on (emitted cs call We s') s').
  { intros f Hf. apply (run_pre_defined A s s' _ Epre Hds). apply in_or_app. left. eapply emitted_wfields; eauto. }
  assert (Hsig' : s' (sp_field sp) = VInt (sp_sig sp)).
  { rewrite (run_pre_frame A s s' Epre); [exact Hsig|]. apply not_in_known. exact Hnsig. }
  assert (Hdr' : defined_on (emitted cs call We s') r).
  { intros f Hf. apply Hdr. eapply emitted_wfields; eauto. }
  destruct (pair_sound cs call sp cap cap_ge sig_range We (pre_M A) [] R s' bytes Hpair Hrun HM Hws' Hds' Hsig'
              r i rest Hi Hafter) as (r' & i' & Hr & (P1 & P2 & P3 & P4 & P5) & Pg);
    try assumption.
  { intros f Hf. contradiction. }
  exists r', i'. split; [exact Hr|]. split; [exact P1|]. split; [exact P2|]. split; [exact Pg|]. split.
  - intros f Hf. apply P3. apply in_or_app. left. exact Hf.
  - split; [exact P4|]. intros f Hf. eapply run_pre_frame; eauto.
Qed.


(* what write() leaves behind: the emission part run from the state with the derived members filled in *)
Lemma object_write_facts W R : class_rt_ok W R = true ->
  let A := fst (split_pre W) in let We := snd (split_pre W) in
  forall s s' bytes,
    run_w cs call cap W s no_locals = Ok (s', bytes) ->
    wf_state cs s -> defined_on (wfields We ++ deriv_conts A) s ->
    s (sp_field sp) = VInt (sp_sig sp) -> pre_guard A s ->
  run_w cs call cap We s' no_locals = Ok (s', bytes) /\ wf_state cs s' /\
  defined_on (emitted cs call We s') s' /\ s' (sp_field sp) = VInt (sp_sig sp).
Proof using cap_ge sig_range.
  unfold class_rt_ok. destruct (split_pre W) as [A We] eqn:Esp. cbn [fst snd].
  intros Hok s s' bytes Hrun Hws Hds Hsig Hguard.
  apply andb_prop in Hok. destruct Hok as [Hok Hpair]. apply andb_prop in Hok. destruct Hok as [Hpre Hnsig].
  rewrite (run_w_split W s A We Esp) in Hrun.
  destruct (run_pre A s) as [s1|] eqn:Epre; [|discriminate]. cbn [bind] in Hrun.
  assert (Hs1 : s' = s1) by (eapply run_w_pure_state; eauto). subst s1.
  split; [exact Hrun|]. split; [eapply run_pre_wf; eauto|]. split.
  - intros f Hf. apply (run_pre_defined A s s' _ Epre Hds). apply in_or_app. left. eapply emitted_wfields; eauto.
  - rewrite (run_pre_frame A s s' Epre); [exact Hsig|]. apply not_in_known. exact Hnsig.
Qed.

(* the special case of a stream that starts at the object *)
Theorem object_roundtrip W R : class_rt_ok W R = true ->
  let A := fst (split_pre W) in let We := snd (split_pre W) in
  forall s s' bytes,
    run_w cs call cap W s no_locals = Ok (s', bytes) ->
    wf_state cs s -> defined_on (wfields We ++ deriv_conts A) s ->
    s (sp_field sp) = VInt (sp_sig sp) -> pre_guard A s ->
  forall r rest, wf_state cs r -> defined_on (wfields We) r ->
  exists r' i',
    run_r cs call sp cap R r no_locals (mk_ustream (bytes ++ rest)) = Ok (r', i') /\
    nstream i' /\ s_after i' = rest /\
    agree_on (emitted cs call We s') r' s' /\
    (forall f, ~ In f (emitted cs call We s') -> r' f = r f) /\
    (forall f, ~ In f (map fst A) -> s' f = s f).
Proof using cap_ge sig_range.
  intros Hok A We s s' bytes Hrun Hws Hds Hsig Hguard r rest Hwr Hdr.
  destruct (object_roundtrip_stream W R Hok s s' bytes Hrun Hws Hds Hsig Hguard r (mk_ustream (bytes ++ rest)) rest (nstream_mk _) eq_refl Hwr Hdr)
    as (r' & i' & H1 & H2 & H3 & _ & H4 & H5 & H6).
  exists r', i'. split; [exact H1|]. split; [exact H2|]. split; [exact H3|]. split; [exact H4|]. split; [exact H5|exact H6].
Qed.

(* ---------- the encoder stays inside the caller's containers ---------- *)
Ltac errne H := cbn [bind]; let E := fresh in intros E; apply H; injection E as ->; reflexivity.

Hypothesis call_no_oob : forall tg m s, call tg m s <> Err EOOBRead.

Lemma eval_as_no_oob t s e : eval_as cs call t s no_locals e <> Err EOOBRead.
Proof using call_no_oob.
  unfold eval_as. pose proof (eval_no_oob cs call e call_no_oob s no_locals) as H.
  destruct (eval cs call s no_locals e); cbn [bind]; [discriminate|]. intros E. apply H. injection E as ->. reflexivity.
Qed.

Lemma run_w_in_bounds W : forall M known R s,
  pair_wr cs sp M known W R = true -> M_sound cs M s -> wf_state cs s -> defined_on (wfields W) s ->
  run_w cs call cap W s no_locals <> Err EOOBRead.
Proof using call_no_oob.
  induction W as [| | | |f k IH|f k IH|f e k IH|f e k IH|f e k IH|e k IH|e k IH|f e k IH|x t e k IH|x e k IH|k IH|c a IHa b IHb];
    intros M known R s HP HM Hw Hd; cbn [pair_wr] in HP; try discriminate; cbn [run_w wfields] in *.
  - destruct (ff f) as [x|]; [|discriminate].
    assert (Hfb : field_bytes x (s f) <> Err EOOBRead).
    { unfold field_bytes. destruct (f_kind x); destruct (s f); try discriminate.
      match goal with |- context [if ?c then _ else _] => destruct c end; discriminate. }
    destruct (field_bytes x (s f)); [|errne Hfb]. cbn [bind].
    assert (Hk : run_w cs call cap k s no_locals <> Err EOOBRead).
    { destruct R; try discriminate; repeat (apply andb_prop in HP; destruct HP as [HP ?]);
        eapply IH; eauto; intros g Hg; apply Hd; right; exact Hg. }
    destruct (run_w cs call cap k s no_locals); cbn [bind]; [discriminate|errne Hk].
  - assert (Hsf : s f <> VUndef) by (apply Hd; left; reflexivity).
    assert (Hd' : defined_on (wfields k) s) by (intros g Hg; apply Hd; right; exact Hg).
    destruct R; try discriminate.
    + (* array *)
      apply andb_prop in HP. destruct HP as [HP HPk]. apply andb_prop in HP. destruct HP as [HP Hcnt].
      apply andb_prop in HP. destruct HP as [HP Heq]. apply andb_prop in HP. destruct HP as [Hfh Harr].
      assert (Hkind := Harr). unfold is_arr, kind_of in Hkind.
      destruct (ff f) as [x|] eqn:Hx; [|discriminate]. cbn [option_map] in Hkind.
      destruct (f_kind x) as [t|ee nn|ee] eqn:Hk; try discriminate.
      pose proof (Hw f x Hx) as Hshape. unfold shape_ok in Hshape. rewrite Hk in Hshape.
      destruct (s f) as [|bb|] eqn:Esf; try contradiction; try congruence.
      destruct (whole_count cs call [] e f s Hcnt (M_sound_nil cs s) (cont_ok_arr cs s f Hw Harr (ex_intro _ bb Esf)))
        as (b1 & Hb1 & Hev1 & Hsm1).
      rewrite Esf in Hb1. injection Hb1 as <-. rewrite Hev1. cbn [bind].
      assert (Hk' : run_w cs call cap k s no_locals <> Err EOOBRead) by (eapply IH; eauto).
      destruct (zlen bb <=? 0); [exact Hk'|]. replace (zlen bb <? zlen bb) with false by lia.
      destruct (run_w cs call cap k s no_locals); cbn [bind]; [discriminate|errne Hk'].
    + (* vector *)
      destruct R; try discriminate.
      repeat (apply andb_prop in HP; let H := fresh "HQ" in destruct HP as [HP H]).
      assert (Hkind := HQ8). unfold is_vec, kind_of in Hkind.
      destruct (ff f) as [x|] eqn:Hx; [|discriminate]. cbn [option_map] in Hkind.
      destruct (f_kind x) as [t|ee nn|ee] eqn:Hk; try discriminate.
      pose proof (Hw f x Hx) as Hshape. unfold shape_ok in Hshape. rewrite Hk in Hshape.
      destruct (s f) as [|bb|] eqn:Esf; try contradiction; try congruence.
      destruct (whole_count cs call M e f s HQ6 HM (cont_ok_vec cs s f Hw HQ8 (ex_intro _ bb Esf)))
        as (b1 & Hb1 & Hev1 & Hsm1).
      rewrite Esf in Hb1. injection Hb1 as <-. rewrite Hev1. cbn [bind].
      assert (Hk' : run_w cs call cap k s no_locals <> Err EOOBRead) by (eapply IH; eauto).
      destruct (zlen bb <=? 0); [exact Hk'|]. replace (zlen bb <? zlen bb) with false by lia.
      destruct (run_w cs call cap k s no_locals); cbn [bind]; [discriminate|errne Hk'].
  - destruct R; try discriminate. repeat (apply andb_prop in HP; destruct HP as [HP ?]).
    pose proof (eval_as_no_oob I64 s e) as He.
    destruct (eval_as cs call I64 s no_locals e) as [n|]; cbn [bind]; [|errne He].
    destruct ((n <? 0) || (cap <? n)); [discriminate|].
    assert (Hk' : run_w cs call cap k s no_locals <> Err EOOBRead) by (eapply IH; eauto).
    destruct (run_w cs call cap k s no_locals); cbn [bind]; [discriminate|errne Hk'].
  - destruct R; try discriminate. repeat (apply andb_prop in HP; let H := fresh "HQ" in destruct HP as [HP H]).
    pose proof (eval_no_oob cs call c call_no_oob s no_locals) as He.
    destruct (eval cs call s no_locals c) as [x|]; cbn [bind]; [|errne He].
    destruct (fst x =? 0).
    + eapply IHb; eauto. intros g Hg. apply Hd. apply in_or_app. right. exact Hg.
    + eapply IHa; eauto. intros g Hg. apply Hd. apply in_or_app. left. exact Hg.
Qed.

(* whole classes: whatever the stale values in the derived members *)
Lemma run_pre_no_oob A : forall s, run_pre A s <> Err EOOBRead.
Proof using call_no_oob.
  induction A as [|[g e] r IH]; intros s; cbn [run_pre]; [discriminate|].
  destruct (scalar_ty g) as [t|]; [|discriminate].
  pose proof (eval_as_no_oob t s e) as He.
  destruct (eval_as cs call t s no_locals e); cbn [bind]; [apply IH|errne He].
Qed.

Theorem encoder_in_bounds W R : class_rt_ok W R = true ->
  let A := fst (split_pre W) in let We := snd (split_pre W) in
  forall s, wf_state cs s -> defined_on (wfields We ++ deriv_conts A) s -> pre_guard A s ->
  run_w cs call cap W s no_locals <> Err EOOBRead.
Proof using call_no_oob.
  unfold class_rt_ok. destruct (split_pre W) as [A We] eqn:Esp. cbn [fst snd].
  intros Hok s Hws Hds Hguard.
  apply andb_prop in Hok. destruct Hok as [Hok Hpair]. apply andb_prop in Hok. destruct Hok as [Hpre Hnsig].
  destruct (pre_ok_entries A Hpre) as [Hent Hnd].
  rewrite (run_w_split W s A We Esp).
  pose proof (run_pre_no_oob A s) as Hpn.
  destruct (run_pre A s) as [s1|] eqn:Epre; cbn [bind]; [|errne Hpn].
  eapply run_w_in_bounds; eauto.
  - apply (pre_M_sound A s s1 Epre Hent Hnd Hws). intros fe g t c Hin Hder. split; [|eapply Hguard; eauto].
    assert (Hc : In (cnt_field c) (deriv_conts A)).
    { unfold deriv_conts. apply in_flat_map. exists fe. split; [exact Hin|]. rewrite Hder. left. reflexivity. }
    assert (Hdef : s (cnt_field c) <> VUndef) by (apply Hds; apply in_or_app; right; exact Hc).
    rewrite Forall_forall in Hent. destruct (Hent fe Hin) as [_ Hd]. destruct (Hd g t c Hder) as [Hcont _].
    pose proof Hcont as Hcont'. unfold is_vec, is_arr, kind_of in Hcont'.
    destruct (ff (cnt_field c)) as [x|] eqn:Hx; [|discriminate]. cbn [option_map] in Hcont'.
    pose proof (Hws _ x Hx) as Hsh. unfold shape_ok in Hsh.
    destruct (f_kind x); try discriminate; destruct (s (cnt_field c)) as [|b|]; try contradiction; try congruence; exists b; reflexivity.
  - eapply run_pre_wf; eauto.
  - apply (run_pre_defined A s s1 _ Epre). intros f Hf. apply Hds. apply in_or_app. left. exact Hf.
Qed.

End CRT.
