(* BaseFacts.v — lemmas about byte lists, little-endian coding and C integer normalisation. *)
From VB Require Import Base IR Sem.
From Coq Require Import ZifyBool.
Local Open Scope Z_scope.

Ltac Zify.zify_post_hook ::= Z.div_mod_to_equations.

(* ---------- zlen / ztake / zdrop ---------- *)
Lemma zlen_nonneg {A} (l : list A) : 0 <= zlen l.
Proof. unfold zlen. lia. Qed.

Lemma zlen_app {A} (a b : list A) : zlen (a ++ b) = zlen a + zlen b.
Proof. unfold zlen. rewrite app_length. lia. Qed.

Lemma zlen_nil {A} : zlen (@nil A) = 0.
Proof. reflexivity. Qed.

Lemma zlen_cons {A} (x : A) l : zlen (x :: l) = 1 + zlen l.
Proof. unfold zlen. cbn [length]. lia. Qed.

Lemma ztake_app_exact {A} (a b : list A) : ztake (zlen a) (a ++ b) = a.
Proof.
  unfold ztake, zlen. rewrite Nat2Z.id.
  rewrite firstn_app, Nat.sub_diag, firstn_all. cbn. apply app_nil_r.
Qed.

Lemma zdrop_app_exact {A} (a b : list A) : zdrop (zlen a) (a ++ b) = b.
Proof.
  unfold zdrop, zlen. rewrite Nat2Z.id.
  rewrite skipn_app, Nat.sub_diag, skipn_all. reflexivity.
Qed.

Lemma ztake_app_len {A} n (a b : list A) : zlen a = n -> ztake n (a ++ b) = a.
Proof. intros <-. apply ztake_app_exact. Qed.

Lemma zdrop_app_len {A} n (a b : list A) : zlen a = n -> zdrop n (a ++ b) = b.
Proof. intros <-. apply zdrop_app_exact. Qed.

Lemma ztake_all {A} (l : list A) : ztake (zlen l) l = l.
Proof. unfold ztake, zlen. rewrite Nat2Z.id. apply firstn_all. Qed.

Lemma zdrop_all {A} (l : list A) : zdrop (zlen l) l = [].
Proof. unfold zdrop, zlen. rewrite Nat2Z.id. apply skipn_all. Qed.

Lemma ztake_zlen {A} n (l : list A) : 0 <= n <= zlen l -> zlen (ztake n l) = n.
Proof. unfold ztake, zlen. intros H. rewrite firstn_length. lia. Qed.

Lemma zdrop_zlen {A} n (l : list A) : 0 <= n <= zlen l -> zlen (zdrop n l) = zlen l - n.
Proof. unfold zdrop, zlen. intros H. rewrite skipn_length. lia. Qed.

Lemma ztake_zdrop {A} n (l : list A) : ztake n l ++ zdrop n l = l.
Proof. unfold ztake, zdrop. apply firstn_skipn. Qed.

Lemma zlen_zeros n : 0 <= n -> zlen (zeros n) = n.
Proof. unfold zeros, zlen. intros H. rewrite repeat_length. lia. Qed.

Lemma zeros_nonpos n : n <= 0 -> zeros n = [].
Proof. unfold zeros. intros H. replace (Z.to_nat n) with O by lia. reflexivity. Qed.

Lemma zlen_repeat {A} (x : A) n : zlen (repeat x n) = Z.of_nat n.
Proof. unfold zlen. rewrite repeat_length. reflexivity. Qed.

(* ---------- little endian ---------- *)
Lemma le_enc_nat_length w z : length (le_enc_nat w z) = w.
Proof. revert z; induction w as [|w IH]; intros z; cbn [le_enc_nat length]; [reflexivity|]. rewrite IH. reflexivity. Qed.

Lemma zlen_le_enc w z : 0 <= w -> zlen (le_enc w z) = w.
Proof. intros H. unfold le_enc, zlen. rewrite le_enc_nat_length. lia. Qed.

Lemma le_dec_enc_nat w z : 0 <= z < 256 ^ Z.of_nat w -> le_dec (le_enc_nat w z) = z.
Proof.
  revert z; induction w as [|w IH]; intros z Hz.
  - cbn in *. lia.
  - cbn [le_enc_nat le_dec].
    rewrite IH.
    + pose proof (Z.div_mod z 256). lia.
    + rewrite Nat2Z.inj_succ, Z.pow_succ_r in Hz by lia.
      split; [apply Z.div_pos; lia|]. apply Z.div_lt_upper_bound; lia.
Qed.

Lemma le_dec_enc w z : 0 <= w -> 0 <= z < 256 ^ w -> le_dec (le_enc w z) = z.
Proof.
  intros Hw Hz. unfold le_enc. apply le_dec_enc_nat. rewrite Z2Nat.id by lia. exact Hz.
Qed.

Lemma le_enc_nat_bytes w z : Forall (fun b => 0 <= b < 256) (le_enc_nat w z).
Proof.
  revert z; induction w as [|w IH]; intros z; cbn [le_enc_nat]; constructor; [|apply IH].
  apply Z.mod_pos_bound. lia.
Qed.

Lemma le_dec_bound l : Forall (fun b => 0 <= b < 256) l -> 0 <= le_dec l < 256 ^ zlen l.
Proof.
  induction l as [|b r IH]; intros H.
  - cbn. lia.
  - inversion H as [|? ? Hb Hr]; subst. specialize (IH Hr).
    cbn [le_dec]. rewrite zlen_cons.
    rewrite Z.add_comm, Z.pow_add_r by (try lia; apply zlen_nonneg). lia.
Qed.

(* encoding the decoded value of w bytes gives back the bytes (needed for decode-then-encode) *)
Lemma le_enc_dec_nat l : Forall (fun b => 0 <= b < 256) l -> le_enc_nat (length l) (le_dec l) = l.
Proof.
  induction l as [|b r IH]; intros H; [reflexivity|].
  inversion H as [|? ? Hb Hr]; subst.
  cbn [length le_enc_nat le_dec].
  replace ((b + 256 * le_dec r) mod 256) with b by lia.
  replace ((b + 256 * le_dec r) / 256) with (le_dec r) by lia.
  rewrite IH by exact Hr. reflexivity.
Qed.

(* ---------- widths and normalisation ---------- *)
Lemma width_pos t : 0 < width t.
Proof. destruct t; cbn; lia. Qed.

Lemma bits_pos t : 0 < bits t.
Proof. unfold bits. pose proof (width_pos t). lia. Qed.

Lemma pow256_bits t : 256 ^ width t = 2 ^ bits t.
Proof.
  unfold bits. replace 256 with (2 ^ 8) by reflexivity.
  rewrite <- Z.pow_mul_r by (pose proof (width_pos t); lia). reflexivity.
Qed.

(* the values a scalar member of type t can hold, as the model stores them *)
Definition in_type (t : ity) (z : Z) : bool :=
  match t with TBool => (z =? 0) || (z =? 1) | _ => in_range t z end.

Ltac simp_pow :=
  cbn [bits width signed] in *;
  repeat match goal with
         | |- context [Z.pow 2 ?n] => let v := eval vm_compute in (Z.pow 2 n) in change (Z.pow 2 n) with v
         | H : context [Z.pow 2 ?n] |- _ => let v := eval vm_compute in (Z.pow 2 n) in change (Z.pow 2 n) with v in H
         end.

Lemma norm_id t z : in_type t z = true -> norm t z = z.
Proof.
  intros H; destruct t; unfold in_type, in_range, norm in *; simp_pow; try lia.
  destruct (z =? 0) eqn:E; lia.
Qed.

Lemma norm_in_type t z : in_type t (norm t z) = true.
Proof.
  destruct t; unfold in_type, in_range, norm; simp_pow; try lia.
  destruct (z =? 0); reflexivity.
Qed.

(* two's-complement pattern of a value of type t, and back *)
Lemma norm_mod_pattern t z : in_type t z = true -> norm t (z mod 2 ^ bits t) = z.
Proof.
  intros H. destruct t; unfold in_type, in_range, norm in *; simp_pow; try lia.
  assert (z = 0 \/ z = 1) as [-> | ->] by lia; reflexivity.
Qed.

Lemma scalar_roundtrip t z : in_type t z = true ->
  norm t (le_dec (le_enc (width t) (z mod 2 ^ bits t))) = z.
Proof.
  intros H. rewrite le_dec_enc.
  - apply norm_mod_pattern. exact H.
  - pose proof (width_pos t). lia.
  - rewrite pow256_bits. apply Z.mod_pos_bound. apply Z.pow_pos_nonneg; [lia|]. pose proof (bits_pos t). lia.
Qed.
