(* OQModel.v — the object queue as a short readable model (what the C16 theorems are about).
   Inst/QueueEq.v proves, on every run, that the methods translated from ObjectQueue.cpp compute
   exactly these functions.  Definitions only. *)
From Coq Require Import List ZArith Bool.
Import ListNotations.
Local Open Scope Z_scope.

Definition M32 : Z := 4294967296.          (* 2^32 : the counters are uint32_t *)
Definition wrap32 (z : Z) : Z := z mod M32.

Record oq := {
  q_abort : bool;
  q_items : list Z;        (* queued objects, oldest first (an object is a non-zero token) *)
  q_tellg : Z;             (* objects taken out so far   (uint32) *)
  q_tellp : Z;             (* objects put in so far      (uint32) *)
  q_cap : Z;               (* m_bufferSize               (uint32) *)
  q_fsz : Z;               (* m_fileSize: declared end   (uint32) *)
  q_rd : Z                 (* m_rdstate: 0 good, 6 = eofbit|failbit *)
}.

Definition oq_init : oq :=
  {| q_abort := false; q_items := []; q_tellg := 0; q_tellp := 0; q_cap := M32 - 1; q_fsz := M32 - 1; q_rd := 0 |}.

(* condition variables *)
Definition CV_tellg : nat := 0%nat.   (* tellgChanged: "data was dequeued" *)
Definition CV_tellp : nat := 1%nat.   (* tellpChanged: "data was enqueued" *)

(* ---- wait predicates ---- *)
Definition read_guard (s : oq) : bool :=
  q_abort s || negb (match q_items s with [] => true | _ => false end) || (q_fsz s <=? q_tellg s).
Definition write_guard (s : oq) : bool :=
  q_abort s || (wrap32 (Z.of_nat (length (q_items s))) <? q_cap s).

(* ---- method bodies (after the wait) : new state, result, notified condition variables ---- *)
Definition oq_read (s : oq) : oq * option Z * list nat :=
  match q_items s with
  | [] => ({| q_abort := q_abort s; q_items := []; q_tellg := q_tellg s; q_tellp := q_tellp s;
              q_cap := q_cap s; q_fsz := q_fsz s; q_rd := 6 |}, None, [CV_tellg])
  | x :: r => ({| q_abort := q_abort s; q_items := r; q_tellg := wrap32 (q_tellg s + 1); q_tellp := q_tellp s;
                  q_cap := q_cap s; q_fsz := q_fsz s; q_rd := 0 |}, Some x, [CV_tellg])
  end.

Definition oq_write (s : oq) (x : Z) : oq * list nat :=
  let tp := wrap32 (q_tellp s + 1) in
  ({| q_abort := q_abort s; q_items := q_items s ++ [x]; q_tellg := q_tellg s; q_tellp := tp;
      q_cap := q_cap s; q_fsz := if q_fsz s <? tp then tp else q_fsz s; q_rd := q_rd s |}, [CV_tellp]).

Definition oq_abort (s : oq) : oq * list nat :=
  ({| q_abort := true; q_items := q_items s; q_tellg := q_tellg s; q_tellp := q_tellp s;
      q_cap := q_cap s; q_fsz := q_fsz s; q_rd := q_rd s |}, [CV_tellg; CV_tellp]).

Definition oq_setFileSize (s : oq) (n : Z) : oq * list nat :=
  ({| q_abort := q_abort s; q_items := q_items s; q_tellg := q_tellg s; q_tellp := q_tellp s;
      q_cap := q_cap s; q_fsz := wrap32 n; q_rd := q_rd s |}, [CV_tellp]).

Definition oq_setBufferSize (s : oq) (n : Z) : oq * list nat :=
  ({| q_abort := q_abort s; q_items := q_items s; q_tellg := q_tellg s; q_tellp := q_tellp s;
      q_cap := wrap32 n; q_fsz := q_fsz s; q_rd := q_rd s |}, []).

Definition oq_good (s : oq) : bool := q_rd s =? 0.
Definition oq_eof (s : oq) : bool := negb (Z.land (q_rd s) 2 =? 0).

(* the destructor: abort, then delete everything still queued *)
Definition oq_destroy (s : oq) : oq * list Z :=
  ({| q_abort := true; q_items := []; q_tellg := q_tellg s; q_tellp := q_tellp s;
      q_cap := q_cap s; q_fsz := q_fsz s; q_rd := q_rd s |}, q_items s).

(* ---- operations as data: the alphabet of the property ---- *)
Inductive qop := QRead | QWrite (x : Z) | QAbort | QSetFileSize (n : Z) | QSetBufferSize (n : Z).

Definition qenabled (s : oq) (o : qop) : bool :=
  match o with QRead => read_guard s | QWrite _ => write_guard s | _ => true end.

(* one call that does not block: new state, the object read() returned (None: nullptr, or another method) *)
Definition qstep (s : oq) (o : qop) : oq * option Z * list nat :=
  match o with
  | QRead => oq_read s
  | QWrite x => let '(s', n) := oq_write s x in (s', None, n)
  | QAbort => let '(s', n) := oq_abort s in (s', None, n)
  | QSetFileSize k => let '(s', n) := oq_setFileSize s k in (s', None, n)
  | QSetBufferSize k => let '(s', n) := oq_setBufferSize s k in (s', None, n)
  end.

(* a history: calls in the order in which they took effect; a call whose wait predicate is false
   cannot take effect at that point, so such a history is not an execution (None) *)
Fixpoint qrun (s : oq) (ops : list qop) : option (oq * list Z) :=   (* final state, objects returned by read *)
  match ops with
  | [] => Some (s, [])
  | o :: r =>
      if qenabled s o then
        let '(s', ret, _) := qstep s o in
        match qrun s' r with
        | Some (s'', outs) => Some (s'', match ret with Some x => x :: outs | None => outs end)
        | None => None end
      else None
  end.

Fixpoint written (ops : list qop) : list Z :=
  match ops with [] => [] | QWrite x :: r => x :: written r | _ :: r => written r end.
