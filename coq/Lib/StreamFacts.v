(* StreamFacts.v — the in-memory stream on well-positioned states: reads and forward seeks
   consume the remaining bytes exactly. *)
From VB Require Import Base IR Sem BaseFacts.
From Coq Require Import ZifyBool.
Local Open Scope Z_scope.
Ltac Zify.zify_post_hook ::= Z.div_mod_to_equations.

(* a stream of the in-memory flavour whose cursor is inside the data *)
Definition nstream (s : istream) : Prop :=
  s_sticky s = false /\ s_cur s = zlen (s_before s) /\ s_pos s = s_cur s /\
  s_size s = zlen (s_before s) + zlen (s_after s).

Lemma nstream_mk b : nstream (mk_ustream b).
Proof. unfold nstream, mk_ustream; cbn. repeat split; try reflexivity. Qed.

Lemma zip_take_spec n : forall b a,
  zip_take n b a = (firstn n a, (rev (firstn n a) ++ b, skipn n a)).
Proof.
  induction n as [|n IH]; intros b a; [reflexivity|].
  destruct a as [|x a']; [reflexivity|].
  cbn [zip_take firstn skipn rev]. rewrite IH. rewrite <- app_assoc. reflexivity.
Qed.

Lemma zip_fwd_spec n : forall b a m, (n <= length a)%nat ->
  zip_fwd n b a m = (rev (firstn n a) ++ b, skipn n a, m + Z.of_nat n).
Proof.
  induction n as [|n IH]; intros b a m H.
  - cbn. destruct a; f_equal; lia.
  - destruct a as [|x a']; [cbn in H; lia|].
    cbn [zip_fwd firstn skipn rev]. rewrite IH by (cbn in H; lia).
    rewrite <- app_assoc. cbn [app]. f_equal. lia.
Qed.

(* the stream after consuming n bytes *)
Definition advance (n : Z) (s : istream) (good eof : bool) : istream :=
  {| s_before := rev (ztake n (s_after s)) ++ s_before s; s_after := zdrop n (s_after s);
     s_cur := s_cur s + n; s_pos := s_pos s + n; s_size := s_size s;
     s_good := good; s_eof := eof; s_sticky := false; s_open := s_open s |}.

Lemma zlen_rev {A} (l : list A) : zlen (rev l) = zlen l.
Proof. unfold zlen. rewrite rev_length. reflexivity. Qed.

Lemma nstream_advance n s g e : nstream s -> 0 <= n <= zlen (s_after s) -> nstream (advance n s g e).
Proof.
  intros (H1 & H2 & H3 & H4) Hn. unfold nstream, advance; cbn [s_sticky s_cur s_before s_after s_pos s_size].
  rewrite zlen_app, zlen_rev, ztake_zlen, zdrop_zlen by lia.
  split; [reflexivity|]. split; [lia|]. split; lia.
Qed.

Lemma s_read_exact n s : nstream s -> 0 <= n <= zlen (s_after s) ->
  s_read n s = (ztake n (s_after s), advance n s (if 0 <? n then true else s_good s) (if 0 <? n then false else s_eof s)).
Proof.
  intros (H1 & H2 & H3 & H4) Hn. unfold s_read. rewrite H1.
  assert (Hs : (s_size s <? n + s_pos s) = false) by (pose proof (zlen_nonneg (s_before s)); lia).
  rewrite Hs. cbn [negb andb].
  destruct ((n <=? 0) || (s_pos s <? 0)) eqn:E.
  - assert (n = 0) by (pose proof (zlen_nonneg (s_before s)); lia). subst n.
    unfold advance, ztake, zdrop. cbn [Z.to_nat firstn skipn rev app zlen length Z.of_nat].
    rewrite Z.add_0_r. rewrite Z.add_0_r. reflexivity.
  - rewrite zip_take_spec. unfold advance. fold (ztake n (s_after s)). fold (zdrop n (s_after s)).
    rewrite ztake_zlen by lia.
    replace (n <=? 0) with false by lia. replace (0 <? n) with true by lia. reflexivity.
Qed.

Lemma s_seek_fwd k s : nstream s -> 0 <= k <= zlen (s_after s) ->
  s_seek k s = advance k s (s_good s) (s_eof s).
Proof.
  intros (H1 & H2 & H3 & H4) Hk. unfold s_seek. rewrite H1.
  replace (Z.min (s_pos s + k) (s_size s)) with (s_pos s + k) by lia.
  unfold zip_move. replace (s_cur s <=? s_pos s + k) with true by lia.
  rewrite zip_fwd_spec by (unfold zlen in Hk; lia).
  unfold advance, ztake, zdrop. replace (s_pos s + k - s_cur s) with k by lia.
  f_equal; lia.
Qed.

(* the signature loop finds a signature standing right at the cursor *)
Lemma scan_hit sp n s rest :
  nstream s -> 0 <= sp_sig sp < 2 ^ 32 -> s_after s = le_enc 4 (sp_sig sp) ++ rest ->
  scan_loop sp (S n) 0 s = Ok (sp_sig sp, advance 4 s true false).
Proof.
  intros Hs Hsig Ha. cbn [scan_loop].
  assert (Hl : zlen (le_enc 4 (sp_sig sp)) = 4) by (apply zlen_le_enc; lia).
  rewrite s_read_exact; [|exact Hs|rewrite Ha, zlen_app; pose proof (zlen_nonneg rest); lia].
  replace (0 <? 4) with true by reflexivity.
  rewrite Ha. rewrite (ztake_app_len 4) by exact Hl.
  unfold merge_scalar. rewrite Hl.
  replace (zdrop 4 (le_enc 4 0)) with (@nil Z) by reflexivity.
  rewrite app_nil_r. rewrite le_dec_enc by (change (256 ^ 4) with (2 ^ 32); lia).
  rewrite Z.eqb_refl. reflexivity.
Qed.
