(* Sem.v — executable semantics of the codec IR (C++ integer typing, streams, interpreters).
   Definitions only; everything here is extracted and run against the implementation. *)
From VB Require Export IR.
Local Open Scope Z_scope.

(* ---------- values and states ---------- *)
Inductive value := VInt (z : Z) | VBytes (l : list Z) | VUndef.
Definition state := Z -> value.
Definition upd (s : state) (f : Z) (v : value) : state := fun g => if g =? f then v else s g.
Definition shift (s : state) (d : Z) : state := fun g => s (g + d).

(* ---------- C integer typing ---------- *)
Definition bits (t : ity) : Z := 8 * width t.
Definition norm (t : ity) (z : Z) : Z :=
  match t with
  | TBool => if z =? 0 then 0 else 1
  | _ => if signed t
         then (z + 2 ^ (bits t - 1)) mod 2 ^ bits t - 2 ^ (bits t - 1)
         else z mod 2 ^ bits t
  end.
Definition in_range (t : ity) (z : Z) : bool :=
  if signed t then (- 2 ^ (bits t - 1) <=? z) && (z <? 2 ^ (bits t - 1))
  else (0 <=? z) && (z <? 2 ^ bits t).
Definition rank (t : ity) : Z :=
  match t with TBool => 0 | U8 | I8 => 1 | U16 | I16 => 2 | U32 | I32 => 3 | U64 | I64 => 4 end.
Definition promote (t : ity) : ity := if rank t <? 3 then I32 else t.
Definition to_unsigned (t : ity) : ity :=
  match t with I8 => U8 | I16 => U16 | I32 => U32 | I64 => U64 | _ => t end.
Definition common (a b : ity) : ity :=
  let a := promote a in let b := promote b in
  if ity_eqb a b then a
  else if Bool.eqb (signed a) (signed b) then (if rank a <? rank b then b else a)
  else let u := if signed a then b else a in
       let s := if signed a then a else b in
       if rank s <=? rank u then u else s.   (* LP64: a wider signed type holds every narrower unsigned value *)

(* result of an arithmetic operation in type t *)
Definition arith (t : ity) (z : Z) : res (Z * ity) :=
  if signed t then (if in_range t z then Ok (z, t) else Err EUB) else Ok (norm t z, t).
Definition bool_of (z : Z) : Z := if z =? 0 then 0 else 1.
Definition zbool (b : bool) : Z := if b then 1 else 0.

Definition eval_bin (o : binop) (x : Z * ity) (y : Z * ity) : res (Z * ity) :=
  let '(a, ta) := x in let '(b, tb) := y in
  let t := common ta tb in
  let a' := norm t a in let b' := norm t b in
  match o with
  | OAdd => arith t (a' + b')
  | OSub => arith t (a' - b')
  | OMul => arith t (a' * b')
  | ODiv => if b' =? 0 then Err EUB else arith t (Z.quot a' b')
  | OMod => if b' =? 0 then Err EUB else arith t (Z.rem a' b')
  | OAnd => Ok (norm t (Z.land a' b'), t)
  | OOr => Ok (norm t (Z.lor a' b'), t)
  | OXor => Ok (norm t (Z.lxor a' b'), t)
  | OShl => let tl := promote ta in
            if (b <? 0) || (bits tl <=? b) then Err EUB else arith tl (norm tl a * 2 ^ b)
  | OShr => let tl := promote ta in
            if (b <? 0) || (bits tl <=? b) then Err EUB else Ok (Z.shiftr (norm tl a) b, tl)
  | OLAnd => Ok (zbool (negb (a =? 0) && negb (b =? 0)), TBool)
  | OLOr => Ok (zbool (negb (a =? 0) || negb (b =? 0)), TBool)
  | OLt => Ok (zbool (a' <? b'), TBool)
  | OLe => Ok (zbool (a' <=? b'), TBool)
  | OGt => Ok (zbool (b' <? a'), TBool)
  | OGe => Ok (zbool (b' <=? a'), TBool)
  | OEq => Ok (zbool (a' =? b'), TBool)
  | ONe => Ok (zbool (negb (a' =? b')), TBool)
  end.

Definition eval_un (o : unop) (x : Z * ity) : res (Z * ity) :=
  let '(a, ta) := x in
  match o with
  | ONeg => let t := promote ta in arith t (- norm t a)
  | ONot => Ok (zbool (a =? 0), TBool)
  | OBNot => let t := promote ta in Ok (norm t (- norm t a - 1), t)
  end.

(* ---------- class table lookups ---------- *)
Section WithClasses.
Variable cs : classes.

Definition find_class (c : cid) : option cdef := find (fun d => c_id d =? c) cs.
Definition find_method (d : cdef) (m : mid) : option mdef := find (fun x => m_id x =? m) (c_methods d).

(* method resolution: the class itself, else the first base that resolves *)
Fixpoint resolve (n : nat) (c : cid) (m : mid) : option mdef :=
  match n with O => None | S n' =>
    match find_class c with None => None | Some d =>
      match find_method d m with Some x => Some x | None =>
        (fix go (bs : list cid) := match bs with [] => None | b :: r =>
           match resolve n' b m with Some x => Some x | None => go r end end) (c_bases d)
      end end end.

Definition depth : nat := 8.

(* field lookup: ids are class_index*256 + k, also for the pseudo-classes of struct members *)
Definition find_field (f : Z) : option fdef :=
  match find_class (f / 256) with None => None | Some d => find (fun x => f_id x =? f) (c_fields d) end.

Definition ksize (k : fkind) : option Z :=
  match k with KScalar t => Some (width t) | KArray e n => Some (e * n) | KVec _ => None end.
Definition kelt (k : fkind) : Z :=
  match k with KScalar t => width t | KArray e _ => e | KVec e => e end.

(* all fields of an object of class c: bases first (declaration order), own, then struct members *)
Definition shift_fdef (d : Z) (x : fdef) : fdef :=
  {| f_id := f_id x + d; f_name := f_name x; f_kind := f_kind x; f_init := f_init x; f_float := f_float x |}.

Fixpoint all_fields (n : nat) (c : cid) : list fdef :=
  match n with O => [] | S n' =>
    match find_class c with None => [] | Some d =>
      flat_map (all_fields n') (c_bases d) ++ c_fields d ++
      flat_map (fun md : cid * Z => map (shift_fdef (snd md)) (all_fields n' (fst md))) (c_members d)
    end end.

Fixpoint all_ctor (n : nat) (c : cid) : list (Z * Z) :=
  match n with O => [] | S n' =>
    match find_class c with None => [] | Some d =>
      flat_map (all_ctor n') (c_bases d) ++ c_ctor d
    end end.

(* ---------- expressions ---------- *)
Definition locals := Z -> option (Z * ity).
Definition lupd (l : locals) (x : Z) (v : Z * ity) : locals := fun y => if y =? x then Some v else l y.
Definition no_locals : locals := fun _ => None.

Section Eval.
Variable call : target -> mid -> state -> res (Z * ity).

Fixpoint eval (s : state) (l : locals) (e : expr) : res (Z * ity) :=
  match e with
  | EConst z t => Ok (z, t)
  | EField f =>
      match find_field f, s f with
      | Some x, VInt z => match f_kind x with KScalar t => Ok (z, t) | _ => Err EType end
      | Some _, VUndef => Err EUB
      | _, _ => Err EType
      end
  | ESize f =>
      match find_field f, s f with
      | Some x, VBytes b => Ok (zlen b / kelt (f_kind x), U64)
      | _, _ => Err EType
      end
  | ESizeof f =>
      match find_field f with
      | Some x => match ksize (f_kind x) with Some n => Ok (n, U64) | None => Err EType end
      | None => Err EType
      end
  | ESizeofT n => Ok (n, U64)
  | EVar x => match l x with Some v => Ok v | None => Err EType end
  | EUn o a => do x <- eval s l a; eval_un o x
  | EBin OLAnd a b =>
      do x <- eval s l a;
      if fst x =? 0 then Ok (0, TBool) else do y <- eval s l b; Ok (bool_of (fst y), TBool)
  | EBin OLOr a b =>
      do x <- eval s l a;
      if fst x =? 0 then do y <- eval s l b; Ok (bool_of (fst y), TBool) else Ok (1, TBool)
  | EBin o a b => do x <- eval s l a; do y <- eval s l b; eval_bin o x y
  | ECond c a b => do x <- eval s l c; if fst x =? 0 then eval s l b else eval s l a
  | ECast t a => do x <- eval s l a; Ok (norm t (fst x), t)
  | ECall tg m => call tg m s
  end.

(* value converted to a destination type (assignment, argument passing) *)
Definition eval_as (t : ity) (s : state) (l : locals) (e : expr) : res Z :=
  do x <- eval s l e; Ok (norm t (fst x)).

(* ---------- function bodies (calculateObjectSize & co) ---------- *)
Fixpoint run_f (p : prog) (s : state) (l : locals) : res (Z * ity) :=
  match p with
  | PRet e => eval s l e
  | PDecl x t e k => do v <- eval_as t s l e; run_f k s (lupd l x (v, t))
  | PSet x e k =>
      match l x with
      | Some (_, t) => do v <- eval_as t s l e; run_f k s (lupd l x (v, t))
      | None => Err EType
      end
  | PIf c a b => do x <- eval s l c; if fst x =? 0 then run_f b s l else run_f a s l
  | PThrow => Err EThrow
  | PUnsupported => Err EUnsupported
  | _ => Err EType
  end.

(* ---------- encoding ---------- *)
Definition field_bytes (x : fdef) (v : value) : res (list Z) :=
  match f_kind x, v with
  | KScalar t, VInt z => Ok (le_enc (width t) (z mod 2 ^ bits t))
  | KScalar t, VUndef => Ok (repeat (-1) (Z.to_nat (width t)))      (* indeterminate bytes *)
  | KArray e n, VBytes b => if zlen b =? e * n then Ok b else Err EType
  | KArray e n, VUndef => Ok (repeat (-1) (Z.to_nat (e * n)))
  | _, _ => Err EType
  end.

Variable alloc_cap : Z.

Fixpoint run_w (p : prog) (s : state) (l : locals) : res (state * list Z) :=
  match p with
  | PEnd => Ok (s, [])
  | PThrow => Err EThrow
  | PWrite f k =>
      match find_field f with None => Err EType | Some x =>
        do b <- field_bytes x (s f);
        do r <- run_w k s l; Ok (fst r, b ++ snd r)
      end
  | PWriteBytes f e k =>
      do n <- eval_as I64 s l e;
      match s f with
      | VBytes b =>
          if n <=? 0 then run_w k s l
          else if zlen b <? n then Err EOOBRead
          else do r <- run_w k s l; Ok (fst r, ztake n b ++ snd r)
      | _ => Err EType
      end
  | PZero e k =>
      do n <- eval_as I64 s l e;
      if (n <? 0) || (alloc_cap <? n) then Err EAlloc
      else do r <- run_w k s l; Ok (fst r, zeros n ++ snd r)
  | PAssign f e k =>
      match find_field f with
      | Some x => match f_kind x with
                  | KScalar t => do v <- eval_as t s l e; run_w k (upd s f (VInt v)) l
                  | _ => Err EType end
      | None => Err EType
      end
  | PDecl x t e k => do v <- eval_as t s l e; run_w k s (lupd l x (v, t))
  | PSet x e k =>
      match l x with
      | Some (_, t) => do v <- eval_as t s l e; run_w k s (lupd l x (v, t))
      | None => Err EType
      end
  | PIf c a b => do x <- eval s l c; if fst x =? 0 then run_w b s l else run_w a s l
  | _ => Err EUnsupported
  end.

End Eval.

(* ---------- input streams ---------- *)
(* One record, two flavours.  sticky=false: the in-memory stream (state reflects the last read
   only; relative seek clamped at the declared end).  sticky=true: std::fstream (failbit sticks). *)
(* s_open (fstream flavour only): None = the file stays open; Some k = ANOTHER thread (File::close) closes the file after k more
   effective operations of this thread on it.  On a closed std::fstream a read delivers nothing and sets eofbit|failbit, a seek
   sets failbit only. *)
Record istream := { s_before : list Z; s_after : list Z; s_cur : Z (* = length of s_before *);
                    s_pos : Z; s_size : Z; s_good : bool; s_eof : bool; s_sticky : bool; s_open : option nat }.
Definition tick (o : option nat) : option nat := match o with Some (S k) => Some k | _ => o end.

Definition s_data (s : istream) : list Z := rev_append (s_before s) (s_after s).

Definition mk_ustream (b : list Z) : istream :=
  {| s_before := []; s_after := b; s_cur := 0; s_pos := 0; s_size := zlen b;
     s_good := true; s_eof := false; s_sticky := false; s_open := None |}.
Definition mk_fstream (b : list Z) : istream :=
  {| s_before := []; s_after := b; s_cur := 0; s_pos := 0; s_size := zlen b;
     s_good := true; s_eof := false; s_sticky := true; s_open := None |}.
Definition mk_fstream_closing (b : list Z) (k : nat) : istream :=
  {| s_before := []; s_after := b; s_cur := 0; s_pos := 0; s_size := zlen b;
     s_good := true; s_eof := false; s_sticky := true; s_open := Some k |}.
Definition closed_now (s : istream) : bool := match s_open s with Some O => true | _ => false end.

(* move up to n elements from the front of a onto b (reversed); also returns how many moved *)
Fixpoint zip_fwd (n : nat) (b a : list Z) (moved : Z) : list Z * list Z * Z :=
  match n, a with
  | S n', x :: a' => zip_fwd n' (x :: b) a' (moved + 1)
  | _, _ => (b, a, moved)
  end.
(* take up to n elements from the front of a, also pushing them onto b *)
Fixpoint zip_take (n : nat) (b a : list Z) : list Z * (list Z * list Z) :=
  match n, a with
  | S n', x :: a' => let '(got, r) := zip_take n' (x :: b) a' in (x :: got, r)
  | _, _ => ([], (b, a))
  end.

(* reposition the cursor (currently at cur = |b|) as close as possible to position p *)
Definition zip_move (b a : list Z) (cur p : Z) : list Z * list Z * Z :=
  if cur <=? p then
    let '(b', a', m) := zip_fwd (Z.to_nat (p - cur)) b a 0 in (b', a', cur + m)
  else
    let '(a', b', m) := zip_fwd (Z.to_nat (cur - Z.max 0 p)) a b 0 in (b', a', cur - m).

Definition s_read (n : Z) (s : istream) : list Z * istream :=
  if s_sticky s then
    if negb (s_good s) then ([], s)
    else if n <=? 0 then ([], s)
    else if closed_now s then
      ([], {| s_before := s_before s; s_after := s_after s; s_cur := s_cur s; s_pos := s_pos s; s_size := s_size s;
              s_good := false; s_eof := true; s_sticky := true; s_open := s_open s |})
    else
      let avail := Z.max 0 (s_size s - s_pos s) in
      let short := avail <? n in
      let n' := if short then avail else n in
      let '(got, (b, a)) := zip_take (Z.to_nat n') (s_before s) (s_after s) in
      (got, {| s_before := b; s_after := a; s_cur := s_cur s + zlen got; s_pos := s_pos s + n'; s_size := s_size s;
               s_good := negb short; s_eof := short; s_sticky := true; s_open := tick (s_open s) |})
  else
    let short := s_size s <? n + s_pos s in
    let n' := if short then s_size s - s_pos s else n in
    let '(got, (b, a)) := if (n' <=? 0) || (s_pos s <? 0) then ([], (s_before s, s_after s))
                          else zip_take (Z.to_nat n') (s_before s) (s_after s) in
    (* the state reflects this read; a zero-length read inside the stream leaves it as it was *)
    let keep := negb short && (n <=? 0) in
    (got, {| s_before := b; s_after := a; s_cur := s_cur s + zlen got; s_pos := s_pos s + zlen got; s_size := s_size s;
             s_good := if keep then s_good s else negb short; s_eof := if keep then s_eof s else short; s_sticky := false;
             s_open := s_open s |}).

(* std::fstream: a seek on a closed file, or to a negative position, fails (failbit only) and leaves the position *)
Definition s_seek (off : Z) (s : istream) : istream :=
  if s_sticky s then
    if s_good s then
      if closed_now s || (s_pos s + off <? 0) then
        {| s_before := s_before s; s_after := s_after s; s_cur := s_cur s; s_pos := s_pos s; s_size := s_size s;
           s_good := false; s_eof := s_eof s; s_sticky := true; s_open := tick (s_open s) |}
      else
      let '(b, a, c) := zip_move (s_before s) (s_after s) (s_cur s) (s_pos s + off) in
      {| s_before := b; s_after := a; s_cur := c; s_pos := s_pos s + off; s_size := s_size s;
         s_good := true; s_eof := false; s_sticky := true; s_open := tick (s_open s) |}
    else s
  else
    let p1 := Z.min (s_pos s + off) (s_size s) in
    let '(b, a, c) := zip_move (s_before s) (s_after s) (s_cur s) p1 in
    {| s_before := b; s_after := a; s_cur := c; s_pos := p1; s_size := s_size s;
       s_good := s_good s; s_eof := s_eof s; s_sticky := false; s_open := s_open s |}.

(* ---------- the signature scan of ObjectHeaderBase::read ---------- *)
(* sp_stop_on_fail: what ends the search after a mismatch — true: any failed stream (!is.good()); false: end of file only (is.eof()) *)
Record scan_params := { sp_sig : Z; sp_rules : list (Z * Z * Z) (* mask, value, seek *); sp_field : Z; sp_stop_on_fail : bool }.
Definition scan_stop (sp : scan_params) (s : istream) : bool := if sp_stop_on_fail sp then negb (s_good s) else s_eof s.

Definition scan_rule (rules : list (Z * Z * Z)) (tmp : Z) : Z :=
  (fix go (r : list (Z * Z * Z)) := match r with
     | [] => 0
     | (m, v, k) :: r' => if Z.land m tmp =? v then k else go r' end) rules.

(* overwrite the first |got| bytes of a w-byte little-endian scalar *)
Definition merge_scalar (w : Z) (old : Z) (got : list Z) : Z :=
  le_dec (got ++ zdrop (zlen got) (le_enc w old)).

Fixpoint scan_loop (sp : scan_params) (n : nat) (tmp : Z) (s : istream) : res (Z * istream) :=
  match n with O => Err ESpin | S n' =>
    let '(got, s1) := s_read 4 s in
    let tmp' := merge_scalar 4 tmp got in
    if tmp' =? sp_sig sp then Ok (tmp', s1)
    else if scan_stop sp s1 then Err EThrow
    else scan_loop sp n' tmp' (let k := scan_rule (sp_rules sp) tmp' in if k =? 0 then s1 else s_seek k s1)
  end.

Section Read.
Variable call : target -> mid -> state -> res (Z * ity).
Variable sp : scan_params.
Variable alloc_cap : Z.

Definition read_into (x : fdef) (old : value) (got : list Z) : res value :=
  match f_kind x with
  | KScalar t =>
      let w := width t in
      if zlen got =? w then Ok (VInt (norm t (le_dec got)))
      else match old with
           | VInt z => Ok (VInt (norm t (merge_scalar w (z mod 2 ^ bits t) got)))
           | VUndef => Ok VUndef
           | _ => Err EType end
  | KArray e n =>
      match old with
      | VBytes b => Ok (VBytes (got ++ zdrop (zlen got) b))
      | VUndef => if zlen got =? e * n then Ok (VBytes got) else Ok VUndef
      | _ => Err EType end
  | KVec _ => Err EType
  end.

Fixpoint run_r (p : prog) (s : state) (l : locals) (i : istream) : res (state * istream) :=
  match p with
  | PEnd => Ok (s, i)
  | PThrow => Err EThrow
  | PRead f k =>
      match find_field f with None => Err EType | Some x =>
        match ksize (f_kind x) with None => Err EType | Some w =>
          let '(got, i') := s_read w i in
          do v <- read_into x (s f) got;
          run_r k (upd s f v) l i'
        end end
  | PReadBytes f e k =>
      do n <- eval_as call I64 s l e;
      match s f with
      | VBytes b =>
          let '(got, i') := s_read n i in
          if zlen b <? zlen got then Err EOOBWrite
          else run_r k (upd s f (VBytes (got ++ zdrop (zlen got) b))) l i'
      | _ => Err EType
      end
  | PResize f e k =>
      do n <- eval_as call U64 s l e;
      match find_field f, s f with
      | Some x, VBytes b =>
          let nb := n * kelt (f_kind x) in
          if alloc_cap <? nb then Err EAlloc
          else run_r k (upd s f (VBytes (ztake nb b ++ zeros (nb - zlen b)))) l i
      | _, _ => Err EType
      end
  | PSeek e k => do off <- eval_as call I64 s l e; run_r k s l (s_seek off i)
  | PScan k =>
      do r <- scan_loop sp (S (S (length (s_data i)))) 0 i;
      run_r k (upd s (sp_field sp) (VInt (fst r))) l (snd r)
  | PAssign f e k =>
      match find_field f with
      | Some x => match f_kind x with
                  | KScalar t => do v <- eval_as call t s l e; run_r k (upd s f (VInt v)) l i
                  | _ => Err EType end
      | None => Err EType
      end
  | PDecl x t e k => do v <- eval_as call t s l e; run_r k s (lupd l x (v, t)) i
  | PSet x e k =>
      match l x with
      | Some (_, t) => do v <- eval_as call t s l e; run_r k s (lupd l x (v, t)) i
      | None => Err EType
      end
  | PIf c a b => do x <- eval call s l c; if fst x =? 0 then run_r b s l i else run_r a s l i
  | _ => Err EUnsupported
  end.

End Read.

(* ---------- from source statements to programs: inlining + CPS ---------- *)
Fixpoint shift_expr (d : Z) (mem : option cid) (e : expr) : expr :=
  match e with
  | EField f => EField (f + d)
  | ESize f => ESize (f + d)
  | ESizeof f => ESizeof (f + d)
  | EUn o a => EUn o (shift_expr d mem a)
  | EBin o a b => EBin o (shift_expr d mem a) (shift_expr d mem b)
  | ECond c a b => ECond (shift_expr d mem c) (shift_expr d mem a) (shift_expr d mem b)
  | ECast t a => ECast t (shift_expr d mem a)
  | ECall CDyn m => match mem with Some c => ECall (CMember c d) m | None => e end
  | ECall (CMember c d') m => ECall (CMember c (d' + d)) m
  | _ => e
  end.

(* k: continuation after the statement; kr: continuation of a return *)
Section CompileStep.
Variable inl : Z -> option cid -> target -> mid -> prog -> prog.

Fixpoint compile_s (d : Z) (mem : option cid) (s : stmt) (k kr : prog) : prog :=
  let sh := shift_expr d mem in
  match s with
  | SNop => k
  | SSeq a b => compile_s d mem a (compile_s d mem b k kr) kr
  | SRead f => PRead (f + d) k
  | SWrite f => PWrite (f + d) k
  | SReadBytes f e => PReadBytes (f + d) (sh e) k
  | SWriteBytes f e => PWriteBytes (f + d) (sh e) k
  | SResize f e => PResize (f + d) (sh e) k
  | SSeek e => PSeek (sh e) k
  | SZero e => PZero (sh e) k
  | SAssign f e => PAssign (f + d) (sh e) k
  | SDecl x t e => PDecl x t (sh e) k
  | SSet x e => PSet x (sh e) k
  | SIf c a b => PIf (sh c) (compile_s d mem a k kr) (compile_s d mem b k kr)
  | SRet None => kr
  | SRet (Some e) => PRet (sh e)
  | SScan => PScan k
  | SThrow => PThrow
  | SUnsupported _ => PUnsupported
  | SCall tg m => inl d mem tg m k
  end.
End CompileStep.

Fixpoint inline_n (n : nat) (d : Z) (mem : option cid) (tg : target) (m : mid) (k : prog) : prog :=
  match n with O => PUnsupported | S n' =>
    match tg with
    | CStatic c =>
        match resolve depth c m with
        | Some md => compile_s (inline_n n') d mem (m_body md) k k
        | None => PUnsupported end
    | CMember c d' =>
        match resolve depth c m with
        | Some md => compile_s (inline_n n') (d + d') (Some c) (m_body md) k k
        | None => PUnsupported end
    | CDyn => PUnsupported
    end end.

Definition compile (s : stmt) (k kr : prog) : prog := compile_s (inline_n depth) 0 None s k kr.

Definition prog_of (c : cid) (m : mid) : prog :=
  match resolve depth c m with
  | Some md => compile (m_body md) PEnd PEnd
  | None => PUnsupported
  end.

(* ---------- calls in expressions: resolved at run time, bounded depth ---------- *)
Fixpoint call_n (n : nat) (dyn : cid) (tg : target) (m : mid) (s : state) : res (Z * ity) :=
  match n with O => Err EFuel | S n' =>
    let go (c : cid) (dyn' : cid) (s' : state) :=
      match resolve depth c m with
      | Some md =>
          match m_ret md with
          | Some t => do v <- run_f (call_n n' dyn') (compile (m_body md) PUnsupported PUnsupported) s' no_locals;
                      Ok (norm t (fst v), t)
          | None => Err EType end
      | None => Err EUnsupported
      end in
    match tg with
    | CDyn => go dyn dyn s
    | CStatic c => go c dyn s
    | CMember c d => go c c (shift s d)
    end
  end.

Definition callf (dyn : cid) := call_n depth dyn.

(* a freshly constructed object *)
Definition init_value (x : fdef) : value :=
  match f_kind x, f_init x with
  | KVec _, _ => VBytes []                 (* class-type member: default-constructed even without {} *)
  | _, INone => VUndef
  | _, ICall _ => VUndef
  | KScalar t, IZero => VInt 0
  | KScalar t, IVal z => VInt (norm t z)
  | KArray e n, _ => VBytes (zeros (e * n))
  end.

Definition fresh0 (c : cid) : state :=
  let base := fold_left (fun s x => upd s (f_id x) (init_value x)) (all_fields depth c) (fun _ => VUndef) in
  fold_left (fun s (p : Z * Z) =>
               match find_field (fst p) with
               | Some x => match f_kind x with KScalar t => upd s (fst p) (VInt (norm t (snd p))) | _ => s end
               | None => s end) (all_ctor depth c) base.

Definition fresh (c : cid) : state :=
  let s0 := fresh0 c in
  fold_left (fun s x =>
               match f_kind x, f_init x with
               | KScalar t, ICall m =>
                   match callf c CDyn m s0 with Ok v => upd s (f_id x) (VInt (norm t (fst v))) | Err _ => s end
               | _, _ => s end) (all_fields depth c) s0.

(* ---------- top level: encode / decode one object of dynamic class c ---------- *)
Definition enc (cap : Z) (c : cid) (s : state) : res (state * list Z) :=
  run_w (callf c) cap (prog_of c M_write) s no_locals.

Definition dec (sp : scan_params) (cap : Z) (c : cid) (s : state) (i : istream) : res (state * istream) :=
  run_r (callf c) sp cap (prog_of c M_read) s no_locals i.

Definition osize (c : cid) (s : state) : res Z :=
  do v <- callf c CDyn M_osz s; Ok (fst v).
Definition hsize (c : cid) (s : state) : res Z :=
  do v <- callf c CDyn M_hsz s; Ok (fst v).

End WithClasses.
