(* UFRefine.v — C15, the byte-order half: the UncompressedFile model (container list, per-container
   offset arithmetic, the loops of read/write, close_open, dropOldData) REFINES the flat byte queue
   of UFSpec.v for every history the property describes, of any length, with any chunking and any
   default container size.  Proofs only (the model is UFModel.v, the spec UFSpec.v). *)
From Coq Require Import List ZArith Bool Lia.
From VB Require Import UFModel UFFacts UFSpec.
Import ListNotations.
Local Open Scope Z_scope.

Definition zl {A} (l : list A) : Z := Z.of_nat (length l).
Definition flat (d : list cont) : list Z := concat (map c_data d).
Fixpoint chain (b : Z) (d : list cont) : Prop :=
  match d with [] => True | c :: r => c_pos c = b /\ chain (c_end c) r end.
Definition endd (b : Z) (d : list cont) : Z := b + zl (flat d).

(* ---------------- lists ---------------- *)
Lemma zl_app {A} (a b : list A) : zl (a ++ b) = zl a + zl b.
Proof. unfold zl. rewrite app_length. lia. Qed.
Lemma zl_nonneg {A} (a : list A) : 0 <= zl a.
Proof. unfold zl. lia. Qed.
Lemma zl_nil {A} (a : list A) : zl a = 0 -> a = [].
Proof. unfold zl. destruct a; cbn; [reflexivity|lia]. Qed.
Lemma zl_pos {A} (a : list A) : a <> [] -> 0 < zl a.
Proof. unfold zl. destruct a; cbn; [congruence|lia]. Qed.
Lemma flat_app a b : flat (a ++ b) = flat a ++ flat b.
Proof. unfold flat. rewrite map_app, concat_app. reflexivity. Qed.
Lemma flat_one c : flat [c] = c_data c.
Proof. unfold flat. cbn. apply app_nil_r. Qed.
Lemma flat_cons c r : flat (c :: r) = c_data c ++ flat r.
Proof. reflexivity. Qed.
Lemma c_size_zl c : c_size c = zl (c_data c).
Proof. reflexivity. Qed.

Lemma skipn_skipn' {A} : forall a b (l : list A), skipn a (skipn b l) = skipn (b + a) l.
Proof. intros a b. induction b as [|b IH]; intros l; [reflexivity|]. destruct l; cbn; [destruct a; reflexivity|apply IH]. Qed.
Lemma firstn_add {A} : forall a b (l : list A), firstn (a + b) l = firstn a l ++ firstn b (skipn a l).
Proof. induction a as [|a IH]; intros b l; [reflexivity|]. destruct l; cbn; [destruct b; reflexivity|]. f_equal. apply IH. Qed.

Lemma slice_app_l off len (l1 l2 : list Z) : 0 <= off -> off + len <= zl l1 -> slice off len (l1 ++ l2) = slice off len l1.
Proof.
  intros H0 H. unfold slice, zl in *. rewrite skipn_app, firstn_app.
  replace (Z.to_nat len - length (skipn (Z.to_nat off) l1))%nat with 0%nat by (rewrite skipn_length; lia).
  cbn. apply app_nil_r.
Qed.
Lemma slice_app_r off len (l1 l2 : list Z) : zl l1 <= off -> slice off len (l1 ++ l2) = slice (off - zl l1) len l2.
Proof.
  intros H. unfold slice, zl in *. rewrite skipn_app. rewrite skipn_all2 by lia. cbn [app].
  replace (Z.to_nat off - length l1)%nat with (Z.to_nat (off - Z.of_nat (length l1))) by lia. reflexivity.
Qed.
Lemma slice_split off a b (l : list Z) : 0 <= off -> 0 <= a -> 0 <= b -> slice off (a + b) l = slice off a l ++ slice (off + a) b l.
Proof.
  intros. unfold slice. rewrite Z2Nat.inj_add by lia. rewrite firstn_add. f_equal.
  rewrite skipn_skipn'. rewrite Z2Nat.inj_add by lia. reflexivity.
Qed.
Lemma slice_nonpos off len (l : list Z) : len <= 0 -> slice off len l = [].
Proof. intros. unfold slice. replace (Z.to_nat len) with 0%nat by lia. reflexivity. Qed.
Lemma slice_skipn_junk off len lo (buf junk : list Z) : 0 <= lo -> lo <= off -> 0 <= len -> off + len <= zl buf ->
  slice (off - lo) len (skipn (Z.to_nat lo) buf ++ junk) = slice off len buf.
Proof.
  intros. rewrite slice_app_l; [|lia|unfold zl in *; rewrite skipn_length; lia].
  unfold slice. rewrite skipn_skipn'. f_equal. f_equal. lia.
Qed.

(* ---------------- chains ---------------- *)
Lemma endd_cons b c r : c_pos c = b -> endd b (c :: r) = endd (c_end c) r.
Proof. intros E. unfold endd, c_end. rewrite flat_cons, zl_app, c_size_zl. lia. Qed.
Lemma endd_app b d1 d2 : endd b (d1 ++ d2) = endd (endd b d1) d2.
Proof. unfold endd. rewrite flat_app, zl_app. lia. Qed.
Lemma endd_ge b d : b <= endd b d.
Proof. unfold endd. pose proof (zl_nonneg (flat d)). lia. Qed.

Lemma chain_app : forall d1 d2 b, chain b (d1 ++ d2) <-> chain b d1 /\ chain (endd b d1) d2.
Proof.
  induction d1 as [|c r IH]; intros d2 b; cbn [app chain].
  - unfold endd, flat, zl. cbn. rewrite Z.add_0_r. tauto.
  - rewrite IH. split.
    + intros (E & A & B). rewrite endd_cons by exact E. tauto.
    + intros ((E & A) & B). rewrite endd_cons in B by exact E. tauto.
Qed.

Lemma chain_bounds : forall d b c, chain b d -> In c d -> b <= c_pos c /\ c_end c <= endd b d.
Proof.
  induction d as [|c0 r IH]; intros b c Hc Hin; [destruct Hin|].
  destruct Hc as [E Hc]. rewrite endd_cons by exact E. destruct Hin as [->|Hin].
  - split; [lia|apply endd_ge].
  - destruct (IH _ _ Hc Hin) as [A B]. split; [|exact B]. unfold c_end in A. pose proof (zl_nonneg (c_data c0)). unfold c_size in A. fold (zl (c_data c0)) in A. lia.
Qed.

Lemma chain_all_le : forall d b M, chain b d -> b <= M -> Forall (fun c => c_end c <= M) d -> endd b d <= M.
Proof.
  induction d as [|c r IH]; intros b M Hc Hb Hf.
  - unfold endd, flat, zl. cbn. lia.
  - destruct Hc as [E Hc]. rewrite endd_cons by exact E. inversion Hf; subst. apply IH; assumption.
Qed.

Lemma containing_skip : forall d1 d2 x, (forall c, In c d1 -> contains x c = false) -> containing (d1 ++ d2) x = containing d2 x.
Proof.
  induction d1 as [|c r IH]; intros d2 x H; [reflexivity|].
  unfold containing. cbn [app find]. rewrite (H c) by (left; reflexivity). apply IH. intros c' Hc'. apply H. right. exact Hc'.
Qed.
Lemma chain_before : forall d b x c, chain b d -> endd b d <= x -> In c d -> contains x c = false.
Proof.
  intros d b x c Hc Hx Hin. destruct (chain_bounds _ _ _ Hc Hin) as [_ B].
  unfold contains. apply andb_false_intro2. apply Z.ltb_ge. lia.
Qed.
Lemma containing_chain_app d1 d2 b x : chain b (d1 ++ d2) -> endd b d1 <= x -> containing (d1 ++ d2) x = containing d2 x.
Proof. intros Hc Hx. apply containing_skip. intros c Hin. apply chain_app in Hc. destruct Hc as [Hc _]. eapply chain_before; [exact Hc|exact Hx|exact Hin]. Qed.
Lemma containing_none d b x : chain b d -> endd b d <= x -> containing d x = None.
Proof. intros Hc Hx. rewrite <- (app_nil_r d). rewrite (containing_chain_app d [] b x); [reflexivity|rewrite app_nil_r; exact Hc|exact Hx]. Qed.

Lemma update_last : forall d1 c x f, (forall c', In c' d1 -> contains x c' = false) -> contains x c = true ->
  update_containing (d1 ++ [c]) x f = d1 ++ [f c].
Proof.
  induction d1 as [|c0 r IH]; intros c x f H Hc; cbn [app update_containing].
  - rewrite Hc. reflexivity.
  - rewrite (H c0) by (left; reflexivity). f_equal. apply IH; [|exact Hc]. intros c' Hc'. apply H. right. exact Hc'.
Qed.

(* ---------------- read ---------------- *)
Lemma read_loop_zero fuel d x n acc : n <= 0 -> read_loop fuel d x n acc = (x, acc).
Proof. intros H. destruct fuel; cbn [read_loop]; [reflexivity|]. apply Z.leb_le in H. rewrite H. reflexivity. Qed.

Lemma read_loop_flat : forall d2 d1 b fuel x n acc,
  chain b (d1 ++ d2) -> endd b d1 <= x -> 0 <= n -> x + n <= endd b (d1 ++ d2) -> (0 < n -> (length d2 <= fuel)%nat) ->
  read_loop fuel (d1 ++ d2) x n acc = (x + n, acc ++ slice (x - endd b d1) n (flat d2)).
Proof.
  induction d2 as [|c r IH]; intros d1 b fuel x n acc Hc Hx Hn Hend Hf.
  - rewrite app_nil_r in Hend. assert (n = 0) by lia. subst n. rewrite read_loop_zero by lia.
    rewrite slice_nonpos by lia. rewrite app_nil_r, Z.add_0_r. reflexivity.
  - destruct (Z.eq_dec n 0) as [->|Hn0].
    { rewrite read_loop_zero by lia. rewrite slice_nonpos by lia. rewrite app_nil_r, Z.add_0_r. reflexivity. }
    assert (Hn1 : 0 < n) by lia. specialize (Hf Hn1).
    pose proof Hc as Hc'. apply chain_app in Hc'. destruct Hc' as [Hc1 [Epos Hc2]].
    assert (Hre : d1 ++ c :: r = (d1 ++ [c]) ++ r) by (rewrite <- app_assoc; reflexivity).
    assert (Eend : endd b (d1 ++ [c]) = c_end c).
    { rewrite endd_app. unfold endd at 1. rewrite flat_one. unfold c_end. rewrite c_size_zl. lia. }
    destruct (Z_lt_le_dec x (c_end c)) as [Hin|Hout].
    + (* the get position lies in c *)
      destruct fuel as [|fuel]; [cbn in Hf; lia|]. cbn [read_loop].
      replace (n <=? 0) with false by (symmetry; apply Z.leb_gt; lia).
      rewrite (containing_chain_app d1 (c :: r) b x Hc Hx). unfold containing. cbn [find].
      assert (Hcont : contains x c = true).
      { unfold contains. apply andb_true_intro. split; [apply Z.leb_le; lia|apply Z.ltb_lt; lia]. }
      rewrite Hcont.
      set (off := x - c_pos c). set (g := Z.min n (c_size c - off)).
      assert (Hoff : 0 <= off) by (unfold off; lia).
      assert (Hg : 0 < g <= n /\ off + g <= c_size c) by (unfold g, off, c_end in *; lia).
      rewrite Hre.
      destruct (Z.eq_dec (n - g) 0) as [Hz|Hnz].
      * rewrite read_loop_zero by lia. f_equal; [lia|]. f_equal.
        replace (x - endd b d1) with off by (unfold off; lia). replace n with g by lia.
        rewrite flat_cons. rewrite slice_app_l; [reflexivity|lia|rewrite <- c_size_zl; lia].
      * assert (Hg2 : g = c_size c - off) by (unfold g in *; lia).
        rewrite (IH (d1 ++ [c]) b fuel (x + g) (n - g) (acc ++ slice off g (c_data c))).
        -- f_equal; [lia|]. rewrite <- app_assoc. f_equal.
           replace (x - endd b d1) with off by (unfold off; lia).
           replace n with (g + (n - g)) at 2 by lia.
           rewrite slice_split by lia. rewrite flat_cons. f_equal.
           ++ symmetry. apply slice_app_l; [lia|rewrite <- c_size_zl; lia].
           ++ rewrite slice_app_r by (rewrite <- c_size_zl; lia). f_equal. rewrite Eend. rewrite <- c_size_zl. unfold off, c_end in *. lia.
        -- rewrite <- Hre. exact Hc.
        -- rewrite Eend. unfold off, c_end in *. lia.
        -- lia.
        -- rewrite <- Hre. lia.
        -- intros _. cbn [length] in Hf. lia.
    + (* c lies wholly behind the get position (or is empty) *)
      rewrite Hre. rewrite (IH (d1 ++ [c]) b fuel x n acc).
      * f_equal. f_equal. rewrite flat_cons. rewrite slice_app_r by (rewrite <- c_size_zl; unfold c_end in *; lia).
        f_equal. rewrite Eend. rewrite <- c_size_zl. unfold c_end. lia.
      * rewrite <- Hre. exact Hc.
      * rewrite Eend. exact Hout.
      * exact Hn.
      * rewrite <- Hre. exact Hend.
      * intros _. cbn [length] in Hf. lia.
Qed.

(* ---------------- the invariant that ties a container list to the flat byte string ---------------- *)
(* lo: stream offset of the first container kept; junk: bytes of the last container that lie beyond
   the put position (pre-allocated by write, not yet written). *)
Definition CI (lo : Z) (junk : list Z) (d : list cont) (buf : list Z) : Prop :=
  0 <= lo <= zl buf /\ chain lo d /\ flat d = skipn (Z.to_nat lo) buf ++ junk /\
  (junk = [] \/ exists d1 c, d = d1 ++ [c] /\ c_pos c < zl buf).

Lemma zl_skipn {A} n (l : list A) : 0 <= n <= zl l -> zl (skipn (Z.to_nat n) l) = zl l - n.
Proof. intros. unfold zl in *. rewrite skipn_length. lia. Qed.

Lemma CI_endd lo junk d buf : CI lo junk d buf -> endd lo d = zl buf + zl junk.
Proof. intros (Hlo & _ & Hf & _). unfold endd. rewrite Hf, zl_app, zl_skipn by lia. lia. Qed.

Lemma CI_none lo d buf : CI lo [] d buf -> containing d (zl buf) = None.
Proof. intros H. pose proof (CI_endd _ _ _ _ H) as E. destruct H as (_ & Hc & _). eapply containing_none; [exact Hc|]. unfold zl in E at 2. cbn in E. lia. Qed.

Lemma endd_last lo d1 c : chain lo (d1 ++ [c]) -> c_pos c = endd lo d1 /\ endd lo (d1 ++ [c]) = c_end c.
Proof.
  intros Hc. apply chain_app in Hc. destruct Hc as [_ [E _]]. split; [exact E|].
  rewrite endd_app. unfold endd at 1. rewrite flat_one. unfold c_end. rewrite c_size_zl. lia.
Qed.

Lemma CI_some lo junk d buf : CI lo junk d buf -> junk <> [] ->
  exists d1 c pre, d = d1 ++ [c] /\ containing d (zl buf) = Some c /\ contains (zl buf) c = true /\
    (forall c', In c' d1 -> contains (zl buf) c' = false) /\
    c_data c = pre ++ junk /\ zl pre = zl buf - c_pos c /\ 0 < zl pre /\
    flat d1 ++ pre = skipn (Z.to_nat lo) buf /\ chain lo d1 /\ c_pos c = endd lo d1.
Proof.
  intros H Hj. pose proof (CI_endd _ _ _ _ H) as Eend. destruct H as (Hlo & Hc & Hf & [Hj0|(d1 & c & -> & Hpos)]); [contradiction|].
  destruct (endd_last _ _ _ Hc) as [Epos Eend2]. rewrite Eend2 in Eend.
  pose proof (zl_pos _ Hj) as Hjp.
  rewrite flat_app, flat_one in Hf.
  assert (Hlen : zl (flat d1) < zl (skipn (Z.to_nat lo) buf)) by (rewrite zl_skipn by lia; unfold endd in Epos; lia).
  apply app_eq_app in Hf. destruct Hf as [l [[E1 E2]|[E1 E2]]].
  - (* flat d1 = skipn .. ++ l : impossible by length *)
    exfalso. rewrite E1, zl_app in Hlen. pose proof (zl_nonneg l). lia.
  - exists d1, c, l. assert (Hcont : contains (zl buf) c = true).
    { unfold contains. apply andb_true_intro. split; [apply Z.leb_le; lia|apply Z.ltb_lt; lia]. }
    assert (Hbef : forall c', In c' d1 -> contains (zl buf) c' = false).
    { intros c' Hin. destruct (proj1 (chain_app _ _ _) Hc) as [Hc1' _]. eapply chain_before; [exact Hc1'| |exact Hin]. lia. }
    assert (Hlz : zl l = zl buf - c_pos c).
    { pose proof (f_equal zl E1) as E. rewrite zl_app, zl_skipn in E by lia. unfold endd in Epos. lia. }
    repeat split; auto.
    + rewrite containing_skip by exact Hbef. unfold containing. cbn [find]. rewrite Hcont. reflexivity.
    + lia.
    + destruct (proj1 (chain_app _ _ _) Hc) as [Hc1' _]. exact Hc1'.
Qed.

Lemma firstn_zl_app {A} (pre rest : list A) : firstn (Z.to_nat (zl pre)) (pre ++ rest) = pre.
Proof. unfold zl. rewrite Nat2Z.id. rewrite firstn_app, Nat.sub_diag, firstn_all. cbn. apply app_nil_r. Qed.
Lemma skipn_zl_app {A} (pre rest : list A) k : skipn (Z.to_nat (zl pre) + k) (pre ++ rest) = skipn k rest.
Proof. unfold zl. rewrite Nat2Z.id. rewrite skipn_app. rewrite skipn_all2 by lia. cbn [app]. f_equal. lia. Qed.

Lemma splice_pre pre now junk : splice (zl pre) now (pre ++ junk) = pre ++ now ++ skipn (length now) junk.
Proof. unfold splice. rewrite firstn_zl_app, skipn_zl_app. reflexivity. Qed.

Lemma skipn_app_le {A} n (l1 l2 : list A) : (n <= length l1)%nat -> skipn n (l1 ++ l2) = skipn n l1 ++ l2.
Proof. intros. rewrite skipn_app. replace (n - length l1)%nat with 0%nat by lia. reflexivity. Qed.

(* ---------------- closing the open container ---------------- *)
Lemma close_open_CI lo junk d buf : CI lo junk d buf -> CI lo [] (close_open d (zl buf)) buf.
Proof.
  intros H. destruct junk as [|j junk].
  - unfold close_open. rewrite (CI_none _ _ _ H). exact H.
  - destruct (CI_some _ _ _ _ H) as (d1 & c & pre & -> & Hcg & Hcont & Hbef & Hdata & Hpre & Hpos & Hflat & Hc1 & Epos); [discriminate|].
    destruct H as (Hlo & Hc & Hf & _).
    unfold close_open. rewrite Hcg. replace (0 <? zl buf - c_pos c) with true by (symmetry; apply Z.ltb_lt; lia).
    rewrite update_last by assumption. rewrite <- Hpre, Hdata, firstn_zl_app.
    split; [exact Hlo|]. split; [|split; [|left; reflexivity]].
    + apply chain_app. split; [exact Hc1|]. cbn. split; [exact Epos|exact I].
    + rewrite flat_app, flat_one. cbn [c_data]. rewrite app_nil_r. exact Hflat.
Qed.

Lemma append_CI lo d buf bs : CI lo [] d buf -> CI lo [] (d ++ [{| c_pos := zl buf; c_data := bs |}]) (buf ++ bs).
Proof.
  intros H. pose proof (CI_endd _ _ _ _ H) as E. destruct H as (Hlo & Hc & Hf & _).
  split; [rewrite zl_app; pose proof (zl_nonneg bs); lia|]. split; [|split; [|left; reflexivity]].
  - apply chain_app. split; [exact Hc|]. cbn. split; [|exact I]. rewrite E. change (zl (@nil Z)) with 0. lia.
  - rewrite flat_app, flat_one. cbn [c_data]. rewrite Hf. rewrite !app_nil_r. rewrite skipn_app_le by (unfold zl in Hlo; lia). reflexivity.
Qed.

(* ---------------- write(s, n) ---------------- *)
Lemma last_app_one {A} (d : list A) c dflt : last (d ++ [c]) dflt = c.
Proof. apply last_last. Qed.

Lemma new_cont_pos lo d buf dcs : CI lo [] d buf -> c_pos (new_cont d (zl buf) dcs) = zl buf.
Proof.
  intros H. pose proof (CI_endd _ _ _ _ H) as E. destruct H as (_ & Hc & _). unfold zl in E at 2. cbn in E.
  unfold new_cont. cbn [c_pos]. destruct d as [|c0 r] eqn:Ed; [reflexivity|].
  rewrite <- Ed in *. destruct (exists_last (l := d)) as (d1 & c & ->); [subst; discriminate|].
  rewrite last_app_one. destruct (endd_last _ _ _ Hc) as [_ E2]. lia.
Qed.

Lemma zl_firstn {A} n (l : list A) : 0 <= n <= zl l -> zl (firstn (Z.to_nat n) l) = n.
Proof. intros. unfold zl in *. rewrite firstn_length. lia. Qed.
Lemma zl_repeat (x : Z) n : 0 <= n -> zl (repeat x (Z.to_nat n)) = n.
Proof. intros. unfold zl. rewrite repeat_length. lia. Qed.

Definition need (junk : list Z) : Z := match junk with [] => 0 | _ => 1 end.

Lemma write_loop_CI : forall fuel dcs d buf lo junk bs, 0 < dcs -> CI lo junk d buf ->
  (bs = [] \/ ((1 <= fuel)%nat /\ zl bs - zl junk <= (Z.of_nat fuel - need junk) * dcs)) ->
  exists d' junk', write_loop fuel dcs d (zl buf) bs = Some (d', zl buf + zl bs) /\ CI lo junk' d' (buf ++ bs).
Proof.
  induction fuel as [|fuel IH]; intros dcs d buf lo junk bs Hd H Hfuel.
  - destruct Hfuel as [->|[Hf _]]; [|lia]. exists d, junk. cbn. unfold zl at 2. cbn. rewrite Z.add_0_r, app_nil_r. split; [reflexivity|exact H].
  - destruct bs as [|b0 bs0] eqn:Ebs.
    { exists d, junk. cbn. unfold zl at 2. cbn. rewrite Z.add_0_r, app_nil_r. split; [reflexivity|exact H]. }
    rewrite <- Ebs in *. assert (Hbs : 0 < zl bs) by (apply zl_pos; subst; discriminate).
    destruct Hfuel as [Hnil|[_ Hfuel]]; [subst; discriminate|].
    assert (Hstep : forall d1 buf1 junk1 p, 0 < p <= zl bs -> CI lo junk1 d1 buf1 -> buf1 = buf ++ firstn (Z.to_nat p) bs ->
              (p = zl bs \/ (junk1 = [] /\ zl bs - p <= Z.of_nat fuel * dcs)) ->
              exists d' junk', write_loop fuel dcs d1 (zl buf + p) (skipn (Z.to_nat p) bs) = Some (d', zl buf + zl bs) /\ CI lo junk' d' (buf ++ bs)).
    { intros d1 buf1 junk1 p Hp H1 Ebuf Hcase.
      assert (Hzb : zl buf1 = zl buf + p) by (rewrite Ebuf, zl_app, zl_firstn; lia).
      assert (Hrest : zl (skipn (Z.to_nat p) bs) = zl bs - p) by (apply zl_skipn; lia).
      destruct (IH dcs d1 buf1 lo junk1 (skipn (Z.to_nat p) bs) Hd H1) as (d' & junk' & W & C).
      - destruct Hcase as [->|[-> Hle]].
        + left. apply zl_nil. lia.
        + destruct (skipn (Z.to_nat p) bs) eqn:Es; [left; reflexivity|]. right. rewrite <- Es in *.
          assert (0 < zl (skipn (Z.to_nat p) bs)) by (apply zl_pos; rewrite Es; discriminate).
          unfold need. unfold zl at 2. cbn [length Z.of_nat]. split; [|lia].
          destruct fuel; [cbn in Hle; lia|lia].
      - exists d', junk'. rewrite Hzb, Hrest in W. rewrite W. split; [f_equal; f_equal; lia|].
        rewrite Ebuf, <- app_assoc, firstn_skipn in C. exact C. }
    cbn [write_loop]. rewrite Ebs. rewrite <- Ebs.
    destruct junk as [|j junk0] eqn:Ej.
    + (* the put position is at the end of the last container: append a default-sized one *)
      rewrite (CI_none _ _ _ H). rewrite (new_cont_pos lo d buf dcs H).
      replace (c_size (new_cont d (zl buf) dcs)) with dcs by (unfold new_cont, c_size; cbn [c_data]; rewrite repeat_length; lia).
      replace (zl buf - zl buf) with 0 by lia. cbn [Z.ltb Z.compare].
      fold (zl bs). set (p := Z.min (zl bs) (dcs - 0)).
      assert (Hp : 0 < p <= zl bs /\ p <= dcs) by (unfold p; lia).
      replace (0 <? p) with true by (symmetry; apply Z.ltb_lt; lia).
      pose proof (CI_endd _ _ _ _ H) as Eend. unfold zl in Eend at 2. cbn in Eend.
      destruct H as (Hlo & Hc & Hf & _).
      set (now := firstn (Z.to_nat p) bs).
      assert (Hnow : zl now = p) by (apply zl_firstn; lia).
      eapply (Hstep _ (buf ++ now) (skipn (Z.to_nat p) (repeat 0 (Z.to_nat dcs))) p); [lia| |reflexivity|].
      * split; [rewrite zl_app; lia|]. split; [|split].
        -- apply chain_app. split; [exact Hc|]. cbn. split; [lia|exact I].
        -- rewrite flat_app, flat_one. cbn [c_data]. rewrite Hf, app_nil_r.
           rewrite skipn_app_le by (unfold zl in Hlo; lia). rewrite <- app_assoc. f_equal.
           change (splice (zl (@nil Z)) now ([] ++ repeat 0 (Z.to_nat dcs)) = now ++ skipn (Z.to_nat p) (repeat 0 (Z.to_nat dcs))).
           rewrite splice_pre. cbn [app]. f_equal. f_equal. unfold zl in Hnow. lia.
        -- right. eexists. eexists. split; [reflexivity|]. cbn [c_pos]. rewrite zl_app. lia.
      * destruct (Z_le_gt_dec (zl bs) dcs) as [Hle|Hgt]; [left; unfold p; lia|]. right.
        assert (p = dcs) by (unfold p; lia). split.
        -- apply skipn_all2. rewrite repeat_length. lia.
        -- unfold need in Hfuel. change (zl (@nil Z)) with 0 in Hfuel. lia.
    + (* the put position lies in the last container: fill its free part *)
      rewrite <- Ej in *. assert (Hj : junk <> []) by (subst; discriminate).
      destruct (CI_some _ _ _ _ H Hj) as (d1 & c & pre & -> & Hcg & Hcont & Hbef & Hdata & Hpre & Hpos & Hflat & Hc1 & Epos).
      rewrite Hcg. rewrite update_last by assumption.
      fold (zl bs). replace (c_size c - (zl buf - c_pos c)) with (zl junk) by (rewrite c_size_zl, Hdata, zl_app; lia).
      set (p := Z.min (zl bs) (zl junk)).
      pose proof (zl_pos _ Hj) as Hjp.
      assert (Hp : 0 < p <= zl bs /\ p <= zl junk) by (unfold p; lia).
      set (now := firstn (Z.to_nat p) bs).
      assert (Hnow : zl now = p) by (apply zl_firstn; lia).
      destruct H as (Hlo & Hc & Hf & _).
      eapply (Hstep _ (buf ++ now) (skipn (Z.to_nat p) junk) p); [lia| |reflexivity|].
      * split; [rewrite zl_app; lia|]. split; [|split].
        -- apply chain_app. split; [exact Hc1|]. cbn. split; [exact Epos|exact I].
        -- rewrite flat_app, flat_one. cbn [c_data]. rewrite <- Hpre, Hdata, splice_pre.
           rewrite skipn_app_le by (unfold zl in Hlo; lia). rewrite <- Hflat. rewrite <- !app_assoc. f_equal. f_equal. f_equal. f_equal. unfold zl in Hnow. lia.
        -- right. eexists. eexists. split; [reflexivity|]. cbn [c_pos]. rewrite zl_app. lia.
      * destruct (Z_le_gt_dec (zl bs) (zl junk)) as [Hle|Hgt]; [left; unfold p; lia|]. right.
        assert (p = zl junk) by (unfold p; lia). split.
        -- apply skipn_all2. unfold zl in *. lia.
        -- unfold need in Hfuel. rewrite Ej in Hfuel at 2. lia.
Qed.

(* ---------------- dropOldData ---------------- *)
Lemma exists_last_or_nil {A} (l : list A) : l = [] \/ exists l' a, l = l' ++ [a].
Proof. destruct l as [|x r]; [left; reflexivity|right]. destruct (exists_last (l := x :: r)) as (l' & a & E); [discriminate|]. exists l', a. exact E. Qed.

Lemma drop_CI lo junk d buf tg fsz : CI lo junk d buf ->
  exists lo', CI lo' junk (drop_all d tg (zl buf) fsz) buf /\ lo <= lo' /\ (lo' = lo \/ (lo' <= tg /\ lo' <= fsz)).
Proof.
  intros H. pose proof (CI_endd _ _ _ _ H) as Eend. destruct H as (Hlo & Hc & Hf & Hj).
  destruct (drop_all_suffix d tg (zl buf) fsz) as (gone & E & Fg & _).
  set (d' := drop_all d tg (zl buf) fsz) in *. clearbody d'.
  rewrite E in Hc. apply chain_app in Hc. destruct Hc as [Hcg Hcd].
  assert (Hle : endd lo gone <= zl buf).
  { apply chain_all_le; [exact Hcg|lia|]. eapply Forall_impl; [|exact Fg]. cbn. intros; lia. }
  exists (endd lo gone). split; [|split].
  - split; [pose proof (endd_ge lo gone); lia|]. split; [exact Hcd|]. split.
    + rewrite E, flat_app in Hf. apply (f_equal (skipn (length (flat gone)))) in Hf.
      rewrite skipn_app, skipn_all, Nat.sub_diag in Hf. cbn [app skipn] in Hf. rewrite Hf.
      rewrite skipn_app_le by (rewrite skipn_length; unfold endd, zl in *; lia).
      rewrite skipn_skipn'. f_equal. f_equal. unfold endd, zl in *. lia.
    + destruct Hj as [Hj|(d1 & c & Ed & Hpos)]; [left; exact Hj|].
      destruct (list_eq_dec Z.eq_dec junk []) as [Hjn|Hjn]; [left; exact Hjn|]. right.
      pose proof (zl_pos _ Hjn) as Hjp.
      assert (Hcd1 : chain lo (d1 ++ [c])) by (rewrite <- Ed, E; apply chain_app; split; assumption).
      destruct (endd_last _ _ _ Hcd1) as [_ E2]. rewrite Ed in Eend. rewrite E2 in Eend.
      destruct (exists_last_or_nil d') as [Ed'|(d1' & c' & Ed')].
      * exfalso. rewrite Ed', app_nil_r in E. rewrite Ed in E. subst gone.
        apply Forall_app in Fg. destruct Fg as [_ Fg]. inversion Fg; subst. lia.
      * rewrite Ed' in E. rewrite Ed in E. rewrite app_assoc in E. apply app_inj_tail in E. destruct E as [_ <-].
        exists d1', c. split; [exact Ed'|exact Hpos].
  - apply endd_ge.
  - destruct gone as [|g0 gr] eqn:Eg; [left; unfold endd, flat, zl; cbn; lia|]. right. rewrite <- Eg in *. split.
    + apply chain_all_le; [exact Hcg| |eapply Forall_impl; [|exact Fg]; cbn; intros; lia].
      subst gone. inversion Fg; subst. destruct Hcg as [Ep _]. unfold c_end in *. pose proof (zl_nonneg (c_data g0)). rewrite c_size_zl in *. lia.
    + apply chain_all_le; [exact Hcg| |eapply Forall_impl; [|exact Fg]; cbn; intros; lia].
      subst gone. inversion Fg; subst. destruct Hcg as [Ep _]. unfold c_end in *. pose proof (zl_nonneg (c_data g0)). rewrite c_size_zl in *. lia.
Qed.

(* ================= the refinement ================= *)
(* everything a caller can observe agrees, and the container list holds exactly the bytes of the
   flat string from some offset lo (not beyond the drop horizon) up to the put position *)
Definition R (s : uf) (q : bq) : Prop :=
  u_abort s = q_abort q /\ u_tellg s = q_g q /\ u_tellp s = q_p q /\ u_gcount s = q_gcount q /\
  u_fsz s = q_F q /\ u_buf s = q_B q /\ u_rd s = q_rd q /\ u_dcs s = q_dcs q /\ 0 < q_dcs q < 4294967296 /\
  exists lo junk, CI lo junk (u_data s) (q_buf q) /\ lo <= q_hor q.

Lemma R_init : R uf_init bq_init.
Proof.
  unfold R, uf_init, bq_init, q_p. cbn. repeat split; try reflexivity; try lia.
  exists 0, []. split; [|lia]. unfold CI, zl. cbn. repeat split; try lia. left. reflexivity.
Qed.

Lemma R_obs s q : R s q -> uf_obs s = bq_obs q.
Proof.
  intros (Ha & Hg & Hp & Hgc & HF & HB & Hrd & _). unfold uf_obs, bq_obs, uf_tellg_val, uf_tellp_val, uf_good, uf_eof.
  rewrite Hg, Hp, Hgc, HF, HB, Hrd. reflexivity.
Qed.

Lemma write_fuel_enough s (bs junk : list Z) : 0 <= u_tellp s -> 0 < u_dcs s ->
  (1 <= write_fuel s (zl bs))%nat /\ zl bs - zl junk <= (Z.of_nat (write_fuel s (zl bs)) - need junk) * u_dcs s.
Proof.
  intros Htp Hd. unfold write_fuel. split; [lia|].
  replace (Z.max 1 (u_dcs s)) with (u_dcs s) by lia.
  set (k := (zl bs + Z.max 0 (u_tellp s)) / u_dcs s).
  assert (Hk0 : 0 <= k) by (apply Z.div_pos; [pose proof (zl_nonneg bs); lia|lia]).
  assert (Hk : zl bs + Z.max 0 (u_tellp s) < u_dcs s * Z.succ k) by (apply Z.mul_succ_div_gt; lia).
  assert (Hn : need junk <= 1) by (unfold need; destruct junk; lia).
  pose proof (zl_nonneg junk). pose proof (zl_nonneg bs).
  assert (Hf : k + 3 <= Z.of_nat (S (S (length (u_data s))) + Z.to_nat k + 2) - need junk) by lia.
  apply Z.le_trans with ((k + 3) * u_dcs s); [nia|]. apply Z.mul_le_mono_nonneg_r; lia.
Qed.

Theorem refine_step : forall s q o q' out, R s q -> bq_step q o = Some (q', out) ->
  uenabled s o = true /\ exists s', ustep s o = Some (s', out) /\ R s' q'.
Proof.
  intros s q o q' out HR Hstep.
  destruct HR as (Ha & Hg & Hp & Hgc & HF & HB & Hrd & Hdcs & Hdr & lo & junk & HCI & Hhor).
  destruct o as [n|off|bs|bs| | |n|n|n| ]; cbn [bq_step] in Hstep.
  - (* read *)
    destruct (bq_read_ok q n) eqn:Hok; cbn [negb] in Hstep; [|discriminate].
    set (beyond := q_F q <? n + q_g q) in *. set (n' := if beyond then q_F q - q_g q else n) in *.
    destruct ((0 <? n') && ((q_p q <? q_g q + n') || (q_g q <? q_hor q))) eqn:Hscope; [discriminate|].
    inversion Hstep; subst q' out; clear Hstep.
    split. { cbn [uenabled]. unfold uf_read_guard. rewrite Ha, Hg, Hp, HF. exact Hok. }
    cbn [ustep]. unfold uf_read. rewrite HF, Hg. fold beyond. fold n'.
    assert (Hrl : read_loop (S (length (u_data s))) (u_data s) (q_g q) n' [] = (q_g q + Z.max 0 n', slice (q_g q) n' (q_buf q))).
    { destruct (Z_le_gt_dec n' 0) as [Hz|Hpos].
      - rewrite read_loop_zero by exact Hz. rewrite slice_nonpos by exact Hz. f_equal. lia.
      - replace (0 <? n') with true in Hscope by (symmetry; apply Z.ltb_lt; lia). cbn [andb] in Hscope.
        apply orb_false_elim in Hscope. destruct Hscope as [S1 S2]. apply Z.ltb_ge in S1, S2.
        pose proof (CI_endd _ _ _ _ HCI) as Eend. pose proof (zl_nonneg junk) as Hj0.
        destruct HCI as (Hlo & Hc & Hf & _). unfold q_p in S1. fold (zl (q_buf q)) in S1.
        pose proof (read_loop_flat (u_data s) [] lo (S (length (u_data s))) (q_g q) n' []) as RL. cbn [app] in RL.
        assert (E0 : endd lo [] = lo) by (unfold endd, flat, zl; cbn; lia). rewrite E0 in RL.
        rewrite RL; [|exact Hc|lia|lia|lia|intros; lia].
        f_equal; [lia|]. rewrite Hf. apply slice_skipn_junk; lia. }
    rewrite Hrl. eexists. split; [reflexivity|].
    unfold R. cbn. rewrite ?Ha, ?Hg, ?Hp, ?Hgc, ?HF, ?HB, ?Hrd, ?Hdcs. repeat split; try reflexivity; try lia.
    exists lo, junk. split; assumption.
  - (* seekg *)
    inversion Hstep; subst q' out; clear Hstep. split; [reflexivity|]. cbn [ustep uf_seekg fst]. eexists. split; [reflexivity|].
    unfold R. cbn. rewrite ?Ha, ?Hg, ?Hp, ?Hgc, ?HF, ?HB, ?Hrd, ?Hdcs. repeat split; try reflexivity; try lia. exists lo, junk. split; assumption.
  - (* write(s, n) *)
    destruct (bq_write_ok q) eqn:Hok; cbn [negb] in Hstep; [|discriminate].
    inversion Hstep; subst q' out; clear Hstep.
    split. { cbn [uenabled]. unfold uf_write_guard. rewrite Ha, Hg, Hp, HB. exact Hok. }
    cbn [ustep]. unfold uf_write.
    assert (Htp : 0 <= u_tellp s) by (rewrite Hp; unfold q_p; lia).
    destruct (write_fuel_enough s bs junk Htp) as [Hf1 Hf2]; [lia|].
    fold (zl bs). rewrite Hp. unfold q_p. fold (zl (q_buf q)).
    destruct (write_loop_CI (write_fuel s (zl bs)) (u_dcs s) (u_data s) (q_buf q) lo junk bs) as (d' & junk' & W & C); [lia|exact HCI|right; split; assumption|].
    rewrite W. eexists. split; [reflexivity|].
    unfold R. cbn. unfold q_p. cbn. fold (zl (q_buf q ++ bs)). fold (zl (q_buf q)). fold (zl bs). rewrite zl_app.
    rewrite ?Ha, ?Hg, ?Hp, ?Hgc, ?HF, ?HB, ?Hrd, ?Hdcs. repeat split; try reflexivity; try lia. exists lo, junk'. split; assumption.
  - (* write(container) *)
    destruct (bq_write_ok q) eqn:Hok; cbn [negb] in Hstep; [|discriminate].
    inversion Hstep; subst q' out; clear Hstep.
    split. { cbn [uenabled]. unfold uf_writec_guard. rewrite Ha, Hg, Hp, HB. exact Hok. }
    cbn [ustep uf_writec fst]. eexists. split; [reflexivity|].
    unfold R. cbn. unfold q_p. cbn. fold (zl (q_buf q ++ bs)). fold (zl (q_buf q)). fold (zl bs). rewrite zl_app.
    rewrite Ha, Hg, Hgc, HF, HB, Hrd, Hdcs, Hp. unfold q_p. fold (zl (q_buf q)). repeat split; try reflexivity; try lia.
    exists lo, []. split; [|exact Hhor]. apply append_CI. eapply close_open_CI. exact HCI.
  - (* nextLogContainer *)
    inversion Hstep; subst q' out; clear Hstep. split; [reflexivity|]. cbn [ustep]. eexists. split; [reflexivity|].
    unfold R, uf_next. cbn. repeat split; try assumption; try lia.
    exists lo, []. split; [|exact Hhor]. rewrite Hp. eapply close_open_CI. exact HCI.
  - (* dropOldData *)
    inversion Hstep; subst q' out; clear Hstep. split; [reflexivity|]. cbn [ustep]. eexists. split; [reflexivity|].
    unfold R, uf_drop. cbn. repeat split; try assumption; try lia.
    rewrite Hp. unfold q_p. fold (zl (q_buf q)).
    destruct (drop_CI lo junk (u_data s) (q_buf q) (u_tellg s) (u_fsz s) HCI) as (lo' & C & Hle & Hcase).
    exists lo', junk. split; [exact C|]. destruct C as (Hlo' & _). fold (zl (q_buf q)). lia.
  - (* setFileSize *)
    inversion Hstep; subst q' out; clear Hstep. split; [reflexivity|]. cbn [ustep uf_setFileSize fst]. eexists. split; [reflexivity|].
    unfold R. cbn. rewrite ?Ha, ?Hg, ?Hp, ?Hgc, ?HF, ?HB, ?Hrd, ?Hdcs. repeat split; try reflexivity; try lia. exists lo, junk. split; assumption.
  - (* setBufferSize *)
    inversion Hstep; subst q' out; clear Hstep. split; [reflexivity|]. cbn [ustep]. eexists. split; [reflexivity|].
    unfold R, uf_setBufferSize. cbn. rewrite ?Ha, ?Hg, ?Hp, ?Hgc, ?HF, ?HB, ?Hrd, ?Hdcs. repeat split; try reflexivity; try lia. exists lo, junk. split; assumption.
  - (* setDefaultLogContainerSize *)
    destruct ((0 <? n) && (n <? 4294967296)) eqn:Hn; [|discriminate].
    apply andb_prop in Hn. destruct Hn as [N1 N2]. apply Z.ltb_lt in N1, N2.
    inversion Hstep; subst q' out; clear Hstep. split; [reflexivity|]. cbn [ustep]. eexists. split; [reflexivity|].
    unfold R, uf_setDcs. cbn. rewrite ?Ha, ?Hg, ?Hp, ?Hgc, ?HF, ?HB, ?Hrd, ?Hdcs. repeat split; try reflexivity; try lia.
    { apply Z.mod_small. lia. } exists lo, junk. split; assumption.
  - (* abort *)
    inversion Hstep; subst q' out; clear Hstep. split; [reflexivity|]. cbn [ustep uf_abort fst]. eexists. split; [reflexivity|].
    unfold R. cbn. rewrite ?Ha, ?Hg, ?Hp, ?Hgc, ?HF, ?HB, ?Hrd, ?Hdcs. repeat split; try reflexivity; try lia. exists lo, junk. split; assumption.
Qed.

Theorem refine_run : forall ops s q q' outs, R s q -> bq_run q ops = Some (q', outs) ->
  exists s', uf_run s ops = Some (s', outs) /\ R s' q'.
Proof.
  induction ops as [|o r IH]; intros s q q' outs HR Hrun; cbn [bq_run uf_run] in *.
  - inversion Hrun; subst. exists s. split; [reflexivity|exact HR].
  - destruct (bq_step q o) as [[q1 b]|] eqn:Hs; [|discriminate].
    destruct (bq_run q1 r) as [[q2 bs]|] eqn:Hr; [|discriminate]. inversion Hrun; subst q' outs; clear Hrun.
    destruct (refine_step _ _ _ _ _ HR Hs) as (Hen & s1 & Hu & HR1). rewrite Hen, Hu.
    destruct (IH _ _ _ _ HR1 Hr) as (s2 & Hu2 & HR2). rewrite Hu2. exists s2. split; [reflexivity|exact HR2].
Qed.

(* the statement of C15 for histories: whatever the chunking of writes and reads, the default
   container size, whole containers appended, containers closed and old data dropped, every call
   is enabled exactly when the byte queue's is, delivers the byte queue's bytes, and leaves every
   accessor with the byte queue's value *)
Theorem uf_refines : forall ops q' outs, bq_run bq_init ops = Some (q', outs) ->
  exists s', uf_run uf_init ops = Some (s', outs) /\ uf_obs s' = bq_obs q'.
Proof.
  intros ops q' outs H. destruct (refine_run ops uf_init bq_init q' outs R_init H) as (s' & Hu & HR).
  exists s'. split; [exact Hu|apply R_obs; exact HR].
Qed.

(* and every prefix: the observations agree after every call, not only at the end *)
Theorem uf_refines_prefix : forall ops1 ops2 q' outs, bq_run bq_init (ops1 ++ ops2) = Some (q', outs) ->
  exists q1 outs1 s1, bq_run bq_init ops1 = Some (q1, outs1) /\ uf_run uf_init ops1 = Some (s1, outs1) /\ uf_obs s1 = bq_obs q1.
Proof.
  intros ops1 ops2 q' outs H.
  assert (Hpre : forall ops1 q, bq_run q (ops1 ++ ops2) <> None -> bq_run q ops1 <> None).
  { clear. induction ops1 as [|o r IH]; intros q Hn; cbn [bq_run app] in *; [discriminate|].
    destruct (bq_step q o) as [[q1 b]|]; [|exact Hn]. specialize (IH q1).
    destruct (bq_run q1 (r ++ ops2)); [|congruence]. destruct (bq_run q1 r) as [[? ?]|]; [discriminate|]. exfalso. apply IH; [discriminate|reflexivity]. }
  destruct (bq_run bq_init ops1) as [[q1 outs1]|] eqn:E1.
  - destruct (uf_refines _ _ _ E1) as (s1 & Hu & Ho). exists q1, outs1, s1. repeat split; assumption.
  - exfalso. apply (Hpre ops1 bq_init); [rewrite H; discriminate|exact E1].
Qed.

(* ================= what the byte queue itself guarantees (order, chunking independence) ================= *)
Definition wbytes (o : uop) : list Z := match o with UWrite bs => bs | UWriteC bs => bs | _ => [] end.
Definition is_seek (o : uop) : bool := match o with USeekg _ => true | _ => false end.

Lemma bq_step_buf q o q' out : bq_step q o = Some (q', out) -> q_buf q' = q_buf q ++ wbytes o.
Proof.
  destruct o; cbn [bq_step wbytes]; intros H;
    repeat match type of H with (if ?c then _ else _) = _ => destruct c; try discriminate end;
    inversion H; subst; cbn [q_buf]; rewrite ?app_nil_r; reflexivity.
Qed.

(* the flat string is the concatenation of everything written, in order *)
Theorem bq_buf_is_writes : forall ops q q' outs, bq_run q ops = Some (q', outs) ->
  q_buf q' = q_buf q ++ concat (map wbytes ops).
Proof.
  induction ops as [|o r IH]; intros q q' outs H; cbn [bq_run] in H.
  - inversion H; subst. cbn. rewrite app_nil_r. reflexivity.
  - destruct (bq_step q o) as [[q1 b]|] eqn:Hs; [|discriminate]. destruct (bq_run q1 r) as [[q2 bs]|] eqn:Hr; [|discriminate].
    inversion H; subst. rewrite (IH _ _ _ Hr), (bq_step_buf _ _ _ _ Hs). cbn [map concat]. rewrite app_assoc. reflexivity.
Qed.

Lemma bq_step_hor q o q' out : bq_step q o = Some (q', out) -> 0 <= q_hor q -> 0 <= q_hor q'.
Proof.
  destruct o; cbn [bq_step]; intros H Hh;
    repeat match type of H with (if ?c then _ else _) = _ => destruct c; try discriminate end;
    inversion H; subst; cbn [q_hor]; lia.
Qed.

Lemma bq_step_read q o q' out : bq_step q o = Some (q', out) -> is_seek o = false -> 0 <= q_hor q ->
  q_g q <= q_g q' /\ out = slice (q_g q) (q_g q' - q_g q) (q_buf q) /\ (q_g q < q_g q' -> 0 <= q_g q /\ q_g q' <= q_p q).
Proof.
  destruct o; cbn [bq_step is_seek]; intros H Hs Hh; try discriminate;
    try (repeat match type of H with (if ?c then _ else _) = _ => destruct c; try discriminate end;
         inversion H; subst; cbn [q_g q_buf]; rewrite Z.sub_diag; split; [lia|split; [reflexivity|lia]]).
  destruct (negb (bq_read_ok q n)); [discriminate|].
  set (n' := if q_F q <? n + q_g q then q_F q - q_g q else n) in *.
  destruct ((0 <? n') && ((q_p q <? q_g q + n') || (q_g q <? q_hor q))) eqn:Sc; [discriminate|].
  inversion H; subst; clear H. cbn [q_g q_buf]. split; [lia|]. split.
  - destruct (Z_le_gt_dec n' 0); [rewrite !slice_nonpos by lia; reflexivity|]. f_equal. lia.
  - intros Hlt. assert (0 < n') by lia. replace (0 <? n') with true in Sc by (symmetry; apply Z.ltb_lt; lia).
    cbn [andb] in Sc. apply orb_false_elim in Sc. destruct Sc as [S1 S2]. apply Z.ltb_ge in S1, S2. lia.
Qed.

(* FIFO, independent of chunking: in a history without seeks, the bytes delivered by all the reads
   together are one contiguous stretch of the concatenation of everything written — starting at the
   get position before the history and ending at the get position after it — however the writes
   and the reads were cut *)
Theorem bq_fifo : forall ops q q' outs, 0 <= q_hor q -> bq_run q ops = Some (q', outs) -> existsb is_seek ops = false ->
  q_g q <= q_g q' /\ concat outs = slice (q_g q) (q_g q' - q_g q) (q_buf q ++ concat (map wbytes ops)).
Proof.
  induction ops as [|o r IH]; intros q q' outs Hh H Hs; cbn [bq_run] in H.
  - inversion H; subst. cbn. rewrite Z.sub_diag. split; [lia|]. rewrite slice_nonpos by lia. reflexivity.
  - destruct (bq_step q o) as [[q1 b]|] eqn:Hst; [|discriminate]. destruct (bq_run q1 r) as [[q2 bs]|] eqn:Hr; [|discriminate].
    inversion H; subst; clear H. cbn [existsb] in Hs. apply orb_false_elim in Hs. destruct Hs as [Hs1 Hs2].
    destruct (bq_step_read _ _ _ _ Hst Hs1 Hh) as (Hle & Hout & Hprog).
    destruct (IH q1 q' bs (bq_step_hor _ _ _ _ Hst Hh) Hr Hs2) as (Hle2 & Hrest).
    split; [lia|]. cbn [concat map]. rewrite Hrest, (bq_step_buf _ _ _ _ Hst). rewrite <- app_assoc.
    destruct (Z.eq_dec (q_g q1) (q_g q)) as [Eg|Ng].
    + rewrite Hout, Eg, Z.sub_diag. rewrite (slice_nonpos _ 0) by lia. reflexivity.
    + destruct Hprog as [Hg0 Hgp]; [lia|].
      replace (q_g q' - q_g q) with ((q_g q1 - q_g q) + (q_g q' - q_g q1)) by lia.
      rewrite slice_split by lia. f_equal.
      * rewrite Hout. symmetry. apply slice_app_l; [lia|]. unfold q_p in Hgp. fold (zl (q_buf q)) in Hgp. lia.
      * f_equal. lia.
Qed.
