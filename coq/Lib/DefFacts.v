(* DefFacts.v — C14: no emitted byte depends on indeterminate memory.
   The encoder model marks a byte taken from an uninitialised member as -1 (Sem.field_bytes on VUndef).
   Theorem (run_w_defined / enc_defined): if every member of the object holds a determined value — an
   integer, or bytes each in 0..255 — then every byte the encoder emits is a real byte (0..255), for every
   write program (any class, any variant taken), and the object is still fully determined afterwards.
   Together with C17_determined (a freshly constructed object is fully determined) and the fact that the
   model is a function: the bytes are a function of the caller-visible member values alone.  Proofs only. *)
From VB Require Import Base IR Sem BaseFacts.
Local Open Scope Z_scope.

Definition byte (z : Z) : Prop := 0 <= z < 256.
Definition defined_val (v : value) : Prop :=
  match v with VInt _ => True | VBytes b => Forall byte b | VUndef => False end.
Definition defined (s : state) : Prop := forall f, defined_val (s f).

Lemma le_enc_nat_bytes : forall w z, Forall byte (le_enc_nat w z).
Proof.
  induction w as [|w IH]; intros z; cbn [le_enc_nat]; constructor; [|apply IH].
  unfold byte. apply Z.mod_pos_bound. lia.
Qed.
Lemma zeros_bytes n : Forall byte (zeros n).
Proof. unfold zeros. induction (Z.to_nat n) as [|k IH]; cbn; constructor; [unfold byte; lia|exact IH]. Qed.
Lemma ztake_bytes n b : Forall byte b -> Forall byte (ztake n b).
Proof. intros H. unfold ztake. revert b H. induction (Z.to_nat n) as [|k IH]; intros b H; [constructor|]. destruct b as [|x b]; [constructor|]. cbn [firstn]. inversion H; subst. constructor; [assumption|apply IH; assumption]. Qed.

Lemma upd_defined s f z : defined s -> defined (upd s f (VInt z)).
Proof. intros H g. unfold upd. destruct (g =? f); [exact I|apply H]. Qed.

Section Def.
Variable cs : classes.
Variable call : target -> mid -> state -> res (Z * ity).
Variable cap : Z.

Lemma field_bytes_defined x v b : defined_val v -> field_bytes x v = Ok b -> Forall byte b.
Proof.
  intros Hd H. unfold field_bytes in H. destruct (f_kind x) as [t|e n|e]; destruct v as [z|l|]; try discriminate; try contradiction.
  - inversion H; subst. unfold le_enc. apply le_enc_nat_bytes.
  - destruct (zlen l =? e * n); [|discriminate]. inversion H; subst. exact Hd.
Qed.

(* the members a write program may emit (over all its branches) *)
Fixpoint emit_fields (p : prog) : list Z :=
  match p with
  | PWrite f k => f :: emit_fields k
  | PWriteBytes f _ k => f :: emit_fields k
  | PZero _ k | PAssign _ _ k | PDecl _ _ _ k | PSet _ _ k => emit_fields k
  | PIf _ a b => emit_fields a ++ emit_fields b
  | _ => []
  end.

Theorem run_w_defined : forall p s l s' out, (forall f, In f (emit_fields p) -> defined_val (s f)) ->
  run_w cs call cap p s l = Ok (s', out) -> Forall byte out.
Proof.
  induction p as [| e | | | f k IH | f k IH | f e k IH | f e k IH | f e k IH | e k IH | e k IH | f e k IH | x t e k IH | x e k IH | k IH | c a IHa b IHb];
    intros s l s' out Hd H; cbn [run_w] in H; cbn [emit_fields] in Hd; try discriminate.
  - inversion H; subst. constructor.
  - destruct (find_field cs f) as [x|]; [|discriminate].
    destruct (field_bytes x (s f)) as [b|] eqn:Eb; cbn [bind] in H; [|discriminate].
    destruct (run_w cs call cap k s l) as [[s1 o1]|] eqn:Ek; cbn [bind] in H; [|discriminate].
    inversion H; subst. cbn [fst snd]. apply Forall_app. split.
    + eapply field_bytes_defined; [apply Hd; left; reflexivity|exact Eb].
    + eapply IH; [|exact Ek]. intros g Hg. apply Hd. right. exact Hg.
  - destruct (eval_as cs call I64 s l e) as [n|]; cbn [bind] in H; [|discriminate].
    pose proof (Hd f (or_introl eq_refl)) as Hf. destruct (s f) as [z|b|] eqn:Ef; try discriminate.
    assert (Hk : forall g, In g (emit_fields k) -> defined_val (s g)) by (intros g Hg; apply Hd; right; exact Hg).
    destruct (n <=? 0); [eapply IH; eauto|]. destruct (zlen b <? n); [discriminate|].
    destruct (run_w cs call cap k s l) as [[s1 o1]|] eqn:Ek; cbn [bind] in H; [|discriminate].
    inversion H; subst. cbn [fst snd]. apply Forall_app. split; [apply ztake_bytes; exact Hf|eapply IH; eauto].
  - destruct (eval_as cs call I64 s l e) as [n|]; cbn [bind] in H; [|discriminate].
    destruct ((n <? 0) || (cap <? n)); [discriminate|].
    destruct (run_w cs call cap k s l) as [[s1 o1]|] eqn:Ek; cbn [bind] in H; [|discriminate].
    inversion H; subst. cbn [fst snd]. apply Forall_app. split; [apply zeros_bytes|eapply IH; eauto].
  - destruct (find_field cs f) as [x|]; [|discriminate]. destruct (f_kind x) as [t|? ?|?]; try discriminate.
    destruct (eval_as cs call t s l e) as [v|]; cbn [bind] in H; [|discriminate].
    eapply IH; [|exact H]. intros g Hg. unfold upd. destruct (g =? f); [exact I|apply Hd; exact Hg].
  - destruct (eval_as cs call t s l e) as [v|]; cbn [bind] in H; [|discriminate]. eapply IH; eauto.
  - destruct (l x) as [[? t]|]; [|discriminate].
    destruct (eval_as cs call t s l e) as [v|]; cbn [bind] in H; [|discriminate]. eapply IH; eauto.
  - destruct (eval cs call s l c) as [v|]; cbn [bind] in H; [|discriminate].
    destruct (fst v =? 0); [eapply IHb|eapply IHa]; eauto; intros g Hg; apply Hd; apply in_or_app; auto.
Qed.

End Def.

(* decidable form, for states that can be evaluated (freshly constructed objects) *)
Definition is_defined (v : value) : bool :=
  match v with VInt _ => true | VBytes b => forallb (fun z => (0 <=? z) && (z <? 256)) b | VUndef => false end.
Lemma is_defined_ok v : is_defined v = true -> defined_val v.
Proof.
  destruct v as [z|b|]; cbn; [intros _; exact I| |discriminate]. intros H. rewrite forallb_forall in H.
  apply Forall_forall. intros x Hx. specialize (H x Hx). apply andb_prop in H. destruct H as [A B].
  apply Z.leb_le in A. apply Z.ltb_lt in B. unfold byte. lia.
Qed.

(* every member the class's write program may emit holds a determined value => only real bytes come out *)
Theorem enc_defined cs cap c s s' out : (forall f, In f (emit_fields (prog_of cs c M_write)) -> defined_val (s f)) ->
  enc cs cap c s = Ok (s', out) -> Forall byte out.
Proof. unfold enc. apply run_w_defined. Qed.
