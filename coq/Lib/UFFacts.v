(* UFFacts.v — theorems about the UncompressedFile model (C15).
   The full refinement to a flat byte queue (uf_refines) is NOT proved yet; what is proved here is
   named for what it is:  positions and counts (write_advances, read_counts), the drop guarantee
   (drop_keeps_unread: dropping never removes a byte at or after the get position), the iostream
   flags and the clamped relative seek.  The byte-order half of the property is decided by the
   correspondence run against the reference byte queue (vlib/props/c15.py). *)
From Coq Require Import List ZArith Bool Lia.
From VB Require Import UFModel.
Import ListNotations.
Local Open Scope Z_scope.

(* ---------- dropOldData never discards a byte that has not been read ---------- *)
Lemma drop_all_containing : forall d tg tp fsz x, tg <= x ->
  containing (drop_all d tg tp fsz) x = containing d x.
Proof.
  induction d as [|c r IH]; intros tg tp fsz x Hx; cbn [drop_all]; [reflexivity|].
  destruct ((tg <? c_end c) || (tp <? c_end c) || (fsz <? c_end c)) eqn:G; [reflexivity|].
  rewrite IH by exact Hx.
  apply orb_false_elim in G. destruct G as [G _]. apply orb_false_elim in G. destruct G as [G _].
  apply Z.ltb_ge in G. unfold containing. cbn [find].
  replace (contains x c) with false; [reflexivity|].
  unfold contains. symmetry. apply andb_false_intro2. apply Z.ltb_ge. lia.
Qed.

(* for every position x at or after the get position, the container that holds x (and hence the
   byte stored for x) is the same before and after dropOldData — whatever the container list is *)
Theorem drop_keeps_unread : forall s x, u_tellg s <= x ->
  containing (u_data (uf_drop s)) x = containing (u_data s) x.
Proof. intros s x Hx. unfold uf_drop. cbn [u_data]. apply drop_all_containing. exact Hx. Qed.

Lemma drop_all_suffix : forall d tg tp fsz, exists gone,
  d = gone ++ drop_all d tg tp fsz /\ Forall (fun c => c_end c <= tg /\ c_end c <= tp /\ c_end c <= fsz) gone /\
  match drop_all d tg tp fsz with
  | [] => True
  | c :: _ => tg < c_end c \/ tp < c_end c \/ fsz < c_end c
  end.
Proof.
  induction d as [|c r IH]; intros tg tp fsz; cbn [drop_all].
  - exists []. repeat split; constructor.
  - destruct ((tg <? c_end c) || (tp <? c_end c) || (fsz <? c_end c)) eqn:G.
    + exists []. repeat split; [constructor|].
      apply orb_prop in G. destruct G as [G|G]; [apply orb_prop in G; destruct G as [G|G]|]; apply Z.ltb_lt in G; auto.
    + destruct (IH tg tp fsz) as (gone & E & F & M). exists (c :: gone). split; [cbn; f_equal; exact E|]. split; [|exact M].
      constructor; [|exact F].
      apply orb_false_elim in G. destruct G as [G G3]. apply orb_false_elim in G. destruct G as [G1 G2].
      apply Z.ltb_ge in G1, G2, G3. auto.
Qed.

(* what is dropped is a prefix of the list, every dropped container lies wholly behind the get
   position, the put position and the declared end, the first container kept does not, and nothing
   else changes *)
Theorem drop_frame : forall s,
  let s' := uf_drop s in
  u_tellg s' = u_tellg s /\ u_tellp s' = u_tellp s /\ u_fsz s' = u_fsz s /\ u_rd s' = u_rd s /\ u_gcount s' = u_gcount s /\
  exists gone, u_data s = gone ++ u_data s' /\
    Forall (fun c => c_end c <= u_tellg s /\ c_end c <= u_tellp s /\ c_end c <= u_fsz s) gone /\
    match u_data s' with [] => True | c :: _ => u_tellg s < c_end c \/ u_tellp s < c_end c \/ u_fsz s < c_end c end.
Proof.
  intros s. cbn. repeat split; auto. apply drop_all_suffix.
Qed.

(* ---------- write(s, n): the put position advances by exactly n, whatever the chunking ---------- *)
Lemma containing_contains d x c : containing d x = Some c -> contains x c = true.
Proof. unfold containing. intros H. apply find_some in H. apply H. Qed.

Lemma write_loop_advances : forall fuel dcs d tp bs d' tp',
  write_loop fuel dcs d tp bs = Some (d', tp') -> tp' = tp + Z.of_nat (length bs).
Proof.
  induction fuel as [|fuel IH]; intros dcs d tp bs d' tp' H.
  - destruct bs; cbn in H; [inversion H; cbn; lia|discriminate].
  - destruct bs as [|b bs]; [cbn in H; inversion H; cbn; lia|].
    cbn [write_loop] in H. remember (b :: bs) as l eqn:El.
    assert (Hl : 1 <= Z.of_nat (length l)) by (subst l; cbn [length]; lia).
    destruct (containing d tp) as [c|] eqn:Hc.
    + apply containing_contains in Hc. unfold contains in Hc. apply andb_prop in Hc. destruct Hc as [C1 C2].
      apply Z.leb_le in C1. apply Z.ltb_lt in C2. unfold c_end in C2.
      apply IH in H. rewrite H. rewrite skipn_length. lia.
    + destruct (tp - c_pos (new_cont d tp dcs) <? 0); [discriminate|].
      destruct (0 <? Z.min (Z.of_nat (length l)) (c_size (new_cont d tp dcs) - (tp - c_pos (new_cont d tp dcs)))) eqn:Hp.
      * apply Z.ltb_lt in Hp. apply IH in H. rewrite H. rewrite skipn_length. lia.
      * apply IH in H. exact H.
Qed.

Theorem write_advances : forall s bs s' notes, uf_write s bs = Some (s', notes) ->
  u_tellp s' = u_tellp s + Z.of_nat (length bs) /\ u_tellg s' = u_tellg s /\ u_gcount s' = u_gcount s /\ u_rd s' = u_rd s /\ u_tellp s' <= u_fsz s' /\ (u_fsz s' = u_fsz s \/ u_fsz s' = u_tellp s') /\ notes = [CVU_tellp].
Proof.
  intros s bs s' notes H. unfold uf_write in H.
  destruct (write_loop _ _ _ _ _) as [[d tp]|] eqn:W; [|discriminate].
  apply write_loop_advances in W. inversion H; subst; clear H. cbn.
  destruct (u_fsz s <=? u_tellp s + Z.of_nat (length bs)) eqn:F; repeat split; auto; try lia.
  all: try (apply Z.leb_gt in F; lia).
Qed.

Theorem writec_advances : forall s bs,
  let '(s', notes) := uf_writec s bs in
  u_tellp s' = u_tellp s + Z.of_nat (length bs) /\ u_tellg s' = u_tellg s /\ u_fsz s' = u_fsz s /\ u_rd s' = u_rd s /\ notes = [CVU_tellp] /\ exists d, u_data s' = d ++ [{| c_pos := u_tellp s; c_data := bs |}].
Proof. intros s bs. cbn. repeat split; auto. eexists. reflexivity. Qed.

(* ---------- read: counts, positions, flags ---------- *)
Lemma read_loop_bounds : forall fuel d tg n acc tg' out,
  read_loop fuel d tg n acc = (tg', out) ->
  tg <= tg' /\ tg' - tg <= Z.max 0 n /\ Z.of_nat (length out) = Z.of_nat (length acc) + (tg' - tg) /\ exists more, out = acc ++ more.
Proof.
  induction fuel as [|fuel IH]; intros d tg n acc tg' out H.
  - cbn in H. inversion H; subst. repeat split; try lia. exists []. rewrite app_nil_r. reflexivity.
  - cbn [read_loop] in H. destruct (n <=? 0) eqn:N.
    + inversion H; subst. repeat split; try lia. exists []. rewrite app_nil_r. reflexivity.
    + apply Z.leb_gt in N. destruct (containing d tg) as [c|] eqn:Hc.
      * apply containing_contains in Hc. unfold contains in Hc. apply andb_prop in Hc. destruct Hc as [C1 C2].
        apply Z.leb_le in C1. apply Z.ltb_lt in C2. unfold c_end in C2.
        set (g := Z.min n (c_size c - (tg - c_pos c))) in *.
        assert (Hg : 1 <= g <= n) by (unfold g; lia).
        apply IH in H. destruct H as (A & B & C & more & E).
        assert (Hs : Z.of_nat (length (slice (tg - c_pos c) g (c_data c))) = g).
        { unfold slice. rewrite firstn_length, skipn_length. unfold c_size in *. lia. }
        rewrite app_length in C. repeat split; try lia.
        exists (slice (tg - c_pos c) g (c_data c) ++ more). rewrite E, app_assoc. reflexivity.
      * inversion H; subst. repeat split; try lia. exists []. rewrite app_nil_r. reflexivity.
Qed.

(* the get position advances by exactly the number of bytes delivered, which is gcount and never
   more than requested nor beyond the declared end; eof|fail is set iff the request crosses the
   declared end (reflecting this read only), and nothing is written *)
Theorem read_counts : forall s n,
  let '(s', bytes, notes) := uf_read s n in
  u_gcount s' = Z.of_nat (length bytes) /\ u_tellg s' = u_tellg s + u_gcount s' /\ 0 <= u_gcount s' <= Z.max 0 n /\ (u_fsz s < n + u_tellg s -> u_tellg s' <= Z.max (u_tellg s) (u_fsz s)) /\ (u_fsz s < n + u_tellg s -> uf_good s' = false /\ uf_eof s' = true) /\ (n + u_tellg s <= u_fsz s -> 0 < n -> uf_good s' = true /\ uf_eof s' = false) /\
  (n + u_tellg s <= u_fsz s -> n <= 0 -> u_rd s' = u_rd s) /\ u_tellp s' = u_tellp s /\ u_data s' = u_data s /\ u_fsz s' = u_fsz s /\ u_buf s' = Z.max (u_buf s) n /\ In CVU_tellg notes.
Proof.
  intros s n. unfold uf_read.
  destruct (read_loop _ _ _ _ _) as [tg bytes] eqn:R. apply read_loop_bounds in R.
  destruct R as (A & B & C & more & E). cbn [length] in C. cbn.
  assert (HB : (if u_buf s <? n then n else u_buf s) = Z.max (u_buf s) n) by (destruct (u_buf s <? n) eqn:G; [apply Z.ltb_lt in G|apply Z.ltb_ge in G]; lia).
  destruct (u_fsz s <? n + u_tellg s) eqn:F.
  - apply Z.ltb_lt in F. repeat split; auto; try lia; try (intros; lia).
  - apply Z.ltb_ge in F. destruct (0 <? n) eqn:P; repeat split; auto; try lia; try (intros; lia).
Qed.

(* ---------- relative seek, clamped at the declared end ---------- *)
Theorem seekg_clamped : forall s off,
  let '(s', notes) := uf_seekg s off in
  u_tellg s' = Z.min (u_tellg s + off) (u_fsz s) /\ u_tellp s' = u_tellp s /\ u_data s' = u_data s /\ u_rd s' = u_rd s /\ notes = [CVU_tellg].
Proof. intros. cbn. auto. Qed.

(* ---------- abort releases every waiter ---------- *)
Theorem uf_abort_releases : forall s n,
  let '(s', notes) := uf_abort s in
  uf_read_guard s' n = true /\ uf_write_guard s' = true /\ uf_writec_guard s' = true /\ In CVU_tellg notes /\ In CVU_tellp notes.
Proof. intros. cbn. unfold uf_read_guard, uf_write_guard, uf_writec_guard. cbn. repeat split; auto. Qed.

(* ---------- no lost wake-up between the two sides of the stream ---------- *)
(* read(n) sleeps on tellpChanged; write sleeps on tellgChanged.  Every call that can turn a false
   predicate true notifies the right condition variable (setBufferSize is configuration). *)
Theorem uf_wakeups : forall s,
  (forall n bs s' notes, uf_write s bs = Some (s', notes) -> uf_read_guard s n = false -> uf_read_guard s' n = true -> In CVU_tellp notes) /\ (forall n bs, uf_read_guard s n = false -> uf_read_guard (fst (uf_writec s bs)) n = true -> In CVU_tellp (snd (uf_writec s bs))) /\ (forall n k, uf_read_guard s n = false -> uf_read_guard (fst (uf_setFileSize s k)) n = true -> In CVU_tellp (snd (uf_setFileSize s k))) /\ (forall n, uf_write_guard s = false -> uf_write_guard (fst (fst (uf_read s n))) = true -> In CVU_tellg (snd (uf_read s n))) /\ (forall off, uf_write_guard s = false -> uf_write_guard (fst (uf_seekg s off)) = true -> In CVU_tellg (snd (uf_seekg s off))).
Proof.
  intros s. repeat split.
  - intros n bs s' notes H _ _. apply write_advances in H. destruct H as (_ & _ & _ & _ & _ & _ & H). subst. left. reflexivity.
  - intros. cbn. left. reflexivity.
  - intros. cbn. left. reflexivity.
  - intros n _ _. unfold uf_read. destruct (read_loop _ _ _ _ _). cbn. left. reflexivity.
  - intros. cbn. left. reflexivity.
Qed.

(* ---------- non-vacuity: a history with three containers of different sizes ---------- *)
Definition ex_hist : list uop :=
  [USetDcs 4; UWrite [1;2;3]; UNext; UWriteC [4;5]; UWrite [6;7;8;9;10]; URead 4; UDrop; URead 6; UDrop].
Fixpoint urun (s : uf) (ops : list uop) : option (uf * list Z) :=
  match ops with
  | [] => Some (s, [])
  | o :: r => if uenabled s o then
                match ustep s o with
                | Some (s', b) => match urun s' r with Some (s'', bs) => Some (s'', b ++ bs) | None => None end
                | None => None end
              else None
  end.
Example ex_hist_fifo :
  match urun uf_init ex_hist with
  | Some (s, bytes) => bytes = [1;2;3;4;5;6;7;8;9;10] /\ u_tellg s = 10 /\ u_tellp s = 10 /\ map c_pos (u_data s) = [9]
  | None => False end.
Proof. vm_compute. repeat split; reflexivity. Qed.
