(* Tables.v — association-list lookups over Z keys and the lemmas that lift finite checks to all keys. *)
From VB Require Import Base.
Local Open Scope Z_scope.

Fixpoint lookup {A} (k : Z) (l : list (Z * A)) : option A :=
  match l with [] => None | (k', v) :: r => if k' =? k then Some v else lookup k r end.

Lemma lookup_not_in {A} k (l : list (Z * A)) : ~ In k (map fst l) -> lookup k l = None.
Proof.
  induction l as [|[k' v] r IH]; cbn [lookup map fst In]; intros H; [reflexivity|].
  destruct (Z.eqb_spec k' k) as [->|Hne]; [exfalso; apply H; left; reflexivity|].
  apply IH. intros Hin. apply H. right. exact Hin.
Qed.

(* a property of keys that holds on a finite list of candidates and trivially elsewhere *)
Lemma forall_keys (P : Z -> bool) (keys : list Z) :
  forallb P keys = true -> (forall k, ~ In k keys -> P k = true) -> forall k, P k = true.
Proof.
  intros Hall Hout k. destruct (in_dec Z.eq_dec k keys) as [Hin|Hnin].
  - rewrite forallb_forall in Hall. apply Hall. exact Hin.
  - apply Hout. exact Hnin.
Qed.

Definition opt_z_eqb (a b : option Z) : bool :=
  match a, b with None, None => true | Some x, Some y => x =? y | _, _ => false end.
Lemma opt_z_eqb_eq a b : opt_z_eqb a b = true -> a = b.
Proof. destruct a, b; cbn; intros H; try discriminate; [apply Z.eqb_eq in H; subst|]; reflexivity. Qed.
