(* WPipe.v — the write session as three threads over the object queue and the in-memory stream:
     A  (application): write(obj) ... close() = setFileSize; join worker 1; join worker 2
     W1 (uncompressedFileWriteThread): read an object from the queue, encode it chunk by chunk into the stream
        (each os.write waits for tellp - tellg < bufferSize), delete it; at end of queue declare end of stream
     W2 (compressedFileWriteThread): read exactly `cs` bytes (blocking) or the short rest at end of stream, emit a container
   one step = one critical section.  The blocking conditions are the wait predicates of Lib/OQModel.v and
   Lib/UFModel.v; the thread programs are tied to File.cpp by the statement skeletons (Inst/SkelEq.v).
   Theorems: no reachable state is stuck (C06), every run terminates (measure), the containers emitted are the
   same for every interleaving and equal FileModel.pieces (C07, C14), the data held is bounded (C12), every
   object is owned by exactly one party and released exactly once (C11, C13). *)
From Coq Require Import List ZArith Bool Lia.
From VB Require Import Base BaseFacts FileModel FileFacts.
Import ListNotations.
Local Open Scope Z_scope.

Definition chunk := list Z.
Record obj := { o_id : Z; o_chunks : list chunk }.     (* an object: identity + the byte chunks its write() emits *)

Inductive apc := AWrite (l : list obj) | ASetEof | AJoin1 | AJoin2 | ADone.
Inductive w1pc := W1Read | W1Chunk (o : obj) (ks : list chunk) | W1Delete (o : obj) | W1SetEof | W1Done.
Inductive w2pc := W2Read | W2Done.

Record ws := {
  a_pc : apc;
  q : list obj; q_eof : bool;
  w1 : w1pc;
  ubuf : list Z; u_eof : bool;        (* bytes in the stream not yet read by worker 2; end declared *)
  w2 : w2pc;
  out : list (list Z);                (* containers emitted so far *)
  deleted : list Z                    (* ids of objects deleted by the library, in order *)
}.

Section Write.
Variables cap buf cs : Z.

Definition init (l : list obj) : ws :=
  {| a_pc := AWrite l; q := []; q_eof := false; w1 := W1Read; ubuf := []; u_eof := false; w2 := W2Read; out := []; deleted := [] |}.

Definition set_a (s : ws) p := {| a_pc := p; q := q s; q_eof := q_eof s; w1 := w1 s; ubuf := ubuf s; u_eof := u_eof s; w2 := w2 s; out := out s; deleted := deleted s |}.

Definition step_A (s : ws) : option ws :=
  match a_pc s with
  | AWrite (o :: l) =>
      (* ObjectQueue::write: waits while the queue is at its capacity *)
      if zlen (q s) <? cap
      then Some {| a_pc := AWrite l; q := q s ++ [o]; q_eof := q_eof s; w1 := w1 s; ubuf := ubuf s; u_eof := u_eof s; w2 := w2 s; out := out s; deleted := deleted s |}
      else None
  | AWrite [] => Some (set_a s ASetEof)
  | ASetEof => Some {| a_pc := AJoin1; q := q s; q_eof := true; w1 := w1 s; ubuf := ubuf s; u_eof := u_eof s; w2 := w2 s; out := out s; deleted := deleted s |}
  | AJoin1 => match w1 s with W1Done => Some (set_a s AJoin2) | _ => None end
  | AJoin2 => match w2 s with W2Done => Some (set_a s ADone) | _ => None end
  | ADone => None
  end.

Definition set_w1 (s : ws) p := {| a_pc := a_pc s; q := q s; q_eof := q_eof s; w1 := p; ubuf := ubuf s; u_eof := u_eof s; w2 := w2 s; out := out s; deleted := deleted s |}.

Definition step_W1 (s : ws) : option ws :=
  match w1 s with
  | W1Read =>
      (* ObjectQueue::read: waits while the queue is empty and its end is not declared *)
      match q s with
      | o :: r => Some {| a_pc := a_pc s; q := r; q_eof := q_eof s; w1 := W1Chunk o (o_chunks o); ubuf := ubuf s; u_eof := u_eof s; w2 := w2 s; out := out s; deleted := deleted s |}
      | [] => if q_eof s then Some (set_w1 s W1SetEof) else None
      end
  | W1Chunk o (k :: ks) =>
      (* UncompressedFile::write(s, n): waits while tellp - tellg >= bufferSize, then writes all n bytes *)
      if zlen (ubuf s) <? buf
      then Some {| a_pc := a_pc s; q := q s; q_eof := q_eof s; w1 := W1Chunk o ks; ubuf := ubuf s ++ k; u_eof := u_eof s; w2 := w2 s; out := out s; deleted := deleted s |}
      else None
  | W1Chunk o [] => Some (set_w1 s (W1Delete o))
  | W1Delete o => Some {| a_pc := a_pc s; q := q s; q_eof := q_eof s; w1 := W1Read; ubuf := ubuf s; u_eof := u_eof s; w2 := w2 s; out := out s; deleted := deleted s ++ [o_id o] |}
  | W1SetEof => Some {| a_pc := a_pc s; q := q s; q_eof := q_eof s; w1 := W1Done; ubuf := ubuf s; u_eof := true; w2 := w2 s; out := out s; deleted := deleted s |}
  | W1Done => None
  end.

Definition step_W2 (s : ws) : option ws :=
  match w2 s with
  | W2Read =>
      (* UncompressedFile::read(s, cs): waits until cs bytes are there or the request crosses the declared end *)
      if cs <=? zlen (ubuf s)
      then Some {| a_pc := a_pc s; q := q s; q_eof := q_eof s; w1 := w1 s; ubuf := zdrop cs (ubuf s); u_eof := u_eof s; w2 := W2Read;
                   out := out s ++ [ztake cs (ubuf s)]; deleted := deleted s |}
      else if u_eof s
      then Some {| a_pc := a_pc s; q := q s; q_eof := q_eof s; w1 := w1 s; ubuf := []; u_eof := u_eof s; w2 := W2Done;
                   out := out s ++ [ubuf s]; deleted := deleted s |}
      else None
  | W2Done => None
  end.

Inductive thread := TA | TW1 | TW2.
Definition step (t : thread) (s : ws) : option ws :=
  match t with TA => step_A s | TW1 => step_W1 s | TW2 => step_W2 s end.

Inductive reach (l : list obj) : ws -> Prop :=
| reach_init : reach l (init l)
| reach_step : forall s t s', reach l s -> step t s = Some s' -> reach l s'.

Definition finished (s : ws) : Prop := a_pc s = ADone /\ w1 s = W1Done /\ w2 s = W2Done.

(* ---------- invariants ---------- *)
Definition a_past_eof (p : apc) : bool := match p with AJoin1 | AJoin2 | ADone => true | _ => false end.

Definition Inv (s : ws) : Prop :=
  q_eof s = a_past_eof (a_pc s) /\
  (u_eof s = true <-> w1 s = W1Done) /\
  (w1 s = W1SetEof \/ w1 s = W1Done -> q s = [] /\ q_eof s = true) /\
  (w2 s = W2Done -> u_eof s = true /\ ubuf s = []) /\
  (a_pc s = AJoin2 \/ a_pc s = ADone -> w1 s = W1Done) /\
  (a_pc s = ADone -> w2 s = W2Done).

Lemma inv_init l : Inv (init l).
Proof.
  unfold Inv, init; cbn. split; [reflexivity|]. split; [split; intros C; discriminate|]. split; [intros [C|C]; discriminate|].
  split; [intros C; discriminate|]. split; [intros [C|C]; discriminate|]. intros C; discriminate.
Qed.

Ltac use_hyps :=
  repeat match goal with
         | H : ?a = ?a -> _ |- _ => specialize (H eq_refl)
         | H : (?a = ?a \/ _) -> _ |- _ => specialize (H (or_introl eq_refl))
         | H : (_ \/ ?a = ?a) -> _ |- _ => specialize (H (or_intror eq_refl))
         | H : ?P -> _, C : ?P |- _ => specialize (H C)
         | H : _ /\ _ |- _ => destruct H
         | H : _ <-> _ |- _ => destruct H
         end.
Ltac crush :=
  repeat (split || intro); subst; use_hyps;
  repeat match goal with H : _ \/ _ |- _ => destruct H; use_hyps end;
  try discriminate; try congruence; try tauto; auto.

Lemma inv_step : forall s t s', Inv s -> step t s = Some s' -> Inv s'.
Proof.
  intros s t s' I H. unfold Inv in I.
  destruct t; cbn [step] in H.
  - (* application *)
    unfold step_A in H. destruct (a_pc s) as [[|o l]| | | |] eqn:EA.
    + inversion H; subst; clear H. unfold Inv, set_a; cbn. rewrite ?EA in *. cbn in *. crush.
    + destruct (zlen (q s) <? cap); [|discriminate]. inversion H; subst; clear H. unfold Inv; cbn. rewrite ?EA in *. cbn in *. crush.
    + inversion H; subst; clear H. unfold Inv; cbn. rewrite ?EA in *. cbn in *. crush.
    + destruct (w1 s) eqn:EW; try discriminate. inversion H; subst; clear H. unfold Inv, set_a; cbn. rewrite ?EA, ?EW in *. cbn in *. crush.
    + destruct (w2 s) eqn:EW; try discriminate. inversion H; subst; clear H. unfold Inv, set_a; cbn. rewrite ?EA, ?EW in *. cbn in *. crush.
    + discriminate.
  - (* worker 1 *)
    unfold step_W1 in H. destruct (w1 s) as [|o [|k ks]|o| |] eqn:EW.
    + destruct (q s) as [|o r] eqn:EQ.
      * destruct (q_eof s) eqn:EE; [|discriminate]. inversion H; subst; clear H. unfold Inv, set_w1; cbn. rewrite ?EW, ?EQ, ?EE in *. crush.
      * inversion H; subst; clear H. unfold Inv; cbn. rewrite ?EW, ?EQ in *. crush.
    + inversion H; subst; clear H. unfold Inv, set_w1; cbn. rewrite ?EW in *. crush.
    + destruct (zlen (ubuf s) <? buf); [|discriminate]. inversion H; subst; clear H. unfold Inv; cbn. rewrite ?EW in *. crush.
    + inversion H; subst; clear H. unfold Inv; cbn. rewrite ?EW in *. crush.
    + inversion H; subst; clear H. unfold Inv; cbn. rewrite ?EW in *. crush.
    + discriminate.
  - (* worker 2 *)
    unfold step_W2 in H. destruct (w2 s) eqn:EW; [|discriminate].
    destruct (cs <=? zlen (ubuf s)).
    + inversion H; subst; clear H. unfold Inv; cbn. rewrite ?EW in *. crush.
    + destruct (u_eof s) eqn:EU; [|discriminate]. inversion H; subst; clear H. unfold Inv; cbn. rewrite ?EW, ?EU in *. crush.
Qed.

Lemma inv_reach l s : reach l s -> Inv s.
Proof. induction 1; [apply inv_init|eapply inv_step; eauto]. Qed.

(* ---------- C06: no reachable state is stuck ---------- *)
Hypothesis Hcap : 1 <= cap.
Hypothesis Hcs : cs <= buf.            (* File keeps the buffer at one container (constructor and setDefaultLogContainerSize) *)

Theorem stuck_free : forall s, Inv s -> ~ finished s -> exists t s', step t s = Some s'.
Proof.
  intros s (I1 & I2 & I3 & I4 & I5 & I6) NF.
  destruct (w2 s) eqn:E2.
  - (* worker 2 still reading *)
    destruct (cs <=? zlen (ubuf s)) eqn:Ec.
    { exists TW2. eexists. cbn. unfold step_W2. rewrite E2, Ec. reflexivity. }
    destruct (u_eof s) eqn:Eu.
    { exists TW2. eexists. cbn. unfold step_W2. rewrite E2, Ec, Eu. reflexivity. }
    (* worker 2 waits: fewer than cs bytes and the end is not declared; so worker 1 is not done *)
    apply Z.leb_gt in Ec.
    destruct (w1 s) as [|o [|k ks]|o| |] eqn:E1.
    + destruct (q s) as [|o r] eqn:Eq.
      * destruct (q_eof s) eqn:Ee.
        { exists TW1. eexists. cbn. unfold step_W1. rewrite E1, Eq, Ee. reflexivity. }
        (* queue empty, its end not declared: the application is still writing or about to declare the end *)
        destruct (a_pc s) as [[|o l]| | | |] eqn:EA; cbn in I1; try discriminate; try (rewrite Ee in I1; discriminate).
        -- exists TA. eexists. cbn. unfold step_A. rewrite EA. reflexivity.
        -- exists TA. eexists. cbn. unfold step_A. rewrite EA, Eq. replace (zlen (@nil obj) <? cap) with true by (cbn; lia). reflexivity.
        -- exists TA. eexists. cbn. unfold step_A. rewrite EA. reflexivity.
      * exists TW1. eexists. cbn. unfold step_W1. rewrite E1, Eq. reflexivity.
    + exists TW1. eexists. cbn. unfold step_W1. rewrite E1. reflexivity.
    + (* worker 1 wants to write a chunk: the stream holds fewer than cs <= buf bytes, so it may *)
      exists TW1. eexists. cbn. unfold step_W1. rewrite E1. replace (zlen (ubuf s) <? buf) with true by lia. reflexivity.
    + exists TW1. eexists. cbn. unfold step_W1. rewrite E1. reflexivity.
    + exists TW1. eexists. cbn. unfold step_W1. rewrite E1. reflexivity.
    + destruct I2 as [_ I2]. specialize (I2 eq_refl). discriminate.
  - (* worker 2 done: the end was declared, so worker 1 is done and the application is joining *)
    destruct (I4 eq_refl) as [U _]. assert (W : w1 s = W1Done) by (apply I2; exact U).
    destruct (I3 (or_intror W)) as [_ Qe]. rewrite I1 in Qe.
    destruct (a_pc s) eqn:EA; cbn in Qe; try discriminate.
    + exists TA. eexists. cbn. unfold step_A. rewrite EA, W. reflexivity.
    + exists TA. eexists. cbn. unfold step_A. rewrite EA, E2. reflexivity.
    + exfalso. apply NF. repeat split; auto.
Qed.

End Write.

(* ====================================================================================== *)
(* data: conservation, determinacy of the emitted containers, ownership, bounds, termination *)

Definition obj_bytes (o : obj) : list Z := concat (o_chunks o).
Definition objs_bytes (l : list obj) : list Z := concat (map obj_bytes l).
Definition a_list (p : apc) : list obj := match p with AWrite l => l | _ => [] end.
Definition w1_bytes (p : w1pc) : list Z := match p with W1Chunk _ ks => concat ks | _ => [] end.
Definition w1_ids (p : w1pc) : list Z := match p with W1Chunk o _ | W1Delete o => [o_id o] | _ => [] end.

Lemma objs_bytes_app a b : objs_bytes (a ++ b) = objs_bytes a ++ objs_bytes b.
Proof. unfold objs_bytes. rewrite map_app, concat_app. reflexivity. Qed.
Lemma objs_bytes_cons o l : objs_bytes (o :: l) = obj_bytes o ++ objs_bytes l.
Proof. reflexivity. Qed.

Arguments objs_bytes : simpl never.
Arguments obj_bytes : simpl never.

Section WriteData.
Variables cap buf cs : Z.
Hypothesis Hcs1 : 1 <= cs.
Notation step := (step cap buf cs).
Notation reach := (reach cap buf cs).

(* every byte and every object is in exactly one place *)
Definition Cons (l : list obj) (s : ws) : Prop :=
  concat (out s) ++ ubuf s ++ w1_bytes (w1 s) ++ objs_bytes (q s) ++ objs_bytes (a_list (a_pc s)) = objs_bytes l /\
  deleted s ++ w1_ids (w1 s) ++ map o_id (q s) ++ map o_id (a_list (a_pc s)) = map o_id l.

Definition Shape (s : ws) : Prop :=
  match w2 s with
  | W2Read => Forall (fun p => zlen p = cs) (out s)
  | W2Done => exists full last, out s = full ++ [last] /\ Forall (fun p => zlen p = cs) full /\ zlen last < cs
  end.

Lemma cons_init l : Cons l (init l) /\ Shape (init l).
Proof. unfold Cons, Shape, init; cbn. rewrite ?app_nil_r. repeat split; constructor. Qed.

Lemma concat_snoc {A} (ls : list (list A)) x : concat (ls ++ [x]) = concat ls ++ x.
Proof. rewrite concat_app. cbn. rewrite app_nil_r. reflexivity. Qed.

Lemma cons_step l : forall s t s', Cons l s /\ Shape s -> step t s = Some s' -> Cons l s' /\ Shape s'.
Proof.
  intros s t s' [[C1 C2] Sh] H. destruct t; cbn [WPipe.step] in H.
  - unfold step_A in H. destruct (a_pc s) as [[|o r]| | | |] eqn:EA.
    + inversion H; subst; clear H. unfold Cons, Shape, set_a in *; cbn in *. rewrite ?EA in *. cbn in *. rewrite <- ?app_assoc in *; cbn [app] in *; auto.
    + destruct (zlen (q s) <? cap); [|discriminate]. inversion H; subst; clear H. unfold Cons, Shape in *; cbn in *. rewrite ?EA in *. cbn in *.
      rewrite objs_bytes_app, map_app. rewrite objs_bytes_cons in C1. unfold objs_bytes at 2. cbn [map concat]. rewrite app_nil_r.
      rewrite <- !app_assoc in *. cbn [app]. rewrite <- ?app_assoc in *; cbn [app] in *; auto.
    + inversion H; subst; clear H. unfold Cons, Shape in *; cbn in *. rewrite ?EA in *. cbn in *. rewrite <- ?app_assoc in *; cbn [app] in *; auto.
    + destruct (w1 s) eqn:EW1; try discriminate. inversion H; subst; clear H. rewrite ?EW1 in *. unfold Cons, Shape, set_a in *; cbn in *. rewrite ?EA, ?EW1 in *. cbn in *. rewrite <- ?app_assoc in *; cbn [app] in *; auto.
    + destruct (w2 s) eqn:E2; try discriminate. inversion H; subst; clear H. rewrite ?E2 in *. unfold Cons, Shape, set_a in *; cbn in *. rewrite ?EA, ?E2 in *. cbn in *. rewrite <- ?app_assoc in *; cbn [app] in *; auto.
    + discriminate.
  - unfold step_W1 in H. destruct (w1 s) as [|o [|k ks]|o| |] eqn:EW.
    + destruct (q s) as [|o r] eqn:EQ.
      * destruct (q_eof s); [|discriminate]. inversion H; subst; clear H. unfold Cons, Shape, set_w1 in *; cbn in *. rewrite ?EW, ?EQ in *. cbn in *. rewrite <- ?app_assoc in *; cbn [app] in *; auto.
      * inversion H; subst; clear H. unfold Cons, Shape in *; cbn in *. rewrite ?EW, ?EQ in *. cbn in *.
        rewrite objs_bytes_cons in C1. unfold obj_bytes in C1. rewrite <- ?app_assoc in *; cbn [app] in *; auto.
    + inversion H; subst; clear H. unfold Cons, Shape, set_w1 in *; cbn in *. rewrite ?EW in *. cbn in *. rewrite <- ?app_assoc in *; cbn [app] in *; auto.
    + destruct (zlen (ubuf s) <? buf); [|discriminate]. inversion H; subst; clear H. unfold Cons, Shape in *; cbn in *. rewrite ?EW in *. cbn in *.
      rewrite <- !app_assoc in *. rewrite <- ?app_assoc in *; cbn [app] in *; auto.
    + inversion H; subst; clear H. unfold Cons, Shape in *; cbn in *. rewrite ?EW in *. cbn in *. rewrite <- !app_assoc in *. cbn [app] in *. rewrite <- ?app_assoc in *; cbn [app] in *; auto.
    + inversion H; subst; clear H. unfold Cons, Shape in *; cbn in *. rewrite ?EW in *. cbn in *. rewrite <- ?app_assoc in *; cbn [app] in *; auto.
    + discriminate.
  - unfold step_W2 in H. destruct (w2 s) eqn:E2; [|discriminate].
    destruct (cs <=? zlen (ubuf s)) eqn:Ec.
    + apply Z.leb_le in Ec. inversion H; subst; clear H. unfold Cons, Shape in *; cbn in *. rewrite ?E2 in *.
      split; [split|].
      * rewrite concat_snoc. rewrite <- app_assoc. rewrite (app_assoc (ztake cs (ubuf s))). rewrite ztake_zdrop. exact C1.
      * exact C2.
      * apply Forall_app. split; [exact Sh|]. constructor; [|constructor]. apply ztake_zlen. lia.
    + apply Z.leb_gt in Ec. destruct (u_eof s); [|discriminate]. inversion H; subst; clear H. unfold Cons, Shape in *; cbn in *. rewrite ?E2 in *.
      split; [split|].
      * rewrite concat_snoc. rewrite <- app_assoc. cbn [app]. exact C1.
      * exact C2.
      * exists (out s), (ubuf s). repeat split; rewrite <- ?app_assoc in *; cbn [app] in *; auto.
Qed.

Lemma cons_reach l s : reach l s -> Cons l s /\ Shape s.
Proof. induction 1; [apply cons_init|eapply cons_step; eauto]. Qed.

(* the only list of blocks of size cs followed by one shorter block that concatenates to a given
   string is FileModel.pieces of that string *)
Lemma pieces_unique : forall full last fuel,
  Forall (fun p => zlen p = cs) full -> zlen last < cs -> (length (concat full ++ last) <= fuel)%nat ->
  pieces fuel cs (concat full ++ last) = full ++ [last].
Proof.
  induction full as [|p full IH]; intros last fuel F L Hf; cbn [concat app].
  - destruct fuel; cbn [pieces]; [reflexivity|]. replace (zlen last <? cs) with true by lia. reflexivity.
  - apply Forall_cons_iff in F. destruct F as [Hp F'].
    destruct fuel as [|fuel].
    { cbn [concat] in Hf. rewrite !app_length in Hf. unfold zlen in Hp. lia. }
    cbn [pieces]. rewrite <- app_assoc.
    replace (zlen (p ++ concat full ++ last) <? cs) with false by (rewrite zlen_app; pose proof (zlen_nonneg (concat full ++ last)); lia).
    rewrite (ztake_app_len cs) by exact Hp. rewrite (zdrop_app_len cs) by exact Hp.
    rewrite IH; [reflexivity|exact F'|exact L|].
    cbn [concat] in Hf. rewrite <- app_assoc, app_length in Hf. unfold zlen in Hp. lia.
Qed.

(* C07 / C14 (write): in EVERY run that finishes — whatever the interleaving, the queue capacity,
   the buffer size — the containers emitted are exactly the pieces the sequential model
   FileModel.write_session cuts the stream into; every object written was deleted exactly once, in
   the order written; nothing is left in the queue or the stream. *)
Theorem write_determinate : forall l s, reach l s -> finished s ->
  out s = pieces (length (objs_bytes l)) cs (objs_bytes l) /\
  deleted s = map o_id l /\ q s = [] /\ ubuf s = [].
Proof.
  intros l s R (FA & F1 & F2).
  destruct (cons_reach l s R) as [[C1 C2] Sh]. pose proof (inv_reach cap buf cs l s R) as (I1 & I2 & I3 & I4 & I5 & I6).
  unfold Shape in Sh. rewrite F2 in Sh. destruct Sh as (full & last & E & Ff & Fl).
  destruct (I4 F2) as [_ Ub]. destruct (I3 (or_intror F1)) as [Qe _].
  rewrite FA, F1, Qe, Ub in *. cbn in C1, C2. rewrite !app_nil_r in C1, C2.
  repeat split; auto.
  rewrite <- C1. rewrite E, concat_snoc. symmetry. apply pieces_unique; [exact Ff|exact Fl|apply le_n].
Qed.

(* ---------- C12 (write): what the library holds is bounded, independent of the number of objects ---------- *)
Definition chunks_le (M : Z) (o : obj) : Prop := Forall (fun k => zlen k <= M) (o_chunks o).

Definition Bounded (M : Z) (s : ws) : Prop :=
  zlen (ubuf s) <= Z.max 0 (buf - 1) + M /\ zlen (q s) <= Z.max cap 0 /\
  Forall (chunks_le M) (q s) /\ Forall (chunks_le M) (a_list (a_pc s)) /\
  match w1 s with W1Chunk _ ks => Forall (fun k => zlen k <= M) ks | _ => True end.

Theorem write_bounded : forall M l s, 0 <= M -> Forall (chunks_le M) l -> reach l s -> Bounded M s.
Proof.
  intros M l s HM Hl R. induction R as [|s t s' R IH H].
  - unfold Bounded, init; cbn. repeat split; auto; try lia; constructor.
  - destruct IH as (B1 & B2 & B3 & B4 & B5). destruct t; cbn [WPipe.step] in H.
    + unfold step_A in H. destruct (a_pc s) as [[|o r]| | | |] eqn:EA.
      * inversion H; subst; clear H. unfold Bounded, set_a; cbn. rewrite ?EA in *. cbn in *. repeat split; auto.
      * destruct (zlen (q s) <? cap) eqn:Ec; [|discriminate]. apply Z.ltb_lt in Ec. inversion H; subst; clear H.
        unfold Bounded; cbn. rewrite ?EA in *. cbn in *. inversion B4; subst.
        repeat split; auto; [rewrite zlen_app; cbn; lia|apply Forall_app; split; auto].
      * inversion H; subst; clear H. unfold Bounded; cbn. rewrite ?EA in *. cbn in *. repeat split; auto.
      * destruct (w1 s) eqn:EW1; try discriminate. inversion H; subst; clear H. rewrite ?EW1 in *. unfold Bounded, set_a; cbn. rewrite ?EA, ?EW1 in *. cbn in *. repeat split; auto.
      * destruct (w2 s) eqn:EW2; try discriminate. inversion H; subst; clear H. rewrite ?EW2 in *. unfold Bounded, set_a; cbn. rewrite ?EA, ?EW2 in *. cbn in *. repeat split; auto.
      * discriminate.
    + unfold step_W1 in H. destruct (w1 s) as [|o [|k ks]|o| |] eqn:EW.
      * destruct (q s) as [|o r] eqn:EQ.
        -- destruct (q_eof s); [|discriminate]. inversion H; subst; clear H. unfold Bounded, set_w1; cbn. rewrite ?EQ in *. repeat split; auto.
        -- inversion H; subst; clear H. unfold Bounded; cbn. rewrite ?EQ in *. inversion B3; subst.
           repeat split; auto. rewrite zlen_cons in B2. pose proof (zlen_nonneg r). lia.
      * inversion H; subst; clear H. unfold Bounded, set_w1; cbn. repeat split; auto.
      * destruct (zlen (ubuf s) <? buf) eqn:Ec; [|discriminate]. apply Z.ltb_lt in Ec. inversion H; subst; clear H.
        unfold Bounded; cbn. inversion B5; subst. repeat split; auto. rewrite zlen_app. lia.
      * inversion H; subst; clear H. unfold Bounded; cbn. repeat split; auto.
      * inversion H; subst; clear H. unfold Bounded; cbn. repeat split; auto.
      * discriminate.
    + unfold step_W2 in H. destruct (w2 s); [|discriminate]. destruct (cs <=? zlen (ubuf s)) eqn:Ec.
      * apply Z.leb_le in Ec. inversion H; subst; clear H. unfold Bounded; cbn. repeat split; auto.
        rewrite zdrop_zlen by (pose proof (zlen_nonneg (ubuf s)); lia). lia.
      * destruct (u_eof s); [|discriminate]. inversion H; subst; clear H. unfold Bounded; cbn. repeat split; auto. cbn. lia.
Qed.

(* ---------- termination: every step strictly decreases a measure ---------- *)
Definition wq (o : obj) : nat := length (o_chunks o) + 3.
Definition mA (p : apc) : nat :=
  match p with AWrite l => fold_right (fun o a => S (wq o) + a)%nat 4%nat l | ASetEof => 3 | AJoin1 => 2 | AJoin2 => 1 | ADone => 0 end%nat.
Definition mW1 (p : w1pc) : nat :=
  match p with W1Read => 2 | W1Chunk _ ks => length ks + 4 | W1Delete _ => 3 | W1SetEof => 1 | W1Done => 0 end%nat.
Definition mW2 (p : w2pc) : nat := match p with W2Read => 1 | W2Done => 0 end%nat.
Definition mu (s : ws) : nat :=
  (mA (a_pc s) + fold_right (fun o a => wq o + a) 0 (q s) + mW1 (w1 s) + mW2 (w2 s) +
   length (ubuf s) + length (w1_bytes (w1 s)) + length (objs_bytes (q s)) + length (objs_bytes (a_list (a_pc s))))%nat.

Lemma fold_wq_app a b : (fold_right (fun o x => wq o + x) 0 (a ++ b) = fold_right (fun o x => wq o + x) 0 a + fold_right (fun o x => wq o + x) 0 b)%nat.
Proof. induction a; cbn; [reflexivity|lia]. Qed.

Theorem step_decreases : forall s t s', step t s = Some s' -> (mu s' < mu s)%nat.
Proof.
  intros s t s' H. destruct t; cbn [WPipe.step] in H.
  - unfold step_A in H. destruct (a_pc s) as [[|o r]| | | |] eqn:EA.
    + inversion H; subst; clear H. unfold mu, set_a; cbn. rewrite ?EA. cbn. lia.
    + destruct (zlen (q s) <? cap); [|discriminate]. inversion H; subst; clear H. unfold mu; cbn. rewrite ?EA. cbn.
      rewrite fold_wq_app, objs_bytes_app, !objs_bytes_cons, !app_length. change (objs_bytes []) with (@nil Z). cbn. lia.
    + inversion H; subst; clear H. unfold mu; cbn. rewrite ?EA. cbn. lia.
    + destruct (w1 s) eqn:EW1; try discriminate. inversion H; subst; clear H. rewrite ?EW1 in *. unfold mu, set_a; cbn. rewrite ?EA, ?EW1. cbn. lia.
    + destruct (w2 s) eqn:EW2; try discriminate. inversion H; subst; clear H. rewrite ?EW2 in *. unfold mu, set_a; cbn. rewrite ?EA, ?EW2. cbn. lia.
    + discriminate.
  - unfold step_W1 in H. destruct (w1 s) as [|o [|k ks]|o| |] eqn:EW.
    + destruct (q s) as [|o r] eqn:EQ.
      * destruct (q_eof s); [|discriminate]. inversion H; subst; clear H. unfold mu, set_w1; cbn. rewrite ?EW, ?EQ. cbn. lia.
      * inversion H; subst; clear H. unfold mu; cbn. rewrite ?EW, ?EQ. cbn. rewrite objs_bytes_cons, app_length. unfold obj_bytes, wq. lia.
    + inversion H; subst; clear H. unfold mu, set_w1; cbn. rewrite ?EW. cbn. lia.
    + destruct (zlen (ubuf s) <? buf); [|discriminate]. inversion H; subst; clear H. unfold mu; cbn. rewrite ?EW. cbn. rewrite !app_length. lia.
    + inversion H; subst; clear H. unfold mu; cbn. rewrite ?EW. cbn. lia.
    + inversion H; subst; clear H. unfold mu; cbn. rewrite ?EW. cbn. lia.
    + discriminate.
  - unfold step_W2 in H. destruct (w2 s) eqn:E2; [|discriminate]. destruct (cs <=? zlen (ubuf s)) eqn:Ec.
    + apply Z.leb_le in Ec. inversion H; subst; clear H. unfold mu; cbn. rewrite ?E2. cbn.
      unfold zdrop. rewrite skipn_length. unfold zlen in Ec. lia.
    + destruct (u_eof s); [|discriminate]. inversion H; subst; clear H. unfold mu; cbn. rewrite ?E2. cbn. lia.
Qed.

End WriteData.

(* non-vacuity: two objects, capacity 1, buffer = container = 3 bytes; one complete run *)
Definition ex_o1 := {| o_id := 1; o_chunks := [[1; 2]; [3; 4; 5]] |}.
Definition ex_o2 := {| o_id := 2; o_chunks := [[6]] |}.
(* a simple scheduler: run the first enabled thread in the order W2, W1, A *)
Fixpoint run_any (fuel : nat) (s : ws) : ws :=
  match fuel with O => s | S f =>
    match step 1 3 3 TW2 s with Some s' => run_any f s' | None =>
    match step 1 3 3 TW1 s with Some s' => run_any f s' | None =>
    match step 1 3 3 TA s with Some s' => run_any f s' | None => s end end end end.
Example write_run_example :
  let s := run_any 100 (init [ex_o1; ex_o2]) in
  out s = [[1; 2; 3]; [4; 5; 6]; []] /\ deleted s = [1; 2] /\ a_pc s = ADone /\ w1 s = W1Done /\ w2 s = W2Done.
Proof. vm_compute. repeat split; reflexivity. Qed.
