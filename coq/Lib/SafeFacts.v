(* SafeFacts.v — memory safety of the decoders (C10): a reflective check on read programs, proved
   sound: if rd_safe p = true then running p on ANY byte stream from ANY state whose scalar members
   hold values of their declared types never writes beyond the capacity of a destination container
   (Err EOOBWrite), whatever lengths the input declares. *)
From VB Require Import Base IR Sem BaseFacts EvalFacts.
From Coq Require Import ZifyBool.
Local Open Scope Z_scope.

Ltac Zify.zify_post_hook ::= Z.div_mod_to_equations.

Section Safe.
Variable cs : classes.

Section WithCall.
Variable call : target -> mid -> state -> res (Z * ity).

Lemma eval_bin_no_oobw o x y : eval_bin o x y <> Err EOOBWrite.
Proof.
  destruct x as [a ta], y as [b tb]. unfold eval_bin, arith.
  destruct o; repeat match goal with |- context [if ?c then _ else _] => destruct c end; discriminate.
Qed.
Lemma eval_un_no_oobw o x : eval_un o x <> Err EOOBWrite.
Proof.
  destruct x as [a ta]. unfold eval_un, arith.
  destruct o; repeat match goal with |- context [if ?c then _ else _] => destruct c end; discriminate.
Qed.

Lemma eval_no_oobw e : (forall tg m s, call tg m s <> Err EOOBWrite) ->
  forall s l, eval cs call s l e <> Err EOOBWrite.
Proof.
  intros Hcall.
  induction e as [z t|f|f|f|n|x|o a IHa|o a IHa b IHb|c IHc a IHa b IHb|t a IHa|tg m];
    intros s l; cbn [eval].
  - discriminate.
  - destruct (find_field cs f) as [x|]; [|discriminate]. destruct (s f); try discriminate.
    destruct (f_kind x); discriminate.
  - destruct (find_field cs f) as [x|]; [|discriminate]. destruct (s f); discriminate.
  - destruct (find_field cs f) as [x|]; [|discriminate]. destruct (ksize (f_kind x)); discriminate.
  - discriminate.
  - destruct (l x); discriminate.
  - specialize (IHa s l). destruct (eval cs call s l a); cbn [bind]; [apply eval_un_no_oobw|exact IHa].
  - specialize (IHa s l). specialize (IHb s l).
    destruct o;
      try (destruct (eval cs call s l a); cbn [bind]; [|exact IHa];
           destruct (eval cs call s l b); cbn [bind]; [apply eval_bin_no_oobw|exact IHb]).
    + destruct (eval cs call s l a) as [xa|]; cbn [bind]; [|exact IHa].
      destruct (fst xa =? 0); [discriminate|]. destruct (eval cs call s l b); cbn [bind]; [discriminate|exact IHb].
    + destruct (eval cs call s l a) as [xa|]; cbn [bind]; [|exact IHa].
      destruct (fst xa =? 0); [|discriminate]. destruct (eval cs call s l b); cbn [bind]; [discriminate|exact IHb].
  - specialize (IHc s l). destruct (eval cs call s l c) as [xc|]; cbn [bind]; [|exact IHc].
    destruct (fst xc =? 0); [apply IHb|apply IHa].
  - specialize (IHa s l). destruct (eval cs call s l a); cbn [bind]; [discriminate|exact IHa].
  - apply Hcall.
Qed.


End WithCall.

Ltac errne H := cbn [bind]; let E := fresh in intros E; apply H; injection E as ->; reflexivity.

Lemma run_f_no_oobw call : (forall tg m s, call tg m s <> Err EOOBWrite) ->
  forall p s l, run_f cs call p s l <> Err EOOBWrite.
Proof.
  intros Hcall. induction p; intros s l; cbn [run_f]; try discriminate.
  - apply eval_no_oobw. exact Hcall.
  - unfold eval_as. pose proof (eval_no_oobw call e Hcall s l) as He.
    destruct (eval cs call s l e); cbn [bind]; [apply IHp|errne He].
  - destruct (l x) as [[v t]|]; [|discriminate].
    unfold eval_as. pose proof (eval_no_oobw call e Hcall s l) as He.
    destruct (eval cs call s l e); cbn [bind]; [apply IHp|errne He].
  - pose proof (eval_no_oobw call c Hcall s l) as He.
    destruct (eval cs call s l c) as [x|]; cbn [bind]; [|errne He].
    destruct (fst x =? 0); [apply IHp2|apply IHp1].
Qed.

Lemma call_n_no_oobw n : forall dyn tg m s, call_n cs n dyn tg m s <> Err EOOBWrite.
Proof.
  induction n as [|n IH]; intros dyn tg m s; cbn [call_n]; [discriminate|].
  assert (G : forall c dyn' s',
             match resolve cs depth c m with
             | Some md =>
                 match m_ret md with
                 | Some t => do v <- run_f cs (call_n cs n dyn') (compile cs (m_body md) PUnsupported PUnsupported) s' no_locals;
                             Ok (norm t (fst v), t)
                 | None => Err EType end
             | None => Err EUnsupported
             end <> Err EOOBWrite).
  { intros c dyn' s'. destruct (resolve cs depth c m) as [md|]; [|discriminate].
    destruct (m_ret md); [|discriminate].
    pose proof (run_f_no_oobw (call_n cs n dyn') (IH dyn') (compile cs (m_body md) PUnsupported PUnsupported) s' no_locals) as H.
    destruct (run_f cs (call_n cs n dyn') _ s' no_locals); cbn [bind]; [discriminate|errne H]. }
  destruct tg; apply G.
Qed.

Lemma callf_no_oobw c : forall tg m s, callf cs c tg m s <> Err EOOBWrite.
Proof. intros. apply call_n_no_oobw. Qed.


(* ---------- the stream never hands out more than was asked for ---------- *)
Lemma zip_take_len n : forall b a, (length (fst (zip_take n b a)) <= n)%nat.
Proof.
  induction n as [|n IH]; intros b a; cbn [zip_take]; [cbn; lia|].
  destruct a as [|x a']; [cbn; lia|].
  specialize (IH (x :: b) a'). destruct (zip_take n (x :: b) a') as [got r]. cbn in *. lia.
Qed.

Lemma s_read_len n i : zlen (fst (s_read n i)) <= Z.max 0 n.
Proof.
  unfold s_read. destruct (s_sticky i).
  - destruct (negb (s_good i)); [cbn; lia|]. destruct (n <=? 0) eqn:E; [cbn; lia|].
    destruct (closed_now i); [cbn; lia|].
    set (avail := Z.max 0 (s_size i - s_pos i)). set (n' := if avail <? n then avail else n).
    pose proof (zip_take_len (Z.to_nat n') (s_before i) (s_after i)) as H.
    destruct (zip_take (Z.to_nat n') (s_before i) (s_after i)) as [got [b a]]. cbn [fst] in *.
    unfold zlen. assert (n' <= n) by (unfold n'; destruct (avail <? n) eqn:F; lia). lia.
  - set (short := s_size i <? n + s_pos i). set (n' := if short then s_size i - s_pos i else n).
    destruct ((n' <=? 0) || (s_pos i <? 0)) eqn:E.
    + cbn. lia.
    + pose proof (zip_take_len (Z.to_nat n') (s_before i) (s_after i)) as H.
      destruct (zip_take (Z.to_nat n') (s_before i) (s_after i)) as [got [b a]]. cbn [fst] in *.
      unfold zlen. assert (n' <= n) by (unfold n', short; destruct (s_size i <? n + s_pos i) eqn:F; lia). lia.
Qed.

(* ---------- the check ---------- *)
Definition ffk (f : Z) : option fkind := option_map f_kind (find_field cs f).
Definition eltw (f : Z) : Z := match ffk f with Some k => kelt k | None => 0 end.

(* the request is computed from the destination's own size: (size / elt) * elt bytes *)
Definition size_based (f : Z) (e : expr) : bool :=
  match e with
  | ECast I64 (ESize g) => (g =? f) && (eltw f =? 1)
  | ECast I64 (EBin OMul (ESize g) (ESizeofT k)) => (g =? f) && (eltw f =? k) && (0 <? k) && (k <=? 8)
  | _ => false
  end.

Definition small_unsigned (g : Z) : bool :=
  match ffk g with Some (KScalar U8) | Some (KScalar U16) | Some (KScalar U32) => true | _ => false end.

(* the request follows a resize of the same container to the same count, taken from an unsigned member *)
Definition after_resize (f : Z) (e0 e1 : expr) : bool :=
  match e0 with
  | EField g =>
      small_unsigned g && negb (g =? f) &&
      match e1 with
      | EField g' => (g' =? g) && (eltw f =? 1)
      | ECast I64 (EField g') => (g' =? g) && (eltw f =? 1)
      | EBin OMul (EField g') (ESizeofT k) => (g' =? g) && (eltw f =? k) && (0 <? k) && (k <=? 8)
      | _ => false
      end
  | _ => false
  end.

Definition is_vecf (f : Z) : bool := match ffk f with Some (KVec _) => true | _ => false end.

(* `last`: container f was resized to (value of the unsigned member g) elements by the statement just before *)
Definition note_resize (f : Z) (e0 : expr) : option (Z * Z) :=
  match e0 with
  | EField g => if small_unsigned g && negb (g =? f) && is_vecf f then Some (f, g) else None
  | _ => None
  end.

Definition after_resize1 (f g : Z) (e1 : expr) : bool :=
  match e1 with
  | EField g' => (g' =? g) && (eltw f =? 1)
  | ECast I64 (EField g') => (g' =? g) && (eltw f =? 1)
  | EBin OMul (EField g') (ESizeofT k) => (g' =? g) && (eltw f =? k) && (0 <? k) && (k <=? 8)
  | _ => false
  end.

Fixpoint rd_safe' (last : option (Z * Z)) (p : prog) : bool :=
  match p with
  | PEnd | PRet _ | PThrow | PUnsupported => true
  | PRead _ k | PWrite _ k | PSeek _ k | PZero _ k | PAssign _ _ k | PDecl _ _ _ k | PSet _ _ k | PScan k | PWriteBytes _ _ k => rd_safe' None k
  | PReadBytes f e k =>
      (size_based f e || match last with Some (f0, g) => (f0 =? f) && after_resize1 f g e | None => false end) && rd_safe' None k
  | PResize f e0 k => rd_safe' (note_resize f e0) k
  | PIf _ a b => rd_safe' None a && rd_safe' None b
  end.
Definition rd_safe (p : prog) : bool := rd_safe' None p.

(* ---------- scalar members hold values of their declared types ---------- *)
Definition sc_ok (s : state) : Prop :=
  forall f x t z, find_field cs f = Some x -> f_kind x = KScalar t -> s f = VInt z -> in_type t z = true.

Lemma sc_ok_upd_int s f x t z : sc_ok s -> find_field cs f = Some x -> f_kind x = KScalar t -> in_type t z = true -> sc_ok (upd s f (VInt z)).
Proof.
  intros H Hx Hk Hz g y t' z' Hy Hk' Hv. unfold upd in Hv. destruct (g =? f) eqn:E.
  - apply Z.eqb_eq in E. subst g. rewrite Hx in Hy. inversion Hy; subst y. rewrite Hk in Hk'. inversion Hk'; subst t'. inversion Hv; subst z'. exact Hz.
  - eapply H; eauto.
Qed.
Lemma sc_ok_upd_other s f v : sc_ok s -> (forall z, v <> VInt z) -> sc_ok (upd s f v).
Proof.
  intros H Hv g y t' z' Hy Hk' Hg. unfold upd in Hg. destruct (g =? f); [exfalso; eapply Hv; eauto|eapply H; eauto].
Qed.


(* ---------- soundness ---------- *)
Lemma norm_u64_id z : 0 <= z < 2 ^ 63 -> norm U64 z = z.
Proof. intros H. unfold norm. cbn. change (2 ^ 64) with 18446744073709551616. change (2 ^ 63) with 9223372036854775808 in H. rewrite Z.mod_small; lia. Qed.
Lemma norm_i64_id z : 0 <= z < 2 ^ 63 -> norm I64 z = z.
Proof.
  intros H. unfold norm. cbn. change (2 ^ 63) with 9223372036854775808 in *. change (2 ^ 64) with 18446744073709551616.
  rewrite Z.mod_small; lia.
Qed.

Lemma resize_len' (old : list Z) nb : 0 <= nb -> zlen (ztake nb old ++ zeros (nb - zlen old)) = nb.
Proof.
  intros H. rewrite zlen_app. pose proof (zlen_nonneg old).
  destruct (Z_le_gt_dec nb (zlen old)).
  - rewrite ztake_zlen by lia. rewrite zeros_nonpos by lia. rewrite zlen_nil. lia.
  - unfold ztake. rewrite firstn_all2 by (unfold zlen in *; lia).
    rewrite zlen_zeros by lia. lia.
Qed.

Section Run.
Variable call : target -> mid -> state -> res (Z * ity).
Variable sp : scan_params.
Variable cap : Z.
Hypothesis Hcall : forall tg m s, call tg m s <> Err EOOBWrite.
Hypothesis Hsig : forall x t, find_field cs (sp_field sp) = Some x -> f_kind x = KScalar t -> in_type t (sp_sig sp) = true.
Hypothesis Hcap : cap < 2 ^ 60.          (* the allocation cap of the host (256 MiB in the property) *)
Hypothesis Hke : forall f x, find_field cs f = Some x -> 0 <= kelt (f_kind x).
Hypothesis Hks : forall f x w, find_field cs f = Some x -> ksize (f_kind x) = Some w -> 0 <= w < 2 ^ 60.   (* fixed-size members *)

(* scalars in range, containers smaller than 2^60 bytes *)
Definition st_ok (s : state) : Prop := sc_ok s /\ forall f x b, find_field cs f = Some x -> s f = VBytes b -> zlen b < 2 ^ 60.

Lemma st_ok_int s f x t z : st_ok s -> find_field cs f = Some x -> f_kind x = KScalar t -> in_type t z = true -> st_ok (upd s f (VInt z)).
Proof.
  intros [H1 H2] Hx Hk Hz. split; [eapply sc_ok_upd_int; eauto|].
  intros g y b Hy Hg. unfold upd in Hg. destruct (g =? f); [discriminate|eapply H2; eauto].
Qed.
Lemma st_ok_bytes s f b : st_ok s -> zlen b < 2 ^ 60 -> st_ok (upd s f (VBytes b)).
Proof.
  intros [H1 H2] Hb. split; [apply sc_ok_upd_other; [exact H1|intros z C; discriminate]|].
  intros g y b' Hy Hg. unfold upd in Hg. destruct (g =? f); [inversion Hg; subst; exact Hb|eapply H2; eauto].
Qed.
Lemma st_ok_undef s f : st_ok s -> st_ok (upd s f VUndef).
Proof.
  intros [H1 H2]. split; [apply sc_ok_upd_other; [exact H1|intros z C; discriminate]|].
  intros g y b' Hy Hg. unfold upd in Hg. destruct (g =? f); [discriminate|eapply H2; eauto].
Qed.

Lemma eltw_found f k : eltw f = k -> 0 < k -> exists x, find_field cs f = Some x.
Proof. unfold eltw, ffk. destruct (find_field cs f) as [x|]; [eauto|cbn; lia]. Qed.

Definition resized (last : option (Z * Z)) (s : state) : Prop :=
  match last with
  | None => True
  | Some (f, g) => exists v b, s g = VInt v /\ s f = VBytes b /\ zlen b = v * eltw f /\ small_unsigned g = true
  end.

Lemma eval_as_no_oobw t s l e : eval_as cs call t s l e <> Err EOOBWrite.
Proof. unfold eval_as. pose proof (eval_no_oobw call e Hcall s l) as H. destruct (eval cs call s l e); cbn [bind]; [discriminate|errne H]. Qed.

Lemma scan_loop_no_oobw n : forall tmp i, scan_loop sp n tmp i <> Err EOOBWrite.
Proof.
  induction n as [|n IH]; intros tmp i; cbn [scan_loop]; [discriminate|].
  destruct (s_read 4 i) as [got s1]. destruct (_ =? sp_sig sp); [discriminate|]. destruct (scan_stop sp s1); [discriminate|]. apply IH.
Qed.
Lemma scan_loop_value n : forall tmp i r, scan_loop sp n tmp i = Ok r -> fst r = sp_sig sp.
Proof.
  induction n as [|n IH]; intros tmp i r H; cbn [scan_loop] in H; [discriminate|].
  destruct (s_read 4 i) as [got s1]. destruct (merge_scalar 4 tmp got =? sp_sig sp) eqn:E.
  - inversion H; subst. cbn. apply Z.eqb_eq. exact E.
  - destruct (scan_stop sp s1); [discriminate|]. eapply IH; eauto.
Qed.

Lemma small_unsigned_range s g v : sc_ok s -> small_unsigned g = true -> s g = VInt v -> 0 <= v < 2 ^ 32.
Proof.
  intros Hs Hg Hv. unfold small_unsigned, ffk in Hg. destruct (find_field cs g) as [x|] eqn:Hx; [|discriminate]. cbn in Hg.
  destruct (f_kind x) as [t| |] eqn:Hk; try discriminate.
  pose proof (Hs g x t v Hx Hk Hv) as Ht. change (2 ^ 32) with 4294967296.
  destruct t; try discriminate; unfold in_type, in_range in Ht; cbn in Ht; lia.
Qed.

Lemma eval_field_small s l g v : small_unsigned g = true -> s g = VInt v ->
  exists t, eval cs call s l (EField g) = Ok (v, t) /\ (t = U8 \/ t = U16 \/ t = U32).
Proof.
  intros Hg Hv. unfold small_unsigned, ffk in Hg. cbn [eval]. destruct (find_field cs g) as [x|] eqn:Hx; [|discriminate]. cbn in Hg.
  rewrite Hv. destruct (f_kind x) as [t| |]; try discriminate. exists t. split; [reflexivity|]. destruct t; try discriminate; auto.
Qed.

Opaque norm.

(* the number of bytes a size-based request asks for never exceeds the container *)
Lemma size_based_fits s l f e n b : size_based f e = true -> s f = VBytes b -> zlen b < 2 ^ 60 ->
  eval_as cs call I64 s l e = Ok n -> n <= zlen b.
Proof.
  intros Hsb Hf Hb En. pose proof (zlen_nonneg b) as Hn.
  unfold size_based in Hsb. destruct e as [| | | | | | | | |t0 e'|]; try discriminate. destruct t0; try discriminate.
  destruct e' as [| |g| | | | |o a0 b0| | |]; try discriminate.
  - apply andb_prop in Hsb. destruct Hsb as [Hg He1]. apply Z.eqb_eq in Hg. subst g. apply Z.eqb_eq in He1.
    unfold eval_as in En. cbn [eval] in En. unfold eltw, ffk in He1.
    destruct (find_field cs f) as [x|] eqn:Hx; [|discriminate]. rewrite Hf in En. cbn [bind fst option_map] in *.
    rewrite He1 in En. rewrite Z.div_1_r in En.
    change (2 ^ 60) with 1152921504606846976 in Hb.
    rewrite (norm_i64_id (zlen b)) in En by (change (2 ^ 63) with 9223372036854775808; lia).
    rewrite (norm_i64_id (zlen b)) in En by (change (2 ^ 63) with 9223372036854775808; lia). inversion En; subst n. lia.
  - destruct o; try discriminate. destruct a0 as [| |g| | | | | | | |]; try discriminate. destruct b0 as [| | | |k| | | | | |]; try discriminate.
    apply andb_prop in Hsb. destruct Hsb as [Hsb Hk8]. apply andb_prop in Hsb. destruct Hsb as [Hsb Hk0].
    apply andb_prop in Hsb. destruct Hsb as [Hg He1]. apply Z.eqb_eq in Hg. subst g. apply Z.eqb_eq in He1.
    apply Z.ltb_lt in Hk0. apply Z.leb_le in Hk8.
    unfold eval_as in En. cbn [eval] in En. unfold eltw, ffk in He1.
    destruct (find_field cs f) as [x|] eqn:Hx; [|discriminate]. rewrite Hf in En. cbn [bind fst option_map] in *.
    rewrite He1 in En. unfold eval_bin in En. cbn [common promote rank ity_eqb Z.ltb] in En.
    change (common U64 U64) with U64 in En. unfold arith in En. cbn [signed] in En. cbn [bind fst] in En.
    change (2 ^ 60) with 1152921504606846976 in Hb.
    assert (Hq : 0 <= zlen b / k <= zlen b) by (split; [apply Z.div_pos; lia|apply Z.div_le_upper_bound; nia]).
    assert (Hm : (zlen b / k) * k <= zlen b) by (pose proof (Z.mul_div_le (zlen b) k Hk0); lia).
    rewrite ?(norm_u64_id (zlen b / k)) in En by (change (2 ^ 63) with 9223372036854775808; lia).
    rewrite (norm_u64_id k) in En by (change (2 ^ 63) with 9223372036854775808; lia).
    rewrite (norm_u64_id (zlen b / k * k)) in En by (change (2 ^ 63) with 9223372036854775808; lia).
    rewrite (norm_i64_id (zlen b / k * k)) in En by (change (2 ^ 63) with 9223372036854775808; lia).
    rewrite ?(norm_i64_id (zlen b / k * k)) in En by (change (2 ^ 63) with 9223372036854775808; lia).
    inversion En; subst n. exact Hm.
Qed.

(* ... nor does a request that repeats the count the container was just resized to *)
Lemma after_resize_fits s l f g e n v b : sc_ok s -> after_resize1 f g e = true -> small_unsigned g = true ->
  s g = VInt v -> s f = VBytes b -> zlen b = v * eltw f ->
  eval_as cs call I64 s l e = Ok n -> n <= zlen b.
Proof.
  intros Hs Ha Hg Hv Hf Hb En.
  pose proof (small_unsigned_range s g v Hs Hg Hv) as Hr. change (2 ^ 32) with 4294967296 in Hr.
  destruct (eval_field_small s l g v Hg Hv) as (t & Ev & Ht).
  unfold after_resize1 in Ha. destruct e as [|g'| | | | | |o a0 b0| |t0 e'|]; try discriminate.
  - apply andb_prop in Ha. destruct Ha as [Hgg He1]. apply Z.eqb_eq in Hgg. subst g'. apply Z.eqb_eq in He1.
    unfold eval_as in En. rewrite Ev in En. cbn [bind fst] in En. inversion En; subst n.
    rewrite norm_i64_id by (change (2 ^ 63) with 9223372036854775808; lia). rewrite Hb, He1. lia.
  - destruct o; try discriminate. destruct a0 as [|g'| | | | | | | | |]; try discriminate. destruct b0 as [| | | |k| | | | | |]; try discriminate.
    apply andb_prop in Ha. destruct Ha as [Ha Hk8]. apply andb_prop in Ha. destruct Ha as [Ha Hk0].
    apply andb_prop in Ha. destruct Ha as [Hgg He1]. apply Z.eqb_eq in Hgg. subst g'. apply Z.eqb_eq in He1.
    apply Z.ltb_lt in Hk0. apply Z.leb_le in Hk8.
    unfold eval_as in En. cbn [eval] in En. cbn [eval] in Ev. rewrite Ev in En. cbn [bind fst] in En.
    assert (Hc : common t U64 = U64) by (destruct Ht as [->|[->| ->]]; reflexivity).
    unfold eval_bin in En. rewrite Hc in En. unfold arith in En. cbn [signed bind fst] in En.
    assert (Hvk : 0 <= v * k < 4294967296 * 9) by nia.
    rewrite ?(norm_u64_id v) in En by (change (2 ^ 63) with 9223372036854775808; lia).
    rewrite ?(norm_u64_id k) in En by (change (2 ^ 63) with 9223372036854775808; lia).
    rewrite ?(norm_u64_id (v * k)) in En by (change (2 ^ 63) with 9223372036854775808; lia).
    rewrite ?(norm_i64_id (v * k)) in En by (change (2 ^ 63) with 9223372036854775808; lia).
    inversion En; subst n. rewrite Hb, He1. lia.
  - destruct t0; try discriminate. destruct e' as [|g'| | | | | | | | |]; try discriminate.
    apply andb_prop in Ha. destruct Ha as [Hgg He1]. apply Z.eqb_eq in Hgg. subst g'. apply Z.eqb_eq in He1.
    unfold eval_as in En. cbn [eval] in En. cbn [eval] in Ev. rewrite Ev in En. cbn [bind fst] in En. inversion En; subst n.
    rewrite (norm_i64_id v) by (change (2 ^ 63) with 9223372036854775808; lia).
    rewrite norm_i64_id by (change (2 ^ 63) with 9223372036854775808; lia). rewrite Hb, He1. lia.
Qed.

Lemma splice_len (got b0 : list Z) : zlen (got ++ zdrop (zlen got) b0) = Z.max (zlen got) (zlen b0).
Proof.
  rewrite zlen_app. unfold zdrop, zlen. rewrite skipn_length. rewrite Nat2Z.id. lia.
Qed.

Theorem rd_safe_sound : forall p last, rd_safe' last p = true ->
  forall s l i, st_ok s -> resized last s -> run_r cs call sp cap p s l i <> Err EOOBWrite.
Proof.
  induction p as [|e| | |f k IH|f k IH|f e k IH|f e k IH|f e k IH|e k IH|e k IH|f e k IH|x t e k IH|x e k IH|k IH|c a IHa b IHb];
    intros last H s l i Hs Hr; cbn [run_r]; try discriminate; cbn [rd_safe'] in H.
  - (* PRead *)
    destruct (find_field cs f) as [x|] eqn:Hx; [|discriminate]. destruct (ksize (f_kind x)) as [w|] eqn:Hw; [|discriminate].
    pose proof (Hks f x w Hx Hw) as Hwb.
    pose proof (s_read_len w i) as Hlen. destruct (s_read w i) as [got i']. cbn [fst] in Hlen. unfold read_into.
    pose proof (zlen_nonneg got) as Hg0.
    destruct (f_kind x) as [t|e0 n0|e0] eqn:Hk.
    + destruct (zlen got =? width t).
      * cbn [bind]. apply (IH None H); [|exact I]. eapply st_ok_int; eauto. apply norm_in_type.
      * destruct (s f) as [z| |]; cbn [bind]; try discriminate.
        -- apply (IH None H); [|exact I]. eapply st_ok_int; eauto. apply norm_in_type.
        -- apply (IH None H); [|exact I]. apply st_ok_undef. exact Hs.
    + destruct (s f) as [z|b0|] eqn:Hf; cbn [bind]; try discriminate.
      * apply (IH None H); [|exact I]. apply st_ok_bytes; [exact Hs|].
        destruct Hs as [_ Hs2]. pose proof (Hs2 f x b0 Hx Hf). rewrite splice_len. lia.
      * destruct (zlen got =? e0 * n0); cbn [bind].
        -- apply (IH None H); [|exact I]. apply st_ok_bytes; [exact Hs|lia].
        -- apply (IH None H); [|exact I]. apply st_ok_undef. exact Hs.
    + discriminate.
  - (* PReadBytes *)
    apply andb_prop in H. destruct H as [Hsafe Hk].
    pose proof (eval_as_no_oobw I64 s l e) as He.
    destruct (eval_as cs call I64 s l e) as [n|] eqn:En; cbn [bind]; [|errne He].
    destruct (s f) as [z|b|] eqn:Hf; try discriminate.
    pose proof (s_read_len n i) as Hlen. destruct (s_read n i) as [got i']. cbn [fst] in Hlen.
    pose proof (zlen_nonneg got) as Hg0. pose proof (zlen_nonneg b) as Hb0.
    assert (Hfound : exists x, find_field cs f = Some x).
    { apply orb_prop in Hsafe. destruct Hsafe as [Hsb|Hlast].
      - unfold size_based in Hsb. destruct e as [| | | | | | | | |t0 e'|]; try discriminate. destruct t0; try discriminate.
        destruct e' as [| |g| | | | |o a0 b0| | |]; try discriminate.
        + apply andb_prop in Hsb. destruct Hsb as [_ He1]. apply Z.eqb_eq in He1. eapply eltw_found; eauto. lia.
        + destruct o; try discriminate. destruct a0; try discriminate. destruct b0; try discriminate.
          apply andb_prop in Hsb. destruct Hsb as [Hsb _]. apply andb_prop in Hsb. destruct Hsb as [Hsb Hk0].
          apply andb_prop in Hsb. destruct Hsb as [_ He1]. apply Z.eqb_eq in He1. apply Z.ltb_lt in Hk0. eapply eltw_found; eauto.
      - destruct last as [[f0 g]|]; [|discriminate]. apply andb_prop in Hlast. destruct Hlast as [_ Har].
        unfold after_resize1 in Har. destruct e as [|g'| | | | | |o a0 b0| |t0 e'|]; try discriminate.
        + apply andb_prop in Har. destruct Har as [_ He1]. apply Z.eqb_eq in He1. eapply eltw_found; eauto. lia.
        + destruct o; try discriminate. destruct a0; try discriminate. destruct b0; try discriminate.
          apply andb_prop in Har. destruct Har as [Har _]. apply andb_prop in Har. destruct Har as [Har Hk0].
          apply andb_prop in Har. destruct Har as [_ He1]. apply Z.eqb_eq in He1. apply Z.ltb_lt in Hk0. eapply eltw_found; eauto.
        + destruct t0; try discriminate. destruct e'; try discriminate.
          apply andb_prop in Har. destruct Har as [_ He1]. apply Z.eqb_eq in He1. eapply eltw_found; eauto. lia. }
    destruct Hfound as [xf Hxf].
    assert (Hbb : zlen b < 2 ^ 60) by (destruct Hs as [_ Hs2]; eapply Hs2; eauto).
    assert (Hfit : n <= zlen b).
    { apply orb_prop in Hsafe. destruct Hsafe as [Hsb|Hlast].
      - eapply size_based_fits; eauto.
      - destruct last as [[f0 g]|]; [|discriminate]. apply andb_prop in Hlast. destruct Hlast as [Hff Har].
        apply Z.eqb_eq in Hff. subst f0. destruct Hr as (v & b' & Hv & Hf' & Hbl & Hsu).
        rewrite Hf in Hf'. inversion Hf'; subst b'.
        destruct Hs as [Hs1 _]. eapply after_resize_fits; eauto. }
    destruct (zlen b <? zlen got) eqn:E; [apply Z.ltb_lt in E; lia|].
    apply (IH None Hk); [|exact I]. apply st_ok_bytes; [exact Hs|]. rewrite splice_len. lia.
  - (* PResize *)
    pose proof (eval_as_no_oobw U64 s l e) as He.
    destruct (eval_as cs call U64 s l e) as [n|] eqn:En; cbn [bind]; [|errne He].
    destruct (find_field cs f) as [x|] eqn:Hx; [|discriminate]. destruct (s f) as [z|b|] eqn:Hf; try discriminate.
    destruct (cap <? n * kelt (f_kind x)) eqn:Ec; [discriminate|]. apply Z.ltb_ge in Ec.
    set (nb := n * kelt (f_kind x)) in *. set (newb := ztake nb b ++ zeros (nb - zlen b)).
    (* the value of a U64 expression is not negative *)
    assert (Hn0 : 0 <= n).
    { unfold eval_as in En. destruct (eval cs call s l e) as [[v0 t0]|]; [|discriminate]. cbn [bind fst] in En. inversion En.
      Transparent norm. unfold norm. cbn. apply Z.mod_pos_bound. reflexivity. }
    Opaque norm.
    assert (Hpos : 0 <= nb) by (unfold nb; pose proof (Hke f x Hx); nia).
    apply (IH (note_resize f e) H).
    + apply st_ok_bytes; [exact Hs|]. unfold newb. rewrite resize_len' by lia. lia.
    + unfold note_resize. destruct e as [|g| | | | | | | | |]; try exact I.
        destruct (small_unsigned g && negb (g =? f) && is_vecf f) eqn:Ecnd; [|exact I].
        apply andb_prop in Ecnd. destruct Ecnd as [Ecnd Hv]. apply andb_prop in Ecnd. destruct Ecnd as [Hsu Hne].
        apply negb_true_iff in Hne. apply Z.eqb_neq in Hne.
        (* the member g holds v, the container now holds v * elt bytes *)
        unfold eval_as in En. cbn [eval] in En.
        unfold small_unsigned, ffk in Hsu. destruct (find_field cs g) as [y|] eqn:Hy; [|discriminate]. cbn in Hsu.
        destruct (s g) as [v| |] eqn:Hg; try discriminate.
        destruct (f_kind y) as [t| |] eqn:Hky; try discriminate. cbn [bind fst] in En. inversion En as [En'].
        assert (Hvr : 0 <= v < 2 ^ 32).
        { destruct Hs as [Hs1 _]. eapply small_unsigned_range; eauto. unfold small_unsigned, ffk. rewrite Hy. cbn. rewrite Hky. exact Hsu. }
        change (2 ^ 32) with 4294967296 in Hvr.
        rewrite norm_u64_id in En' by (change (2 ^ 63) with 9223372036854775808; lia). subst n.
        exists v, newb. unfold upd. rewrite Z.eqb_refl.
        replace (g =? f) with false by (symmetry; apply Z.eqb_neq; exact Hne).
        repeat split; auto.
      * unfold newb. rewrite resize_len' by lia. unfold nb, eltw, ffk. rewrite Hx. reflexivity.
      * unfold small_unsigned, ffk. rewrite Hy. cbn. rewrite Hky. exact Hsu.
  - (* PSeek *)
    pose proof (eval_as_no_oobw I64 s l e) as He.
    destruct (eval_as cs call I64 s l e); cbn [bind]; [apply (IH None H); auto; exact I|errne He].
  - (* PAssign *)
    destruct (find_field cs f) as [x|] eqn:Hx; [|discriminate]. destruct (f_kind x) as [t| |] eqn:Hk; try discriminate.
    pose proof (eval_as_no_oobw t s l e) as He.
    destruct (eval_as cs call t s l e) as [v|] eqn:Ev; cbn [bind]; [|errne He].
    apply (IH None H); [|exact I]. eapply st_ok_int; eauto.
    unfold eval_as in Ev. destruct (eval cs call s l e) as [[v0 t0]|]; [|discriminate]. cbn [bind fst] in Ev. inversion Ev. apply norm_in_type.
  - (* PDecl *)
    pose proof (eval_as_no_oobw t s l e) as He.
    destruct (eval_as cs call t s l e); cbn [bind]; [apply (IH None H); auto; exact I|errne He].
  - (* PSet *)
    destruct (l x) as [[v0 t0]|]; [|discriminate].
    pose proof (eval_as_no_oobw t0 s l e) as He.
    destruct (eval_as cs call t0 s l e); cbn [bind]; [apply (IH None H); auto; exact I|errne He].
  - (* PScan *)
    pose proof (scan_loop_no_oobw (S (S (length (s_data i)))) 0 i) as Hsc.
    destruct (scan_loop sp (S (S (length (s_data i)))) 0 i) as [r|] eqn:Er; cbn [bind]; [|errne Hsc].
    apply (IH None H); [|exact I].
    rewrite (scan_loop_value _ _ _ _ Er).
    destruct (find_field cs (sp_field sp)) as [x|] eqn:Hx.
    + destruct (f_kind x) as [t| |] eqn:Hk.
      * eapply st_ok_int; eauto.
      * destruct Hs as [Hs1 Hs2]. split.
        -- intros g y t' z' Hy Hk' Hv. unfold upd in Hv. destruct (g =? sp_field sp) eqn:Eg.
           ++ apply Z.eqb_eq in Eg. subst g. rewrite Hx in Hy. inversion Hy; subst y. congruence.
           ++ eapply Hs1; eauto.
        -- intros g y' b' Hy' Hg. unfold upd in Hg. destruct (g =? sp_field sp); [discriminate|eapply Hs2; eauto].
      * destruct Hs as [Hs1 Hs2]. split.
        -- intros g y t' z' Hy Hk' Hv. unfold upd in Hv. destruct (g =? sp_field sp) eqn:Eg.
           ++ apply Z.eqb_eq in Eg. subst g. rewrite Hx in Hy. inversion Hy; subst y. congruence.
           ++ eapply Hs1; eauto.
        -- intros g y' b' Hy' Hg. unfold upd in Hg. destruct (g =? sp_field sp); [discriminate|eapply Hs2; eauto].
    + destruct Hs as [Hs1 Hs2]. split.
      * intros g y t' z' Hy Hk' Hv. unfold upd in Hv. destruct (g =? sp_field sp) eqn:Eg.
        -- apply Z.eqb_eq in Eg. subst g. congruence.
        -- eapply Hs1; eauto.
      * intros g y' b' Hy' Hg. unfold upd in Hg. destruct (g =? sp_field sp); [discriminate|eapply Hs2; eauto].
  - (* PIf *)
    apply andb_prop in H. destruct H as [Ha Hb].
    pose proof (eval_no_oobw call c Hcall s l) as He.
    destruct (eval cs call s l c) as [x|]; cbn [bind]; [|errne He].
    destruct (fst x =? 0); [apply (IHb None Hb); auto; exact I|apply (IHa None Ha); auto; exact I].
Qed.
End Run.

End Safe.
