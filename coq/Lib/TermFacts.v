(* TermFacts.v — C10, hang-freedom of the parser stage: FileModel.obj_loop, run with the fuel read_session gives it
   (2 |U| + 16), never runs out of fuel — for EVERY byte string U, every class table whose read programs only seek
   forward, every allocation cap.  Each iteration that continues moves the get position forward by at least one byte.
   Part 1: the in-memory stream on arbitrary (also hostile) positions.  Proofs only. *)
From VB Require Import Base IR Sem BaseFacts StreamFacts SpinFacts.
From Coq Require Import ZifyBool.
Local Open Scope Z_scope.
Ltac Zify.zify_post_hook ::= Z.div_mod_to_equations.
Ltac errne H := cbn [bind]; let E := fresh in intros E; apply H; injection E as ->; reflexivity.

(* a stream of the in-memory flavour: the zipper holds the data, its cursor sits at the get position clamped into the data
   (a relative seek may leave the position negative; reads then deliver nothing) *)
Definition wstream (i : istream) : Prop :=
  s_sticky i = false /\ s_cur i = zlen (s_before i) /\ s_size i = zlen (s_before i) + zlen (s_after i) /\
  s_cur i = Z.max 0 (s_pos i) /\ s_pos i <= s_size i.

Lemma wstream_mk b : wstream (mk_ustream b).
Proof. unfold wstream, mk_ustream; cbn. pose proof (zlen_nonneg b). repeat split; try reflexivity; lia. Qed.

Lemma zip_fwd_gen n : forall b a m,
  zip_fwd n b a m = (rev (firstn n a) ++ b, skipn n a, m + Z.of_nat (Nat.min n (length a))).
Proof.
  induction n as [|n IH]; intros b a m.
  - cbn. destruct a; f_equal; lia.
  - destruct a as [|x a']; [cbn; f_equal; lia|].
    cbn [zip_fwd firstn skipn rev length Nat.min]. rewrite IH. rewrite <- app_assoc. cbn [app]. f_equal. lia.
Qed.

Lemma zlen_firstn {A} n (l : list A) : zlen (firstn n l) = Z.of_nat (Nat.min n (length l)).
Proof. unfold zlen. rewrite firstn_length. reflexivity. Qed.
Lemma zlen_skipn {A} n (l : list A) : zlen (skipn n l) = zlen l - Z.of_nat (Nat.min n (length l)).
Proof. unfold zlen. rewrite skipn_length. lia. Qed.

(* what a read does to position, size and flags *)
Definition rd_len (i : istream) (n : Z) : Z :=
  let n' := if s_size i <? n + s_pos i then s_size i - s_pos i else n in
  if (n' <=? 0) || (s_pos i <? 0) then 0 else n'.
Definition rd_short (i : istream) (n : Z) : bool := s_size i <? n + s_pos i.

Lemma ws_read n i : wstream i ->
  let '(got, i') := s_read n i in
  wstream i' /\ s_size i' = s_size i /\ s_pos i' = s_pos i + rd_len i n /\ zlen got = rd_len i n /\
  s_good i' = (if negb (rd_short i n) && (n <=? 0) then s_good i else negb (rd_short i n)) /\
  s_eof i' = (if negb (rd_short i n) && (n <=? 0) then s_eof i else rd_short i n).
Proof.
  intros (H1 & H2 & H3 & H4 & H5). unfold s_read. rewrite H1. unfold rd_len, rd_short.
  set (short := s_size i <? n + s_pos i). set (n' := if short then s_size i - s_pos i else n).
  destruct ((n' <=? 0) || (s_pos i <? 0)) eqn:E.
  - cbn [fst snd]. unfold wstream; cbn. change (zlen (@nil Z)) with 0. rewrite !Z.add_0_r. repeat split; auto.
  - apply orb_false_elim in E. destruct E as [E1 E2]. apply Z.leb_gt in E1. apply Z.ltb_ge in E2.
    rewrite zip_take_spec.
    assert (Hn : Z.of_nat (Nat.min (Z.to_nat n') (length (s_after i))) = n').
    { assert (n' <= zlen (s_after i)) by (unfold n', short in *; destruct (s_size i <? n + s_pos i) eqn:S; lia).
      unfold zlen in *. lia. }
    cbv beta iota zeta. unfold wstream. cbn [s_before s_after s_cur s_pos s_size s_good s_eof s_sticky].
    assert (Hle : s_pos i + n' <= s_size i) by (unfold n', short in *; destruct (s_size i <? n + s_pos i) eqn:S; lia).
    rewrite zlen_app, zlen_rev, !zlen_firstn, zlen_skipn, Hn. repeat split; auto; lia.
Qed.

Lemma ws_seek off i : wstream i ->
  wstream (s_seek off i) /\ s_size (s_seek off i) = s_size i /\ s_pos (s_seek off i) = Z.min (s_pos i + off) (s_size i) /\
  s_good (s_seek off i) = s_good i /\ s_eof (s_seek off i) = s_eof i.
Proof.
  intros (H1 & H2 & H3 & H4 & H5). unfold s_seek. rewrite H1.
  set (p1 := Z.min (s_pos i + off) (s_size i)). unfold zip_move.
  destruct (s_cur i <=? p1) eqn:E.
  - apply Z.leb_le in E. rewrite zip_fwd_gen.
    assert (Hm : Z.of_nat (Nat.min (Z.to_nat (p1 - s_cur i)) (length (s_after i))) = p1 - s_cur i).
    { unfold zlen in *. lia. }
    cbv beta iota zeta. unfold wstream. cbn [s_before s_after s_cur s_pos s_size s_good s_eof s_sticky].
    rewrite zlen_app, zlen_rev, zlen_firstn, zlen_skipn, Hm. repeat split; auto; lia.
  - apply Z.leb_gt in E. rewrite zip_fwd_gen.
    assert (Hm : Z.of_nat (Nat.min (Z.to_nat (s_cur i - Z.max 0 p1)) (length (s_before i))) = s_cur i - Z.max 0 p1).
    { unfold zlen in *. lia. }
    cbv beta iota zeta. unfold wstream. cbn [s_before s_after s_cur s_pos s_size s_good s_eof s_sticky].
    rewrite zlen_app, zlen_rev, zlen_firstn, zlen_skipn, Hm. repeat split; auto; lia.
Qed.

(* ================= Part 2: read programs never move the get position backwards ================= *)
Definition pstream (i : istream) : Prop := wstream i /\ 0 <= s_pos i.

Lemma rd_len_nonneg i n : 0 <= rd_len i n.
Proof. unfold rd_len. destruct ((_ <=? 0) || _) eqn:E; [lia|]. apply orb_false_elim in E. lia. Qed.

(* a short read ends at the end of the data *)
Lemma rd_short_end i n : wstream i -> 0 <= s_pos i -> rd_short i n = true -> s_pos i + rd_len i n = s_size i.
Proof.
  intros (_ & _ & _ & _ & H5) Hp Hs. unfold rd_short in Hs. unfold rd_len. rewrite Hs.
  destruct ((s_size i - s_pos i <=? 0) || (s_pos i <? 0)) eqn:E; lia.
Qed.
Lemma rd_full i n : 0 <= s_pos i -> 0 < n -> rd_short i n = false -> rd_len i n = n.
Proof.
  intros Hp Hn Hs. unfold rd_short in Hs. unfold rd_len. rewrite Hs.
  destruct ((n <=? 0) || (s_pos i <? 0)) eqn:E; lia.
Qed.

Lemma norm_I64_small x : 0 <= x < 4611686018427387904 -> norm I64 x = x.
Proof.
  intros H. unfold norm. cbn [signed]. unfold bits. cbn [width].
  change (8 * 8 - 1) with 63. change (8 * 8) with 64.
  change (2 ^ 63) with 9223372036854775808. change (2 ^ 64) with 18446744073709551616.
  rewrite Z.mod_small; lia.
Qed.
Lemma norm_U32_range z : 0 <= norm U32 z < 4294967296.
Proof. unfold norm. cbn [signed]. unfold bits. cbn [width]. change (8 * 4) with 32. change (2 ^ 32) with 4294967296. apply Z.mod_pos_bound. lia. Qed.
Lemma norm_U64_range z : 0 <= norm U64 z < 18446744073709551616.
Proof. unfold norm. cbn [signed]. unfold bits. cbn [width]. change (8 * 8) with 64. change (2 ^ 64) with 18446744073709551616. apply Z.mod_pos_bound. lia. Qed.
Lemma norm_U32_small z : 0 <= z < 4294967296 -> norm U32 z = z.
Proof. intros. unfold norm. cbn [signed]. unfold bits. cbn [width]. change (8 * 4) with 32. change (2 ^ 32) with 4294967296. apply Z.mod_small. lia. Qed.
Lemma norm_U64_small z : 0 <= z < 18446744073709551616 -> norm U64 z = z.
Proof. intros. unfold norm. cbn [signed]. unfold bits. cbn [width]. change (8 * 8) with 64. change (2 ^ 64) with 18446744073709551616. apply Z.mod_small. lia. Qed.

Lemma rem_range a b : 0 <= a -> 0 < b -> 0 <= Z.rem a b < b.
Proof. intros. apply Z.rem_bound_pos; lia. Qed.

Section Prog.
Variable cs : classes.
Variable call : target -> mid -> state -> res (Z * ity).
Variable sp : scan_params.
Variable cap : Z.

Definition u3264 (f : Z) : option ity :=
  match find_field cs f with
  | Some x => match f_kind x with KScalar U32 => Some U32 | KScalar U64 => Some U64 | _ => None end
  | None => None end.

(* the seek amounts that occur in read programs: constants and  <unsigned member> % <small positive constant> *)
Definition seek_ok (e : expr) : bool :=
  match e with
  | EConst c _ => (0 <=? c) && (c <? 1073741824)
  | EBin OMod (EField f) (EConst c I32) => (0 <? c) && (c <? 1073741824) && match u3264 f with Some _ => true | None => false end
  | EBin OMod (EField f) (ESizeofT c) => (0 <? c) && (c <? 1073741824) && match u3264 f with Some _ => true | None => false end
  | _ => false
  end.

Lemma seek_ok_nonneg e s l off : seek_ok e = true -> eval_as cs call I64 s l e = Ok off -> 0 <= off.
Proof.
  unfold eval_as. destruct e as [c t| | | | | |o a|o a b| |t a|]; cbn [seek_ok]; try discriminate.
  - intros H E. apply andb_prop in H. destruct H as [A B]. cbn [eval bind fst] in E.
    rewrite norm_I64_small in E by lia. inversion E; lia.
  - destruct o; try discriminate. destruct a as [| f | | | | | | | | |]; try discriminate.
    destruct b as [c t| | | | c | | | | | |]; try discriminate.
    + destruct t; try discriminate. intros H E.
      apply andb_prop in H. destruct H as [H Hf]. apply andb_prop in H. destruct H as [A B].
      unfold u3264 in Hf. cbn [eval] in E.
      destruct (find_field cs f) as [x|]; [|discriminate]. destruct (s f) as [z| |]; try discriminate.
      destruct (f_kind x) as [t| |]; try discriminate. destruct t; try discriminate; cbn [bind eval_bin] in E.
      * (* U32 % int *)
        change (common U32 I32) with U32 in E. rewrite (norm_U32_small c) in E by lia.
        replace (c =? 0) with false in E by lia. pose proof (norm_U32_range z) as R.
        pose proof (rem_range (norm U32 z) c ltac:(lia) ltac:(lia)) as Q.
        unfold arith in E. cbn [signed] in E. cbn [bind fst] in E.
        rewrite (norm_U32_small (Z.rem (norm U32 z) c)) in E by (apply Z.ltb_lt in B; destruct Q as [Q1 Q2]; split; [exact Q1|eapply Z.lt_trans; [exact Q2|lia]]). rewrite norm_I64_small in E by (apply Z.ltb_lt in B; destruct Q as [Q1 Q2]; split; [exact Q1|eapply Z.lt_trans; [exact Q2|lia]]). inversion E; subst; apply Q.
      * change (common U64 I32) with U64 in E. rewrite (norm_U64_small c) in E by lia.
        replace (c =? 0) with false in E by lia. pose proof (norm_U64_range z) as R.
        pose proof (rem_range (norm U64 z) c ltac:(lia) ltac:(lia)) as Q.
        unfold arith in E. cbn [signed] in E. cbn [bind fst] in E.
        rewrite (norm_U64_small (Z.rem (norm U64 z) c)) in E by (apply Z.ltb_lt in B; destruct Q as [Q1 Q2]; split; [exact Q1|eapply Z.lt_trans; [exact Q2|lia]]). rewrite norm_I64_small in E by (apply Z.ltb_lt in B; destruct Q as [Q1 Q2]; split; [exact Q1|eapply Z.lt_trans; [exact Q2|lia]]). inversion E; subst; apply Q.
    + intros H E.
      apply andb_prop in H. destruct H as [H Hf]. apply andb_prop in H. destruct H as [A B].
      unfold u3264 in Hf. cbn [eval] in E.
      destruct (find_field cs f) as [x|]; [|discriminate]. destruct (s f) as [z| |]; try discriminate.
      destruct (f_kind x) as [t| |]; try discriminate. destruct t; try discriminate; cbn [bind eval_bin] in E.
      * change (common U32 U64) with U64 in E. rewrite (norm_U64_small c) in E by lia.
        replace (c =? 0) with false in E by lia. pose proof (norm_U64_range z) as R.
        pose proof (rem_range (norm U64 z) c ltac:(lia) ltac:(lia)) as Q.
        unfold arith in E. cbn [signed] in E. cbn [bind fst] in E.
        rewrite (norm_U64_small (Z.rem (norm U64 z) c)) in E by (apply Z.ltb_lt in B; destruct Q as [Q1 Q2]; split; [exact Q1|eapply Z.lt_trans; [exact Q2|lia]]). rewrite norm_I64_small in E by (apply Z.ltb_lt in B; destruct Q as [Q1 Q2]; split; [exact Q1|eapply Z.lt_trans; [exact Q2|lia]]). inversion E; subst; apply Q.
      * change (common U64 U64) with U64 in E. rewrite (norm_U64_small c) in E by lia.
        replace (c =? 0) with false in E by lia. pose proof (norm_U64_range z) as R.
        pose proof (rem_range (norm U64 z) c ltac:(lia) ltac:(lia)) as Q.
        unfold arith in E. cbn [signed] in E. cbn [bind fst] in E.
        rewrite (norm_U64_small (Z.rem (norm U64 z) c)) in E by (apply Z.ltb_lt in B; destruct Q as [Q1 Q2]; split; [exact Q1|eapply Z.lt_trans; [exact Q2|lia]]). rewrite norm_I64_small in E by (apply Z.ltb_lt in B; destruct Q as [Q1 Q2]; split; [exact Q1|eapply Z.lt_trans; [exact Q2|lia]]). inversion E; subst; apply Q.
Qed.

End Prog.

Lemma pstream_read n i : pstream i ->
  let '(got, i') := s_read n i in
  pstream i' /\ s_size i' = s_size i /\ s_pos i' = s_pos i + rd_len i n /\ zlen got = rd_len i n /\
  s_good i' = (if negb (rd_short i n) && (n <=? 0) then s_good i else negb (rd_short i n)) /\
  s_eof i' = (if negb (rd_short i n) && (n <=? 0) then s_eof i else rd_short i n).
Proof.
  intros [W P]. pose proof (ws_read n i W) as H. destruct (s_read n i) as [got i'].
  destruct H as (A & B & C & D & E & F). pose proof (rd_len_nonneg i n). repeat split; auto; try apply A; lia.
Qed.

Lemma pstream_seek off i : pstream i -> 0 <= s_pos i + off ->
  pstream (s_seek off i) /\ s_size (s_seek off i) = s_size i /\ s_pos (s_seek off i) = Z.min (s_pos i + off) (s_size i) /\
  s_good (s_seek off i) = s_good i /\ s_eof (s_seek off i) = s_eof i.
Proof.
  intros [W P] Hn. destruct (ws_seek off i W) as (A & B & C & D & E).
  assert (0 <= s_size i) by (destruct W as (_ & _ & _ & _ & W5); lia).
  repeat split; auto; try apply A; lia.
Qed.

Section Scan.
Variable sp : scan_params.

(* the signature search seeks back by at most 3 bytes after reading 4 *)
Definition rules_ok : bool := forallb (fun r => (-3 <=? snd r) && (snd r <=? 0)) (sp_rules sp).

Lemma scan_rule_range tmp : rules_ok = true -> -3 <= scan_rule (sp_rules sp) tmp <= 0.
Proof.
  unfold rules_ok, scan_rule. induction (sp_rules sp) as [|[[m v] k] r IH]; intros H; [lia|].
  cbn [forallb snd] in H. apply andb_prop in H. destruct H as [H1 H2]. destruct (Z.land m tmp =? v); [lia|apply IH; exact H2].
Qed.

Lemma scan_mono : rules_ok = true -> forall n tmp i r i', pstream i -> scan_loop sp n tmp i = Ok (r, i') ->
  pstream i' /\ s_size i' = s_size i /\ s_pos i <= s_pos i' /\ (s_pos i' = s_size i' \/ s_pos i + 4 <= s_pos i').
Proof.
  intros HR. induction n as [|n IH]; intros tmp i r i' Hp H; [discriminate|].
  cbn [scan_loop] in H. pose proof (pstream_read 4 i Hp) as R. destruct (s_read 4 i) as [got i1].
  destruct R as (P1 & S1 & Pos1 & _ & Good1 & Eof1).
  assert (St : scan_stop sp i1 = rd_short i 4).
  { unfold scan_stop. rewrite Good1, Eof1. replace (4 <=? 0) with false by reflexivity. rewrite andb_false_r.
    destruct (sp_stop_on_fail sp); [apply negb_involutive|reflexivity]. }
  destruct Hp as [W P]. pose proof (rd_len_nonneg i 4).
  destruct (merge_scalar 4 tmp got =? sp_sig sp).
  - inversion H; subst. split; [exact P1|]. split; [exact S1|]. split; [lia|].
    destruct (rd_short i 4) eqn:Sh.
    + left. rewrite Pos1, S1. apply rd_short_end; assumption.
    + right. rewrite Pos1. rewrite rd_full; [lia|exact P|lia|exact Sh].
  - rewrite St in H.
    destruct (rd_short i 4) eqn:Sh; [discriminate|].
    assert (L4 : rd_len i 4 = 4) by (apply rd_full; [exact P|lia|exact Sh]).
    pose proof (scan_rule_range (merge_scalar 4 tmp got) HR) as Rk.
    set (k := scan_rule (sp_rules sp) (merge_scalar 4 tmp got)) in *.
    assert (Hle : s_pos i1 <= s_size i1) by (destruct P1 as [(_ & _ & _ & _ & X) _]; exact X).
    destruct (k =? 0) eqn:Ek.
    + destruct (IH _ _ _ _ P1 H) as (A & B & C & D). split; [exact A|]. split; [lia|]. split; [lia|]. destruct D; [left; assumption|right; lia].
    + destruct (pstream_seek k i1 P1) as (A2 & B2 & C2 & _); [lia|].
      destruct (IH _ _ _ _ A2 H) as (A & B & C & D). split; [exact A|]. split; [lia|]. split; [lia|]. destruct D; [left; assumption|right; lia].
Qed.

Lemma scan_progress : rules_ok = true -> sp_sig sp <> 0 -> forall n i r i', pstream i -> scan_loop sp n 0 i = Ok (r, i') ->
  s_pos i + 1 <= s_pos i'.
Proof.
  intros HR Hsig n i r i' Hp H. destruct (scan_mono HR n 0 i r i' Hp H) as (A & B & C & [D|D]); [|lia].
  destruct (Z.eq_dec (s_pos i) (s_size i)) as [E|E].
  - exfalso. destruct n as [|n]; [discriminate|]. cbn [scan_loop] in H.
    pose proof (pstream_read 4 i Hp) as R. destruct (s_read 4 i) as [got i1]. destruct R as (P1 & S1 & Pos1 & Lg & Good1 & Eof1).
    assert (L0 : rd_len i 4 = 0).
    { unfold rd_len. replace (s_size i <? 4 + s_pos i) with true by lia. replace (s_size i - s_pos i <=? 0) with true by lia. reflexivity. }
    assert (got = []) by (destruct got; [reflexivity|unfold zlen in Lg; cbn in Lg; lia]). subst got.
    change (merge_scalar 4 0 []) with 0 in H. replace (0 =? sp_sig sp) with false in H by lia.
    assert (Ee : scan_stop sp i1 = true).
    { unfold scan_stop. rewrite Good1, Eof1. unfold rd_short. replace (s_size i <? 4 + s_pos i) with true by lia.
      destruct (sp_stop_on_fail sp); reflexivity. }
    rewrite Ee in H. discriminate.
  - destruct Hp as [(_ & _ & _ & _ & X) _]. lia.
Qed.

Lemma data_len i : zlen (s_data i) = zlen (s_before i) + zlen (s_after i).
Proof. unfold s_data, zlen. rewrite rev_append_rev, app_length, rev_length. lia. Qed.

(* the search itself ends: every iteration that goes on has read 4 bytes that were there and seeks back at most 3 *)
Lemma scan_no_spin_p : rules_ok = true -> forall n tmp i, pstream i -> (Z.to_nat (s_size i - s_pos i) + 2 <= n)%nat ->
  scan_loop sp n tmp i <> Err ESpin.
Proof.
  intros HR. induction n as [|n IH]; intros tmp i Hp Hf; [lia|].
  cbn [scan_loop]. pose proof (pstream_read 4 i Hp) as R. destruct (s_read 4 i) as [got i1].
  destruct R as (P1 & S1 & Pos1 & _ & Good1 & Eof1).
  assert (St : scan_stop sp i1 = rd_short i 4).
  { unfold scan_stop. rewrite Good1, Eof1. replace (4 <=? 0) with false by reflexivity. rewrite andb_false_r.
    destruct (sp_stop_on_fail sp); [apply negb_involutive|reflexivity]. }
  destruct (merge_scalar 4 tmp got =? sp_sig sp); [discriminate|]. rewrite St.
  destruct (rd_short i 4) eqn:Sh; [discriminate|].
  destruct Hp as [W P].
  assert (L4 : rd_len i 4 = 4) by (apply rd_full; [exact P|lia|exact Sh]).
  assert (Hsz : 4 + s_pos i <= s_size i) by (unfold rd_short in Sh; lia).
  pose proof (scan_rule_range (merge_scalar 4 tmp got) HR) as Rk.
  set (k := scan_rule (sp_rules sp) (merge_scalar 4 tmp got)) in *.
  destruct (k =? 0) eqn:Ek.
  - apply IH; [exact P1|]. lia.
  - destruct (pstream_seek k i1 P1) as (A2 & B2 & C2 & _); [lia|].
    apply IH; [exact A2|]. lia.
Qed.

Lemma pstream_fuel i : pstream i -> (Z.to_nat (s_size i - s_pos i) + 2 <= S (S (length (s_data i))))%nat.
Proof.
  intros [(_ & _ & H3 & _ & _) P]. pose proof (data_len i) as D. unfold zlen in *. lia.
Qed.

End Scan.

Section Prog2.
Variable cs : classes.
Variable call : target -> mid -> state -> res (Z * ity).
Variable sp : scan_params.
Variable cap : Z.

(* every seek of the program goes forward *)
Fixpoint seeks_ok (p : prog) : bool :=
  match p with
  | PSeek e k => seek_ok cs e && seeks_ok k
  | PIf _ a b => seeks_ok a && seeks_ok b
  | PRead _ k | PReadBytes _ _ k | PResize _ _ k | PAssign _ _ k | PDecl _ _ _ k | PSet _ _ k | PScan k => seeks_ok k
  | _ => true
  end.

Theorem run_r_mono : rules_ok sp = true -> forall p s l i s' i', seeks_ok p = true -> pstream i ->
  run_r cs call sp cap p s l i = Ok (s', i') ->
  pstream i' /\ s_size i' = s_size i /\ s_pos i <= s_pos i'.
Proof.
  intros HR.
  induction p as [| e | | | f k IH | f k IH | f e k IH | f e k IH | f e k IH | e k IH | e k IH | f e k IH | x t e k IH | x e k IH | k IH | c a IHa b IHb];
    intros s l i s' i' Hs Hp H; cbn [run_r] in H; cbn [seeks_ok] in Hs; try discriminate.
  - inversion H; subst. split; [exact Hp|]. split; lia.
  - destruct (find_field cs f) as [x|]; [|discriminate]. destruct (ksize (f_kind x)) as [w|]; [|discriminate].
    pose proof (pstream_read w i Hp) as R. destruct (s_read w i) as [got i1]. destruct R as (P1 & S1 & Pos1 & _).
    destruct (read_into x (s f) got) as [v|]; cbn [bind] in H; [|discriminate].
    destruct (IH _ _ _ _ _ Hs P1 H) as (A & B & C). pose proof (rd_len_nonneg i w). split; [exact A|]. split; lia.
  - destruct (eval_as cs call I64 s l e) as [n|]; cbn [bind] in H; [|discriminate].
    destruct (s f) as [|b|]; try discriminate.
    pose proof (pstream_read n i Hp) as R. destruct (s_read n i) as [got i1]. destruct R as (P1 & S1 & Pos1 & _).
    destruct (zlen b <? zlen got); [discriminate|].
    destruct (IH _ _ _ _ _ Hs P1 H) as (A & B & C). pose proof (rd_len_nonneg i n). split; [exact A|]. split; lia.
  - destruct (eval_as cs call U64 s l e) as [n|]; cbn [bind] in H; [|discriminate].
    destruct (find_field cs f) as [x|]; [|discriminate]. destruct (s f) as [|b|]; try discriminate.
    destruct (cap <? n * kelt (f_kind x)); [discriminate|]. eapply IH; eauto.
  - apply andb_prop in Hs. destruct Hs as [Hs1 Hs2].
    destruct (eval_as cs call I64 s l e) as [off|] eqn:Eo; cbn [bind] in H; [|discriminate].
    pose proof (seek_ok_nonneg cs call e s l off Hs1 Eo) as Hoff.
    destruct Hp as [W P]. destruct (pstream_seek off i (conj W P)) as (A2 & B2 & C2 & _); [lia|].
    destruct (IH _ _ _ _ _ Hs2 A2 H) as (A & B & C).
    assert (s_pos i <= s_size i) by (destruct W as (_ & _ & _ & _ & X); exact X).
    split; [exact A|]. split; lia.
  - destruct (find_field cs f) as [x|]; [|discriminate]. destruct (f_kind x) as [t| |]; try discriminate.
    destruct (eval_as cs call t s l e) as [v|]; cbn [bind] in H; [|discriminate]. eapply IH; eauto.
  - destruct (eval_as cs call t s l e) as [v|]; cbn [bind] in H; [|discriminate]. eapply IH; eauto.
  - destruct (l x) as [[? t]|]; [|discriminate].
    destruct (eval_as cs call t s l e) as [v|]; cbn [bind] in H; [|discriminate]. eapply IH; eauto.
  - destruct (scan_loop sp (S (S (length (s_data i)))) 0 i) as [[r i1]|] eqn:Es; cbn [bind] in H; [|discriminate].
    destruct (scan_mono sp HR _ _ _ _ _ Hp Es) as (A1 & B1 & C1 & _). cbn [fst snd] in H.
    destruct (IH _ _ _ _ _ Hs A1 H) as (A & B & C). split; [exact A|]. split; lia.
  - apply andb_prop in Hs. destruct Hs as [Hs1 Hs2].
    destruct (eval cs call s l c) as [v|]; cbn [bind] in H; [|discriminate].
    destruct (fst v =? 0); [eapply IHb|eapply IHa]; eauto.
Qed.

Lemma read_into_no_spin x old got : read_into x old got <> Err ESpin.
Proof.
  unfold read_into. destruct (f_kind x); destruct old;
    repeat match goal with |- context [if ?c then _ else _] => destruct c end; discriminate.
Qed.

(* ... and never hangs in the signature search *)
Theorem run_r_no_spin_p : rules_ok sp = true -> (forall tg m s, call tg m s <> Err ESpin) ->
  forall p s l i, seeks_ok p = true -> pstream i -> run_r cs call sp cap p s l i <> Err ESpin.
Proof.
  intros HR Hcall.
  induction p as [| e | | | f k IH | f k IH | f e k IH | f e k IH | f e k IH | e k IH | e k IH | f e k IH | x t e k IH | x e k IH | k IH | c a IHa b IHb];
    intros s l i Hs Hp; cbn [run_r]; cbn [seeks_ok] in Hs; try discriminate.
  - destruct (find_field cs f) as [x|]; [|discriminate]. destruct (ksize (f_kind x)) as [w|]; [|discriminate].
    pose proof (pstream_read w i Hp) as R. destruct (s_read w i) as [got i1]. destruct R as (P1 & _).
    pose proof (read_into_no_spin x (s f) got) as He.
    destruct (read_into x (s f) got) as [v|]; cbn [bind]; [apply IH; assumption|errne He].
  - pose proof (eval_as_no_spin cs call I64 s l e Hcall) as He.
    destruct (eval_as cs call I64 s l e) as [n|]; cbn [bind]; [|errne He].
    destruct (s f) as [|b|]; try discriminate.
    pose proof (pstream_read n i Hp) as R. destruct (s_read n i) as [got i1]. destruct R as (P1 & _).
    destruct (zlen b <? zlen got); [discriminate|]. apply IH; assumption.
  - pose proof (eval_as_no_spin cs call U64 s l e Hcall) as He.
    destruct (eval_as cs call U64 s l e) as [n|]; cbn [bind]; [|errne He].
    destruct (find_field cs f) as [x|]; [|discriminate]. destruct (s f) as [|b|]; try discriminate.
    destruct (cap <? n * kelt (f_kind x)); [discriminate|]. apply IH; assumption.
  - apply andb_prop in Hs. destruct Hs as [Hs1 Hs2].
    pose proof (eval_as_no_spin cs call I64 s l e Hcall) as He.
    destruct (eval_as cs call I64 s l e) as [off|] eqn:Eo; cbn [bind]; [|errne He].
    pose proof (seek_ok_nonneg cs call e s l off Hs1 Eo) as Hoff.
    destruct Hp as [W P]. destruct (pstream_seek off i (conj W P)) as (A2 & _); [lia|]. apply IH; assumption.
  - destruct (find_field cs f) as [x|]; [|discriminate]. destruct (f_kind x) as [t| |]; try discriminate.
    pose proof (eval_as_no_spin cs call t s l e Hcall) as He.
    destruct (eval_as cs call t s l e) as [v|]; cbn [bind]; [apply IH; assumption|errne He].
  - pose proof (eval_as_no_spin cs call t s l e Hcall) as He.
    destruct (eval_as cs call t s l e) as [v|]; cbn [bind]; [apply IH; assumption|errne He].
  - destruct (l x) as [[? t]|]; [|discriminate].
    pose proof (eval_as_no_spin cs call t s l e Hcall) as He.
    destruct (eval_as cs call t s l e) as [v|]; cbn [bind]; [apply IH; assumption|errne He].
  - pose proof (scan_no_spin_p sp HR (S (S (length (s_data i)))) 0 i Hp (pstream_fuel i Hp)) as Hn.
    destruct (scan_loop sp (S (S (length (s_data i)))) 0 i) as [[r i1]|] eqn:Es; cbn [bind]; [|errne Hn].
    destruct (scan_mono sp HR _ _ _ _ _ Hp Es) as (A1 & _). cbn [fst snd]. apply IH; assumption.
  - apply andb_prop in Hs. destruct Hs as [Hs1 Hs2].
    pose proof (eval_no_spin cs call c Hcall s l) as He.
    destruct (eval cs call s l c) as [v|]; cbn [bind]; [|errne He].
    destruct (fst v =? 0); [apply IHb|apply IHa]; assumption.
Qed.

(* a program that begins with the signature search consumes at least one byte *)
Corollary run_r_scan_progress : rules_ok sp = true -> sp_sig sp <> 0 -> forall k s l i s' i', seeks_ok k = true -> pstream i ->
  run_r cs call sp cap (PScan k) s l i = Ok (s', i') ->
  pstream i' /\ s_size i' = s_size i /\ s_pos i + 1 <= s_pos i'.
Proof.
  intros HR Hsig k s l i s' i' Hs Hp H. cbn [run_r] in H.
  destruct (scan_loop sp (S (S (length (s_data i)))) 0 i) as [[r i1]|] eqn:Es; cbn [bind] in H; [|discriminate].
  destruct (scan_mono sp HR _ _ _ _ _ Hp Es) as (A1 & B1 & C1 & _). pose proof (scan_progress sp HR Hsig _ _ _ _ Hp Es) as Pr.
  cbn [fst snd] in H. destruct (run_r_mono HR k _ _ _ _ _ Hs A1 H) as (A & B & C). split; [exact A|]. split; lia.
Qed.

(* ... also when assignments to members precede it (a reader that first resets its own version selector) *)
Fixpoint starts_with_scan (p : prog) : bool :=
  match p with
  | PScan k => seeks_ok k
  | PAssign _ _ k => starts_with_scan k
  | _ => false
  end.

Lemma starts_seeks p : starts_with_scan p = true -> seeks_ok p = true.
Proof. induction p; cbn [starts_with_scan seeks_ok]; intros H; try discriminate; auto. Qed.

Lemma run_r_start_progress : rules_ok sp = true -> sp_sig sp <> 0 -> forall p s l i s' i', starts_with_scan p = true -> pstream i ->
  run_r cs call sp cap p s l i = Ok (s', i') ->
  pstream i' /\ s_size i' = s_size i /\ s_pos i + 1 <= s_pos i'.
Proof.
  intros HR Hsig. induction p as [| e | | | f k IH | f k IH | f e k IH | f e k IH | f e k IH | e k IH | e k IH | f e k IH | x t e k IH | x e k IH | k IH | c a IHa b IHb];
    intros s l i s' i' Hs Hp H; cbn [starts_with_scan] in Hs; try discriminate.
  - cbn [run_r] in H. destruct (find_field cs f) as [x|]; [|discriminate]. destruct (f_kind x) as [t| |]; try discriminate.
    destruct (eval_as cs call t s l e) as [v|]; cbn [bind] in H; [|discriminate]. eapply IH; eauto.
  - eapply run_r_scan_progress; eauto.
Qed.

End Prog2.

(* ================= Part 3: the parser loop of the file model ================= *)
From VB Require Import FileModel.

Section Loop.
Variable cs : classes.
Variable sp : scan_params.
Variable cap : Z.
Variable factory : list (Z * Z).
Variables C_ohb F_osz F_otype : Z.

Definition wid (f w : Z) : bool :=
  match find_field cs f with
  | Some x => match ksize (f_kind x) with Some w' => w' =? w | None => false end
  | None => false end.
(* ObjectHeaderBase::read: the signature search, then headerSize (2), headerVersion (2), objectSize (4), objectType (4) *)
Definition ohb_shape (p : prog) : bool :=
  match p with
  | PScan (PRead f1 (PRead f2 (PRead f3 (PRead f4 PEnd)))) => wid f1 2 && wid f2 2 && wid f3 4 && wid f4 4
  | _ => false
  end.
(* a class's read program: starts with the signature search (the inlined base header read), seeks only forward *)
Definition class_ok (c : Z) : bool := starts_with_scan cs (prog_of cs c M_read).

Hypothesis HR : rules_ok sp = true.
Hypothesis Hsig : sp_sig sp <> 0.
Hypothesis Hohb : ohb_shape (prog_of cs C_ohb M_read) = true.
Hypothesis Hcls : forall code, lookup_factory factory code <> 0 -> class_ok (lookup_factory factory code) = true.

Lemma ohb_seeks p : ohb_shape p = true -> seeks_ok cs p = true.
Proof.
  intros H. destruct p as [| | | | | | | | | | | | | |k|]; try discriminate.
  destruct k as [| | | |f1 k| | | | | | | | | | |]; try discriminate.
  destruct k as [| | | |f2 k| | | | | | | | | | |]; try discriminate.
  destruct k as [| | | |f3 k| | | | | | | | | | |]; try discriminate.
  destruct k as [| | | |f4 k| | | | | | | | | | |]; try discriminate.
  destruct k; try discriminate. reflexivity.
Qed.

Lemma read_chain w base c j : pstream j -> 0 < w -> (s_pos j = s_size j \/ base + c <= s_pos j) ->
  let '(got, j') := s_read w j in
  pstream j' /\ s_size j' = s_size j /\
  ((s_pos j' = s_size j' /\ s_good j' = false) \/ (base + c + w <= s_pos j' /\ s_good j' = true)).
Proof.
  intros Hp Hw Hd. pose proof (pstream_read w j Hp) as R. destruct (s_read w j) as [got j'].
  destruct R as (P1 & S1 & Pos1 & _ & G1 & _). destruct Hp as [W P].
  replace (w <=? 0) with false in G1 by lia. rewrite andb_false_r in G1.
  split; [exact P1|]. split; [exact S1|].
  destruct (rd_short j w) eqn:Sh.
  - left. split; [rewrite Pos1, S1; apply rd_short_end; assumption|rewrite G1; reflexivity].
  - destruct Hd as [Hd|Hd].
    + exfalso. unfold rd_short in Sh. lia.
    + right. rewrite Pos1, rd_full by (assumption || lia). split; [lia|rewrite G1; reflexivity].
Qed.

Lemma ohb_consumes call p s l i h i1 : ohb_shape p = true -> pstream i ->
  run_r cs call sp cap p s l i = Ok (h, i1) -> s_good i1 = true ->
  pstream i1 /\ s_size i1 = s_size i /\ s_pos i + 16 <= s_pos i1.
Proof.
  intros Hshape Hp H Hg.
  destruct p as [| | | | | | | | | | | | | |k|]; try discriminate.
  destruct k as [| | | |f1 k| | | | | | | | | | |]; try discriminate.
  destruct k as [| | | |f2 k| | | | | | | | | | |]; try discriminate.
  destruct k as [| | | |f3 k| | | | | | | | | | |]; try discriminate.
  destruct k as [| | | |f4 k| | | | | | | | | | |]; try discriminate.
  destruct k; try discriminate.
  cbn [ohb_shape] in Hshape. unfold wid in Hshape.
  apply andb_prop in Hshape. destruct Hshape as [Hshape W4]. apply andb_prop in Hshape. destruct Hshape as [Hshape W3].
  apply andb_prop in Hshape. destruct Hshape as [W1 W2].
  cbn [run_r] in H.
  destruct (scan_loop sp (S (S (length (s_data i)))) 0 i) as [[r j0]|] eqn:Es; cbn [bind] in H; [|discriminate].
  destruct (scan_mono sp HR _ _ _ _ _ Hp Es) as (P0 & S0 & _ & D0). cbn [fst snd] in H.
  destruct (find_field cs f1) as [x1|]; [|discriminate]. destruct (ksize (f_kind x1)) as [w1|]; [|discriminate]. apply Z.eqb_eq in W1. subst w1.
  pose proof (read_chain 2 (s_pos i) 4 j0 P0 ltac:(lia) D0) as R1. destruct (s_read 2 j0) as [g1 j1]. destruct R1 as (P1 & S1 & D1).
  destruct (read_into x1 _ g1) as [v1|]; cbn [bind] in H; [|discriminate].
  destruct (find_field cs f2) as [x2|]; [|discriminate]. destruct (ksize (f_kind x2)) as [w2|]; [|discriminate]. apply Z.eqb_eq in W2. subst w2.
  assert (D1' : s_pos j1 = s_size j1 \/ s_pos i + 6 <= s_pos j1) by (destruct D1 as [[A _]|[A _]]; [left; exact A|right; lia]).
  pose proof (read_chain 2 (s_pos i) 6 j1 P1 ltac:(lia) D1') as R2. destruct (s_read 2 j1) as [g2 j2]. destruct R2 as (P2 & S2 & D2).
  destruct (read_into x2 _ g2) as [v2|]; cbn [bind] in H; [|discriminate].
  destruct (find_field cs f3) as [x3|]; [|discriminate]. destruct (ksize (f_kind x3)) as [w3|]; [|discriminate]. apply Z.eqb_eq in W3. subst w3.
  assert (D2' : s_pos j2 = s_size j2 \/ s_pos i + 8 <= s_pos j2) by (destruct D2 as [[A _]|[A _]]; [left; exact A|right; lia]).
  pose proof (read_chain 4 (s_pos i) 8 j2 P2 ltac:(lia) D2') as R3. destruct (s_read 4 j2) as [g3 j3]. destruct R3 as (P3 & S3 & D3).
  destruct (read_into x3 _ g3) as [v3|]; cbn [bind] in H; [|discriminate].
  destruct (find_field cs f4) as [x4|]; [|discriminate]. destruct (ksize (f_kind x4)) as [w4|]; [|discriminate]. apply Z.eqb_eq in W4. subst w4.
  assert (D3' : s_pos j3 = s_size j3 \/ s_pos i + 12 <= s_pos j3) by (destruct D3 as [[A _]|[A _]]; [left; exact A|right; lia]).
  pose proof (read_chain 4 (s_pos i) 12 j3 P3 ltac:(lia) D3') as R4. destruct (s_read 4 j3) as [g4 j4]. destruct R4 as (P4 & S4 & D4).
  destruct (read_into x4 _ g4) as [v4|]; cbn [bind] in H; [|discriminate].
  inversion H; subst. destruct D4 as [[_ G]|[A _]]; [congruence|]. split; [exact P4|]. split; lia.
Qed.

Theorem obj_loop_never_out_of_fuel : forall fuel i acc count, pstream i ->
  (Z.to_nat (s_size i - s_pos i) + 2 <= fuel)%nat ->
  snd (obj_loop cs sp cap factory C_ohb F_osz F_otype fuel i acc count) <> EndFuel.
Proof.
  induction fuel as [|fuel IH]; intros i acc count Hp Hf; [lia|].
  cbn [obj_loop]. unfold dec at 1.
  destruct (run_r cs (callf cs C_ohb) sp cap (prog_of cs C_ohb M_read) (fresh cs C_ohb) no_locals i) as [[h i1]|e] eqn:E1.
  2:{ pose proof (run_r_no_spin_p cs (callf cs C_ohb) sp cap HR (callf_no_spin cs C_ohb) _ (fresh cs C_ohb) no_locals i (ohb_seeks _ Hohb) Hp) as N.
      rewrite E1 in N. destruct e; cbn; try discriminate. exfalso; apply N; reflexivity. }
  destruct (s_good i1) eqn:G1; cbn [negb]; [|cbn; discriminate].
  destruct (ohb_consumes _ _ _ _ _ _ _ Hohb Hp E1 G1) as (P1 & S1 & Pos1).
  assert (Hpos : 0 <= s_pos i) by apply Hp.
  destruct (pstream_seek (-16) i1 P1) as (P2 & S2 & Pos2 & _); [lia|].
  set (i2 := s_seek (-16) i1) in *.
  assert (Hle1 : s_pos i1 <= s_size i1) by (destruct P1 as [(_ & _ & _ & _ & X) _]; exact X).
  assert (Pos2' : s_pos i <= s_pos i2) by lia.
  set (osz := geti h F_osz). set (dsz := if 16 <? osz then osz else 16).
  assert (Hd : 16 <= dsz) by (unfold dsz; destruct (16 <? osz) eqn:X; lia).
  destruct (lookup_factory factory (geti h F_otype) =? 0) eqn:Ec.
  - (* unknown type: skip at least one base header *)
    destruct (pstream_seek dsz i2 P2) as (P3 & S3 & Pos3 & _); [lia|].
    apply IH; [exact P3|]. rewrite S3, Pos3. lia.
  - apply Z.eqb_neq in Ec. specialize (Hcls _ Ec). set (c := lookup_factory factory (geti h F_otype)) in *.
    destruct (osize cs c (fresh cs c)) as [sz0|]; [|cbn; discriminate].
    unfold dec. unfold class_ok in Hcls.
    destruct (run_r cs (callf cs c) sp cap (prog_of cs c M_read) (fresh cs c) no_locals i2) as [[o i3]|e] eqn:E3.
    2:{ pose proof (run_r_no_spin_p cs (callf cs c) sp cap HR (callf_no_spin cs c) _ (fresh cs c) no_locals i2 (starts_seeks cs _ Hcls) P2) as N.
        rewrite E3 in N. destruct e; cbn; try discriminate. exfalso; apply N; reflexivity. }
    destruct (s_good i3) eqn:G3; cbn [negb]; [|cbn; discriminate].
    destruct (run_r_start_progress cs (callf cs c) sp cap HR Hsig _ _ _ _ _ _ Hcls P2 E3) as (P3 & S3 & Pos3).
    assert (Hle3 : s_pos i3 <= s_size i3) by (destruct P3 as [(_ & _ & _ & _ & X) _]; exact X).
    set (tmp := if dsz <? sz0 then norm I32 (norm U32 (dsz - sz0)) else 0).
    match goal with |- snd (obj_loop _ _ _ _ _ _ _ _ ?x _ _) <> _ => set (i4 := x) end.
    assert (H4 : pstream i4 /\ s_size i4 = s_size i /\ s_pos i + 1 <= s_pos i4).
    { unfold i4. destruct (tmp =? 0); [split; [exact P3|]; split; lia|].
      destruct P3 as [W3 Pn3]. destruct (ws_seek tmp i3 W3) as (Wj & Sj & Pj & _). set (j := s_seek tmp i3) in *.
      destruct (s_pos j <? s_pos i2 + dsz) eqn:Eg.
      - destruct (ws_seek (s_pos i2 + dsz - s_pos j) j Wj) as (W5 & S5 & P5 & _).
        split; [split; [exact W5|lia]|]. split; lia.
      - apply Z.ltb_ge in Eg. split; [split; [exact Wj|lia]|]. split; lia. }
    destruct H4 as (P4 & S4 & Pos4).
    assert (Hle4 : s_pos i4 <= s_size i4) by (destruct P4 as [(_ & _ & _ & _ & X) _]; exact X).
    apply IH; [exact P4|]. lia.
Qed.

End Loop.

(* ================= Part 4: the inflating stage (std::fstream flavour: a failed read sticks; File::close may close the
   file under the worker's feet at any moment — Sem.s_open) ================= *)
Definition sstream (i : istream) : Prop :=
  s_sticky i = true /\ s_size i = zlen (s_before i) + zlen (s_after i) /\ 0 <= s_pos i.

Lemma sstream_mk b : sstream (mk_fstream b).
Proof. unfold sstream, mk_fstream; cbn. change (zlen (@nil Z)) with 0. split; [reflexivity|]. split; lia. Qed.
Lemma sstream_mk_closing b k : sstream (mk_fstream_closing b k).
Proof. unfold sstream, mk_fstream_closing; cbn. change (zlen (@nil Z)) with 0. split; [reflexivity|]. split; lia. Qed.

Lemma sstream_fuel i : sstream i -> (Z.to_nat (s_size i - s_pos i) + 2 <= S (S (length (s_data i))))%nat.
Proof. intros (_ & H2 & H3). pose proof (data_len i) as D. unfold zlen in *. lia. Qed.

Lemma st_read n i : sstream i ->
  let '(got, i') := s_read n i in
  sstream i' /\ s_size i' = s_size i /\ s_pos i <= s_pos i' /\
  (s_good i' = true -> s_good i = true /\ (0 < n -> s_pos i' = s_pos i + n /\ s_pos i + n <= s_size i)).
Proof.
  intros (Hs & Hz & Hp). unfold s_read. rewrite Hs. destruct (s_good i) eqn:G; cbn [negb].
  2:{ split; [repeat split; assumption|]. split; [reflexivity|]. split; [lia|]. intros C. rewrite G in C. discriminate. }
  destruct (n <=? 0) eqn:N.
  { split; [repeat split; assumption|]. split; [reflexivity|]. split; [lia|]. intros _. split; [reflexivity|]. intros C. lia. }
  apply Z.leb_gt in N.
  destruct (closed_now i).
  { unfold sstream. cbn [s_sticky s_size s_pos s_good s_before s_after]. split; [repeat split; assumption|]. split; [reflexivity|]. split; [lia|]. intros C; discriminate. }
  set (avail := Z.max 0 (s_size i - s_pos i)). destruct (avail <? n) eqn:Sh.
  - rewrite zip_take_spec. unfold sstream. cbn [s_sticky s_size s_pos s_good s_before s_after negb].
    rewrite zlen_app, zlen_rev, zlen_firstn, zlen_skipn.
    split; [split; [reflexivity|split; [unfold zlen in *; lia|unfold avail; lia]]|]. split; [reflexivity|]. split; [unfold avail; lia|]. intros C; discriminate.
  - rewrite zip_take_spec. unfold sstream. cbn [s_sticky s_size s_pos s_good s_before s_after negb]. apply Z.ltb_ge in Sh.
    rewrite zlen_app, zlen_rev, zlen_firstn, zlen_skipn.
    split; [split; [reflexivity|split; [unfold zlen in *; lia|lia]]|]. split; [reflexivity|]. split; [lia|]. intros _. split; [reflexivity|]. intros _. unfold avail in Sh. lia.
Qed.

Lemma zip_move_total b a c p : let '(b', a', _) := zip_move b a c p in zlen b' + zlen a' = zlen b + zlen a.
Proof.
  unfold zip_move. destruct (c <=? p).
  - rewrite zip_fwd_gen. rewrite zlen_app, zlen_rev, zlen_firstn, zlen_skipn. lia.
  - rewrite zip_fwd_gen. rewrite zlen_app, zlen_rev, zlen_firstn, zlen_skipn. lia.
Qed.

Lemma st_seek off i : sstream i ->
  sstream (s_seek off i) /\ s_size (s_seek off i) = s_size i /\
  (s_good (s_seek off i) = true -> s_good i = true /\ s_pos (s_seek off i) = s_pos i + off) /\
  (s_pos (s_seek off i) = s_pos i + off \/ s_pos (s_seek off i) = s_pos i).
Proof.
  intros (Hs & Hz & Hp). unfold s_seek. rewrite Hs. destruct (s_good i) eqn:G.
  - destruct (closed_now i || (s_pos i + off <? 0)) eqn:C.
    + unfold sstream. cbn [s_sticky s_size s_pos s_good s_before s_after].
      split; [repeat split; assumption|]. split; [reflexivity|]. split; [intros X; discriminate|right; reflexivity].
    + apply orb_false_elim in C. destruct C as [_ C]. apply Z.ltb_ge in C.
      pose proof (zip_move_total (s_before i) (s_after i) (s_cur i) (s_pos i + off)) as T.
      destruct (zip_move (s_before i) (s_after i) (s_cur i) (s_pos i + off)) as [[b a] c].
      unfold sstream. cbn [s_sticky s_size s_pos s_good s_before s_after].
      split; [split; [reflexivity|split; lia]|]. split; [reflexivity|]. split; [intros _; split; reflexivity|left; reflexivity].
  - split; [repeat split; assumption|]. split; [reflexivity|]. split; [intros C; rewrite G in C; discriminate|right; reflexivity].
Qed.

(* THE DEFECT this part was written around (repaired in /repo by b825602): a search that gives up at end of file only never ends
   on a stream that has failed without reaching the end — e.g. after a seek on a file closed by File::close *)
Lemma scan_spins_when_only_eof_stops sp : sp_stop_on_fail sp = false -> sp_sig sp <> 0 -> scan_rule (sp_rules sp) 0 = 0 ->
  forall n i, s_sticky i = true -> s_good i = false -> s_eof i = false -> scan_loop sp n 0 i = Err ESpin.
Proof.
  intros Hf Hsig Hr. induction n as [|n IH]; intros i Hs Hg He; [reflexivity|].
  cbn [scan_loop]. unfold s_read. rewrite Hs, Hg. cbn [negb]. change (merge_scalar 4 0 []) with 0.
  replace (0 =? sp_sig sp) with false by lia. unfold scan_stop. rewrite Hf, He. rewrite Hr. cbn [Z.eqb]. apply IH; assumption.
Qed.

Section Sticky.
Variable cs : classes.
Variable call : target -> mid -> state -> res (Z * ity).
Variable sp : scan_params.
Variable cap : Z.
Hypothesis HR : rules_ok sp = true.

(* if the stream is still good after the signature search, the search consumed at least 4 bytes that were there *)
Lemma st_scan : forall n tmp i r i', sstream i -> scan_loop sp n tmp i = Ok (r, i') ->
  sstream i' /\ s_size i' = s_size i /\
  (s_good i' = true -> s_good i = true /\ s_pos i + 4 <= s_pos i' /\ s_pos i' <= s_size i').
Proof.
  induction n as [|n IH]; intros tmp i r i' Hs H; [discriminate|].
  cbn [scan_loop] in H. pose proof (st_read 4 i Hs) as R. destruct (s_read 4 i) as [got i1]. destruct R as (S1 & Z1 & M1 & G1).
  destruct (merge_scalar 4 tmp got =? sp_sig sp).
  - inversion H; subst. split; [exact S1|]. split; [exact Z1|]. intros G. destruct (G1 G) as [A B].
    assert (H4 : 0 < 4) by lia. destruct (B H4) as [B1 B2]. split; [exact A|]. lia.
  - destruct (scan_stop sp i1); [discriminate|].
    pose proof (scan_rule_range sp (merge_scalar 4 tmp got) HR) as Rk. set (k := scan_rule (sp_rules sp) (merge_scalar 4 tmp got)) in *.
    assert (H4 : 0 < 4) by lia.
    destruct (k =? 0) eqn:Ek.
    + destruct (IH _ _ _ _ S1 H) as (A & B & C). split; [exact A|]. split; [lia|]. intros G. destruct (C G) as (C1 & C2 & C3).
      destruct (G1 C1) as [D1 D2]. destruct (D2 H4) as [E1 E2]. split; [exact D1|]. lia.
    + destruct (st_seek k i1 S1) as (S2 & Z2 & G2 & _).
      destruct (IH _ _ _ _ S2 H) as (A & B & C). split; [exact A|]. split; [lia|]. intros G. destruct (C G) as (C1 & C2 & C3).
      destruct (G2 C1) as [F1 F2]. destruct (G1 F1) as [D1 D2]. destruct (D2 H4) as [E1 E2]. split; [exact D1|]. lia.
Qed.

(* the search ends on EVERY stream of this flavour — open, failed, or closed under the worker's feet at any moment — provided
   it gives up on any failed stream: an iteration that goes on has read 4 bytes that were there and seeks back at most 3 *)
Lemma st_scan_no_spin : sp_stop_on_fail sp = true -> forall n tmp i, sstream i ->
  (Z.to_nat (s_size i - s_pos i) + 2 <= n)%nat -> scan_loop sp n tmp i <> Err ESpin.
Proof.
  intros Hf. induction n as [|n IH]; intros tmp i Hs Hn; [lia|].
  cbn [scan_loop]. pose proof (st_read 4 i Hs) as R. destruct (s_read 4 i) as [got i1]. destruct R as (S1 & Z1 & M1 & G1).
  destruct (merge_scalar 4 tmp got =? sp_sig sp); [discriminate|].
  unfold scan_stop. rewrite Hf. destruct (s_good i1) eqn:Gd; cbn [negb]; [|discriminate].
  destruct (G1 eq_refl) as [_ B]. assert (H4 : 0 < 4) by lia. destruct (B H4) as [B1 B2].
  pose proof (scan_rule_range sp (merge_scalar 4 tmp got) HR) as Rk. set (k := scan_rule (sp_rules sp) (merge_scalar 4 tmp got)) in *.
  destruct (k =? 0) eqn:Ek.
  - apply IH; [exact S1|]. lia.
  - destruct (st_seek k i1 S1) as (S2 & Z2 & _ & [P2|P2]); (apply IH; [exact S2|]; lia).
Qed.

(* a read program that only seeks forward: if the stream is still good at the end it was good at the start and did not move back *)
Theorem st_run_mono : forall p s l i s' i', seeks_ok cs p = true -> sstream i ->
  run_r cs call sp cap p s l i = Ok (s', i') ->
  sstream i' /\ s_size i' = s_size i /\ (s_good i' = true -> s_good i = true /\ s_pos i <= s_pos i').
Proof.
  induction p as [| e | | | f k IH | f k IH | f e k IH | f e k IH | f e k IH | e k IH | e k IH | f e k IH | x t e k IH | x e k IH | k IH | c a IHa b IHb];
    intros s l i s' i' Hs Hst H; cbn [run_r] in H; cbn [seeks_ok] in Hs; try discriminate.
  - inversion H; subst. repeat split; auto; try apply Hst; lia.
  - destruct (find_field cs f) as [x|]; [|discriminate]. destruct (ksize (f_kind x)) as [w|]; [|discriminate].
    pose proof (st_read w i Hst) as R. destruct (s_read w i) as [got i1]. destruct R as (S1 & Z1 & M1 & G1).
    destruct (read_into x (s f) got) as [v|]; cbn [bind] in H; [|discriminate].
    destruct (IH _ _ _ _ _ Hs S1 H) as (A & B & C). split; [exact A|]. split; [lia|]. intros G. destruct (C G) as [C1 C2]. destruct (G1 C1) as [D1 _]. split; [exact D1|lia].
  - destruct (eval_as cs call I64 s l e) as [n|]; cbn [bind] in H; [|discriminate].
    destruct (s f) as [|b|]; try discriminate.
    pose proof (st_read n i Hst) as R. destruct (s_read n i) as [got i1]. destruct R as (S1 & Z1 & M1 & G1).
    destruct (zlen b <? zlen got); [discriminate|].
    destruct (IH _ _ _ _ _ Hs S1 H) as (A & B & C). split; [exact A|]. split; [lia|]. intros G. destruct (C G) as [C1 C2]. destruct (G1 C1) as [D1 _]. split; [exact D1|lia].
  - destruct (eval_as cs call U64 s l e) as [n|]; cbn [bind] in H; [|discriminate].
    destruct (find_field cs f) as [x|]; [|discriminate]. destruct (s f) as [|b|]; try discriminate.
    destruct (cap <? n * kelt (f_kind x)); [discriminate|]. eapply IH; eauto.
  - apply andb_prop in Hs. destruct Hs as [Hs1 Hs2].
    destruct (eval_as cs call I64 s l e) as [off|] eqn:Eo; cbn [bind] in H; [|discriminate].
    pose proof (seek_ok_nonneg cs call e s l off Hs1 Eo) as Hoff.
    destruct (st_seek off i Hst) as (S2 & Z2 & G2 & M2).
    destruct (IH _ _ _ _ _ Hs2 S2 H) as (A & B & C). split; [exact A|]. split; [lia|].
    intros G. destruct (C G) as [C1 C2]. destruct (G2 C1) as [D1 D2]. split; [exact D1|lia].
  - destruct (find_field cs f) as [x|]; [|discriminate]. destruct (f_kind x) as [t| |]; try discriminate.
    destruct (eval_as cs call t s l e) as [v|]; cbn [bind] in H; [|discriminate]. eapply IH; eauto.
  - destruct (eval_as cs call t s l e) as [v|]; cbn [bind] in H; [|discriminate]. eapply IH; eauto.
  - destruct (l x) as [[? t]|]; [|discriminate].
    destruct (eval_as cs call t s l e) as [v|]; cbn [bind] in H; [|discriminate]. eapply IH; eauto.
  - destruct (scan_loop sp (S (S (length (s_data i)))) 0 i) as [[r i1]|] eqn:Es; cbn [bind] in H; [|discriminate].
    destruct (st_scan _ _ _ _ _ Hst Es) as (S1 & Z1 & G1). cbn [fst snd] in H.
    destruct (IH _ _ _ _ _ Hs S1 H) as (A & B & C). split; [exact A|]. split; [lia|].
    intros G. destruct (C G) as [C1 C2]. destruct (G1 C1) as (D1 & D2 & D3). split; [exact D1|lia].
  - apply andb_prop in Hs. destruct Hs as [Hs1 Hs2].
    destruct (eval cs call s l c) as [v|]; cbn [bind] in H; [|discriminate].
    destruct (fst v =? 0); [eapply IHb|eapply IHa]; eauto.
Qed.

(* no read program hangs in the signature search on a stream of this flavour (any program: a seek that would leave the file fails) *)
Theorem st_run_no_spin : sp_stop_on_fail sp = true -> (forall tg m s, call tg m s <> Err ESpin) ->
  forall p s l i, sstream i -> run_r cs call sp cap p s l i <> Err ESpin.
Proof.
  intros Hf Hcall.
  induction p as [| e | | | f k IH | f k IH | f e k IH | f e k IH | f e k IH | e k IH | e k IH | f e k IH | x t e k IH | x e k IH | k IH | c a IHa b IHb];
    intros s l i Hst; cbn [run_r]; try discriminate.
  - destruct (find_field cs f) as [x|]; [|discriminate]. destruct (ksize (f_kind x)) as [w|]; [|discriminate].
    pose proof (st_read w i Hst) as R. destruct (s_read w i) as [got i1]. destruct R as (S1 & _).
    pose proof (read_into_no_spin x (s f) got) as He.
    destruct (read_into x (s f) got) as [v|]; cbn [bind]; [apply IH; assumption|errne He].
  - pose proof (eval_as_no_spin cs call I64 s l e Hcall) as He.
    destruct (eval_as cs call I64 s l e) as [n|]; cbn [bind]; [|errne He].
    destruct (s f) as [|b|]; try discriminate.
    pose proof (st_read n i Hst) as R. destruct (s_read n i) as [got i1]. destruct R as (S1 & _).
    destruct (zlen b <? zlen got); [discriminate|]. apply IH; assumption.
  - pose proof (eval_as_no_spin cs call U64 s l e Hcall) as He.
    destruct (eval_as cs call U64 s l e) as [n|]; cbn [bind]; [|errne He].
    destruct (find_field cs f) as [x|]; [|discriminate]. destruct (s f) as [|b|]; try discriminate.
    destruct (cap <? n * kelt (f_kind x)); [discriminate|]. apply IH; assumption.
  - pose proof (eval_as_no_spin cs call I64 s l e Hcall) as He.
    destruct (eval_as cs call I64 s l e) as [off|] eqn:Eo; cbn [bind]; [|errne He].
    destruct (st_seek off i Hst) as (S2 & _). apply IH; assumption.
  - destruct (find_field cs f) as [x|]; [|discriminate]. destruct (f_kind x) as [t| |]; try discriminate.
    pose proof (eval_as_no_spin cs call t s l e Hcall) as He.
    destruct (eval_as cs call t s l e) as [v|]; cbn [bind]; [apply IH; assumption|errne He].
  - pose proof (eval_as_no_spin cs call t s l e Hcall) as He.
    destruct (eval_as cs call t s l e) as [v|]; cbn [bind]; [apply IH; assumption|errne He].
  - destruct (l x) as [[? t]|]; [|discriminate].
    pose proof (eval_as_no_spin cs call t s l e Hcall) as He.
    destruct (eval_as cs call t s l e) as [v|]; cbn [bind]; [apply IH; assumption|errne He].
  - pose proof (st_scan_no_spin Hf (S (S (length (s_data i)))) 0 i Hst (sstream_fuel i Hst)) as Hn.
    destruct (scan_loop sp (S (S (length (s_data i)))) 0 i) as [[r i1]|] eqn:Es; cbn [bind]; [|errne Hn].
    destruct (st_scan _ _ _ _ _ Hst Es) as (A1 & _). cbn [fst snd]. apply IH; assumption.
  - pose proof (eval_no_spin cs call c Hcall s l) as He.
    destruct (eval cs call s l c) as [v|]; cbn [bind]; [|errne He].
    destruct (fst v =? 0); [apply IHb|apply IHa]; assumption.
Qed.

(* a program that begins like ObjectHeaderBase::read (search, 2+2+4+4 bytes), possibly after member assignments, and goes on
   seeking only forward: still good at the end means the 16 header bytes were there and were consumed *)
Fixpoint ohb_prefix (p : prog) : bool :=
  match p with
  | PAssign _ _ k => ohb_prefix k
  | PScan (PRead f1 (PRead f2 (PRead f3 (PRead f4 k)))) => wid cs f1 2 && wid cs f2 2 && wid cs f3 4 && wid cs f4 4 && seeks_ok cs k
  | _ => false
  end.

Lemma st_header : forall p s l i s' i', ohb_prefix p = true -> sstream i ->
  run_r cs call sp cap p s l i = Ok (s', i') ->
  sstream i' /\ s_size i' = s_size i /\
  (s_good i' = true -> s_good i = true /\ s_pos i + 16 <= s_pos i' /\ s_pos i + 16 <= s_size i).
Proof.
  induction p as [| e | | | f k IH | f k IH | f e k IH | f e k IH | f e k IH | e k IH | e k IH | f e k IH | x t e k IH | x e k IH | k IH | c a IHa b IHb];
    intros s l i s' i' Hs Hst H; cbn [ohb_prefix] in Hs; try discriminate.
  - cbn [run_r] in H. destruct (find_field cs f) as [x|]; [|discriminate]. destruct (f_kind x) as [t| |]; try discriminate.
    destruct (eval_as cs call t s l e) as [v|]; cbn [bind] in H; [|discriminate]. eapply IH; eauto.
  - clear IH.
    destruct k as [| | | |f1 k| | | | | | | | | | |]; try discriminate.
    destruct k as [| | | |f2 k| | | | | | | | | | |]; try discriminate.
    destruct k as [| | | |f3 k| | | | | | | | | | |]; try discriminate.
    destruct k as [| | | |f4 k| | | | | | | | | | |]; try discriminate.
    unfold wid in Hs.
    apply andb_prop in Hs. destruct Hs as [Hs Hk]. apply andb_prop in Hs. destruct Hs as [Hs W4]. apply andb_prop in Hs. destruct Hs as [Hs W3].
    apply andb_prop in Hs. destruct Hs as [W1 W2].
    cbn [run_r] in H.
    destruct (scan_loop sp (S (S (length (s_data i)))) 0 i) as [[r j0]|] eqn:Es; cbn [bind] in H; [|discriminate].
    destruct (st_scan _ _ _ _ _ Hst Es) as (T0 & Z0 & G0). cbn [fst snd] in H.
    destruct (find_field cs f1) as [x1|]; [|discriminate]. destruct (ksize (f_kind x1)) as [w1|]; [|discriminate]. apply Z.eqb_eq in W1. subst w1.
    pose proof (st_read 2 j0 T0) as R1. destruct (s_read 2 j0) as [g1 j1]. destruct R1 as (T1 & Z1 & _ & G1).
    destruct (read_into x1 _ g1) as [v1|]; cbn [bind] in H; [|discriminate].
    destruct (find_field cs f2) as [x2|]; [|discriminate]. destruct (ksize (f_kind x2)) as [w2|]; [|discriminate]. apply Z.eqb_eq in W2. subst w2.
    pose proof (st_read 2 j1 T1) as R2. destruct (s_read 2 j1) as [g2 j2]. destruct R2 as (T2 & Z2 & _ & G2).
    destruct (read_into x2 _ g2) as [v2|]; cbn [bind] in H; [|discriminate].
    destruct (find_field cs f3) as [x3|]; [|discriminate]. destruct (ksize (f_kind x3)) as [w3|]; [|discriminate]. apply Z.eqb_eq in W3. subst w3.
    pose proof (st_read 4 j2 T2) as R3. destruct (s_read 4 j2) as [g3 j3]. destruct R3 as (T3 & Z3 & _ & G3).
    destruct (read_into x3 _ g3) as [v3|]; cbn [bind] in H; [|discriminate].
    destruct (find_field cs f4) as [x4|]; [|discriminate]. destruct (ksize (f_kind x4)) as [w4|]; [|discriminate]. apply Z.eqb_eq in W4. subst w4.
    pose proof (st_read 4 j3 T3) as R4. destruct (s_read 4 j3) as [g4 j4]. destruct R4 as (T4 & Z4 & _ & G4).
    destruct (read_into x4 _ g4) as [v4|]; cbn [bind] in H; [|discriminate].
    destruct (st_run_mono _ _ _ _ _ _ Hk T4 H) as (A & B & C). split; [exact A|]. split; [lia|].
    intros G. destruct (C G) as [C1 C2].
    assert (H2 : 0 < 2) by lia. assert (H4 : 0 < 4) by lia.
    destruct (G4 C1) as [D4 E4]. destruct (E4 H4) as [P4 Q4].
    destruct (G3 D4) as [D3 E3]. destruct (E3 H4) as [P3 Q3].
    destruct (G2 D3) as [D2 E2]. destruct (E2 H2) as [P2 Q2].
    destruct (G1 D2) as [D1 E1]. destruct (E1 H2) as [P1 Q1].
    destruct (G0 D1) as (D0 & P0 & Q0). split; [exact D0|]. lia.
Qed.

End Sticky.

Section ContLoop.
Variable cs : classes.
Variable sp : scan_params.
Variable cap : Z.
Variables C_lc C_ohb F_otype F_method F_usize F_cfile : Z.
Variable inflate : list Z -> Z -> option (list Z).
Hypothesis HR : rules_ok sp = true.
Hypothesis Hstop : sp_stop_on_fail sp = true.
Hypothesis Hohb : ohb_prefix cs (prog_of cs C_ohb M_read) = true.
Hypothesis Hlc : ohb_prefix cs (prog_of cs C_lc M_read) = true.

(* the inflating stage: every container that is accepted lies inside the file and moves the position on by at least its
   16-byte base header, so the loop ends within |file| / 16 + 2 iterations — the fuel read_session gives it.  This holds on
   every stream of the fstream flavour: also one that File::close closes at an arbitrary moment (a failed seek back to the
   container's start makes the next header read fail, which ends the stage) *)
Theorem cont_loop_never_out_of_fuel : forall fuel i acc usize, sstream i ->
  (Z.to_nat (Z.max 0 (s_size i - s_pos i) / 16) + 2 <= fuel)%nat ->
  snd (cont_loop cs sp cap C_lc C_ohb F_otype F_method F_usize F_cfile inflate fuel i acc usize) <> EndFuel.
Proof.
  induction fuel as [|fuel IH]; intros i acc usize Hst Hf; [lia|].
  cbn [cont_loop]. unfold dec at 1.
  destruct (run_r cs (callf cs C_ohb) sp cap (prog_of cs C_ohb M_read) (fresh cs C_ohb) no_locals i) as [[h i1]|e] eqn:E1.
  2:{ pose proof (st_run_no_spin cs (callf cs C_ohb) sp cap HR Hstop (callf_no_spin cs C_ohb) (prog_of cs C_ohb M_read) (fresh cs C_ohb) no_locals i Hst) as N.
      rewrite E1 in N. destruct e; cbn; try discriminate. exfalso; apply N; reflexivity. }
  destruct (s_good i1) eqn:G1; cbn [negb]; [|cbn; discriminate].
  destruct (st_header cs (callf cs C_ohb) sp cap HR _ _ _ _ _ _ Hohb Hst E1) as (T1 & Z1 & H1). destruct (H1 G1) as (G0 & P1 & Q1).
  destruct (st_seek (-16) i1 T1) as (T2 & Z2 & G2 & _). set (i2 := s_seek (-16) i1) in *.
  destruct (negb (geti h F_otype =? 10)); [cbn; discriminate|].
  unfold dec.
  destruct (run_r cs (callf cs C_lc) sp cap (prog_of cs C_lc M_read) (fresh cs C_lc) no_locals i2) as [[lc i3]|e] eqn:E3.
  2:{ pose proof (st_run_no_spin cs (callf cs C_lc) sp cap HR Hstop (callf_no_spin cs C_lc) (prog_of cs C_lc M_read) (fresh cs C_lc) no_locals i2 T2) as N.
      rewrite E3 in N. destruct e; cbn; try discriminate. exfalso; apply N; reflexivity. }
  destruct (s_good i3) eqn:G3; cbn [negb]; [|cbn; discriminate].
  destruct (st_header cs (callf cs C_lc) sp cap HR _ _ _ _ _ _ Hlc T2 E3) as (T3 & Z3 & H3). destruct (H3 G3) as (G2' & P3 & Q3).
  destruct (G2 G2') as (_ & P2).
  destruct (uncompress_lc cap F_method F_usize F_cfile inflate lc) as [out|e]; [|destruct e; cbn; discriminate].
  apply IH; [exact T3|].
  assert (Hx : 16 <= s_size i - s_pos i) by lia.
  assert (Hy : s_size i3 - s_pos i3 <= s_size i - s_pos i - 16) by lia.
  assert (Z.max 0 (s_size i3 - s_pos i3) / 16 <= Z.max 0 (s_size i - s_pos i) / 16 - 1).
  { replace (Z.max 0 (s_size i - s_pos i)) with (s_size i - s_pos i) by lia.
    apply Z.le_trans with ((s_size i - s_pos i - 16) / 16).
    - apply Z.div_le_mono; lia.
    - replace (s_size i - s_pos i - 16) with (s_size i - s_pos i + (-1) * 16) by lia. rewrite Z.div_add by lia. lia. }
  assert (0 <= Z.max 0 (s_size i3 - s_pos i3) / 16) by (apply Z.div_pos; lia).
  lia.
Qed.

(* a stream that has already failed: the first header read cannot succeed, the loop ends at once *)
Lemma cont_loop_failed_start : forall fuel i acc usize, sstream i -> s_good i = false ->
  snd (cont_loop cs sp cap C_lc C_ohb F_otype F_method F_usize F_cfile inflate (S fuel) i acc usize) <> EndFuel.
Proof.
  intros fuel i acc usize Hst Hg. cbn [cont_loop]. unfold dec at 1.
  destruct (run_r cs (callf cs C_ohb) sp cap (prog_of cs C_ohb M_read) (fresh cs C_ohb) no_locals i) as [[h i1]|e] eqn:E1.
  2:{ pose proof (st_run_no_spin cs (callf cs C_ohb) sp cap HR Hstop (callf_no_spin cs C_ohb) (prog_of cs C_ohb M_read) (fresh cs C_ohb) no_locals i Hst) as N.
      rewrite E1 in N. destruct e; cbn; try discriminate. exfalso; apply N; reflexivity. }
  destruct (s_good i1) eqn:G1; cbn [negb]; [|cbn; discriminate].
  destruct (st_header cs (callf cs C_ohb) sp cap HR _ _ _ _ _ _ Hohb Hst E1) as (_ & _ & H1). destruct (H1 G1) as (G0 & _). congruence.
Qed.

End ContLoop.
