(* OQFacts.v — theorems about the object-queue model (C16). *)
From Coq Require Import List ZArith Bool Lia.
From VB Require Import OQModel.
Import ListNotations.
Local Open Scope Z_scope.

Lemma M32_pos : 0 < M32. Proof. reflexivity. Qed.

(* ---------- FIFO: insertion order, exactly once ---------- *)
(* For EVERY history that is an execution: the objects returned by read(), followed by the objects
   still queued, are exactly the objects that were queued at the start followed by the objects
   written, in that order — nothing lost, nothing duplicated, nothing reordered, nothing invented. *)
Theorem oq_fifo : forall ops s s' outs,
  qrun s ops = Some (s', outs) -> outs ++ q_items s' = q_items s ++ written ops.
Proof.
  induction ops as [|o ops IH]; intros s s' outs H; cbn [qrun written] in H |- *.
  - inversion H; subst. cbn. rewrite app_nil_r. reflexivity.
  - destruct (qenabled s o) eqn:En; [|discriminate].
    destruct (qstep s o) as [[s1 ret] nn] eqn:St.
    destruct (qrun s1 ops) as [[s2 outs2]|] eqn:R; [|discriminate].
    inversion H; subst s2 outs; clear H.
    specialize (IH _ _ _ R).
    destruct o; cbn [qstep] in St.
    + unfold oq_read in St. destruct (q_items s) as [|x r] eqn:Q; inversion St; subst; clear St; cbn [q_items] in IH.
      * exact IH.
      * cbn [app]. f_equal. exact IH.
    + unfold oq_write in St. inversion St; subst; clear St. cbn [q_items] in IH.
      rewrite IH. rewrite <- app_assoc. reflexivity.
    + unfold oq_abort in St. inversion St; subst; clear St. exact IH.
    + unfold oq_setFileSize in St. inversion St; subst; clear St. exact IH.
    + unfold oq_setBufferSize in St. inversion St; subst; clear St. exact IH.
Qed.

Corollary oq_fifo_init : forall ops s' outs,
  qrun oq_init ops = Some (s', outs) -> outs ++ q_items s' = written ops.
Proof. intros ops s' outs H. apply oq_fifo in H. exact H. Qed.

(* ---------- end of stream is exact ---------- *)
(* read() that takes effect returns nullptr iff the queue is empty; it then sets eof|fail, and it can
   only have taken effect because abort() was called or the declared size has been consumed.
   While objects remain it returns the oldest one and reports good. *)
Theorem oq_eof_exact : forall s, read_guard s = true ->
  let '(s', ret, _) := oq_read s in
  (ret = None <-> q_items s = []) /\
  (ret = None -> (q_abort s = true \/ q_fsz s <= q_tellg s) /\ oq_eof s' = true /\ oq_good s' = false) /\
  (forall x, ret = Some x -> exists r, q_items s = x :: r /\ q_items s' = r /\ oq_good s' = true /\ oq_eof s' = false).
Proof.
  intros s G. unfold oq_read. destruct (q_items s) as [|x r] eqn:Q.
  - split; [tauto|]. split.
    + intros _. split; [|split; reflexivity].
      unfold read_guard in G. rewrite Q in G. cbn in G. rewrite orb_false_r in G.
      apply orb_prop in G. destruct G as [G|G]; [left; exact G|right; apply Z.leb_le; exact G].
    + intros y Hy. discriminate.
  - split; [split; intros H; discriminate|]. split; [intros H; discriminate|].
    intros y Hy. inversion Hy; subst y. exists r. repeat split.
Qed.

(* ---------- back-pressure ---------- *)
Theorem oq_backpressure : forall s,
  write_guard s = false <-> (q_abort s = false /\ q_cap s <= wrap32 (Z.of_nat (length (q_items s)))).
Proof.
  intros s. unfold write_guard. rewrite orb_false_iff, Z.ltb_ge. tauto.
Qed.

(* without abort() and with a fixed capacity the queue never holds more than `capacity` objects *)
Definition no_cfg (o : qop) : bool := match o with QAbort | QSetBufferSize _ => false | _ => true end.

Lemma wrap32_small z : 0 <= z < M32 -> wrap32 z = z.
Proof. intros H. unfold wrap32. apply Z.mod_small. exact H. Qed.

Theorem oq_bounded : forall ops s s' outs,
  forallb no_cfg ops = true -> q_abort s = false -> 0 <= q_cap s < M32 ->
  Z.of_nat (length (q_items s)) <= q_cap s ->
  qrun s ops = Some (s', outs) ->
  Z.of_nat (length (q_items s')) <= q_cap s' /\ q_cap s' = q_cap s /\ q_abort s' = false.
Proof.
  induction ops as [|o ops IH]; intros s s' outs Hc Ha Hcap Hl H; cbn [qrun forallb] in H, Hc.
  - inversion H; subst. auto.
  - apply andb_prop in Hc. destruct Hc as [Ho Hc].
    destruct (qenabled s o) eqn:En; [|discriminate].
    destruct (qstep s o) as [[s1 ret] nn] eqn:St.
    destruct (qrun s1 ops) as [[s2 outs2]|] eqn:R; [|discriminate].
    inversion H; subst s2 outs; clear H.
    assert (Hs1 : q_abort s1 = false /\ q_cap s1 = q_cap s /\ Z.of_nat (length (q_items s1)) <= q_cap s).
    { destruct o; cbn [qstep no_cfg] in St, Ho; try discriminate.
      - unfold oq_read in St. destruct (q_items s) as [|x r] eqn:Q; inversion St; subst; cbn [q_abort q_cap q_items length] in *.
        + repeat split; auto.
        + repeat split; auto. lia.
      - unfold oq_write in St. inversion St; subst; cbn [q_abort q_cap q_items] in *.
        repeat split; auto. cbn [qenabled] in En. unfold write_guard in En. rewrite Ha in En. cbn [orb] in En.
        apply Z.ltb_lt in En. rewrite wrap32_small in En by lia.
        rewrite app_length. cbn [length]. lia.
      - unfold oq_setFileSize in St. inversion St; subst; cbn. repeat split; auto. }
    destruct Hs1 as (A1 & A2 & A3).
    destruct (IH s1 s' outs2 Hc A1) as (B1 & B2 & B3); [lia|lia|exact R|].
    repeat split; [exact B1|lia|exact B3].
Qed.

(* ---------- counters ---------- *)
(* tellg counts the objects taken out, tellp the objects put in (while fewer than 2^32 - 1 were written) *)
Definition counts_ok (s : oq) : Prop :=
  0 <= q_tellg s /\ q_tellp s = q_tellg s + Z.of_nat (length (q_items s)) /\ q_tellp s < M32.

Lemma oq_counts_step : forall s o, counts_ok s -> q_tellp s < M32 - 1 ->
  counts_ok (fst (fst (qstep s o))).
Proof.
  intros s o (H0 & H1 & H2) Hb. unfold counts_ok.
  destruct o; cbn [qstep].
  - unfold oq_read. destruct (q_items s) as [|x r] eqn:Q; cbn [fst q_tellg q_tellp q_items length] in *.
    + auto.
    + rewrite wrap32_small by lia. lia.
  - unfold oq_write. cbn [fst q_tellg q_tellp q_items]. rewrite app_length. cbn [length].
    rewrite wrap32_small by lia. lia.
  - cbn. auto.
  - cbn. auto.
  - cbn. auto.
Qed.

(* ---------- abort releases every waiter, and stays in force ---------- *)
Theorem oq_abort_releases : forall s,
  let '(s', notes) := oq_abort s in
  read_guard s' = true /\ write_guard s' = true /\ In CV_tellg notes /\ In CV_tellp notes.
Proof.
  intros s. cbn. unfold read_guard, write_guard. cbn. repeat split; auto.
Qed.

Lemma abort_sticky_step : forall s o, q_abort s = true -> q_abort (fst (fst (qstep s o))) = true.
Proof.
  intros s o H. destruct o; cbn [qstep]; try (cbn; first [exact H | reflexivity]).
  unfold oq_read. destruct (q_items s); cbn; exact H.
Qed.

Theorem oq_abort_sticky : forall ops s s' outs,
  q_abort s = true -> qrun s ops = Some (s', outs) ->
  q_abort s' = true /\ read_guard s' = true /\ write_guard s' = true.
Proof.
  induction ops as [|o ops IH]; intros s s' outs Ha H; cbn [qrun] in H.
  - inversion H; subst. unfold read_guard, write_guard. rewrite Ha. auto.
  - destruct (qenabled s o); [|discriminate].
    destruct (qstep s o) as [[s1 ret] nn] eqn:St.
    destruct (qrun s1 ops) as [[s2 outs2]|] eqn:R; [|discriminate].
    inversion H; subst. apply (IH s1 s' outs2); [|exact R].
    pose proof (abort_sticky_step s o Ha) as P. rewrite St in P. exact P.
Qed.

(* after abort() no call of any method can block, whatever happened before and happens afterwards *)
Corollary oq_abort_never_blocks : forall ops s s' outs o,
  q_abort s = true -> qrun s ops = Some (s', outs) -> qenabled s' o = true.
Proof.
  intros ops s s' outs o Ha H. destruct (oq_abort_sticky ops s s' outs Ha H) as (_ & R & W).
  destruct o; cbn; auto.
Qed.

(* ---------- no lost wake-up ---------- *)
(* A waiter in read() sleeps on tellpChanged with predicate read_guard; a waiter in write() sleeps
   on tellgChanged with predicate write_guard.  Whenever a call of read / write / abort /
   setFileSize takes effect and turns one of the predicates from false to true, it notifies the
   condition variable the corresponding waiters sleep on. *)
Definition pipeline_op (o : qop) : bool := match o with QSetBufferSize _ => false | _ => true end.

Theorem oq_no_lost_wakeup : forall s o, pipeline_op o = true -> qenabled s o = true ->
  let '(s', _, notes) := qstep s o in
  (read_guard s = false -> read_guard s' = true -> In CV_tellp notes) /\
  (write_guard s = false -> write_guard s' = true -> In CV_tellg notes).
Proof.
  intros s o Hp En. destruct o; cbn [qstep pipeline_op] in *; try discriminate.
  - (* read *) unfold oq_read. destruct (q_items s) as [|x r] eqn:Q.
    + split; intros A B.
      * cbn [qenabled] in En. congruence.
      * unfold write_guard in *. cbn [q_abort q_items q_cap] in *. rewrite Q in A. congruence.
    + split; intros A B.
      * cbn [qenabled] in En. congruence.
      * left. reflexivity.
  - (* write *) unfold oq_write. split; intros A B.
    + left. reflexivity.
    + cbn [qenabled] in En. congruence.
  - (* abort *) cbn. split; intros _ _; auto.
  - (* setFileSize *) cbn. split; intros A B.
    + left. reflexivity.
    + unfold write_guard in *. cbn [q_abort q_items q_cap] in *. congruence.
Qed.

(* setBufferSize is configuration: it notifies nobody, so enlarging the capacity while a producer
   is asleep would not wake it.  File calls it only in its constructor, before any thread exists. *)
Theorem oq_setBufferSize_no_wakeup_refuted : exists s n,
  let '(s', _, notes) := qstep s (QSetBufferSize n) in
  write_guard s = false /\ write_guard s' = true /\ ~ In CV_tellg notes.
Proof.
  exists {| q_abort := false; q_items := [1]; q_tellg := 0; q_tellp := 1; q_cap := 1; q_fsz := M32 - 1; q_rd := 0 |}, 2.
  cbn. split; [reflexivity|]. split; [reflexivity|]. intros H; exact H.
Qed.

(* ---------- the destructor releases everything still queued, exactly once ---------- *)
Theorem oq_destroy_releases : forall s,
  let '(s', del) := oq_destroy s in del = q_items s /\ q_items s' = [] /\ q_abort s' = true.
Proof. intros s. cbn. auto. Qed.

(* ---------- non-vacuity ---------- *)
Example oq_history_example :
  qrun oq_init [QSetBufferSize 2; QWrite 7; QWrite 8; QRead; QWrite 9; QSetFileSize 3; QRead; QRead; QRead]
  = Some ({| q_abort := false; q_items := []; q_tellg := 3; q_tellp := 3; q_cap := 2; q_fsz := 3; q_rd := 6 |}, [7; 8; 9]).
Proof. vm_compute. reflexivity. Qed.
Example oq_blocked_example :
  qrun oq_init [QSetBufferSize 2; QWrite 7; QWrite 8; QWrite 9] = None /\ qrun oq_init [QRead] = None.
Proof. vm_compute. auto. Qed.
