(* FileFacts.v — theorems about the file-layer model that do not depend on the generated codecs. *)
From VB Require Import Base IR Sem BaseFacts FileModel.
From Coq Require Import Lia.
Local Open Scope Z_scope.

(* ---------- cutting the stream into containers ---------- *)
(* the pieces concatenate to the stream, whatever the container size and however far the fuel goes *)
Lemma pieces_concat : forall fuel n l, concat (pieces fuel n l) = l.
Proof.
  induction fuel as [|f IH]; intros n l; cbn [pieces].
  - cbn. apply app_nil_r.
  - destruct (zlen l <? n); cbn [concat].
    + apply app_nil_r.
    + rewrite IH. apply ztake_zdrop.
Qed.

(* hence the concatenated payload does not depend on the container size *)
Corollary pieces_config_independent : forall f1 n1 f2 n2 l,
  concat (pieces f1 n1 l) = concat (pieces f2 n2 l).
Proof. intros. rewrite !pieces_concat. reflexivity. Qed.

Lemma zlen_zdrop_ge {A} n (l : list A) : 0 <= n <= zlen l -> zlen (zdrop n l) = zlen l - n.
Proof. apply zdrop_zlen. Qed.

(* with a container size of at least one byte and the fuel the model uses, no piece is larger than
   the container size, every piece but the last is exactly that large, and the last is shorter *)
Lemma pieces_sizes : forall fuel n l, 1 <= n -> (length l <= fuel)%nat ->
  Forall (fun p => zlen p <= n) (pieces fuel n l) /\
  exists full last, pieces fuel n l = full ++ [last] /\ Forall (fun p => zlen p = n) full /\ zlen last < n.
Proof.
  induction fuel as [|f IH]; intros n l Hn Hf; cbn [pieces].
  - destruct l; [|cbn in Hf; lia]. split.
    + constructor; [cbn; lia|constructor].
    + exists [], []. cbn. repeat split; auto. lia.
  - destruct (zlen l <? n) eqn:E.
    + apply Z.ltb_lt in E. split.
      * constructor; [lia|constructor].
      * exists [], l. cbn. repeat split; auto.
    + apply Z.ltb_ge in E.
      assert (Hl : zlen (zdrop n l) = zlen l - n) by (apply zdrop_zlen; lia).
      assert (Hf' : (length (zdrop n l) <= f)%nat).
      { unfold zlen in *. lia. }
      destruct (IH n (zdrop n l) Hn Hf') as (A & full & last & P & F & L).
      assert (Ht : zlen (ztake n l) = n) by (apply ztake_zlen; lia).
      split.
      * constructor; [lia|exact A].
      * exists (ztake n l :: full), last. rewrite P. cbn. repeat split; auto.
Qed.

(* the number of bytes in all pieces is the number of bytes in the stream *)
Lemma sumlen_concat : forall ps, sumlen ps = zlen (concat ps).
Proof.
  induction ps as [|p ps IH]; cbn [sumlen fold_right concat].
  - reflexivity.
  - rewrite zlen_app. unfold sumlen in IH. rewrite IH. reflexivity.
Qed.

Lemma sumlen_pieces : forall fuel n l, sumlen (pieces fuel n l) = zlen l.
Proof. intros. rewrite sumlen_concat, pieces_concat. reflexivity. Qed.

(* ---------- the shape of a finished file ---------- *)
Section WriteShape.
Variable cs : classes.
Variable cap : Z.
Variables C_stats C_lc : Z.
Variables F_method F_usize F_cfile : Z.
Variables S_statsize S_fsize S_usize S_count S_rpo : Z.
Variable deflate : Z -> list Z -> list Z.
Hypothesis Hnd : NoDup [S_statsize; S_fsize; S_usize; S_count; S_rpo].

Let ws := write_session cs cap C_stats C_lc F_method F_usize F_cfile S_statsize S_fsize S_usize S_count S_rpo deflate.
Let lce := lc_encode cs cap C_lc F_method F_usize F_cfile deflate.

Lemma encode_all_spec : forall level ps conts,
  encode_all cs cap C_lc F_method F_usize F_cfile deflate level ps = Ok conts ->
  Forall2 (fun p c => lce level p = Ok c) ps conts.
Proof.
  induction ps as [|p ps IH]; intros conts H; cbn [encode_all] in H.
  - inversion H. constructor.
  - destruct (lc_encode cs cap C_lc F_method F_usize F_cfile deflate level p) as [b|] eqn:E; [|discriminate]. cbn [bind] in H.
    destruct (encode_all cs cap C_lc F_method F_usize F_cfile deflate level ps) as [rest|] eqn:R; [|discriminate]. cbn [bind] in H.
    inversion H; subst. constructor; [exact E|apply IH; reflexivity].
Qed.

Lemma ids_distinct :
  S_fsize <> S_usize /\ S_fsize <> S_count /\ S_usize <> S_count /\ S_rpo <> S_fsize /\ S_rpo <> S_usize /\ S_rpo <> S_count /\ S_statsize <> S_fsize /\ S_statsize <> S_usize /\ S_statsize <> S_count /\ S_statsize <> S_rpo.
Proof.
  inversion Hnd as [|a l N1 D1]; subst. inversion D1 as [|a l N2 D2]; subst. inversion D2 as [|a l N3 D3]; subst.
  inversion D3 as [|a l N4 D4]; subst. cbn in *. repeat split; intros E; subst; tauto.
Qed.

Lemma upd_same s f v : upd s f v f = v.
Proof. unfold upd. rewrite Z.eqb_refl. reflexivity. Qed.
Lemma upd_other s f v g : g <> f -> upd s f v g = s g.
Proof. unfold upd. intros H. destruct (g =? f) eqn:E; [apply Z.eqb_eq in E; contradiction|reflexivity]. Qed.

Lemma sumlen_app a b : sumlen (a ++ b) = sumlen a + sumlen b.
Proof. rewrite !sumlen_concat, concat_app, zlen_app. reflexivity. Qed.

(* A finished file is the encoded statistics followed by nothing but containers; the containers are
   the encodings of the pieces the stream is cut into (plus one empty restore-point container when
   enabled); the pieces concatenate to the objects' encodings in the order written, whatever the
   container size and compression level; the statistics written hold the file size, uncompressed
   size and object count recomputed from exactly those pieces, the restore-point offset designates
   the trailing container, and every other caller-supplied member is passed through unchanged. *)
Theorem write_session_shape : forall cfg hdr objs f, ws cfg hdr objs = Ok f ->
  let U := concat (map fst objs) in
  exists ps conts hdr' hbytes h0 h00 hbytes0,
    f = hbytes ++ concat conts /\   enc cs cap C_stats hdr' = Ok (h0, hbytes) /\ enc cs cap C_stats hdr = Ok (h00, hbytes0) /\   Forall2 (fun p c => lce (w_level cfg) p = Ok c) (if w_restore cfg then ps ++ [[]] else ps) conts /\   ps = pieces (length U) (w_cs cfg) U /\ concat ps = U /\   hdr' S_count = VInt (Z.of_nat (length (filter snd objs)) mod 2 ^ 32) /\   hdr' S_usize = VInt ((geti hdr S_statsize + zlen U + 32 * zlen (if w_restore cfg then ps ++ [[]] else ps)) mod 2 ^ 64) /\   hdr' S_fsize = VInt (zlen hbytes0 + zlen (concat conts)) /\   (w_restore cfg = true -> hdr' S_rpo = VInt (zlen hbytes0 + zlen (concat (firstn (length ps) conts)))) /\   (w_restore cfg = false -> hdr' S_rpo = hdr S_rpo) /\   (forall g, g <> S_fsize -> g <> S_usize -> g <> S_count -> g <> S_rpo -> hdr' g = hdr g).
Proof.
  intros cfg hdr objs f H U. unfold ws, write_session in H. fold U in H.
  destruct ids_distinct as (D1 & D2 & D3 & D4 & D5 & D6 & D7 & D8 & D9 & D10).
  set (ps := pieces (length U) (w_cs cfg) U) in *.
  set (ps' := if w_restore cfg then ps ++ [[]] else ps) in *.
  destruct (encode_all cs cap C_lc F_method F_usize F_cfile deflate (w_level cfg) ps') as [conts|] eqn:E; [|discriminate]. cbn [bind] in H.
  destruct (enc cs cap C_stats hdr) as [[h00 hb0]|] eqn:H0; [|discriminate]. cbn [bind snd] in H.
  match type of H with context [enc cs cap C_stats ?h2] => set (hdr2 := h2) in * end.
  destruct (enc cs cap C_stats hdr2) as [[hs hb]|] eqn:H2; [|discriminate]. cbn [bind snd] in H. inversion H; subst f; clear H.
  exists ps, conts, hdr2, hb, hs, h00, hb0.
  split; [reflexivity|]. split; [exact H2|]. split; [reflexivity|].
  split; [apply encode_all_spec in E; exact E|]. split; [reflexivity|]. split; [apply pieces_concat|].
  split; [unfold hdr2; apply upd_same|].
  split.
  { unfold hdr2. rewrite upd_other by auto. rewrite upd_same. f_equal. f_equal. f_equal.
    subst ps'. destruct (w_restore cfg).
    - rewrite sumlen_app. unfold ps. rewrite sumlen_pieces. cbn. lia.
    - unfold ps. rewrite sumlen_pieces. reflexivity. }
  split.
  { unfold hdr2. rewrite upd_other by auto. rewrite upd_other by auto. rewrite upd_same. reflexivity. }
  split.
  { intros R. unfold hdr2. rewrite !upd_other by auto. rewrite R. rewrite upd_same. reflexivity. }
  split.
  { intros R. unfold hdr2. rewrite !upd_other by auto. rewrite R. reflexivity. }
  intros g G1 G2 G3 G4. unfold hdr2. rewrite !upd_other by auto.
  destruct (w_restore cfg); [rewrite upd_other by auto|]; reflexivity.
Qed.
End WriteShape.
