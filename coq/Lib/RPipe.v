(* RPipe.v — the read session as three threads over the in-memory stream and the object queue:
     W2 (compressedFileReadThread): take the next container from the file, append it to the stream
        (UncompressedFile::write(logContainer) waits for tellp - tellg < bufferSize or abort); at the end of the
        file — or when close() cleared its running flag — declare the end of the stream
     W1 (uncompressedFileReadThread): a reader program: read n bytes (waits until they are there, the request
        crosses the declared end, or abort), seek, deliver an object to the queue (waits while it is at capacity,
        unless aborted); at its end declare the end of the queue
     A  (application): read() k times, then close() = flags; U.abort; Q.abort; join W2; join W1; the
        queue's destructor deletes what is still queued
   The reader program is an arbitrary finite tree (it may depend on the bytes read in any way).
   Theorems: no reachable state is stuck (C06) — read(n) raises the buffer size to a request larger than it
   before it waits, so the writer can always supply what the reader waits for; the data held is bounded (C12);
   every object is owned by exactly one party (C11/C13). *)
From Coq Require Import List ZArith Bool Lia.
From VB Require Import Base BaseFacts.
Import ListNotations.
Local Open Scope Z_scope.

Inductive rprog :=
| RRead (n : Z) (k : list Z -> bool -> rprog)     (* is.read(.., n): continues with the bytes and good() *)
| RSeek (off : Z) (k : rprog)                     (* is.seekg(off, cur) *)
| RDeliver (o : Z) (k : rprog)                    (* m_readWriteQueue.write(obj) *)
| RDrop (k : rprog)                               (* m_uncompressedFile.dropOldData() *)
| REnd.

Inductive w2pc := W2Next (rest : list (list Z)) | W2Write (c : list Z) (rest : list (list Z)) | W2SetEof | W2Done.
Inductive w1pc := W1Run (p : rprog) | W1Wait (n : Z) (k : list Z -> bool -> rprog) | W1SetEof | W1Done.
Inductive apc :=
| ARead (k : nat)                  (* k more calls of read() before close() *)
| AClose (i : nat)                 (* step i of close(): 0 flag2:=false+file.close, 1 flag1:=false, 2 U.abort, 3 Q.abort, 4 join W2, 5 join W1, 6 ~ObjectQueue *)
| ADone.

Record rs := {
  a_pc : apc; got : list (option Z);          (* results of read(): object ids / nullptr *)
  q : list Z; q_eof : bool; q_abort : bool;
  w1 : w1pc;
  udata : list Z; tg : Z; u_eof : bool; u_abort : bool;
  w2 : w2pc; run2 : bool;
  freed : list Z;                              (* objects deleted by the library *)
  hw : Z;                                      (* ghost: the furthest get position reached *)
  dropat : Z;                                  (* ghost: get position at the last dropOldData *)
  made : list Z;                               (* ghost: objects the reader has handed to the queue *)
  bufsz : Z                                     (* m_bufferSize of the stream: raised by a read request larger than it *)
}.

Section Read.
Variables cap buf : Z.

Definition init (conts : list (list Z)) (p : rprog) (k : nat) : rs :=
  {| a_pc := ARead k; got := []; q := []; q_eof := false; q_abort := false; w1 := W1Run p;
     udata := []; tg := 0; u_eof := false; u_abort := false; w2 := W2Next conts; run2 := true; freed := []; hw := 0; dropat := 0; made := []; bufsz := buf |}.

Definition fill (s : rs) : Z := zlen (udata s) - tg s.

Definition upd_a (s : rs) p g := {| a_pc := p; got := g; q := q s; q_eof := q_eof s; q_abort := q_abort s; w1 := w1 s;
  udata := udata s; tg := tg s; u_eof := u_eof s; u_abort := u_abort s; w2 := w2 s; run2 := run2 s; freed := freed s; hw := hw s; dropat := dropat s; made := made s; bufsz := bufsz s |}.

Definition step_A (s : rs) : option rs :=
  match a_pc s with
  | ARead (S k) =>
      (* ObjectQueue::read: waits while the queue is empty, its end not declared and not aborted *)
      match q s with
      | o :: r => Some {| a_pc := ARead k; got := got s ++ [Some o]; q := r; q_eof := q_eof s; q_abort := q_abort s; w1 := w1 s;
                          udata := udata s; tg := tg s; u_eof := u_eof s; u_abort := u_abort s; w2 := w2 s; run2 := run2 s; freed := freed s; hw := hw s; dropat := dropat s; made := made s; bufsz := bufsz s |}
      | [] => if q_eof s || q_abort s then Some (upd_a s (ARead k) (got s ++ [None])) else None
      end
  | ARead O => Some (upd_a s (AClose 0) (got s))
  | AClose 0 => Some {| a_pc := AClose 1; got := got s; q := q s; q_eof := q_eof s; q_abort := q_abort s; w1 := w1 s;
                        udata := udata s; tg := tg s; u_eof := u_eof s; u_abort := u_abort s; w2 := w2 s; run2 := false; freed := freed s; hw := hw s; dropat := dropat s; made := made s; bufsz := bufsz s |}
  | AClose 1 => Some (upd_a s (AClose 2) (got s))
  | AClose 2 => Some {| a_pc := AClose 3; got := got s; q := q s; q_eof := q_eof s; q_abort := q_abort s; w1 := w1 s;
                        udata := udata s; tg := tg s; u_eof := u_eof s; u_abort := true; w2 := w2 s; run2 := run2 s; freed := freed s; hw := hw s; dropat := dropat s; made := made s; bufsz := bufsz s |}
  | AClose 3 => Some {| a_pc := AClose 4; got := got s; q := q s; q_eof := q_eof s; q_abort := true; w1 := w1 s;
                        udata := udata s; tg := tg s; u_eof := u_eof s; u_abort := u_abort s; w2 := w2 s; run2 := run2 s; freed := freed s; hw := hw s; dropat := dropat s; made := made s; bufsz := bufsz s |}
  | AClose 4 => match w2 s with W2Done => Some (upd_a s (AClose 5) (got s)) | _ => None end
  | AClose 5 => match w1 s with W1Done => Some (upd_a s (AClose 6) (got s)) | _ => None end
  | AClose 6 => Some {| a_pc := ADone; got := got s; q := []; q_eof := q_eof s; q_abort := q_abort s; w1 := w1 s;
                        udata := udata s; tg := tg s; u_eof := u_eof s; u_abort := u_abort s; w2 := w2 s; run2 := run2 s; freed := freed s ++ q s; hw := hw s; dropat := dropat s; made := made s; bufsz := bufsz s |}
  | AClose _ => None
  | ADone => None
  end.

Definition upd_w1 (s : rs) p := {| a_pc := a_pc s; got := got s; q := q s; q_eof := q_eof s; q_abort := q_abort s; w1 := p;
  udata := udata s; tg := tg s; u_eof := u_eof s; u_abort := u_abort s; w2 := w2 s; run2 := run2 s; freed := freed s; hw := hw s; dropat := dropat s; made := made s; bufsz := bufsz s |}.

Definition step_W1 (s : rs) : option rs :=
  match w1 s with
  | W1Run (RRead n k) =>
      (* UncompressedFile::read, on entry: a request larger than the buffer raises the buffer size (and notifies the writer) *)
      Some {| a_pc := a_pc s; got := got s; q := q s; q_eof := q_eof s; q_abort := q_abort s; w1 := W1Wait n k;
              udata := udata s; tg := tg s; u_eof := u_eof s; u_abort := u_abort s; w2 := w2 s; run2 := run2 s; freed := freed s;
              hw := hw s; dropat := dropat s; made := made s; bufsz := Z.max (bufsz s) n |}
  | W1Wait n k =>
      (* ... then it waits until n bytes are there, the request crosses the declared end, or abort *)
      if u_abort s || (n + tg s <=? zlen (udata s)) || u_eof s then
        let beyond := u_eof s && (zlen (udata s) <? n + tg s) in
        let bytes := ztake n (zdrop (tg s) (udata s)) in
        Some {| a_pc := a_pc s; got := got s; q := q s; q_eof := q_eof s; q_abort := q_abort s; w1 := W1Run (k bytes (negb beyond));
                udata := udata s; tg := tg s + zlen bytes; u_eof := u_eof s; u_abort := u_abort s; w2 := w2 s; run2 := run2 s; freed := freed s;
                hw := Z.max (hw s) (tg s + zlen bytes); dropat := dropat s; made := made s; bufsz := bufsz s |}
      else None
  | W1Run (RSeek off k) =>
      Some {| a_pc := a_pc s; got := got s; q := q s; q_eof := q_eof s; q_abort := q_abort s; w1 := W1Run k;
              udata := udata s; tg := if u_eof s then Z.min (tg s + off) (zlen (udata s)) else tg s + off;
              u_eof := u_eof s; u_abort := u_abort s; w2 := w2 s; run2 := run2 s; freed := freed s;
              hw := Z.max (hw s) (if u_eof s then Z.min (tg s + off) (zlen (udata s)) else tg s + off); dropat := dropat s; made := made s; bufsz := bufsz s |}
  | W1Run (RDeliver o k) =>
      (* ObjectQueue::write: waits while the queue is at its capacity, unless aborted *)
      if q_abort s || (zlen (q s) <? cap) then
        Some {| a_pc := a_pc s; got := got s; q := q s ++ [o]; q_eof := q_eof s; q_abort := q_abort s; w1 := W1Run k;
                udata := udata s; tg := tg s; u_eof := u_eof s; u_abort := u_abort s; w2 := w2 s; run2 := run2 s; freed := freed s;
                hw := hw s; dropat := dropat s; made := made s ++ [o]; bufsz := bufsz s |}
      else None
  | W1Run (RDrop k) =>
      Some {| a_pc := a_pc s; got := got s; q := q s; q_eof := q_eof s; q_abort := q_abort s; w1 := W1Run k;
              udata := udata s; tg := tg s; u_eof := u_eof s; u_abort := u_abort s; w2 := w2 s; run2 := run2 s; freed := freed s;
              hw := hw s; dropat := Z.max (dropat s) (Z.min (tg s) (zlen (udata s))); made := made s; bufsz := bufsz s |}
  | W1Run REnd => Some (upd_w1 s W1SetEof)
  | W1SetEof => Some {| a_pc := a_pc s; got := got s; q := q s; q_eof := true; q_abort := q_abort s; w1 := W1Done;
                        udata := udata s; tg := tg s; u_eof := u_eof s; u_abort := u_abort s; w2 := w2 s; run2 := run2 s; freed := freed s; hw := hw s; dropat := dropat s; made := made s; bufsz := bufsz s |}
  | W1Done => None
  end.

Definition upd_w2 (s : rs) p := {| a_pc := a_pc s; got := got s; q := q s; q_eof := q_eof s; q_abort := q_abort s; w1 := w1 s;
  udata := udata s; tg := tg s; u_eof := u_eof s; u_abort := u_abort s; w2 := p; run2 := run2 s; freed := freed s; hw := hw s; dropat := dropat s; made := made s; bufsz := bufsz s |}.

Definition step_W2 (s : rs) : option rs :=
  match w2 s with
  | W2Next rest =>
      match rest with
      | c :: r => if run2 s then Some (upd_w2 s (W2Write c r)) else Some (upd_w2 s W2SetEof)
      | [] => Some (upd_w2 s W2SetEof)
      end
  | W2Write c r =>
      (* UncompressedFile::write(logContainer): waits for tellp - tellg < bufferSize or abort *)
      if u_abort s || (fill s <? bufsz s) then
        Some {| a_pc := a_pc s; got := got s; q := q s; q_eof := q_eof s; q_abort := q_abort s; w1 := w1 s;
                udata := udata s ++ c; tg := tg s; u_eof := u_eof s; u_abort := u_abort s; w2 := W2Next r; run2 := run2 s; freed := freed s; hw := hw s; dropat := dropat s; made := made s; bufsz := bufsz s |}
      else None
  | W2SetEof => Some {| a_pc := a_pc s; got := got s; q := q s; q_eof := q_eof s; q_abort := q_abort s; w1 := w1 s;
                        udata := udata s; tg := tg s; u_eof := true; u_abort := u_abort s; w2 := W2Done; run2 := run2 s; freed := freed s; hw := hw s; dropat := dropat s; made := made s; bufsz := bufsz s |}
  | W2Done => None
  end.

Inductive thread := TA | TW1 | TW2.
Definition step (t : thread) (s : rs) : option rs :=
  match t with TA => step_A s | TW1 => step_W1 s | TW2 => step_W2 s end.

Inductive reach (c : list (list Z)) (p : rprog) (k : nat) : rs -> Prop :=
| reach_init : reach c p k (init c p k)
| reach_step : forall s t s', reach c p k s -> step t s = Some s' -> reach c p k s'.

Definition finished (s : rs) : Prop := a_pc s = ADone /\ w1 s = W1Done /\ w2 s = W2Done.

Definition close_ge (n : nat) (p : apc) : bool :=
  match p with AClose i => Nat.leb n i | ADone => true | ARead _ => false end.

Definition Inv (s : rs) : Prop :=
  (w1 s = W1Done -> q_eof s = true) /\
  (w2 s = W2Done -> u_eof s = true) /\
  (u_eof s = true -> w2 s = W2Done) /\
  (close_ge 3 (a_pc s) = true -> u_abort s = true) /\
  (close_ge 4 (a_pc s) = true -> q_abort s = true) /\
  (close_ge 5 (a_pc s) = true -> w2 s = W2Done) /\
  (close_ge 6 (a_pc s) = true -> w1 s = W1Done) /\
  (forall i, a_pc s = AClose i -> (i <= 6)%nat) /\
  (forall n k, w1 s = W1Wait n k -> n <= bufsz s).

Lemma inv_init c p k : Inv (init c p k).
Proof.
  unfold Inv, init; cbn.
  split; [intros C; discriminate|]. split; [intros C; discriminate|]. split; [intros C; discriminate|].
  split; [intros C; discriminate|]. split; [intros C; discriminate|]. split; [intros C; discriminate|].
  split; [intros C; discriminate|]. split; [intros i C; discriminate|]. intros n k0 C; discriminate.
Qed.

Ltac use_hyps :=
  repeat match goal with
         | H : ?a = ?a -> _ |- _ => specialize (H eq_refl)
         | H : ?P -> _, C : ?P |- _ => specialize (H C)
         | H : _ /\ _ |- _ => destruct H
         end.
Ltac crush :=
  repeat (split || intro); subst; use_hyps; try discriminate; try congruence; try tauto; try lia; auto.

Lemma inv_step : forall s t s', Inv s -> step t s = Some s' -> Inv s'.
Proof.
  intros s t s' (I1 & I2 & I3 & I4 & I5 & I6 & I7 & I8 & I9) H.
  destruct t; cbn [step] in H.
  - (* application *)
    unfold step_A in H. destruct (a_pc s) as [[|k]|i|] eqn:EA.
    + inversion H; subst; clear H. unfold Inv, upd_a; cbn in *. crush. inversion H; lia.
    + destruct (q s) as [|o r] eqn:EQ.
      * destruct (q_eof s || q_abort s); [|discriminate]. inversion H; subst; clear H. unfold Inv, upd_a; cbn in *. crush.
      * inversion H; subst; clear H. unfold Inv; cbn in *. crush.
    + pose proof (I8 i eq_refl) as Hi.
      destruct i as [|[|[|[|[|[|[|i]]]]]]]; try lia; cbn in *.
      * inversion H; subst; clear H. unfold Inv; cbn in *. crush. inversion H; lia.
      * inversion H; subst; clear H. unfold Inv, upd_a; cbn in *. crush. inversion H; lia.
      * inversion H; subst; clear H. unfold Inv; cbn in *. crush. inversion H; lia.
      * inversion H; subst; clear H. unfold Inv; cbn in *. crush. inversion H; lia.
      * destruct (w2 s) eqn:E2; try discriminate. inversion H; subst; clear H. unfold Inv, upd_a; cbn in *. rewrite ?E2 in *. crush. inversion H; lia.
      * destruct (w1 s) eqn:E1; try discriminate. inversion H; subst; clear H. unfold Inv, upd_a; cbn in *. rewrite ?E1 in *. crush. inversion H; lia.
      * inversion H; subst; clear H. unfold Inv; cbn in *. crush.
    + discriminate.
  - (* worker 1 *)
    unfold step_W1 in H. destruct (w1 s) as [[n k|off k|o k|k|]|n k| |] eqn:E1.
    + inversion H; subst; clear H. unfold Inv; cbn in *. rewrite ?E1 in *. crush. inversion H; subst. match goal with X : (_ ?= _) = Gt |- _ => apply Z.compare_gt_iff in X end. lia.
    + inversion H; subst; clear H. unfold Inv; cbn in *. rewrite ?E1 in *. crush.
    + destruct (q_abort s || (zlen (q s) <? cap)); [|discriminate]. inversion H; subst; clear H.
      unfold Inv; cbn in *. rewrite ?E1 in *. crush.
    + inversion H; subst; clear H. unfold Inv; cbn in *. rewrite ?E1 in *. crush.
    + inversion H; subst; clear H. unfold Inv, upd_w1; cbn in *. rewrite ?E1 in *. crush.
    + destruct (u_abort s || (n + tg s <=? zlen (udata s)) || u_eof s); [|discriminate]. inversion H; subst; clear H.
      unfold Inv; cbn in *. rewrite ?E1 in *. crush.
    + inversion H; subst; clear H. unfold Inv; cbn in *. rewrite ?E1 in *. crush.
    + discriminate.
  - (* worker 2 *)
    unfold step_W2 in H. destruct (w2 s) as [[|c r]|c r| |] eqn:E2.
    + inversion H; subst; clear H. unfold Inv, upd_w2; cbn in *. rewrite ?E2 in *. crush.
    + destruct (run2 s); inversion H; subst; clear H; unfold Inv, upd_w2; cbn in *; rewrite ?E2 in *; crush.
    + destruct (u_abort s || (fill s <? bufsz s)); [|discriminate]. inversion H; subst; clear H. unfold Inv; cbn in *. rewrite ?E2 in *. crush.
    + inversion H; subst; clear H. unfold Inv; cbn in *. rewrite ?E2 in *. crush.
    + discriminate.
Qed.

Lemma inv_reach c p k s : reach c p k s -> Inv s.
Proof. induction 1; [apply inv_init|eapply inv_step; eauto]. Qed.

(* ---------- C06 (read): no reachable state is stuck ---------- *)
Hypothesis Hcap : 1 <= cap.

Theorem stuck_free : forall s, Inv s -> ~ finished s -> exists t s', step t s = Some s'.
Proof.
  intros s (I1 & I2 & I3 & I4 & I5 & I6 & I7 & I8 & I9) NF.
  (* whenever worker 2 is not done it can move unless it waits in write(container) *)
  assert (W2ok : w2 s <> W2Done -> (u_abort s = true \/ fill s < bufsz s) -> exists t s', step t s = Some s').
  { intros N G. exists TW2. unfold step, step_W2. destruct (w2 s) as [[|c r]|c r| |] eqn:E2; try (eexists; reflexivity).
    - destruct (run2 s); eexists; reflexivity.
    - replace (u_abort s || (fill s <? bufsz s)) with true; [eexists; reflexivity|].
      symmetry. destruct G as [G|G]; [rewrite G; reflexivity|]. apply orb_true_intro. right. apply Z.ltb_lt. exact G.
    - contradiction. }
  (* whenever worker 1 is not done it can move unless it waits in read(n) or in write(obj) *)
  assert (W1ok : w1 s <> W1Done ->
            (forall n k, w1 s = W1Wait n k -> u_abort s = true \/ n + tg s <= zlen (udata s) \/ u_eof s = true) ->
            (forall o k, w1 s = W1Run (RDeliver o k) -> q_abort s = true \/ zlen (q s) < cap) ->
            exists t s', step t s = Some s').
  { intros N GR GD. exists TW1. unfold step, step_W1. destruct (w1 s) as [[n k|off k|o k|k|]|n k| |] eqn:E1; try (eexists; reflexivity).
    - replace (q_abort s || (zlen (q s) <? cap)) with true; [eexists; reflexivity|].
      symmetry. destruct (GD o k eq_refl) as [G|G]; [rewrite G; reflexivity|]. apply Z.ltb_lt in G. rewrite G. apply orb_true_r.
    - replace (u_abort s || (n + tg s <=? zlen (udata s)) || u_eof s) with true; [eexists; reflexivity|].
      symmetry. destruct (GR n k eq_refl) as [G|[G|G]].
      + rewrite G. reflexivity.
      + apply Z.leb_le in G. rewrite G. rewrite orb_true_r. reflexivity.
      + rewrite G. rewrite orb_true_r. reflexivity.
    - contradiction. }
  destruct (a_pc s) as [[|k]|i|] eqn:EA.
  - exists TA. eexists. unfold step, step_A. rewrite EA. reflexivity.
  - (* the application is in read() *)
    destruct (q s) as [|o r] eqn:EQ.
    2:{ exists TA. eexists. unfold step, step_A. rewrite EA, EQ. reflexivity. }
    destruct (q_eof s || q_abort s) eqn:EG.
    { exists TA. eexists. unfold step, step_A. rewrite EA, EQ, EG. reflexivity. }
    apply orb_false_elim in EG. destruct EG as [Ee Ea].
    (* the queue is empty and its end is not declared: worker 1 is not done *)
    assert (N1 : w1 s <> W1Done) by (intros C; apply I1 in C; congruence).
    destruct (w1 s) as [[n k0|off k0|o k0|k0|]|n k0| |] eqn:E1; try (apply W1ok; [exact N1|intros ? ? C; discriminate|intros ? ? C; discriminate]).
    + (* worker 1 in write(obj): the queue is empty *)
      apply W1ok; [exact N1|intros ? ? C; discriminate|]. intros o' k' C. right. rewrite ?EQ. cbn. lia.
    + (* worker 1 waits in read(n) *)
      destruct (u_abort s) eqn:Eu; [apply W1ok; [exact N1| |intros ? ? C; discriminate]; intros n' k' C; left; reflexivity|].
      destruct (n + tg s <=? zlen (udata s)) eqn:En.
      { apply W1ok; [exact N1| |intros ? ? C; discriminate]. intros n' k' C. inversion C; subst. right. left. apply Z.leb_le. exact En. }
      destruct (u_eof s) eqn:Ef.
      { apply W1ok; [exact N1| |intros ? ? C; discriminate]. intros n' k' C. right. right. reflexivity. }
      (* fewer than n bytes buffered, n <= buffer size (raised on entry), the end not declared: worker 2 is not done and may write *)
      apply Z.leb_gt in En. pose proof (I9 n k0 eq_refl) as Hn.
      apply W2ok; [intros C; apply I2 in C; congruence|]. right. unfold fill. lia.
  - (* close() *)
    pose proof (I8 i eq_refl) as Hi.
    destruct i as [|[|[|[|[|[|[|i]]]]]]]; try lia; cbn in *;
      try (exists TA; eexists; unfold step, step_A; rewrite EA; reflexivity).
    + (* join worker 2: both aborts are in force *)
      assert (D : w2 s = W2Done \/ w2 s <> W2Done) by (destruct (w2 s); [right|right|right|left]; congruence).
      destruct D as [D|D].
      * exists TA. eexists. unfold step, step_A. rewrite EA, D. reflexivity.
      * apply W2ok; [exact D|left; apply I4; reflexivity].
    + (* join worker 1 *)
      assert (D : w1 s = W1Done \/ w1 s <> W1Done) by (destruct (w1 s); [right|right|right|left]; congruence).
      destruct D as [D|D].
      * exists TA. eexists. unfold step, step_A. rewrite EA, D. reflexivity.
      * apply W1ok; [exact D| |]; intros; left; auto.
  - exfalso. apply NF. repeat split; auto.
Qed.

End Read.

(* ====================================================================================== *)
Section ReadData.
Variables cap buf : Z.
Notation step := (step cap).
Notation reach := (reach cap buf).

(* ---------- C12 (read): data held is bounded, independent of the length of the file ---------- *)
(* M bounds the size of a single container, R every single read request of the reader.  While close() has not
   aborted the stream:
   - the bytes buffered ahead of the furthest position the reader has reached stay below max(buffer, R) + one container;
   - the queue never exceeds its capacity;
   - dropOldData was last called no further back than the reader's progress since then (span).
   What UncompressedFile holds is therefore at most  span + buffer + 2 containers, whatever the file length
   (C15_drop_frame: after dropOldData the first container kept ends after the get position). *)
(* R bounds every single request of the reader program *)
Inductive req_bound (R : Z) : rprog -> Prop :=
| rb_read : forall n k, n <= R -> (forall b g, req_bound R (k b g)) -> req_bound R (RRead n k)
| rb_seek : forall off k, req_bound R k -> req_bound R (RSeek off k)
| rb_deliver : forall o k, req_bound R k -> req_bound R (RDeliver o k)
| rb_drop : forall k, req_bound R k -> req_bound R (RDrop k)
| rb_end : req_bound R REnd.
Definition w1_bound (R : Z) (p : w1pc) : Prop :=
  match p with W1Run r => req_bound R r | W1Wait n k => n <= R /\ forall b g, req_bound R (k b g) | _ => True end.

Definition BoundR (M R : Z) (s : rs) : Prop :=
  tg s <= hw s /\ dropat s <= hw s /\
  (u_abort s = false -> zlen (udata s) - hw s <= Z.max 0 (Z.max buf R - 1) + M) /\
  (q_abort s = false -> zlen (q s) <= Z.max cap 0) /\
  match w2 s with W2Next r | W2Write _ r => Forall (fun c => zlen c <= M) r | _ => True end /\
  match w2 s with W2Write c _ => zlen c <= M | _ => True end /\
  buf <= bufsz s <= Z.max buf R /\ w1_bound R (w1 s).

Theorem read_bounded : forall M R c p k s, 0 <= M -> Forall (fun x => zlen x <= M) c -> req_bound R p -> reach c p k s -> BoundR M R s.
Proof.
  intros M R0 c p k s HM Hc HR R. induction R as [|s t s' R IH H].
  - unfold BoundR, init; cbn. repeat split; auto; try lia.
  - destruct IH as (B1 & B2 & B3 & B4 & B5 & B6 & B7 & B8). destruct t; cbn [RPipe.step] in H.
    + unfold step_A in H. destruct (a_pc s) as [[|k']|i|] eqn:EA.
      * inversion H; subst; clear H. unfold BoundR, upd_a; cbn. repeat split; auto; lia.
      * destruct (q s) as [|o r] eqn:EQ.
        -- destruct (q_eof s || q_abort s); [|discriminate]. inversion H; subst; clear H. unfold BoundR, upd_a; cbn. rewrite ?EQ in *. repeat split; auto; lia.
        -- inversion H; subst; clear H. unfold BoundR; cbn. rewrite ?EQ in *. repeat split; auto; try lia.
           intros A. specialize (B4 A). rewrite zlen_cons in B4. pose proof (zlen_nonneg r). lia.
      * destruct i as [|[|[|[|[|[|[|i]]]]]]]; try discriminate.
        -- inversion H; subst; clear H. unfold BoundR; cbn. repeat split; auto; lia.
        -- inversion H; subst; clear H. unfold BoundR, upd_a; cbn. repeat split; auto; lia.
        -- inversion H; subst; clear H. unfold BoundR; cbn. repeat split; auto; try lia; try (intros C; discriminate).
        -- inversion H; subst; clear H. unfold BoundR; cbn. repeat split; auto; try lia; try (intros C; discriminate).
        -- destruct (w2 s) eqn:E2; try discriminate. inversion H; subst; clear H. unfold BoundR, upd_a; cbn. rewrite ?E2 in *. repeat split; auto; lia.
        -- destruct (w1 s) eqn:E1; try discriminate. inversion H; subst; clear H. unfold BoundR, upd_a; cbn. rewrite ?E1 in *. repeat split; auto; lia.
        -- inversion H; subst; clear H. unfold BoundR; cbn. repeat split; auto; try lia; try (intros _; cbn; lia).
      * discriminate.
    + unfold step_W1 in H. destruct (w1 s) as [[n k'|off k'|o k'|k'|]|n k'| |] eqn:E1; cbn [w1_bound] in B8.
      * inversion H; subst; clear H. inversion B8; subst. unfold BoundR; cbn. repeat split; auto; try lia.
      * inversion H; subst; clear H. inversion B8; subst. unfold BoundR; cbn. repeat split; auto; try lia; try (intros A; specialize (B3 A); lia).
      * destruct (q_abort s || (zlen (q s) <? cap)) eqn:G; [|discriminate]. inversion H; subst; clear H. inversion B8; subst.
        unfold BoundR; cbn. repeat split; auto; try lia.
        intros A. rewrite A in G. cbn in G. apply Z.ltb_lt in G. rewrite zlen_app. cbn. lia.
      * inversion H; subst; clear H. inversion B8; subst. unfold BoundR; cbn. repeat split; auto; lia.
      * inversion H; subst; clear H. unfold BoundR, upd_w1; cbn. repeat split; auto; lia.
      * destruct (u_abort s || (n + tg s <=? zlen (udata s)) || u_eof s); [|discriminate]. inversion H; subst; clear H.
        destruct B8 as [Bn Bk].
        unfold BoundR; cbn. pose proof (zlen_nonneg (ztake n (zdrop (tg s) (udata s)))). repeat split; auto; try lia;
          try (intros A; specialize (B3 A); lia).
      * inversion H; subst; clear H. unfold BoundR; cbn. repeat split; auto; lia.
      * discriminate.
    + unfold step_W2 in H. destruct (w2 s) as [[|c' r]|c' r| |] eqn:E2.
      * inversion H; subst; clear H. unfold BoundR, upd_w2; cbn. repeat split; auto; lia.
      * apply Forall_cons_iff in B5. destruct B5 as [Bc Br].
        destruct (run2 s); inversion H; subst; clear H; unfold BoundR, upd_w2; cbn; repeat split; auto; lia.
      * destruct (u_abort s || (fill s <? bufsz s)) eqn:G; [|discriminate]. inversion H; subst; clear H.
        unfold BoundR; cbn. repeat split; auto; try lia.
        intros A. rewrite A in G. cbn in G. apply Z.ltb_lt in G. unfold fill in G. rewrite zlen_app. lia.
      * inversion H; subst; clear H. unfold BoundR; cbn. repeat split; auto; lia.
      * discriminate.
Qed.

(* ---------- C11 / C13 (read): every object has exactly one owner ---------- *)
Fixpoint somes (l : list (option Z)) : list Z :=
  match l with [] => [] | Some x :: r => x :: somes r | None :: r => somes r end.
Lemma somes_app a b : somes (a ++ b) = somes a ++ somes b.
Proof. induction a as [|[x|] a IH]; cbn; [reflexivity|f_equal; exact IH|exact IH]. Qed.

(* the objects the reader has handed over are, in order: those returned to the application, those
   still queued, those deleted by the queue's destructor — each exactly once *)
Definition Owned (s : rs) : Prop :=
  made s = somes (got s) ++ q s ++ freed s /\
  (freed s <> [] -> a_pc s = ADone) /\
  (close_ge 6 (a_pc s) = true -> w1 s = W1Done) /\
  (a_pc s = ADone -> q s = []).

Theorem read_owned : forall c p k s, reach c p k s -> Owned s.
Proof.
  intros c p k s R. induction R as [|s t s' R IH H].
  - unfold Owned, init; cbn. repeat split; auto; try (intros C; discriminate); intros C; contradiction.
  - destruct IH as (O1 & O2 & O3 & O4). destruct t; cbn [RPipe.step] in H.
    + unfold step_A in H. destruct (a_pc s) as [[|k']|i|] eqn:EA.
      * inversion H; subst; clear H. unfold Owned, upd_a; cbn. repeat split; auto; try (intros C; discriminate).
        intros C. specialize (O2 C). discriminate.
      * destruct (q s) as [|o r] eqn:EQ.
        -- destruct (q_eof s || q_abort s); [|discriminate]. inversion H; subst; clear H. unfold Owned, upd_a; cbn. rewrite ?EQ in *.
           rewrite somes_app. cbn. rewrite app_nil_r. repeat split; auto; try (intros C; discriminate).
           intros C. specialize (O2 C). discriminate.
        -- inversion H; subst; clear H. unfold Owned; cbn. rewrite ?EQ in *. rewrite somes_app. cbn. rewrite <- app_assoc. cbn.
           repeat split; auto; try (intros C; discriminate). intros C. specialize (O2 C). discriminate.
      * assert (NF : freed s = []).
        { destruct (freed s) eqn:EF; [reflexivity|]. assert (C : AClose i = ADone) by (apply O2; discriminate). discriminate. }
        destruct i as [|[|[|[|[|[|[|i]]]]]]]; try discriminate.
        -- inversion H; subst; clear H. unfold Owned; cbn. rewrite NF in *. repeat split; auto; try (intros C; discriminate); intros C; contradiction.
        -- inversion H; subst; clear H. unfold Owned, upd_a; cbn. rewrite NF in *. repeat split; auto; try (intros C; discriminate); intros C; contradiction.
        -- inversion H; subst; clear H. unfold Owned; cbn. rewrite NF in *. repeat split; auto; try (intros C; discriminate); intros C; contradiction.
        -- inversion H; subst; clear H. unfold Owned; cbn. rewrite NF in *. repeat split; auto; try (intros C; discriminate); intros C; contradiction.
        -- destruct (w2 s); try discriminate. inversion H; subst; clear H. unfold Owned, upd_a; cbn. rewrite NF in *.
           repeat split; auto; try (intros C; discriminate); intros C; contradiction.
        -- destruct (w1 s) eqn:E1; try discriminate. inversion H; subst; clear H. unfold Owned, upd_a; cbn. rewrite NF, ?E1 in *.
           repeat split; auto; try (intros C; discriminate); intros C; contradiction.
        -- inversion H; subst; clear H. unfold Owned; cbn. rewrite NF in *. cbn in *. repeat split; auto.
           rewrite O1. rewrite app_nil_r. reflexivity.
      * discriminate.
    + assert (ND : w1 s <> W1Done -> freed s = [] /\ a_pc s <> ADone).
      { intros N. assert (A : a_pc s <> ADone) by (intros C; apply N; apply O3; rewrite C; reflexivity).
        split; [|exact A]. destruct (freed s) eqn:EF; [reflexivity|]. exfalso. apply A. apply O2. discriminate. }
      unfold step_W1 in H. destruct (w1 s) as [[n k'|off k'|o k'|k'|]|n k'| |] eqn:E1.
      * inversion H; subst; clear H. destruct ND as [NF NA]; [discriminate|]. unfold Owned; cbn. repeat split; auto. intros C. specialize (O3 C). discriminate.
      * inversion H; subst; clear H. destruct ND as [NF NA]; [discriminate|]. unfold Owned; cbn. repeat split; auto. intros C. specialize (O3 C). discriminate.
      * destruct (q_abort s || (zlen (q s) <? cap)); [|discriminate]. inversion H; subst; clear H.
        destruct ND as [NF NA]; [discriminate|]. unfold Owned; cbn. rewrite NF in *. rewrite !app_nil_r in *.
        repeat split; auto.
        -- rewrite O1. rewrite app_assoc. reflexivity.
        -- intros C. specialize (O3 C). discriminate.
        -- intros C. contradiction.
      * inversion H; subst; clear H. destruct ND as [NF NA]; [discriminate|]. unfold Owned; cbn. repeat split; auto. intros C. specialize (O3 C). discriminate.
      * inversion H; subst; clear H. destruct ND as [NF NA]; [discriminate|]. unfold Owned, upd_w1; cbn. repeat split; auto. intros C. specialize (O3 C). discriminate.
      * destruct (u_abort s || (n + tg s <=? zlen (udata s)) || u_eof s); [|discriminate]. inversion H; subst; clear H.
        destruct ND as [NF NA]; [discriminate|]. unfold Owned; cbn. repeat split; auto. intros C. specialize (O3 C). discriminate.
      * inversion H; subst; clear H. unfold Owned; cbn. repeat split; auto.
      * discriminate.
    + unfold step_W2 in H. destruct (w2 s) as [[|c' r]|c' r| |] eqn:E2.
      * inversion H; subst; clear H. unfold Owned, upd_w2; cbn. auto.
      * destruct (run2 s); inversion H; subst; clear H; unfold Owned, upd_w2; cbn; auto.
      * destruct (u_abort s || (fill s <? bufsz s)); [|discriminate]. inversion H; subst; clear H. unfold Owned; cbn. auto.
      * inversion H; subst; clear H. unfold Owned; cbn. auto.
      * discriminate.
Qed.

(* at the end of the session: every object the reader created was either returned by read() or
   deleted by the queue's destructor, each exactly once; nothing stays queued *)
Corollary read_released : forall c p k s, reach c p k s -> a_pc s = ADone ->
  made s = somes (got s) ++ freed s /\ q s = [].
Proof.
  intros c p k s R D. destruct (read_owned c p k s R) as (O1 & _ & _ & O4).
  rewrite (O4 D) in O1. split; [exact O1|exact (O4 D)].
Qed.

End ReadData.

(* ---------- the former deadlock (one request above the buffer size) now runs to the end ---------- *)
(* buffer 2, one reader request of 3 bytes, containers of 2 bytes.  Before the repair of read() worker 2 waited for
   room, worker 1 for the third byte and the application for an object; now the request raises the buffer size. *)
Definition big_prog : rprog := RRead 3 (fun _ _ => RDeliver 1 REnd).
Fixpoint run_sched (cap : Z) (fuel : nat) (s : rs) : rs :=
  match fuel with O => s | S f =>
    match step cap TW2 s with Some s' => run_sched cap f s' | None =>
    match step cap TW1 s with Some s' => run_sched cap f s' | None =>
    match step cap TA s with Some s' => run_sched cap f s' | None => s end end end end.
Example big_request_finishes :
  let s := run_sched 10 40 (init 2 [[1; 2]; [3; 4]] big_prog 1) in
  a_pc s = ADone /\ w1 s = W1Done /\ w2 s = W2Done /\ got s = [Some 1] /\ bufsz s = 3.
Proof. vm_compute. repeat split; reflexivity. Qed.
