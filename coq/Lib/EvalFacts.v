(* EvalFacts.v — expression evaluation: frame lemma, and exactness of the (small, non-negative)
   arithmetic used for byte and element counts. *)
From VB Require Import Base IR Sem BaseFacts.
From Coq Require Import ZifyBool.
Local Open Scope Z_scope.
Set Default Proof Using "Type".
Ltac Zify.zify_post_hook ::= Z.div_mod_to_equations.

Definition small (v : Z) : Prop := 0 <= v < 2 ^ 31.

Lemma rank_promote t : 3 <= rank (promote t).
Proof. destruct t; cbn; lia. Qed.

Lemma rank_common a b : 3 <= rank (common a b).
Proof.
  unfold common. pose proof (rank_promote a). pose proof (rank_promote b).
  destruct (ity_eqb (promote a) (promote b)); [lia|].
  destruct (Bool.eqb _ _); [destruct (rank (promote a) <? rank (promote b)); lia|].
  destruct (signed (promote a)); destruct (_ <=? _); lia.
Qed.

Lemma norm_small t v : small v -> 3 <= rank t -> norm t v = v.
Proof.
  unfold small. intros Hv Hr. apply norm_id.
  destruct t; cbn in Hr; try lia; unfold in_type, in_range; simp_pow; lia.
Qed.

Lemma arith_small t v : small v -> 3 <= rank t -> arith t v = Ok (v, t).
Proof.
  intros Hv Hr. unfold arith. destruct (signed t) eqn:Es.
  - replace (in_range t v) with true; [reflexivity|].
    unfold small in Hv. destruct t; cbn in Hr, Es; try lia; try discriminate; unfold in_range; simp_pow; lia.
  - rewrite norm_small by assumption. reflexivity.
Qed.

Lemma eval_mul_small a ta b tb : small a -> small b -> small (a * b) ->
  eval_bin OMul (a, ta) (b, tb) = Ok (a * b, common ta tb).
Proof.
  intros Ha Hb Hab. unfold eval_bin. pose proof (rank_common ta tb).
  rewrite !norm_small by assumption. apply arith_small; assumption.
Qed.

Lemma eval_div_small a ta b tb : small a -> small b -> 0 < b ->
  eval_bin ODiv (a, ta) (b, tb) = Ok (a / b, common ta tb).
Proof.
  intros Ha Hb Hpos. unfold eval_bin. pose proof (rank_common ta tb).
  rewrite !norm_small by assumption.
  replace (b =? 0) with false by lia.
  rewrite Z.quot_div_nonneg by (unfold small in *; lia).
  apply arith_small; [|assumption]. unfold small in *.
  split; [apply Z.div_pos; lia|]. apply Z.div_lt_upper_bound; nia.
Qed.

Section WithClasses.
Variable cs : classes.
Variable call : target -> mid -> state -> res (Z * ity).

(* expressions over scalar members only *)
Fixpoint scalar_only (e : expr) : bool :=
  match e with
  | EConst _ _ | EField _ | ESizeof _ | ESizeofT _ => true
  | ESize _ | EVar _ | ECall _ _ => false
  | EUn _ a | ECast _ a => scalar_only a
  | EBin _ a b => scalar_only a && scalar_only b
  | ECond c a b => scalar_only c && scalar_only a && scalar_only b
  end.

Fixpoint reads (e : expr) : list Z :=
  match e with
  | EField f => [f]
  | EUn _ a | ECast _ a => reads a
  | EBin _ a b => reads a ++ reads b
  | ECond c a b => reads c ++ reads a ++ reads b
  | _ => []
  end.

Definition agree (fs : list Z) (r s : state) : Prop := forall f, In f fs -> r f = s f.

Lemma eval_frame e : forall r s l, scalar_only e = true -> agree (reads e) r s ->
  eval cs call r l e = eval cs call s l e.
Proof.
  induction e as [z t|f|f|f|n|x|o a IHa|o a IHa b IHb|c IHc a IHa b IHb|t a IHa|tg m];
    intros r s l Hs Ha; cbn [scalar_only] in Hs; try discriminate; cbn [eval reads] in *.
  - reflexivity.
  - rewrite (Ha f) by (left; reflexivity). reflexivity.
  - reflexivity.
  - reflexivity.
  - rewrite (IHa r s l Hs Ha). reflexivity.
  - apply andb_prop in Hs. destruct Hs as [Hs1 Hs2].
    assert (E1 : eval cs call r l a = eval cs call s l a)
      by (apply IHa; [exact Hs1|intros f Hf; apply Ha; apply in_or_app; left; exact Hf]).
    assert (E2 : eval cs call r l b = eval cs call s l b)
      by (apply IHb; [exact Hs2|intros f Hf; apply Ha; apply in_or_app; right; exact Hf]).
    destruct o; rewrite E1, E2; reflexivity.
  - apply andb_prop in Hs. destruct Hs as [Hs12 Hs3]. apply andb_prop in Hs12. destruct Hs12 as [Hs1 Hs2].
    rewrite (IHc r s l Hs1) by (intros f Hf; apply Ha; apply in_or_app; left; exact Hf).
    rewrite (IHa r s l Hs2) by (intros f Hf; apply Ha; apply in_or_app; right; apply in_or_app; left; exact Hf).
    rewrite (IHb r s l Hs3) by (intros f Hf; apply Ha; apply in_or_app; right; apply in_or_app; right; exact Hf).
    reflexivity.
  - rewrite (IHa r s l Hs Ha). reflexivity.
Qed.

(* evaluation never reports an out-of-container read, provided calls do not *)
Lemma eval_bin_no_oob o x y : eval_bin o x y <> Err EOOBRead.
Proof.
  destruct x as [a ta], y as [b tb]. unfold eval_bin, arith.
  destruct o; repeat match goal with |- context [if ?c then _ else _] => destruct c end; discriminate.
Qed.
Lemma eval_un_no_oob o x : eval_un o x <> Err EOOBRead.
Proof.
  destruct x as [a ta]. unfold eval_un, arith.
  destruct o; repeat match goal with |- context [if ?c then _ else _] => destruct c end; discriminate.
Qed.

Lemma eval_no_oob e : (forall tg m s, call tg m s <> Err EOOBRead) ->
  forall s l, eval cs call s l e <> Err EOOBRead.
Proof.
  intros Hcall.
  induction e as [z t|f|f|f|n|x|o a IHa|o a IHa b IHb|c IHc a IHa b IHb|t a IHa|tg m];
    intros s l; cbn [eval].
  - discriminate.
  - destruct (find_field cs f) as [x|]; [|discriminate]. destruct (s f); try discriminate.
    destruct (f_kind x); discriminate.
  - destruct (find_field cs f) as [x|]; [|discriminate]. destruct (s f); discriminate.
  - destruct (find_field cs f) as [x|]; [|discriminate]. destruct (ksize (f_kind x)); discriminate.
  - discriminate.
  - destruct (l x); discriminate.
  - specialize (IHa s l). destruct (eval cs call s l a); cbn [bind]; [apply eval_un_no_oob|exact IHa].
  - specialize (IHa s l). specialize (IHb s l).
    destruct o;
      try (destruct (eval cs call s l a); cbn [bind]; [|exact IHa];
           destruct (eval cs call s l b); cbn [bind]; [apply eval_bin_no_oob|exact IHb]).
    + destruct (eval cs call s l a) as [xa|]; cbn [bind]; [|exact IHa].
      destruct (fst xa =? 0); [discriminate|]. destruct (eval cs call s l b); cbn [bind]; [discriminate|exact IHb].
    + destruct (eval cs call s l a) as [xa|]; cbn [bind]; [|exact IHa].
      destruct (fst xa =? 0); [|discriminate]. destruct (eval cs call s l b); cbn [bind]; [discriminate|exact IHb].
  - specialize (IHc s l). destruct (eval cs call s l c) as [xc|]; cbn [bind]; [|exact IHc].
    destruct (fst xc =? 0); [apply IHb|apply IHa].
  - specialize (IHa s l). destruct (eval cs call s l a); cbn [bind]; [discriminate|exact IHa].
  - apply Hcall.
Qed.

(* ---------- symbolic counts ---------- *)
(* CSize f k: (number of elements of container f) * k *)
Inductive cnt := CSize (f k : Z).
Definition lenmap := list (Z * cnt).

Definition elt_of (f : Z) : Z := match find_field cs f with Some x => kelt (f_kind x) | None => 1 end.
Definition elems (s : state) (f : Z) : Z := match s f with VBytes b => zlen b / elt_of f | _ => 0 end.
Definition cnt_val (s : state) (c : cnt) : Z := match c with CSize f k => elems s f * k end.

Fixpoint mlook (g : Z) (M : lenmap) : option cnt :=
  match M with [] => None | (g', c) :: r => if g' =? g then Some c else mlook g r end.

Definition wide (t : ity) : bool := 3 <=? rank t.

Fixpoint cnt_of (M : lenmap) (e : expr) : option cnt :=
  match e with
  | ESize f => Some (CSize f 1)
  | EField g => mlook g M
  | ECast t a => if wide t then cnt_of M a else None
  | EBin OMul a (ESizeofT k) =>
      match cnt_of M a with
      | Some (CSize f k0) => if (0 <? k) && (k0 * k <=? 8) then Some (CSize f (k0 * k)) else None
      | None => None end
  | EBin ODiv a (ESizeofT k) =>
      match cnt_of M a with
      | Some (CSize f k0) => if (0 <? k) && (k <=? 8) && (k0 mod k =? 0) then Some (CSize f (k0 / k)) else None
      | None => None end
  | _ => None
  end.

(* container f is a byte list of a whole number of elements, small enough that counts up to 8x stay small *)
Definition cont_ok (s : state) (f : Z) : Prop :=
  exists x b, find_field cs f = Some x /\ s f = VBytes b /\ 0 < kelt (f_kind x) <= 8 /\
              zlen b mod kelt (f_kind x) = 0 /\ zlen b < 2 ^ 28 /\
              match f_kind x with KScalar _ => False | _ => True end.

Definition M_sound (M : lenmap) (s : state) : Prop :=
  forall g c, mlook g M = Some c ->
    exists x t, find_field cs g = Some x /\ f_kind x = KScalar t /\ s g = VInt (cnt_val s c) /\
                (match c with CSize f k => cont_ok s f /\ 0 < k <= 8 end).

Lemma cont_elems s f : cont_ok s f -> 0 <= elems s f /\ elems s f * elt_of f < 2 ^ 28 /\
  exists b, s f = VBytes b /\ elems s f * elt_of f = zlen b /\ 0 < elt_of f <= 8.
Proof.
  clear call.
  intros (x & b & Hf & Hb & He & Hm & Hl & _). unfold elems, elt_of. rewrite Hf, Hb.
  pose proof (zlen_nonneg b).
  split; [apply Z.div_pos; lia|]. split; [nia|].
  exists b. split; [reflexivity|]. split; [nia|lia].
Qed.

Lemma cnt_of_sound M e : forall s l f k, cnt_of M e = Some (CSize f k) -> M_sound M s -> cont_ok s f ->
  0 < k <= 8 /\ exists t, eval cs call s l e = Ok (elems s f * k, t).
Proof.
  induction e as [z t|g|g|g|n|x|o a IHa|o a IHa b IHb|c IHc a IHa b IHb|t a IHa|tg m];
    intros s l f k Hc HM Hf; cbn [cnt_of] in Hc; try discriminate.
  - (* EField *)
    destruct (HM g _ Hc) as (x & t & Hx & Hk & Hv & Hcf & Hkk).
    split; [exact Hkk|]. exists t. cbn [eval]. rewrite Hx, Hv, Hk. reflexivity.
  - (* ESize *)
    injection Hc as <- <-. split; [lia|]. exists U64. cbn [eval].
    destruct Hf as (x & b & Hx & Hb & He & Hm & Hl & Hkind).
    unfold elems, elt_of. rewrite Hx, Hb. rewrite Z.mul_1_r. reflexivity.
  - (* EBin *)
    destruct o; try discriminate.
    + (* OMul *)
      destruct b as [| | | |kk| | | | | |]; try discriminate.
      destruct (cnt_of M a) as [[f0 k0]|] eqn:Ea; [|discriminate].
      destruct ((0 <? kk) && (k0 * kk <=? 8)) eqn:Ek; [|discriminate].
      injection Hc as <- <-.
      destruct (IHa s l f0 k0 eq_refl HM Hf) as (Hk0 & t & Hev).
      split; [nia|]. exists (common t U64). cbn [eval]. rewrite Hev. cbn [bind].
      destruct (cont_elems s f0 Hf) as (H0 & H1 & b' & _ & H2 & H3).
      rewrite eval_mul_small; [f_equal; f_equal; lia| | |]; unfold small; nia.
    + (* ODiv *)
      destruct b as [| | | |kk| | | | | |]; try discriminate.
      destruct (cnt_of M a) as [[f0 k0]|] eqn:Ea; [|discriminate].
      destruct ((0 <? kk) && (kk <=? 8) && (k0 mod kk =? 0)) eqn:Ek; [|discriminate].
      injection Hc as <- <-.
      destruct (IHa s l f0 k0 eq_refl HM Hf) as (Hk0 & t & Hev).
      assert (Hkk : 0 < kk <= 8 /\ k0 mod kk = 0) by lia.
      assert (Hq : k0 = kk * (k0 / kk)) by (destruct Hkk as [? Hm]; pose proof (Z.div_mod k0 kk); lia).
      split; [nia|]. exists (common t U64). cbn [eval]. rewrite Hev. cbn [bind].
      destruct (cont_elems s f0 Hf) as (H0 & H1 & b' & _ & H2 & H3).
      rewrite eval_div_small; [| | |lia]; [|unfold small; nia|unfold small; lia].
      f_equal. f_equal. rewrite Hq at 1.
      replace (elems s f0 * (kk * (k0 / kk))) with ((elems s f0 * (k0 / kk)) * kk) by lia.
      apply Z.div_mul. lia.
  - (* ECast *)
    destruct (wide t) eqn:Ew; [|discriminate].
    destruct (IHa s l f k Hc HM Hf) as (Hk & ta & Hev).
    split; [exact Hk|]. exists t. cbn [eval]. rewrite Hev. cbn [bind fst].
    destruct (cont_elems s f Hf) as (H0 & H1 & b' & _ & H2 & H3).
    rewrite norm_small; [reflexivity| |unfold wide in Ew; lia]. unfold small. nia.
Qed.

End WithClasses.
