(* PrefixFacts.v — what a file cut at an arbitrary byte still contains (C08, specification side):
   a cut through  H ++ C1 ++ ... ++ Cn  keeps a unique number j(k) of complete containers followed
   by a proper prefix of the next one, and j is monotone in the cut position. *)
From Coq Require Import List ZArith Lia.
Import ListNotations.

Section Prefix.
Context {A : Type}.

(* number of whole blocks that fit into the first k elements of concat bs *)
Fixpoint whole (k : nat) (bs : list (list A)) : nat :=
  match bs with
  | [] => 0
  | b :: r => if Nat.leb (length b) k then S (whole (k - length b) r) else 0
  end.

Lemma whole_le k bs : whole k bs <= length bs.
Proof. revert k. induction bs as [|b r IH]; intros k; cbn; [lia|]. destruct (Nat.leb (length b) k); [specialize (IH (k - length b)); lia|lia]. Qed.

(* the cut keeps exactly `whole k bs` complete blocks, then a proper prefix of the next block (or
   nothing more if there is no next block) *)
Theorem cut_structure : forall bs k,
  let j := whole k bs in
  exists part, firstn k (concat bs) = concat (firstn j bs) ++ part /\
    match nth_error bs j with
    | Some nxt => exists rest, nxt = part ++ rest /\ rest <> []
    | None => part = []
    end.
Proof.
  induction bs as [|b r IH]; intros k; cbn [whole concat].
  - exists []. destruct k; cbn; auto.
  - destruct (Nat.leb (length b) k) eqn:E.
    + apply Nat.leb_le in E. destruct (IH (k - length b)) as (part & H1 & H2).
      exists part. split.
      * rewrite firstn_app. rewrite firstn_all2 by lia. cbn [firstn concat]. rewrite <- app_assoc. f_equal. exact H1.
      * cbn [nth_error]. exact H2.
    + apply Nat.leb_gt in E. exists (firstn k b). split.
      * rewrite firstn_app. replace (k - length b) with 0 by lia. cbn. rewrite app_nil_r. reflexivity.
      * cbn [nth_error]. exists (skipn k b). split; [symmetry; apply firstn_skipn|].
        intros C. apply (f_equal (@length A)) in C. rewrite skipn_length in C. cbn in C. lia.
Qed.

(* a longer prefix never contains fewer complete blocks *)
Theorem whole_monotone : forall bs k k', k <= k' -> whole k bs <= whole k' bs.
Proof.
  induction bs as [|b r IH]; intros k k' H; cbn; [lia|].
  destruct (Nat.leb (length b) k) eqn:E.
  - apply Nat.leb_le in E. replace (Nat.leb (length b) k') with true by (symmetry; apply Nat.leb_le; lia).
    specialize (IH (k - length b) (k' - length b)). lia.
  - lia.
Qed.

(* the whole file contains all blocks *)
Lemma whole_all bs : whole (length (concat bs)) bs = length bs.
Proof.
  induction bs as [|b r IH]; cbn; [reflexivity|].
  rewrite app_length. replace (Nat.leb (length b) (length b + length (concat r))) with true by (symmetry; apply Nat.leb_le; lia).
  replace (length b + length (concat r) - length b) with (length (concat r)) by lia. rewrite IH. reflexivity.
Qed.
End Prefix.
