#!/usr/bin/env python3
"""sync2coq.py — translate the library's monitors into the IR of coq/Lib/Mon.v.

  ObjectQueue.{h,cpp}        -> Gen/Queue.v   every method, statement for statement
  UncompressedFile.{h,cpp}   -> Gen/Sync.v    data members, and per method: wait predicates,
                                              notifications, whether the mutex is taken first
  File.cpp                   -> Gen/Sync.v    constructor constants, thread-function skeletons

Purely syntactic: statements the grammar does not cover become TUnsupported (and every obligation
about that method then fails inside Coq rather than being guessed here).

usage: sync2coq.py <repo> <gen-dir> <json-out>
"""
import json, os, re, sys
sys.path.insert(0, os.path.dirname(os.path.abspath(__file__)))
from cpptok import strip_comments, tokenize, Parser, Unsupported, Tok

ITY = {'bool': 'TBool', 'uint8_t': 'U8', 'uint16_t': 'U16', 'uint32_t': 'U32', 'uint64_t': 'U64',
       'int8_t': 'I8', 'int16_t': 'I16', 'int32_t': 'I32', 'int64_t': 'I64', 'int': 'I32', 'size_t': 'U64',
       'std::streampos': 'I64', 'std::streamsize': 'I64', 'std::streamoff': 'I64', 'std::ios_base::iostate': 'I32',
       'DWORD': 'U32', 'WORD': 'U16', 'ULONGLONG': 'U64'}
BITS = {'TBool': 1, 'U8': 8, 'U16': 16, 'U32': 32, 'U64': 64, 'I8': 8, 'I16': 16, 'I32': 32, 'I64': 64}
# libstdc++ std::ios_base::iostate
IOS = {'std::ios_base::goodbit': 0, 'std::ios_base::badbit': 1, 'std::ios_base::eofbit': 2, 'std::ios_base::failbit': 4}
BINOPS = {'+': 'OAdd', '-': 'OSub', '*': 'OMul', '/': 'ODiv', '%': 'OMod', '&': 'OAnd', '|': 'OOr', '^': 'OXor',
          '<<': 'OShl', '>>': 'OShr', '&&': 'OLAnd', '||': 'OLOr', '<': 'OLt', '<=': 'OLe', '>': 'OGt', '>=': 'OGe',
          '==': 'OEq', '!=': 'ONe'}


class Ctx:
    def is_type(self, ty):
        c = ty.replace('const ', '').rstrip('*& ').strip()
        return c in ITY or c.startswith('std::') or c in ('T', 'char', 'auto')


def zlit(v):
    return '(%d)' % v if v < 0 else str(v)


def coqstr(s):
    return '"' + s.replace('"', '""') + '"'


def max_of(ty):
    t = ITY.get(ty)
    if t is None:
        return None
    if t.startswith('U'):
        return (1 << BITS[t]) - 1
    if t.startswith('I'):
        return (1 << (BITS[t] - 1)) - 1
    return 1


def parse_members(hdr_src, clsname):
    """data members declared in the class body: (name, type, initial value or None, kind)."""
    src = strip_comments(hdr_src)
    m = re.search(r'class\s+(?:\w+\s+)?%s\b[^{;]*\{' % clsname, src)
    body = src[m.end():]
    # cut at the closing brace of the class
    depth, end = 1, 0
    for i, ch in enumerate(body):
        if ch == '{':
            depth += 1
        elif ch == '}':
            depth -= 1
            if depth == 0:
                end = i
                break
    body = body[:end]
    out = []
    for stmt in re.split(r';', body):
        s = ' '.join(stmt.split())
        s = re.sub(r'^(public|private|protected)\s*:\s*', '', s)
        if not s or '(' in s.split('{')[0]:
            continue
        mm = re.match(r'^(mutable\s+)?([\w:<>\s\*,]+?)\s+(\w+)\s*(\{(.*)\})?$', s)
        if not mm:
            continue
        ty, name, init = mm.group(2).strip(), mm.group(3), mm.group(5)
        if ty.startswith(('using', 'typedef', 'friend', 'return', 'virtual', 'class', 'struct', 'enum')):
            continue
        kind = 'scalar' if ty in ITY else ('cv' if ty == 'std::condition_variable' else ('mutex' if ty == 'std::mutex' else ('queue' if ty.startswith(('std::queue', 'std::list')) else 'other')))
        val = None
        if kind == 'scalar':
            init = (init or '').strip()
            if init == '':
                val = 0
            elif re.match(r'^(0x[0-9a-fA-F]+|\d+)$', init):
                val = int(init, 0)
            elif init in ('false', 'true'):
                val = int(init == 'true')
            elif init in IOS:
                val = IOS[init]
            else:
                mx = re.match(r'^std::numeric_limits<\s*([\w:]+)\s*>::max\(\)$', init)
                val = max_of(mx.group(1)) if mx else None
        out.append({'name': name, 'type': ty, 'kind': kind, 'init': val, 'has_init': mm.group(4) is not None})
    return out


def find_methods(cpp_src, clsname):
    """[(name, return type text, params text, body tokens)] for `Class[<T>]::name(...) { ... }`."""
    src = strip_comments(cpp_src)
    toks = tokenize(src)
    out = []
    i, n = 0, len(toks)
    while i < n - 4:
        j = i
        if toks[j].kind == 'id' and toks[j].text == clsname:
            k = j + 1
            if toks[k].text == '<':
                while toks[k].text != '>':
                    k += 1
                k += 1
            if toks[k].text == '::' and (toks[k + 1].kind == 'id' or toks[k + 1].text == '~'):
                k += 1
                name = toks[k].text
                if name == '~':
                    k += 1
                    name = '~' + toks[k].text
                if toks[k + 1].text == '(' and (i == 0 or toks[i - 1].text not in ('::', '.', '->', 'new', 'class', '<')):
                    # parameter list
                    p = k + 1
                    depth = 0
                    while True:
                        if toks[p].text == '(':
                            depth += 1
                        elif toks[p].text == ')':
                            depth -= 1
                            if depth == 0:
                                break
                        p += 1
                    params = ' '.join(t.text for t in toks[k + 2:p])
                    q = p + 1
                    while toks[q].kind == 'id' and toks[q].text in ('const', 'noexcept', 'override'):
                        q += 1
                    if toks[q].text == ':':      # constructor initialisers
                        while toks[q].text != '{' or toks[q - 1].text not in (')', '}'):
                            q += 1
                    if toks[q].text == '{':
                        depth = 0
                        e = q
                        while True:
                            if toks[e].text == '{':
                                depth += 1
                            elif toks[e].text == '}':
                                depth -= 1
                                if depth == 0:
                                    break
                            e += 1
                        r = i - 1
                        ret = []
                        while r >= 0 and toks[r].text not in (';', '}', '{', '>'):
                            ret.insert(0, toks[r].text)
                            r -= 1
                        out.append((name, ' '.join(ret).replace(' :: ', '::').replace(' *', '*'), params, toks[q:e + 1], toks[q].line))
                        i = e + 1
                        continue
        i += 1
    return out


class Lower:
    def __init__(self, members, method_names, param_ty):
        self.members = members
        self.scalars = [m for m in members if m['kind'] == 'scalar']
        self.vidx = {m['name']: i for i, m in enumerate(self.scalars)}
        self.cvs = [m['name'] for m in members if m['kind'] == 'cv']
        self.queue = [m['name'] for m in members if m['kind'] == 'queue']
        self.method_names = method_names
        self.param = None       # (name, ity) of the integer parameter
        self.objparam = None
        self.local = None

    # ---- expressions
    def expr(self, e):
        k = e[0]
        if k == 'num':
            t = e[1].rstrip('uUlL')
            v = int(t, 0)
            suf = e[1][len(t):].lower()
            ty = 'U64' if 'u' in suf and 'l' in suf else ('U32' if 'u' in suf else ('I64' if 'l' in suf else 'I32'))
            return 'XConst %s %s' % (zlit(v), ty)
        if k == 'bool':
            return 'XConst %d TBool' % int(e[1])
        if k == 'name':
            nm = e[1]
            if nm in self.vidx:
                return 'XVar %d' % self.vidx[nm]
            if self.param and nm == self.param[0]:
                return 'XArg %s' % self.param[1]
            if nm in IOS:
                return 'XConst %d I32' % IOS[nm]
            raise Unsupported('name ' + nm)
        if k == 'un':
            op = {'!': 'ONot', '~': 'OBNot', '-': 'ONeg'}[e[1]]
            return 'XUn %s (%s)' % (op, self.expr(e[2]))
        if k == 'bin':
            return 'XBin %s (%s) (%s)' % (BINOPS[e[1]], self.expr(e[2]), self.expr(e[3]))
        if k == 'cast':
            ty = ITY.get(e[1].replace(' ', '').replace('std::', 'std::'))
            if ty is None:
                ty = ITY.get(e[1].strip())
            if ty is None:
                raise Unsupported('cast to ' + e[1])
            return 'XCast %s (%s)' % (ty, self.expr(e[2]))
        if k == 'mcall':
            obj, name, args = e[1], e[2], e[3]
            if obj[0] == 'name' and obj[1] in self.queue and not args:
                if name == 'empty':
                    return 'XQEmpty'
                if name == 'size':
                    return 'XQSize'
            if obj[0] == 'name' and self.objparam and obj[1] == self.objparam and False:
                pass
            raise Unsupported('call .%s' % name)
        if k == 'member':
            # logContainer->uncompressedFileSize : the size of the container handed in
            if e[1][0] == 'name' and self.objparam and e[1][1] == self.objparam and e[2] == 'uncompressedFileSize':
                return 'XArg2 U32'
            raise Unsupported('member ' + e[2])
        raise Unsupported('expression ' + k)

    # ---- statements
    def seq(self, lst):
        lst = [x for x in lst if x != 'TSkip']
        if not lst:
            return 'TSkip'
        out = lst[-1]
        for s in reversed(lst[:-1]):
            out = 'TSeq (%s) (%s)' % (s, out)
        return out

    def stmt(self, s, ret_ty):
        try:
            return self.stmt_inner(s, ret_ty)
        except Unsupported:
            return 'TUnsupported'
        except KeyError:
            return 'TUnsupported'

    def stmt_inner(self, s, ret_ty):
        k = s[0]
        if k == 'block':
            return self.seq([self.stmt(x, ret_ty) for x in s[1]])
        if k == 'unsupported':
            text = s[1]
            t = text.replace(' ', '')
            if re.match(r'^std::(unique_lock|lock_guard)<std::mutex>lock\(m_mutex\);$', t):
                return 'TLock'
            m = re.match(r'^(\w+) \. wait \( lock , \[ & \] \{ return (.*) ; \} \) ;$', text)
            if m and m.group(1) in self.cvs:
                toks = tokenize(m.group(2))
                p = Parser(toks, Ctx())
                e = p.expr()
                if p.peek().kind != 'eof':
                    raise Unsupported('wait predicate')
                return 'TWait %d (%s)' % (self.cvs.index(m.group(1)), self.expr(e))
            raise Unsupported(text)
        if k == 'decl':
            ty, name, init = s[1], s[2], s[3]
            if ty.replace(' ', '') == 'T*' and init == ('name', 'nullptr'):
                self.local = name
                return 'TLocalNull'
            raise Unsupported('decl')
        if k == 'if':
            return 'TIf (%s) (%s) (%s)' % (self.expr(s[1]), self.stmt(s[2], ret_ty), self.stmt(s[3], ret_ty))
        if k == 'assign':
            op, lhs, rhs = s[1], s[2], s[3]
            if lhs[0] == 'name' and lhs[1] in self.vidx:
                v = self.vidx[lhs[1]]
                if op == '=':
                    return 'TSet %d (%s)' % (v, self.expr(rhs))
                bop = BINOPS[op[:-1]]
                return 'TSet %d (XBin %s (XVar %d) (%s))' % (v, bop, v, self.expr(rhs))
            if lhs[0] == 'name' and lhs[1] == self.local and op == '=' and rhs[0] == 'mcall' and rhs[1] == ('name', self.queue[0]) and rhs[2] == 'front' and not rhs[3]:
                return 'TLocalFront'
            raise Unsupported('assign')
        if k == 'expr':
            e = s[1]
            # std::unique_lock<std::mutex> lock(m_mutex);  parses as  (std::unique_lock < std::mutex) > lock(m_mutex)
            if e[0] == 'bin' and e[1] == '>' and e[2][0] == 'bin' and e[2][1] == '<' and e[2][2] in (('name', 'std::unique_lock'), ('name', 'std::lock_guard')) \
               and e[2][3] == ('name', 'std::mutex') and e[3] == ('call', 'lock', [('name', 'm_mutex')]):
                return 'TLock'
            if e[0] == 'mcall' and e[1][0] == 'name':
                obj, name, args = e[1][1], e[2], e[3]
                if obj in self.cvs and name == 'notify_all' and not args:
                    return 'TNotify %d' % self.cvs.index(obj)
                if obj in self.queue and name == 'pop' and not args:
                    return 'TPop'
                if obj in self.queue and name == 'push' and len(args) == 1 and args[0] == ('name', self.objparam):
                    return 'TPush'
            if e[0] == 'call' and e[1] in self.method_names and not e[2]:
                return 'TCall %d' % self.method_names.index(e[1])
            raise Unsupported('expression statement')
        if k == 'return':
            if s[1] is None:
                return 'TRet (XConst 0 I32)'
            if s[1] == ('name', self.local):
                return 'TRetLocal'
            e = self.expr(s[1])
            return 'TRet (XCast %s (%s))' % (ret_ty, e) if ret_ty else 'TRet (%s)' % e
        if k == 'while':
            c, body = s[1], s[2]
            if c == ('un', '!', ('mcall', ('name', self.queue[0] if self.queue else '?'), 'empty', [])) and body[0] == 'block' and len(body[1]) == 2:
                a, b = body[1]
                if a[0] == 'unsupported' and a[1].replace(' ', '') == 'delete%s.front();' % self.queue[0] and \
                   b == ('expr', ('mcall', ('name', self.queue[0]), 'pop', [])):
                    return 'TDeleteAll'
            raise Unsupported('while')
        raise Unsupported(k)


def translate_class(hdr, cpp, clsname):
    members = parse_members(open(hdr).read(), clsname)
    methods = find_methods(open(cpp).read(), clsname)
    names = [m[0] for m in methods]
    out = []
    for name, ret, params, body, line in methods:
        lw = Lower(members, names, None)
        # parameters: one integer, or one object pointer / container
        for one in params.replace(' :: ', '::').split(' , '):
            pm = re.match(r'^(?:const )?([\w:]+) (\w+)$', one.strip())
            if pm and pm.group(1) in ITY and lw.param is None:
                lw.param = (pm.group(2), ITY[pm.group(1)])
            pm2 = re.match(r'^(?:T \* (\w+)|const std::shared_ptr < LogContainer > & (\w+))$', one.strip())
            if pm2:
                lw.objparam = pm2.group(1) or pm2.group(2)
        ret_ty = ITY.get(ret.replace('virtual', '').strip())
        p = Parser(list(body) + [Tok('eof', '', 0, 0)], Ctx())
        ast = p.block_or_stmt()
        ir = lw.stmt(ast, ret_ty)
        out.append({'name': name, 'ret': ret, 'params': params, 'ir': ir, 'line': line,
                    'param_ity': lw.param[1] if lw.param else None, 'objparam': lw.objparam is not None})
    return members, out


def emit_monitor(prefix, members, methods, comment):
    scal = [m for m in members if m['kind'] == 'scalar']
    cvs = [m['name'] for m in members if m['kind'] == 'cv']
    L = ['(* generated by translator/sync2coq.py — %s.  Do not edit. *)' % comment,
         'From VB Require Import Mon.', 'Local Open Scope Z_scope.', 'Local Open Scope string_scope.', '']
    L.append('Definition %s_vars : list (string * ity * option Z) :=' % prefix)
    L.append('  [' + ';\n   '.join('(%s, %s, %s)' % (coqstr(m['name']), ITY[m['type']], 'Some %s' % zlit(m['init']) if m['init'] is not None else 'None') for m in scal) + '].')
    L.append('Definition %s_cvs : list string := [%s].' % (prefix, '; '.join(coqstr(c) for c in cvs)))
    L.append('Definition %s_other_members : list (string * string) := [%s].' % (
        prefix, '; '.join('(%s, %s)' % (coqstr(m['name']), coqstr(m['type'])) for m in members if m['kind'] not in ('scalar', 'cv'))))
    L.append('Definition %s_methods : list mmethod :=' % prefix)
    L.append('  [' + ';\n   '.join('{| mm_name := %s;\n      mm_body := %s |}' % (coqstr(m['name'] + (('@container' if m['objparam'] else '@bytes') if [x['name'] for x in methods].count(m['name']) > 1 else '')), m['ir'])
                                   for i, m in enumerate(methods)) + '].')
    L.append('')
    return '\n'.join(L) + '\n'


def thread_skeletons(cpp_src):
    """per worker thread function of File.cpp: outer try/catch(...) present, what the catch-all does, inner catch of the
    library Exception, and whether end of stream is declared on the normal path.  Purely textual."""
    src = strip_comments(cpp_src)
    out = []
    for name, consumer in (('uncompressedFileReadThread', 'm_readWriteQueue'), ('uncompressedFileWriteThread', 'm_uncompressedFile'),
                           ('compressedFileReadThread', 'm_uncompressedFile'), ('compressedFileWriteThread', None)):
        m = re.search(r'void\s+File::%s\s*\(\s*File\s*\*\s*file\s*\)\s*\{' % name, src)
        if not m:
            out.append((name, False, False, False, False, False))
            continue
        depth, i = 1, m.end()
        while depth and i < len(src):
            depth += {'{': 1, '}': -1}.get(src[i], 0)
            i += 1
        body = ' '.join(src[m.end():i - 1].split())
        outer = body.startswith('try {')
        mc = re.search(r'\} catch \( \.\.\. \) \{(.*)\}\s*$', body.replace('(...)', '( ... )'))
        catch_all = mc is not None
        handler = mc.group(1) if mc else ''
        stores = 'std::current_exception()' in handler
        sets_eof_in_handler = consumer is not None and ('file->%s.setFileSize(' % consumer) in handler
        main = body[:mc.start()] if mc else body
        sets_eof_normal = consumer is not None and ('file->%s.setFileSize(' % consumer) in main
        inner = re.search(r'catch \( Vector::BLF::Exception & \) \{ file->m_\w+ThreadRunning = false; \}', main.replace('(Vector::BLF::Exception &)', '( Vector::BLF::Exception & )')) is not None
        out.append((name, outer and catch_all, stores, sets_eof_in_handler, sets_eof_normal, inner))
    return out


def function_statements(cpp_src, qualified):
    """flattened statement list of one function body: each simple statement as its token text, blocks as
    'if (c) {' / '} else {' / 'while (c) {' / 'try {' / '} catch (X) {' / '}' markers.  Purely textual."""
    src = strip_comments(cpp_src)
    m = re.search(r'[\w:<>\*&\s]*\b%s\s*\([^)]*\)\s*(const)?\s*\{' % re.escape(qualified), src)
    if not m:
        return None
    depth, i = 1, m.end()
    while depth and i < len(src):
        depth += {'{': 1, '}': -1}.get(src[i], 0)
        i += 1
    toks = tokenize(src[m.end():i - 1])[:-1]
    out = []
    cur = []
    k = 0
    n = len(toks)

    def flush():
        if cur:
            out.append(' '.join(cur))
            del cur[:]
    pdepth = 0
    while k < n:
        t = toks[k].text
        if t == '(':
            pdepth += 1
        elif t == ')':
            pdepth -= 1
        if t == ';' and pdepth == 0:
            flush()
        elif t == '{' and pdepth == 0:
            cur.append('{')
            flush()
        elif t == '}' and pdepth == 0:
            flush()
            # '} else {' / '} catch (...) {' stay on one line
            cur.append('}')
            if k + 1 < n and toks[k + 1].text in ('else', 'catch'):
                pass
            else:
                flush()
        else:
            cur.append(t)
        k += 1
    flush()
    return out


def write_if_changed(path, text):
    if os.path.exists(path) and open(path).read() == text:
        return
    with open(path, 'w') as f:
        f.write(text)


def main():
    repo, gen, jout = sys.argv[1:4]
    src = os.path.join(repo, 'src/Vector/BLF')
    qm, qmeth = translate_class(os.path.join(src, 'ObjectQueue.h'), os.path.join(src, 'ObjectQueue.cpp'), 'ObjectQueue')
    write_if_changed(os.path.join(gen, 'Queue.v'), emit_monitor('oq', qm, qmeth, 'ObjectQueue.{h,cpp}'))
    um, umeth = translate_class(os.path.join(src, 'UncompressedFile.h'), os.path.join(src, 'UncompressedFile.cpp'), 'UncompressedFile')
    write_if_changed(os.path.join(gen, 'Sync.v'), emit_monitor('uf', um, umeth, 'UncompressedFile.{h,cpp} (bodies with loops are TUnsupported; waits and notifications are what is used)'))
    sk = thread_skeletons(open(os.path.join(src, 'File.cpp')).read())
    b = lambda x: 'true' if x else 'false'
    L = ['(* generated by translator/sync2coq.py — worker thread functions of File.cpp.  Do not edit. *)',
         'From Coq Require Import String List Bool.', 'Import ListNotations.', 'Local Open Scope string_scope.', '',
         '(* name, outer try/catch(...), handler stores the exception, handler declares end of stream, normal path declares end of stream, inner catch of the library Exception stops the loop *)',
         'Definition thread_skeletons : list (string * bool * bool * bool * bool * bool) :=',
         '  [' + ';\n   '.join('(%s, %s, %s, %s, %s, %s)' % (coqstr(n), b(a), b(c), b(d), b(e), b(f)) for n, a, c, d, e, f in sk) + '].', '']
    write_if_changed(os.path.join(gen, 'Threads.v'), '\n'.join(L) + '\n')
    fsrc = open(os.path.join(src, 'File.cpp')).read()
    funcs = ['File::File', 'File::~File', 'File::open', 'File::read', 'File::write', 'File::close', 'File::setDefaultLogContainerSize',
             'File::uncompressedFile2ReadWriteQueue', 'File::readWriteQueue2UncompressedFile',
             'File::compressedFile2UncompressedFile', 'File::uncompressedFile2CompressedFile',
             'File::uncompressedFileReadThread', 'File::uncompressedFileWriteThread', 'File::compressedFileReadThread', 'File::compressedFileWriteThread']
    L = ['(* generated by translator/sync2coq.py — statement skeletons of the File functions that drive the pipeline.  Do not edit. *)',
         'From Coq Require Import String List.', 'Import ListNotations.', 'Local Open Scope string_scope.', '']
    for fn in funcs:
        st = function_statements(fsrc, fn)
        nm = 'skel_' + fn.replace('File::', '').replace('~', 'dtor_')
        L.append('Definition %s : list string :=' % nm)
        L.append('  [' + ';\n   '.join(coqstr(x) for x in (st if st is not None else ['<not found>'])) + '].')
        L.append('')
    asrc = open(os.path.join(src, 'AbstractFile.cpp')).read()
    st = function_statements(asrc, 'AbstractFile::skipp')
    L.append('Definition skel_skipp : list string :=')
    L.append('  [' + ';\n   '.join(coqstr(x) for x in (st if st is not None else ['<not found>'])) + '].')
    L.append('')
    write_if_changed(os.path.join(gen, 'FileSkel.v'), '\n'.join(L) + '\n')
    json.dump({'oq': {'members': qm, 'methods': [{k: v for k, v in m.items()} for m in qmeth]},
               'uf': {'members': um, 'methods': [{k: v for k, v in m.items()} for m in umeth]}}, open(jout, 'w'), indent=1)


if __name__ == '__main__':
    main()
