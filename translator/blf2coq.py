#!/usr/bin/env python3
"""blf2coq.py — regenerate the Coq model inputs (coq/Gen/*.v), the C++ reflection used by the
harnesses (harness/gen/reflect.inc) and a JSON summary (build/gen/meta.json) from the current
working tree of /repo.  Purely syntactic; see DESIGN.md appendix A.

usage: blf2coq.py <repo> <coq-gen-dir> <harness-gen-dir> <meta.json>
"""
import sys, os, re, json, glob
sys.path.insert(0, os.path.dirname(os.path.abspath(__file__)))
from cpptok import tokenize, strip_comments, Parser, Unsupported

SCALARS = {
    'uint8_t': 'U8', 'uint16_t': 'U16', 'uint32_t': 'U32', 'uint64_t': 'U64',
    'int8_t': 'I8', 'int16_t': 'I16', 'int32_t': 'I32', 'int64_t': 'I64',
    'bool': 'TBool', 'char': 'I8', 'unsigned char': 'U8', 'signed char': 'I8',
    'int': 'I32', 'unsigned int': 'U32', 'unsigned': 'U32', 'long': 'I64', 'unsigned long': 'U64',
    'size_t': 'U64', 'std::size_t': 'U64', 'std::streamsize': 'I64', 'std::streamoff': 'I64',
    'uLong': 'U64', 'char16_t': 'U16', 'short': 'I16', 'unsigned short': 'U16',
    'double': 'U64', 'BYTE': 'U8', 'WORD': 'U16', 'DWORD': 'U32', 'ULONGLONG': 'U64', 'LONGLONG': 'I64',
}
WIDTH = {'U8': 1, 'I8': 1, 'TBool': 1, 'U16': 2, 'I16': 2, 'U32': 4, 'I32': 4, 'U64': 8, 'I64': 8}
FIXED_MIDS = {'read': 1, 'write': 2, 'calculateObjectSize': 3, 'calculateHeaderSize': 4}


def canon_type(ty):
    ty = re.sub(r'\s*::\s*', '::', ty)
    ty = re.sub(r'\s*<\s*', '<', ty)
    ty = re.sub(r'\s*>', '>', ty)
    toks = [t for t in ty.split() if t not in ('const', 'volatile')]
    return ' '.join(toks)


class Enum:
    def __init__(self, name, under, scoped):
        self.name, self.under, self.scoped = name, under, scoped
        self.consts = {}


class Member:
    def __init__(self, name, ctype, init_toks, has_init):
        self.name, self.ctype, self.init_toks, self.has_init = name, ctype, init_toks, has_init
        self.pod = False
        self.kind = None        # ('scalar', ity, isfloat) | ('array', elt, n) | ('vec', elt) | ('struct', cls)
        self.fid = None
        self.init = None        # ('none',) | ('zero',) | ('val', z)


class Class:
    def __init__(self, name):
        self.name = name
        self.bases = []
        self.members = []
        self.enums = {}
        self.methods_decl = {}      # name -> return type text
        self.bodies = {}            # name -> (ret type text, token list of body, params)
        self.ctor = None            # (params, inits)
        self.final = False
        self.header = None
        self.has_virtual = False
        self.idx = None


class World:
    def __init__(self):
        self.classes = {}
        self.enums = {}         # global enums
        self.consts = {}        # global const name -> (value, ity)
        self.pods = {}          # POD structs without methods: name -> list of (type,name)
        self.warnings = []


# ---------------------------------------------------------------- header parsing
def split_decls(toks, i, end):
    """Yield token slices of the declarations between i and end (struct body)."""
    start = i
    depth = 0
    while i < end:
        t = toks[i]
        if t.kind == 'op' and t.text in '({[':
            depth += 1
        elif t.kind == 'op' and t.text in ')}]':
            depth -= 1
            if depth == 0 and t.text == '}' and i + 1 < end and toks[i + 1].text != ';' \
               and any(x.text == '(' for x in toks[start:i]) and not any(x.text == 'enum' for x in toks[start:start + 1]):
                yield toks[start:i + 1]
                start = i + 1
        elif t.kind == 'op' and t.text == ';' and depth == 0:
            if i > start:
                yield toks[start:i]
            start = i + 1
        elif t.kind == 'op' and t.text == ':' and depth == 0 and i == start + 1 and toks[start].text in ('public', 'private', 'protected'):
            start = i + 1
        i += 1


def find_matching(toks, i):
    """toks[i] is '{' or '('; return index of the matching closer."""
    open_, close = toks[i].text, {'{': '}', '(': ')', '[': ']'}[toks[i].text]
    depth = 0
    while True:
        t = toks[i]
        if t.kind == 'op' and t.text == open_:
            depth += 1
        elif t.kind == 'op' and t.text == close:
            depth -= 1
            if depth == 0:
                return i
        elif t.kind == 'eof':
            raise SyntaxError('unbalanced')
        i += 1


def parse_enum(decl):
    """decl tokens start with 'enum'."""
    i = 1
    scoped = False
    if decl[i].text in ('class', 'struct'):
        scoped = True
        i += 1
    name = None
    if decl[i].kind == 'id':
        name = decl[i].text
        i += 1
    under = 'int'
    if decl[i].text == ':':
        i += 1
        ty = []
        while decl[i].text != '{':
            ty.append(decl[i].text)
            i += 1
        under = ''.join(ty) if '::' in ''.join(ty) else ' '.join(ty)
    if decl[i].text != '{':
        return None
    j = find_matching(decl, i)
    e = Enum(name, under, scoped)
    body = decl[i + 1:j]
    cur = -1
    k = 0
    while k < len(body):
        if body[k].kind != 'id':
            k += 1
            continue
        cname = body[k].text
        k += 1
        if k < len(body) and body[k].text == '=':
            k += 1
            vt = []
            while k < len(body) and body[k].text != ',':
                vt.append(body[k])
                k += 1
            cur = enum_value(vt, e.consts)
        else:
            cur = (cur + 1) if cur is not None else None
        e.consts[cname] = cur
        while k < len(body) and body[k].text != ',':
            k += 1
        k += 1
    return e


def enum_value(vt, known):
    """constant expression of an enumerator: numbers, earlier enumerators, | + - << ( ) and char literals"""
    parts = []
    for t in vt:
        if t.kind == 'num':
            parts.append(str(parse_int(t.text)[0]))
        elif t.kind == 'id' and t.text in known and known[t.text] is not None:
            parts.append(str(known[t.text]))
        elif t.kind == 'chr' and len(t.text) == 3:
            parts.append(str(ord(t.text[1])))
        elif t.kind == 'op' and t.text in ('|', '+', '-', '<<', '(', ')', '&', '~', '*'):
            parts.append(t.text)
        else:
            return None
    try:
        return int(eval(' '.join(parts), {'__builtins__': {}}))
    except Exception:
        return None


def parse_int(text):
    m = re.match(r'^(0[xX][0-9a-fA-F]+|\d+)([uUlL]*)$', text)
    body, suf = m.group(1), m.group(2).lower()
    hexa = body.lower().startswith('0x')
    v = int(body, 16) if hexa else (int(body, 8) if len(body) > 1 and body[0] == '0' else int(body))
    uns = 'u' in suf
    lng = 'l' in suf
    if uns:
        ty = 'U64' if (lng or v >= 2 ** 32) else 'U32'
    elif hexa:
        if not lng and v < 2 ** 31:
            ty = 'I32'
        elif not lng and v < 2 ** 32:
            ty = 'U32'
        elif v < 2 ** 63:
            ty = 'I64'
        else:
            ty = 'U64'
    else:
        ty = 'I32' if (not lng and v < 2 ** 31) else 'I64'
    return v, ty


def parse_header(world, path):
    src = strip_comments(open(path).read())
    toks = tokenize(src)
    n = len(toks)
    i = 0
    while i < n:
        t = toks[i]
        if t.kind == 'id' and t.text == 'enum':
            # namespace level enum
            j = i
            while toks[j].text != '{' and toks[j].text != ';':
                j += 1
            if toks[j].text == '{':
                k = find_matching(toks, j)
                e = parse_enum(toks[i:k + 1])
                if e and e.name:
                    world.enums[e.name] = e
                i = k + 1
                continue
        if t.kind == 'id' and t.text == 'const' and toks[i + 1].kind == 'id' and toks[i + 1].text in SCALARS \
           and toks[i + 2].kind == 'id' and toks[i + 3].text == '=' and toks[i + 4].kind == 'num':
            world.consts[toks[i + 2].text] = (parse_int(toks[i + 4].text)[0], SCALARS[toks[i + 1].text])
            i += 5
            continue
        if t.kind == 'id' and t.text in ('struct', 'class') and toks[i + 1].kind == 'id':
            # struct [MACRO] Name [final] [: bases] {
            j = i + 1
            names = []
            while toks[j].kind == 'id' and toks[j].text != 'final':
                names.append(toks[j].text)
                j += 1
            final = False
            if toks[j].text == 'final':
                final = True
                j += 1
            bases = []
            if toks[j].text == ':':
                j += 1
                while toks[j].text != '{' and toks[j].text != ';':
                    if toks[j].kind == 'id' and toks[j].text not in ('public', 'private', 'protected', 'virtual'):
                        bases.append(toks[j].text)
                    j += 1
            if toks[j].text != '{' or (i > 0 and toks[i - 1].text in ('enum', 'friend', '<', ',')):
                i += 1
                continue
            name = names[-1]
            end = find_matching(toks, j)
            cls = Class(name)
            cls.bases = bases
            cls.final = final
            cls.header = os.path.basename(path)
            parse_struct_body(world, cls, toks, j + 1, end)
            if cls.methods_decl or cls.bases or cls.has_virtual:
                world.classes[name] = cls
            else:
                world.pods[name] = cls
            i = end + 1
            continue
        i += 1


def parse_struct_body(world, cls, toks, i, end):
    for decl in split_decls(toks, i, end):
        if not decl:
            continue
        first = decl[0].text
        if first == 'enum':
            e = parse_enum(decl)
            if e:
                cls.enums[e.name or ('@anon%d' % len(cls.enums))] = e
            continue
        if first in ('using', 'typedef', 'friend', 'template', 'struct', 'class'):
            continue
        texts = [x.text for x in decl]
        if 'operator' in texts:
            continue
        # method / ctor declaration: a '(' before any '{' or '='
        cut = len(decl)
        for k, x in enumerate(decl):
            if x.text in ('{', '='):
                cut = k
                break
        if '(' in texts[:cut]:
            p = texts.index('(')
            name = texts[p - 1]
            if 'virtual' in texts[:p]:
                cls.has_virtual = True
            if name == cls.name or texts[p - 2:p] == ['~', cls.name] or name == 'operator' or 'operator' in texts[:p]:
                if '~' in texts[:p] and 'virtual' in texts[:p]:
                    cls.has_virtual = True
                continue
            ret = ' '.join(x for x in texts[:p - 1] if x not in ('virtual', 'static', 'inline', 'VECTOR_BLF_EXPORT'))
            cls.methods_decl[name] = ret
            continue
        if first == 'static' or 'mutable' in texts[:cut] and False:
            continue
        # data member
        tt = [x for x in decl[:cut] if x.text != 'mutable']
        if len(tt) < 2 or tt[-1].kind != 'id':
            world.warnings.append('%s: unparsed member declaration: %s' % (cls.name, ' '.join(texts)))
            continue
        name = tt[-1].text
        ctype = join_type(tt[:-1])
        has_init = cut < len(decl)
        init_toks = []
        if has_init:
            if decl[cut].text == '{':
                init_toks = decl[cut + 1:find_matching(decl, cut)]
            else:
                init_toks = decl[cut + 1:]
        cls.members.append(Member(name, ctype, init_toks, has_init))


def join_type(toks):
    s = ''
    for t in toks:
        if t.kind == 'id' and s and (s[-1].isalnum() or s[-1] == '_'):
            s += ' '
        if t.text == ',':
            s += ', '
            continue
        s += t.text
    return s


# ---------------------------------------------------------------- cpp parsing
def parse_cpp(world, path):
    src = strip_comments(open(path).read())
    toks = tokenize(src)
    n = len(toks)
    i = 0
    while i < n - 3:
        # look for  Class :: name (
        if toks[i].kind == 'id' and toks[i + 1].text == '::' and toks[i + 2].kind == 'id' and toks[i + 3].text == '(' \
           and toks[i].text in world.classes and (i == 0 or toks[i - 1].text not in ('::', '.', '->', 'new', '=', '(', ',', 'return', '+', '-', '*', '&')):
            cname, fname = toks[i].text, toks[i + 2].text
            # statement-level use inside a body is excluded by brace depth: we only scan at depth of namespaces;
            # definitions are followed by ')' [const] [: inits] '{'
            pclose = find_matching(toks, i + 3)
            j = pclose + 1
            while toks[j].kind == 'id' and toks[j].text in ('const', 'noexcept', 'override'):
                j += 1
            inits = None
            if toks[j].text == ':':
                # constructor initialiser list up to '{' at depth 0
                k = j + 1
                depth = 0
                while not (toks[k].text == '{' and depth == 0 and toks[k - 1].text in (')', '}')):
                    if toks[k].text in '({':
                        depth += 1
                    elif toks[k].text in ')}':
                        depth -= 1
                    k += 1
                inits = toks[j + 1:k]
                j = k
            if toks[j].text != '{':
                i += 1
                continue
            bend = find_matching(toks, j)
            cls = world.classes[cname]
            params = toks[i + 4:pclose]
            if fname == cname:
                cls.ctor = (params, inits or [])
            else:
                # return type: tokens before Class going back to previous ';' or '}' or start
                k = i - 1
                ret = []
                while k >= 0 and toks[k].text not in (';', '}', '{', '>') :
                    ret.insert(0, toks[k].text)
                    k -= 1
                if k >= 0 and toks[k].text == '>':      # template<typename T> — not a codec
                    i = bend + 1
                    continue
                cls.bodies[fname] = (join_type([t for t in toks[k + 1:i]]), toks[j:bend + 1], params)
            i = bend + 1
            continue
        i += 1


# ---------------------------------------------------------------- lowering to IR
class Ctx:
    """Name resolution for one method of one class."""

    def __init__(self, world, cls):
        self.world, self.cls = world, cls
        self.locals = {}
        self.nlocals = 0

    def is_type(self, ty):
        c = canon_type(ty).rstrip('*& ').strip()
        return c in SCALARS or c in self.world.enums or c in self.world.classes or c in self.world.pods \
            or c.startswith('std::') or self.find_enum_type(c) is not None

    def find_enum_type(self, name):
        for c in self.mro(self.cls):
            if name in c.enums:
                return c.enums[name]
        if name in self.world.enums:
            return self.world.enums[name]
        if '::' in name:
            a, b = name.rsplit('::', 1)
            if a in self.world.classes and b in self.world.classes[a].enums:
                return self.world.classes[a].enums[b]
        return None

    def mro(self, cls):
        out = [cls]
        for b in cls.bases:
            if b in self.world.classes:
                out += self.mro(self.world.classes[b])
        return out

    def find_field(self, name, cls=None):
        for c in self.mro(cls or self.cls):
            for m in c.members:
                if m.name == name:
                    return m
        return None

    def scalar_ity(self, ty):
        c = canon_type(ty)
        if c in SCALARS:
            return SCALARS[c]
        e = self.find_enum_type(c)
        if e is not None:
            u = canon_type(e.under)
            return SCALARS.get(u)
        return None

    def find_const(self, name):
        """enumerator or global constant → (value, ity) or None."""
        parts = name.split('::')
        if len(parts) == 1:
            if name in self.world.consts:
                return self.world.consts[name]
            for c in self.mro(self.cls):
                for e in c.enums.values():
                    if not e.scoped and name in e.consts:
                        return (e.consts[name], SCALARS.get(canon_type(e.under), 'I32'))
            for e in self.world.enums.values():
                if not e.scoped and name in e.consts:
                    return (e.consts[name], SCALARS.get(canon_type(e.under), 'I32'))
            return None
        cname = parts[-1]
        ename = '::'.join(parts[:-1])
        e = self.find_enum_type(ename)
        if e is not None and cname in e.consts:
            return (e.consts[cname], SCALARS.get(canon_type(e.under), 'I32'))
        # Class::CONST (unscoped enumerator of a class)
        if ename in self.world.classes:
            for e in self.world.classes[ename].enums.values():
                if not e.scoped and cname in e.consts:
                    return (e.consts[cname], SCALARS.get(canon_type(e.under), 'I32'))
        return None


class Lower:
    def __init__(self, world, cls, mids):
        self.w, self.cls, self.mids = world, cls, mids
        self.ctx = Ctx(world, cls)
        self.scan = None

    def mid(self, name):
        if name not in self.mids:
            self.mids[name] = max(list(self.mids.values()) + [4]) + 1
        return self.mids[name]

    # field reference: returns (fid, Member) or None
    def field_ref(self, e):
        if e[0] == 'name' and '::' not in e[1] and e[1] not in self.ctx.locals:
            m = self.ctx.find_field(e[1])
            if m is not None and m.kind[0] != 'struct':
                return (m.fid, m)
        if e[0] == 'name' and '::' in e[1]:
            a, b = e[1].rsplit('::', 1)
            if a in self.w.classes and self.w.classes[a] in self.ctx.mro(self.cls):
                m = self.ctx.find_field(b, self.w.classes[a])
                if m is not None and m.kind[0] != 'struct':
                    return (m.fid, m)
        if e[0] == 'member' and e[1] == ('this',):
            m = self.ctx.find_field(e[2])
            if m is not None and m.kind[0] != 'struct':
                return (m.fid, m)
        if e[0] == 'member' and e[1][0] == 'name':
            sm = self.ctx.find_field(e[1][1])
            if sm is not None and sm.kind[0] == 'struct':
                sub = self.w.classes[sm.kind[1]]
                m2 = Ctx(self.w, sub).find_field(e[2])
                if m2 is not None and m2.kind[0] != 'struct':
                    return (m2.fid + sm.shift, m2)
        return None

    def struct_member(self, e):
        if e[0] == 'name':
            sm = self.ctx.find_field(e[1])
            if sm is not None and sm.kind[0] == 'struct':
                return sm
        return None

    def expr(self, e):
        k = e[0]
        if k == 'num':
            v, ty = parse_int(e[1])
            return 'EConst %s %s' % (zlit(v), ty)
        if k == 'bool':
            return 'EConst %d TBool' % (1 if e[1] else 0)
        if k in ('name', 'member'):
            if k == 'name' and e[1] in self.ctx.locals:
                return 'EVar %d' % self.ctx.locals[e[1]][0]
            fr = self.field_ref(e)
            if fr is not None:
                if fr[1].kind[0] != 'scalar':
                    raise Unsupported('non-scalar field in expression: %s' % fr[1].name)
                return 'EField %d' % fr[0]
            if k == 'name':
                c = self.ctx.find_const(e[1])
                if c is not None:
                    return 'EConst %s %s' % (zlit(c[0]), c[1])
            raise Unsupported('unknown name %r' % (e,))
        if k == 'un':
            op = {'!': 'ONot', '~': 'OBNot', '-': 'ONeg'}[e[1]]
            return 'EUn %s (%s)' % (op, self.expr(e[2]))
        if k == 'bin':
            op = {'+': 'OAdd', '-': 'OSub', '*': 'OMul', '/': 'ODiv', '%': 'OMod', '&': 'OAnd', '|': 'OOr',
                  '^': 'OXor', '<<': 'OShl', '>>': 'OShr', '&&': 'OLAnd', '||': 'OLOr', '<': 'OLt', '<=': 'OLe',
                  '>': 'OGt', '>=': 'OGe', '==': 'OEq', '!=': 'ONe'}[e[1]]
            return 'EBin %s (%s) (%s)' % (op, self.expr(e[2]), self.expr(e[3]))
        if k == 'cond':
            return 'ECond (%s) (%s) (%s)' % (self.expr(e[1]), self.expr(e[2]), self.expr(e[3]))
        if k == 'cast':
            ity = self.ctx.scalar_ity(e[1])
            if ity is None:
                raise Unsupported('cast to %s' % e[1])
            return 'ECast %s (%s)' % (ity, self.expr(e[2]))
        if k == 'sizeof_type':
            ity = self.ctx.scalar_ity(e[1])
            if ity is None:
                raise Unsupported('sizeof(%s)' % e[1])
            return 'ESizeofT %d' % WIDTH[ity]
        if k == 'sizeof_expr':
            fr = self.field_ref(e[1])
            if fr is None:
                raise Unsupported('sizeof of non-field')
            return 'ESizeof %d' % fr[0]
        if k == 'mcall':
            if e[2] == 'size' and not e[3]:
                fr = self.field_ref(e[1])
                if fr is None or fr[1].kind[0] not in ('vec', 'array'):
                    raise Unsupported('size() of non-container')
                return 'ESize %d' % fr[0]
            sm = self.struct_member(e[1])
            if sm is not None and not e[3]:
                return 'ECall (CMember %d %s) %d' % (self.w.classes[sm.kind[1]].idx, zlit(sm.shift), self.mid(e[2]))
            raise Unsupported('method call %s' % e[2])
        if k == 'call':
            if e[2]:
                raise Unsupported('call with arguments: %s' % e[1])
            if '::' in e[1]:
                a, b = e[1].rsplit('::', 1)
                if a in self.w.classes:
                    return 'ECall (CStatic %d) %d' % (self.w.classes[a].idx, self.mid(b))
                raise Unsupported('call %s' % e[1])
            return 'ECall CDyn %d' % self.mid(e[1])
        raise Unsupported('expression %r' % (k,))

    # statements
    def seq(self, lst):
        out = 'SNop'
        for s in reversed(lst):
            out = s if out == 'SNop' else 'SSeq (%s) (%s)' % (s, out)
        return out

    def stmt(self, s):
        try:
            return self.stmt_inner(s)
        except Unsupported as ex:
            self.w.warnings.append('%s: unsupported: %s' % (self.cls.name, ex))
            return 'SUnsupported "%s"' % coqstr(str(ex))

    def stmt_inner(self, s):
        k = s[0]
        if k == 'block':
            out = []
            lst = s[1]
            i = 0
            while i < len(lst):
                x = lst[i]
                # `uint32_t tmp = 0;` directly before the signature loop is part of the loop (SScan starts from 0)
                if x[0] == 'decl' and i + 1 < len(lst) and lst[i + 1][0] == 'while' and x[3] == ('num', '0') \
                   and lst[i + 1][1][0] == 'bin' and lst[i + 1][1][2] == ('name', x[2]) and self.ctx.scalar_ity(x[1]) == 'U32':
                    self.ctx.nlocals += 1
                    self.ctx.locals[x[2]] = (self.ctx.nlocals, 'U32')
                    if match_scan(self, lst[i + 1]) is not None:
                        i += 1
                        continue
                    del self.ctx.locals[x[2]]
                    self.ctx.nlocals -= 1
                out.append(self.stmt(x))
                i += 1
            return self.seq(out)
        if k == 'unsupported':
            raise Unsupported(s[1])
        if k == 'if':
            return 'SIf (%s) (%s) (%s)' % (self.expr(s[1]), self.stmt(s[2]), self.stmt(s[3]))
        if k == 'return':
            return 'SRet None' if s[1] is None else 'SRet (Some (%s))' % self.expr(s[1])
        if k == 'throw':
            return 'SThrow'
        if k == 'while':
            sc = match_scan(self, s)
            if sc is None:
                raise Unsupported('while loop')
            self.scan = sc
            return 'SScan'
        if k == 'decl':
            ity = self.ctx.scalar_ity(s[1])
            if ity is None or s[3] is None:
                raise Unsupported('declaration of %s %s' % (s[1], s[2]))
            init = self.expr(s[3])
            self.ctx.nlocals += 1
            self.ctx.locals[s[2]] = (self.ctx.nlocals, ity)
            return 'SDecl %d %s (%s)' % (self.ctx.nlocals, ity, init)
        if k == 'assign':
            op, lhs, rhs = s[1], s[2], s[3]
            r = self.expr(rhs)
            binop = {'+=': 'OAdd', '-=': 'OSub', '*=': 'OMul', '/=': 'ODiv', '%=': 'OMod', '&=': 'OAnd', '|=': 'OOr', '^=': 'OXor'}
            if lhs[0] == 'name' and lhs[1] in self.ctx.locals:
                x = self.ctx.locals[lhs[1]][0]
                if op != '=':
                    r = 'EBin %s (EVar %d) (%s)' % (binop[op], x, r)
                return 'SSet %d (%s)' % (x, r)
            fr = self.field_ref(lhs)
            if fr is None or fr[1].kind[0] != 'scalar':
                raise Unsupported('assignment to %r' % (lhs,))
            if op != '=':
                r = 'EBin %s (EField %d) (%s)' % (binop[op], fr[0], r)
            return 'SAssign %d (%s)' % (fr[0], r)
        if k == 'expr':
            return self.expr_stmt(s[1])
        raise Unsupported('statement %s' % k)

    def expr_stmt(self, e):
        if e[0] == 'call' and '::' in e[1] and len(e[2]) == 1 and e[2][0] in (('name', 'is'), ('name', 'os')):
            a, b = e[1].rsplit('::', 1)
            if a in self.w.classes and b in ('read', 'write'):
                return 'SCall (CStatic %d) %d' % (self.w.classes[a].idx, self.mid(b))
        if e[0] == 'mcall':
            obj, meth, args = e[1], e[2], e[3]
            if obj in (('name', 'is'), ('name', 'os')):
                if meth in ('read', 'write') and len(args) == 2:
                    rd = meth == 'read'
                    if (obj[1] == 'is') != rd:
                        raise Unsupported('direction mismatch')
                    p = args[0]
                    if p[0] != 'ptrcast':
                        raise Unsupported('read/write without pointer cast')
                    tgt = p[2]
                    while tgt[0] == 'ptrcast':
                        tgt = tgt[2]
                    if tgt[0] == 'addr':
                        fr = self.field_ref(tgt[1])
                        if fr is None:
                            raise Unsupported('read/write of non-field')
                        if args[1] != ('sizeof_expr', tgt[1]):
                            # size is not sizeof(the same member)
                            raise Unsupported('scalar read/write with foreign size')
                        if fr[1].kind[0] not in ('scalar', 'array'):
                            raise Unsupported('address of a dynamic container')
                        return ('SRead %d' if rd else 'SWrite %d') % fr[0]
                    if tgt[0] == 'mcall' and tgt[2] == 'data' and not tgt[3]:
                        fr = self.field_ref(tgt[1])
                        if fr is None or fr[1].kind[0] not in ('vec', 'array'):
                            raise Unsupported('data() of non-container')
                        return ('SReadBytes %d (%s)' if rd else 'SWriteBytes %d (%s)') % (fr[0], self.expr(args[1]))
                    raise Unsupported('read/write target')
                if meth == 'seekg' and obj[1] == 'is' and len(args) in (1, 2):
                    if len(args) == 2 and args[1] != ('name', 'std::ios_base::cur'):
                        raise Unsupported('seekg direction')
                    return 'SSeek (%s)' % self.expr(args[0])
                if meth == 'skipp' and obj[1] == 'os' and len(args) == 1:
                    return 'SZero (%s)' % self.expr(args[0])
                raise Unsupported('stream method %s' % meth)
            if meth == 'resize' and len(args) == 1:
                fr = self.field_ref(obj)
                if fr is None or fr[1].kind[0] != 'vec':
                    raise Unsupported('resize of non-vector')
                return 'SResize %d (%s)' % (fr[0], self.expr(args[0]))
            sm = self.struct_member(obj)
            if sm is not None and meth in ('read', 'write') and len(args) == 1:
                return 'SCall (CMember %d %s) %d' % (self.w.classes[sm.kind[1]].idx, zlit(sm.shift), self.mid(meth))
        raise Unsupported('expression statement %r' % (e[0],))


def match_scan(lw, s):
    """Recognise the signature search loop of ObjectHeaderBase::read; return its constants."""
    try:
        cond, body = s[1], s[2]
        assert cond[0] == 'bin' and cond[1] == '!=' and cond[2][0] == 'name'
        tmp = cond[2][1]
        assert tmp in lw.ctx.locals and lw.ctx.locals[tmp][1] == 'U32'
        sig = lw.ctx.find_const(cond[3][1])
        assert sig is not None
        st = body[1]
        assert len(st) == 2
        rd = st[0]
        assert rd == ('expr', ('mcall', ('name', 'is'), 'read',
                               [('ptrcast', 'char *', ('addr', ('name', tmp))), ('sizeof_expr', ('name', tmp))]))
        iff = st[1]
        assert iff[0] == 'if' and iff[1] == ('bin', '==', ('name', tmp), cond[3])
        thenb = iff[2][1] if iff[2][0] == 'block' else [iff[2]]
        assert len(thenb) == 1 and thenb[0][0] == 'assign' and thenb[0][1] == '=' and thenb[0][3] == ('name', tmp)
        fr = lw.field_ref(thenb[0][2])
        assert fr is not None
        elseb = iff[3][1]
        assert len(elseb) == 2
        eofif = elseb[0]
        assert eofif[0] == 'if'
        if eofif[1] == ('mcall', ('name', 'is'), 'eof', []):
            stop_on_fail = False
        else:
            assert eofif[1] == ('un', '!', ('mcall', ('name', 'is'), 'good', []))
            stop_on_fail = True
        tb = eofif[2][1] if eofif[2][0] == 'block' else [eofif[2]]
        assert len(tb) == 1 and tb[0][0] == 'throw' and eofif[3] == ('block', [])
        rules = []
        cur = elseb[1]
        while cur[0] == 'if':
            c = cur[1]
            assert c[0] == 'bin' and c[1] == '=='
            l, r = c[2], c[3]
            assert l[0] == 'bin' and l[1] == '&'
            ops = [l[2], l[3]]
            assert ('name', tmp) in ops
            ops.remove(('name', tmp))
            assert ops[0][0] == 'num' and r[0] == 'num'
            mask, val = parse_int(ops[0][1])[0], parse_int(r[1])[0]
            b = cur[2][1] if cur[2][0] == 'block' else [cur[2]]
            assert len(b) == 1 and b[0][0] == 'expr'
            call = b[0][1]
            assert call[0] == 'mcall' and call[1] == ('name', 'is') and call[2] == 'seekg'
            assert len(call[3]) == 2 and call[3][1] == ('name', 'std::ios_base::cur')
            off = call[3][0]
            if off[0] == 'un' and off[1] == '-' and off[2][0] == 'num':
                k = -parse_int(off[2][1])[0]
            else:
                assert off[0] == 'num'
                k = parse_int(off[1])[0]
            rules.append((mask, val, k))
            cur = cur[3]
            if cur[0] == 'block' and len(cur[1]) == 1:
                cur = cur[1][0]
        assert cur == ('block', [])
        return {'sig': sig[0], 'rules': rules, 'field': fr[0], 'stop_on_fail': stop_on_fail}
    except (AssertionError, IndexError, TypeError, KeyError):
        return None


def zlit(v):
    return '(%d)' % v if v < 0 else '%d' % v


def coqstr(s):
    return s.replace('"', "'").replace('\n', ' ')[:200]


# ---------------------------------------------------------------- semantic-free resolution of member kinds
def resolve_members(world):
    names = sorted(world.classes)
    for k, n in enumerate(names):
        world.classes[n].idx = k + 1
    nextpseudo = [1000]
    # first pass: kinds
    for n in names:
        cls = world.classes[n]
        ctx = Ctx(world, cls)
        for i, m in enumerate(cls.members):
            m.fid = cls.idx * 256 + i
            t = canon_type(m.ctype)
            ity = ctx.scalar_ity(t)
            if ity is not None:
                m.kind = ('scalar', ity, t == 'double')
            else:
                mm = re.match(r'^std::array<\s*(.+?)\s*,\s*(\d+)\s*>$', t)
                mv = re.match(r'^std::vector<\s*(.+?)\s*>$', t)
                if mm and ctx.scalar_ity(mm.group(1)):
                    m.kind = ('array', WIDTH[ctx.scalar_ity(mm.group(1))], int(mm.group(2)))
                elif mv and ctx.scalar_ity(mv.group(1)):
                    m.kind = ('vec', WIDTH[ctx.scalar_ity(mv.group(1))])
                elif t == 'std::string':
                    m.kind = ('vec', 1)
                elif t == 'std::u16string':
                    m.kind = ('vec', 2)
                elif t in world.pods:
                    size = pod_size(world, ctx, world.pods[t])
                    m.kind = ('array', 1, size) if size else ('other', t)
                    m.pod = True
                elif t in world.classes:
                    m.kind = ('struct', t)
                else:
                    m.kind = ('other', t)
    # second pass: struct members get pseudo-class blocks
    pseudo = []
    for n in names:
        cls = world.classes[n]
        for m in cls.members:
            if m.kind[0] == 'struct':
                sub = world.classes[m.kind[1]]
                if sub.bases:
                    world.warnings.append('%s.%s: struct member with base classes' % (n, m.name))
                K = nextpseudo[0]
                nextpseudo[0] += 1
                m.shift = (K - sub.idx) * 256
                m.pseudo = K
                pseudo.append((K, cls, m, sub))
    return pseudo


def pod_size(world, ctx, pod):
    off = 0
    maxal = 1
    for m in pod.members:
        ity = ctx.scalar_ity(canon_type(m.ctype))
        if ity is None:
            return None
        w = WIDTH[ity]
        off = (off + w - 1) // w * w
        off += w
        maxal = max(maxal, w)
    return (off + maxal - 1) // maxal * maxal


def member_init(world, cls, m):
    """('none',) | ('zero',) | ('val', z) | ('expr', text)."""
    if not m.has_init:
        return ('none',)
    if not m.init_toks:
        return ('zero',)
    ctx = Ctx(world, cls)
    try:
        p = Parser(list(m.init_toks) + [tokenize('')[0]], ctx)
        e = p.expr()
        v = const_eval(world, cls, ctx, e)
        if v is not None:
            return ('val', v)
        if e[0] == 'call' and not e[2] and '::' not in e[1] and e[1] in cls.bodies:
            return ('call', e[1])
    except Unsupported:
        pass
    return ('expr', ' '.join(t.text for t in m.init_toks))


def const_eval(world, cls, ctx, e):
    if e[0] == 'num':
        return parse_int(e[1])[0]
    if e[0] == 'bool':
        return 1 if e[1] else 0
    if e[0] == 'name':
        c = ctx.find_const(e[1])
        return c[0] if c else None
    if e[0] == 'un' and e[1] == '-':
        v = const_eval(world, cls, ctx, e[2])
        return -v if v is not None else None
    return None


# ---------------------------------------------------------------- constructor constants
def ctor_consts(world, cls):
    """[(fid, value)] set by this class's own constructor (init list only), with the arguments it
    passes to base constructors resolved by substitution of constants."""
    def run(c, args):
        out = []
        if c.ctor is None:
            return out
        params, inits = c.ctor
        # parameter names and defaults
        ctx = Ctx(world, c)
        pnames = []
        pdefaults = []
        cur = []
        depth = 0
        for t in list(params) + [None]:
            if t is None or (t.text == ',' and depth == 0):
                if cur:
                    txt = [x.text for x in cur]
                    if '=' in txt:
                        q = txt.index('=')
                        pnames.append(txt[q - 1])
                        pdefaults.append(cur[q + 1:])
                    else:
                        pnames.append(txt[-1])
                        pdefaults.append(None)
                cur = []
                continue
            if t.text in '(<':
                depth += 1
            elif t.text in ')>':
                depth -= 1
            cur.append(t)
        env = {}
        for i, pn in enumerate(pnames):
            if i < len(args):
                env[pn] = args[i]
            elif pdefaults[i] is not None:
                try:
                    e = Parser(list(pdefaults[i]) + [tokenize('')[0]], ctx).expr()
                    env[pn] = const_eval(world, c, ctx, e)
                except Unsupported:
                    env[pn] = None
            else:
                env[pn] = None
        # init list entries: name ( args )
        i = 0
        while i < len(inits):
            if inits[i].kind == 'id' and i + 1 < len(inits) and inits[i + 1].text in '({':
                name = inits[i].text
                j = find_matching(inits, i + 1)
                argtoks = inits[i + 2:j]
                argv = []
                if argtoks:
                    try:
                        p = Parser(list(argtoks) + [tokenize('')[0]], ctx)
                        while True:
                            e = p.expr()
                            if e[0] == 'name' and e[1] in env:
                                argv.append(env[e[1]])
                            else:
                                argv.append(const_eval(world, c, ctx, e))
                            if p.at(','):
                                p.eat()
                            else:
                                break
                    except Unsupported:
                        argv = [None]
                if name in world.classes:
                    out += run(world.classes[name], argv)
                else:
                    m = ctx.find_field(name)
                    if m is not None and len(argv) == 1 and argv[0] is not None and m.kind[0] == 'scalar':
                        out.append((m.fid, argv[0]))
                    elif m is not None and argv and c is cls and not any(v is None for v in env.values()):
                        world.warnings.append('%s: constructor initialiser for %s not constant' % (c.name, name))
                i = j + 1
            else:
                i += 1
        return out
    return run(cls, [])


# ---------------------------------------------------------------- factory table, File.h comment table
def parse_factory(world, repo):
    src = strip_comments(open(os.path.join(repo, 'src/Vector/BLF/File.cpp')).read())
    m = re.search(r'File::createObject\s*\(.*?\)\s*\{(.*?)\n\}', src, re.S)
    table = []
    if not m:
        return None
    body = m.group(1)
    cases = []
    for part in re.split(r'\bcase\b', body)[1:]:
        mm = re.match(r'\s*ObjectType::(\w+)\s*:\s*(.*)', part, re.S)
        if not mm:
            return None
        name, rest = mm.group(1), mm.group(2)
        cases.append((name, rest))
    # fallthrough groups: a case with empty rest shares the next body
    pending = []
    for name, rest in cases:
        pending.append(name)
        stripped = rest.strip()
        if not stripped:
            continue
        nm = re.match(r'obj\s*=\s*new\s+(\w+)\s*(\(\s*\))?\s*;\s*break\s*;', stripped)
        if nm:
            for p in pending:
                table.append((p, nm.group(1)))
        elif re.match(r'break\s*;', stripped):
            for p in pending:
                table.append((p, None))
        else:
            for p in pending:
                table.append((p, '?' + stripped[:60]))
        pending = []
    has_default = bool(re.search(r'\bdefault\s*:', body))
    return table, has_default


def parse_format_table(repo):
    """The `// NAME = n` table next to the includes in File.h: the documented format-side assignment."""
    out = []
    for line in open(os.path.join(repo, 'src/Vector/BLF/File.h')):
        m = re.match(r'\s*(#include\s*<Vector/BLF/(\w+)\.h>\s*)?//\s*(\w+)\s*=\s*(\d+)\s*$', line)
        if m:
            out.append((m.group(3), int(m.group(4)), m.group(2)))
    return out


# ---------------------------------------------------------------- main
def main():
    repo, coqdir, hdir, metapath = sys.argv[1:5]
    src = os.path.join(repo, 'src/Vector/BLF')
    world = World()
    for h in sorted(glob.glob(os.path.join(src, '*.h'))):
        try:
            parse_header(world, h)
        except SyntaxError as ex:
            world.warnings.append('%s: %s' % (os.path.basename(h), ex))
    # only classes with codec methods are of interest
    for cpp in sorted(glob.glob(os.path.join(src, '*.cpp'))):
        try:
            parse_cpp(world, cpp)
        except SyntaxError as ex:
            world.warnings.append('%s: %s' % (os.path.basename(cpp), ex))
    codec = {n: c for n, c in world.classes.items()
             if ('read' in c.bodies and 'write' in c.bodies and n not in ('File', 'CompressedFile', 'UncompressedFile', 'AbstractFile'))}
    # keep bases of codec classes too
    keep = set(codec)
    changed = True
    while changed:
        changed = False
        for n in list(keep):
            for b in world.classes[n].bases:
                if b in world.classes and b not in keep:
                    keep.add(b)
                    changed = True
            for m in world.classes[n].members:
                t = canon_type(m.ctype)
                if t in world.classes and t not in keep and 'read' in world.classes[t].bodies:
                    keep.add(t)
                    changed = True
    world.classes = {n: world.classes[n] for n in keep}
    pseudo = resolve_members(world)
    mids = dict(FIXED_MIDS)
    names = sorted(world.classes)
    out = []
    out.append('(* GENERATED by translator/blf2coq.py from %s — do not edit *)' % src)
    out.append('From VB Require Import IR.')
    out.append('Local Open Scope Z_scope.\nLocal Open Scope string_scope.\n')
    meta = {'classes': {}, 'warnings': world.warnings}
    scan = None
    defs = []
    for n in names:
        cls = world.classes[n]
        fields = []
        mfields = []
        for m in cls.members:
            if m.kind[0] == 'struct':
                continue
            if m.kind[0] == 'other':
                world.warnings.append('%s.%s: member type %s not modelled' % (n, m.name, m.kind[1]))
                continue
            ini = member_init(world, cls, m)
            m.init = ini
            if m.kind[0] == 'scalar':
                kind = 'KScalar %s' % m.kind[1]
            elif m.kind[0] == 'array':
                kind = 'KArray %d %d' % (m.kind[1], m.kind[2])
            else:
                kind = 'KVec %d' % m.kind[1]
            if ini[0] == 'none':
                ci = 'INone'
            elif ini[0] == 'zero':
                ci = 'IZero'
            elif ini[0] == 'val':
                ci = 'IVal %s' % zlit(ini[1])
            elif ini[0] == 'call':
                ci = 'ICall %d' % mids.setdefault(ini[1], max(list(mids.values()) + [4]) + 1)
            else:
                ci = 'INone'
                world.warnings.append('%s.%s: initialiser not constant: %s' % (n, m.name, ini[1]))
            isf = 'true' if (m.kind[0] == 'scalar' and m.kind[2]) else 'false'
            fields.append('{| f_id := %d; f_name := "%s"; f_kind := %s; f_init := %s; f_float := %s |}' % (m.fid, m.name, kind, ci, isf))
            mfields.append({'id': m.fid, 'name': m.name, 'kind': list(m.kind), 'init': list(ini), 'ctype': m.ctype})
        members = ['(%d, %s)' % (world.classes[m.kind[1]].idx, zlit(m.shift)) for m in cls.members if m.kind[0] == 'struct']
        meths = []
        mmeta = {}
        meta_assigned = []
        meta_selectors = {}
        meta_assigned_r = []
        meta_derivs = []
        meta_pads = False
        for fname, (ret, body, params) in sorted(cls.bodies.items()):
            lw = Lower(world, cls, mids)
            ptoks = [t for t in params]
            # parameters other than the stream are not supported
            ptxt = ' '.join(t.text for t in ptoks)
            if fname in ('read', 'write'):
                pass
            elif ptxt.strip():
                continue        # helper with arguments (compress, uncompress, ...) — not a codec method
            p = Parser(list(body) + [tokenize('')[0]], lw.ctx)
            ast = p.block_or_stmt()
            ir = lw.stmt(ast)
            if lw.scan:
                scan = lw.scan
            rt = lw.ctx.scalar_ity(canon_type(ret)) if canon_type(ret) != 'void' else None
            if canon_type(ret) != 'void' and rt is None:
                continue
            mid = lw.mid(fname)
            meths.append('{| m_id := %d; m_ret := %s; m_body := %s |}' % (mid, 'Some %s' % rt if rt else 'None', ir))
            mmeta[fname] = mid
            for mm in re.finditer(r'EBin O(Lt|Le|Gt|Ge|Eq|Ne|And) \(EField (\d+)\) \(EConst (\d+) \w+\)', ir):
                k = int(mm.group(3))
                vals = [k, 0, k | 1, k + 1] if mm.group(1) == 'And' else [max(k - 1, 0), k, k + 1]
                meta_selectors.setdefault(int(mm.group(2)), [])
                for x in vals:
                    if x not in meta_selectors[int(mm.group(2))]:
                        meta_selectors[int(mm.group(2))].append(x)
            if fname == 'read':
                meta_assigned_r = [int(x) for x in re.findall(r'SAssign (\d+)', ir)]
            if fname == 'write':
                meta_assigned = [int(x) for x in re.findall(r'SAssign (\d+)', ir)]
                for mm in re.finditer(r'SAssign (\d+) \(ECast (\w+) \((?:ESize (\d+)|EBin OMul \(ESize (\d+)\) \(ESizeofT (\d+)\))\)\)', ir):
                    meta_derivs.append([int(mm.group(1)), mm.group(2), int(mm.group(3) or mm.group(4)), int(mm.group(5) or 1)])
                meta_pads = 'SZero' in ir
        ctor = ctor_consts(world, cls)
        defs.append('Definition c_%s : cdef := {|\n  c_id := %d; c_name := "%s";\n  c_bases := [%s];\n  c_fields := [\n    %s];\n  c_members := [%s];\n  c_ctor := [%s];\n  c_methods := [\n    %s] |}.\n' % (
            n, cls.idx, n, '; '.join(str(world.classes[b].idx) for b in cls.bases if b in world.classes),
            ';\n    '.join(fields), '; '.join(members), '; '.join('(%d, %s)' % (f, zlit(v)) for f, v in ctor),
            ';\n    '.join(meths)))
        meta['classes'][n] = {'idx': cls.idx, 'bases': [b for b in cls.bases if b in world.classes], 'fields': mfields,
                              'members': [{'name': m.name, 'cls': m.kind[1], 'shift': m.shift} for m in cls.members if m.kind[0] == 'struct'],
                              'methods': mmeta, 'assigned_in_write': meta_assigned, 'selectors': meta_selectors, 'assigned_in_read': meta_assigned_r, 'derivs': meta_derivs, 'pads': meta_pads, 'ctor': ctor, 'final': cls.final, 'header': cls.header,
                              'has_default_ctor': cls.ctor is None or not [t for t in cls.ctor[0] if t.kind != 'eof']}
    # pseudo classes for struct members (shifted copies of the field tables)
    for K, cls, m, sub in pseudo:
        fields = []
        for sm in sub.members:
            if sm.kind[0] in ('struct', 'other'):
                continue
            ini = sm.init or member_init(world, sub, sm)
            if sm.kind[0] == 'scalar':
                kind = 'KScalar %s' % sm.kind[1]
            elif sm.kind[0] == 'array':
                kind = 'KArray %d %d' % (sm.kind[1], sm.kind[2])
            else:
                kind = 'KVec %d' % sm.kind[1]
            ci = {'none': 'INone', 'zero': 'IZero'}.get(ini[0], 'IVal %s' % zlit(ini[1]) if ini[0] == 'val' else 'INone')
            isf = 'true' if (sm.kind[0] == 'scalar' and sm.kind[2]) else 'false'
            fields.append('{| f_id := %d; f_name := "%s.%s"; f_kind := %s; f_init := %s; f_float := %s |}' % (sm.fid + m.shift, m.name, sm.name, kind, ci, isf))
        defs.append('Definition c_pseudo_%d : cdef := {|\n  c_id := %d; c_name := "%s.%s";\n  c_bases := []; c_fields := [\n    %s];\n  c_members := []; c_ctor := []; c_methods := [] |}.\n' % (
            K, K, cls.name, m.name, ';\n    '.join(fields)))
    out += defs
    out.append('Definition all_classes : classes := [\n  %s].\n' % ';\n  '.join(['c_%s' % n for n in names] + ['c_pseudo_%d' % K for K, _, _, _ in pseudo]))
    out.append('Definition method_names : list (Z * string) := [%s].\n' % '; '.join('(%d, "%s")' % (v, k) for k, v in sorted(mids.items(), key=lambda kv: kv[1])))
    os.makedirs(coqdir, exist_ok=True)
    write_if_changed(os.path.join(coqdir, 'Classes.v'), '\n'.join(out))

    # ---- Consts.v: scan constants, ObjectType enum, factory, documented table
    co = ['(* GENERATED by translator/blf2coq.py — do not edit *)', 'From VB Require Import IR Sem.',
          'Local Open Scope Z_scope.\nLocal Open Scope string_scope.\n']
    if scan is None:
        scan = {'sig': 0, 'rules': [], 'field': 0, 'stop_on_fail': False}
        world.warnings.append('signature scan loop not recognised')
        co.append('Definition scan_recognised : bool := false.')
    else:
        co.append('Definition scan_recognised : bool := true.')
    co.append('Definition scan_p : scan_params := {| sp_sig := %d; sp_rules := [%s]; sp_field := %d; sp_stop_on_fail := %s |}.\n' % (
        scan['sig'], '; '.join('(%d, %d, %s)' % (m, v, zlit(k)) for m, v, k in scan['rules']), scan['field'], 'true' if scan['stop_on_fail'] else 'false'))
    ot = world.enums.get('ObjectType')
    otl = sorted(ot.consts.items(), key=lambda kv: kv[1]) if ot else []
    co.append('Definition object_types : list (string * Z) := [\n  %s].\n' % ';\n  '.join('("%s", %d)' % kv for kv in otl))
    fac = parse_factory(world, repo)
    ftab = []
    if fac is None:
        world.warnings.append('createObject not recognised')
        co.append('Definition factory_recognised : bool := false.')
        fac = ([], False)
    else:
        co.append('Definition factory_recognised : bool := %s.' % ('false' if any(c and c.startswith('?') for _, c in fac[0]) else 'true'))
    for ename, cname in fac[0]:
        code = ot.consts.get(ename) if ot else None
        if code is None:
            continue
        cidx = world.classes[cname].idx if cname in world.classes else (0 if cname is None else -1)
        ftab.append((code, cidx, ename, cname))
    co.append('(* createObject: type code -> class id (0 = case present, no object) *)')
    co.append('Definition factory_table : list (Z * Z) := [\n  %s].\n' % ';\n  '.join('(%d, %s)' % (c, zlit(i)) for c, i, _, _ in ftab))
    fmt = parse_format_table(repo)
    co.append('(* File.h: documented format table: code, class id (0 = none) *)')
    co.append('Definition format_table : list (Z * Z) := [\n  %s].\n' % ';\n  '.join(
        '(%d, %d)' % (code, world.classes[h].idx if h in world.classes else 0) for nm, code, h in fmt))
    # the format's own assignment, pinned in /verif (not taken from the tree under test)
    try:
        pinned = json.load(open(os.path.join(os.path.dirname(os.path.abspath(__file__)), 'format_codes.json')))['codes']
    except (OSError, ValueError, KeyError):
        pinned = []
        world.warnings.append('translator/format_codes.json missing or unreadable')
    co.append('(* translator/format_codes.json: the pinned format table: code, class id (0 = no decoder / class gone) *)')
    co.append('Definition pinned_format : list (Z * Z) := [\n  %s].\n' % ';\n  '.join(
        '(%d, %d)' % (code, world.classes[h].idx if h in world.classes else 0) for nm, code, h in pinned))
    meta['pinned_format'] = pinned
    cre = []
    for n in names:
        cls = world.classes[n]
        concrete = 'read' in cls.bodies and (cls.ctor is None or not [t for t in cls.ctor[0]])
        isobj = any(c.name == 'ObjectHeaderBase' for c in Ctx(world, cls).mro(cls))
        unmodelled = any(m.kind[0] == 'other' for c in Ctx(world, cls).mro(cls) for m in c.members if m.name != 'filePosition')
        if concrete and isobj and not unmodelled:
            cre.append(cls.idx)
    ohb = world.classes.get('ObjectHeaderBase')
    for fname in ('signature', 'headerSize', 'headerVersion', 'objectSize', 'objectType'):
        m = [x for x in (ohb.members if ohb else []) if x.name == fname]
        co.append('Definition fid_%s : Z := %d.' % (fname, m[0].fid if m else 0))
    co.append('Definition class_names : list (Z * string) := [%s].\n' % '; '.join('(%d, "%s")' % (world.classes[n].idx, n) for n in names))
    co.append('(* classes derived from ObjectHeaderBase with a default constructor *)')
    co.append('Definition object_classes : list Z := [%s].\n' % '; '.join(str(i) for i in cre))
    write_if_changed(os.path.join(coqdir, 'Consts.v'), '\n'.join(co))
    meta['scan'] = scan
    meta['object_types'] = otl
    meta['factory'] = [(c, i, e, n) for c, i, e, n in ftab]
    meta['format_table'] = fmt
    meta['mids'] = mids
    meta['warnings'] = world.warnings

    # ---- C++ reflection
    gen_reflect(world, names, hdir, meta)
    os.makedirs(os.path.dirname(metapath), exist_ok=True)
    with open(metapath, 'w') as f:
        json.dump(meta, f, indent=1)
    for wmsg in world.warnings:
        print('warning:', wmsg, file=sys.stderr)


def write_if_changed(path, text):
    text = text + '\n'
    if os.path.exists(path) and open(path).read() == text:
        return
    with open(path, 'w') as f:
        f.write(text)


def flat_fields(world, cls, prefix='', shift=0, qual=True):
    """[(fid, access path, Member)] for an object of class cls (bases first)."""
    out = []
    for b in cls.bases:
        if b in world.classes:
            out += flat_fields(world, world.classes[b], prefix, shift, qual)
    for m in cls.members:
        if m.kind[0] == 'struct':
            out += flat_fields(world, world.classes[m.kind[1]], prefix + m.name + '.', shift + m.shift, False)
        elif m.kind[0] != 'other':
            acc = prefix + ((cls.name + '::') if qual else '') + m.name
            out.append((m.fid + shift, acc, m))
    return out


def gen_reflect(world, names, hdir, meta):
    os.makedirs(hdir, exist_ok=True)
    o = ['// GENERATED by translator/blf2coq.py — do not edit', '#include <Vector/BLF.h>', '#include "reflect_rt.h"', '']
    creatable = []
    for n in names:
        cls = world.classes[n]
        concrete = 'read' in cls.bodies and (cls.ctor is None or not [t for t in cls.ctor[0]])
        isobj = any(c.name == 'ObjectHeaderBase' for c in Ctx(world, cls).mro(cls))
        if not concrete:
            continue
        ff = sorted(flat_fields(world, cls), key=lambda x: x[0])
        meta['classes'][n]['flat'] = [(fid, acc) for fid, acc, _ in ff]
        meta['classes'][n]['concrete'] = True
        meta['classes'][n]['isobj'] = isobj
        creatable.append(n)
        o.append('static void dump_%s(const Vector::BLF::%s & o, std::string & out) {' % (n, n))
        for fid, acc, m in ff:
            fn = 'rt_dump_scalar' if m.kind[0] == 'scalar' else ('rt_dump_pod' if m.pod else 'rt_dump_bytes')
            o.append('    %s(out, %d, o.%s);' % (fn, fid, acc))
        o.append('}')
        o.append('static bool set_%s(Vector::BLF::%s & o, long fid, const std::string & v) {' % (n, n))
        o.append('    switch (fid) {')
        for fid, acc, m in ff:
            fn = 'rt_set_scalar' if m.kind[0] == 'scalar' else ('rt_set_pod' if m.pod else 'rt_set_bytes')
            o.append('    case %d: %s(o.%s, v); return true;' % (fid, fn, acc))
        o.append('    default: return false;\n    }\n}')
        o.append('static void widths_%s(const Vector::BLF::%s & o) {' % (n, n))
        for fid, acc, m in ff:
            if m.kind[0] == 'scalar':
                o.append('    static_assert(sizeof(o.%s) == %d, "width of %s.%s");' % (acc, WIDTH[m.kind[1]], n, acc))
            elif m.kind[0] == 'array':
                o.append('    static_assert(sizeof(o.%s) == %d, "size of %s.%s");' % (acc, m.kind[1] * m.kind[2], n, acc))
        o.append('    (void) o;\n}')
        o.append('')
    o.append('const ClassInfo class_table[] = {')
    for n in creatable:
        cls = world.classes[n]
        isobj = meta['classes'][n]['isobj']
        o.append('    {"%s", %d, %s,' % (n, cls.idx, 'true' if isobj else 'false'))
        o.append('     []() -> void * { return new Vector::BLF::%s; },' % n)
        o.append('     [](void * p) { delete static_cast<Vector::BLF::%s *>(p); },' % n)
        o.append('     [](void * p, std::string & out) { dump_%s(*static_cast<Vector::BLF::%s *>(p), out); },' % (n, n))
        o.append('     [](void * p, long fid, const std::string & v) { return set_%s(*static_cast<Vector::BLF::%s *>(p), fid, v); },' % (n, n))
        o.append('     [](void * p, Vector::BLF::AbstractFile & f) { static_cast<Vector::BLF::%s *>(p)->read(f); },' % n)
        o.append('     [](void * p, Vector::BLF::AbstractFile & f) { static_cast<Vector::BLF::%s *>(p)->write(f); },' % n)
        if isobj:
            o.append('     [](void * p) -> Vector::BLF::ObjectHeaderBase * { return static_cast<Vector::BLF::%s *>(p); },' % n)
            o.append('     [](Vector::BLF::ObjectHeaderBase * b) -> void * { return typeid(*b) == typeid(Vector::BLF::%s) ? dynamic_cast<Vector::BLF::%s *>(b) : nullptr; },' % (n, n))
        else:
            o.append('     nullptr, nullptr,')
        o.append('     sizeof(Vector::BLF::%s),' % n)
        o.append('     [](void * mem) -> void * { return new (mem) Vector::BLF::%s; },' % n)
        o.append('     [](void * p) { static_cast<Vector::BLF::%s *>(p)->~%s(); }},' % (n, n))
    o.append('};')
    o.append('const size_t class_table_size = sizeof(class_table) / sizeof(class_table[0]);')
    write_if_changed(os.path.join(hdir, 'reflect.inc'), '\n'.join(x for x in o if x is not None))
    meta['creatable'] = creatable


if __name__ == '__main__':
    main()
