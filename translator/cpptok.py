"""Tokenizer and tiny expression/statement parser for the C++ subset used by the vector_blf codecs.

Purely syntactic: no evaluation, no typing.  Anything outside the accepted grammar is returned as
('unsupported', text) so that the Coq side sees SUnsupported and every reflective check of that
class fails (rather than the translator guessing).
"""
import re

TOKEN_RE = re.compile(r'''
    (?P<ws>\s+)
  | (?P<num>0[xX][0-9a-fA-F]+[uUlL]*|\d+[uUlL]*)
  | (?P<id>[A-Za-z_][A-Za-z_0-9]*)
  | (?P<str>"(?:[^"\\]|\\.)*")
  | (?P<chr>'(?:[^'\\]|\\.)*')
  | (?P<op>::|->|<<=|>>=|<<|>>|<=|>=|==|!=|&&|\|\||\+=|-=|\*=|/=|%=|&=|\|=|\^=|\+\+|--|[{}()\[\];,<>=+\-*/%&|^~!?:.])
''', re.X)


def strip_comments(src):
    src = re.sub(r'/\*.*?\*/', lambda m: ' ' * 0 + '\n' * m.group(0).count('\n'), src, flags=re.S)
    src = re.sub(r'//[^\n]*', '', src)
    # preprocessor lines
    src = re.sub(r'^[ \t]*\#[^\n]*(\\\n[^\n]*)*', '', src, flags=re.M)
    return src


class Tok:
    __slots__ = ('kind', 'text', 'pos', 'line')

    def __init__(self, kind, text, pos, line):
        self.kind, self.text, self.pos, self.line = kind, text, pos, line

    def __repr__(self):
        return '%s:%r' % (self.kind, self.text)


def tokenize(src):
    out = []
    pos = 0
    line = 1
    n = len(src)
    while pos < n:
        m = TOKEN_RE.match(src, pos)
        if not m:
            raise SyntaxError('cannot tokenize at %r' % src[pos:pos + 20])
        kind = m.lastgroup
        text = m.group(0)
        if kind != 'ws':
            out.append(Tok(kind, text, pos, line))
        line += text.count('\n')
        pos = m.end()
    out.append(Tok('eof', '', pos, line))
    return out


class Unsupported(Exception):
    pass


# binary operator precedence (C++), higher binds tighter
BINPREC = {
    '||': 1, '&&': 2, '|': 3, '^': 4, '&': 5, '==': 6, '!=': 6,
    '<': 7, '<=': 7, '>': 7, '>=': 7, '<<': 8, '>>': 8, '+': 9, '-': 9, '*': 10, '/': 10, '%': 10,
}


class Parser:
    """Parses token lists into a neutral AST (tuples).  Name resolution is done by the caller
    through the `ctx` object (see blf2coq.Ctx)."""

    def __init__(self, toks, ctx):
        self.t = toks
        self.i = 0
        self.ctx = ctx

    # -- token helpers
    def peek(self, k=0):
        return self.t[min(self.i + k, len(self.t) - 1)]

    def at(self, text, k=0):
        return self.peek(k).text == text and self.peek(k).kind != 'str'

    def eat(self, text=None):
        tok = self.peek()
        if text is not None and tok.text != text:
            raise Unsupported('expected %r got %r' % (text, tok.text))
        self.i += 1
        return tok

    def text_between(self, a, b):
        return ' '.join(x.text for x in self.t[a:b])

    # -- types inside casts / sizeof / declarations
    def try_type(self):
        """Parse a type name at the cursor; return the canonical spelling or None (cursor unchanged)."""
        save = self.i
        parts = []
        while self.peek().kind == 'id' and self.peek().text in ('const', 'unsigned', 'signed', 'volatile'):
            parts.append(self.eat().text)
        if self.peek().kind != 'id':
            self.i = save
            return None
        name = self.eat().text
        while self.at('::') and self.peek(1).kind == 'id':
            self.eat()
            name += '::' + self.eat().text
        if self.at('<'):
            # template arguments: take until matching '>'
            depth = 0
            while True:
                tok = self.eat()
                name += tok.text
                if tok.text == '<':
                    depth += 1
                elif tok.text == '>':
                    depth -= 1
                    if depth == 0:
                        break
                elif tok.kind == 'eof':
                    self.i = save
                    return None
        parts.append(name)
        while self.at('*') or self.at('&') or self.at('const'):
            parts.append(self.eat().text)
        ty = ' '.join(parts)
        if not self.ctx.is_type(ty):
            self.i = save
            return None
        return ty

    # -- expressions
    def expr(self, minprec=0):
        lhs = self.unary()
        while True:
            tok = self.peek()
            if tok.kind == 'op' and tok.text == '?' and minprec <= 0:
                self.eat()
                a = self.expr(0)
                self.eat(':')
                b = self.expr(0)
                lhs = ('cond', lhs, a, b)
                continue
            if tok.kind == 'op' and tok.text in BINPREC and BINPREC[tok.text] >= max(minprec, 1):
                p = BINPREC[tok.text]
                self.eat()
                rhs = self.expr(p + 1)
                lhs = ('bin', tok.text, lhs, rhs)
                continue
            return lhs

    def unary(self):
        tok = self.peek()
        if tok.kind == 'op' and tok.text in ('!', '~', '-', '+'):
            self.eat()
            e = self.unary()
            return e if tok.text == '+' else ('un', tok.text, e)
        if tok.kind == 'op' and tok.text == '&':
            self.eat()
            return ('addr', self.unary())
        return self.postfix()

    def postfix(self):
        e = self.primary()
        while True:
            if self.at('.') or self.at('->'):
                self.eat()
                name = self.eat().text
                if self.at('('):
                    args = self.args()
                    e = ('mcall', e, name, args)
                else:
                    e = ('member', e, name)
            else:
                return e

    def args(self):
        self.eat('(')
        out = []
        if not self.at(')'):
            out.append(self.expr())
            while self.at(','):
                self.eat()
                out.append(self.expr())
        self.eat(')')
        return out

    def primary(self):
        tok = self.peek()
        if tok.kind == 'num':
            self.eat()
            return ('num', tok.text)
        if tok.kind == 'op' and tok.text == '(':
            # C-style cast or parenthesised expression
            save = self.i
            self.eat()
            ty = self.try_type()
            if ty is not None and self.at(')'):
                self.eat()
                return ('cast', ty, self.unary())
            self.i = save
            self.eat('(')
            e = self.expr()
            self.eat(')')
            return e
        if tok.kind == 'id':
            if tok.text in ('static_cast', 'reinterpret_cast', 'const_cast'):
                kind = self.eat().text
                self.eat('<')
                # type up to matching '>'
                depth = 1
                start = self.i
                while depth:
                    t2 = self.eat()
                    if t2.text == '<':
                        depth += 1
                    elif t2.text == '>':
                        depth -= 1
                    elif t2.kind == 'eof':
                        raise Unsupported('unterminated cast')
                ty = self.text_between(start, self.i - 1)
                self.eat('(')
                e = self.expr()
                self.eat(')')
                return ('cast', ty, e) if kind == 'static_cast' else ('ptrcast', ty, e)
            if tok.text == 'sizeof':
                self.eat()
                self.eat('(')
                save = self.i
                ty = self.try_type()
                if ty is not None and self.at(')'):
                    self.eat()
                    return ('sizeof_type', ty)
                self.i = save
                e = self.expr()
                self.eat(')')
                return ('sizeof_expr', e)
            if tok.text in ('true', 'false'):
                self.eat()
                return ('bool', tok.text == 'true')
            if tok.text == 'this':
                self.eat()
                return ('this',)
            # qualified name
            name = self.eat().text
            while self.at('::') and self.peek(1).kind == 'id':
                self.eat()
                name += '::' + self.eat().text
            if self.at('('):
                args = self.args()
                return ('call', name, args)
            return ('name', name)
        raise Unsupported('unexpected token %r' % tok.text)

    # -- statements
    def block_or_stmt(self):
        if self.at('{'):
            self.eat()
            out = []
            while not self.at('}'):
                if self.peek().kind == 'eof':
                    raise Unsupported('unterminated block')
                out.append(self.stmt())
            self.eat('}')
            return ('block', out)
        return self.stmt()

    def skip_stmt(self, start):
        """Skip a statement we cannot parse; return its text."""
        self.i = start
        depth = 0
        while True:
            tok = self.eat()
            if tok.kind == 'eof':
                break
            if tok.text in '({[' and tok.kind == 'op':
                depth += 1
            elif tok.text in ')}]' and tok.kind == 'op':
                depth -= 1
                if depth == 0 and tok.text == '}':
                    break
            elif tok.text == ';' and depth == 0:
                break
        return self.text_between(start, self.i)

    def stmt(self):
        start = self.i
        try:
            return self.stmt_inner()
        except Unsupported as ex:
            text = self.skip_stmt(start)
            return ('unsupported', text)

    def stmt_inner(self):
        tok = self.peek()
        if self.at('{'):
            return self.block_or_stmt()
        if self.at(';'):
            self.eat()
            return ('block', [])
        if tok.kind == 'id' and tok.text == 'if':
            self.eat()
            self.eat('(')
            c = self.expr()
            self.eat(')')
            a = self.block_or_stmt()
            b = ('block', [])
            if self.at('else'):
                self.eat()
                b = self.block_or_stmt()
            return ('if', c, a, b)
        if tok.kind == 'id' and tok.text == 'return':
            self.eat()
            if self.at(';'):
                self.eat()
                return ('return', None)
            e = self.expr()
            self.eat(';')
            return ('return', e)
        if tok.kind == 'id' and tok.text == 'throw':
            start = self.i
            self.skip_stmt(start)
            return ('throw',)
        if tok.kind == 'id' and tok.text == 'while':
            self.eat()
            self.eat('(')
            c = self.expr()
            self.eat(')')
            body = self.block_or_stmt()
            return ('while', c, body)
        if tok.kind == 'id' and tok.text in ('for', 'switch', 'do', 'try', 'goto'):
            raise Unsupported(tok.text)
        # declaration?
        save = self.i
        ty = self.try_type()
        if ty is not None and self.peek().kind == 'id' and (self.at('=', 1) or self.at(';', 1) or self.at('{', 1)):
            name = self.eat().text
            init = None
            if self.at('='):
                self.eat()
                init = self.expr()
            elif self.at('{'):
                raise Unsupported('brace-initialised local')
            self.eat(';')
            return ('decl', ty, name, init)
        self.i = save
        # expression statement
        e = self.expr()
        if self.peek().kind == 'op' and self.peek().text in ('=', '+=', '-=', '*=', '/=', '%=', '&=', '|=', '^='):
            op = self.eat().text
            rhs = self.expr()
            self.eat(';')
            return ('assign', op, e, rhs)
        if self.at('++') or self.at('--'):
            op = self.eat().text
            self.eat(';')
            return ('assign', '+=' if op == '++' else '-=', e, ('num', '1'))
        self.eat(';')
        return ('expr', e)
