// reflect_rt.h — runtime helpers for the generated reflection (harness/gen/reflect.inc)
#pragma once
#include <array>
#include <cstdint>
#include <cstring>
#include <string>
#include <type_traits>
#include <vector>

namespace Vector { namespace BLF { struct ObjectHeaderBase; class AbstractFile; } }

struct ClassInfo {
    const char * name;
    int idx;
    bool isobj;
    void * (*make)();
    void (*destroy)(void *);
    void (*dump)(void *, std::string &);
    bool (*set)(void *, long, const std::string &);
    void (*read)(void *, Vector::BLF::AbstractFile &);
    void (*write)(void *, Vector::BLF::AbstractFile &);
    Vector::BLF::ObjectHeaderBase * (*as_ohb)(void *);
    void * (*from_ohb)(Vector::BLF::ObjectHeaderBase *);
    size_t size;
    void * (*construct_at)(void *);
    void (*destruct)(void *);
};
extern const ClassInfo class_table[];
extern const size_t class_table_size;

static inline void rt_hex(std::string & out, const unsigned char * p, size_t n) {
    static const char * d = "0123456789abcdef";
    for (size_t i = 0; i < n; i++) { out += d[p[i] >> 4]; out += d[p[i] & 15]; }
}
static inline std::vector<unsigned char> rt_unhex(const std::string & v) {
    auto hv = [](char c) -> int { return c <= '9' ? c - '0' : (c | 32) - 'a' + 10; };
    std::vector<unsigned char> r;
    for (size_t i = 1; i + 1 < v.size(); i += 2) r.push_back(static_cast<unsigned char>(hv(v[i]) * 16 + hv(v[i + 1])));
    return r;
}

template <typename T>
static inline void rt_dump_scalar(std::string & out, long fid, const T & v) {
    out += ' '; out += std::to_string(fid); out += '=';
    if (std::is_floating_point<T>::value) {
        uint64_t u = 0; std::memcpy(&u, &v, sizeof(v) < 8 ? sizeof(v) : 8); out += std::to_string(u);
    } else if (std::is_same<T, bool>::value) {
        unsigned char c; std::memcpy(&c, &v, 1); out += std::to_string(static_cast<unsigned>(c));
    } else if (std::is_enum<T>::value || std::is_unsigned<T>::value) {
        uint64_t u = 0; std::memcpy(&u, &v, sizeof(v)); out += std::to_string(u);
    } else {
        int64_t s = 0;
        switch (sizeof(T)) {
        case 1: { int8_t x; std::memcpy(&x, &v, 1); s = x; break; }
        case 2: { int16_t x; std::memcpy(&x, &v, 2); s = x; break; }
        case 4: { int32_t x; std::memcpy(&x, &v, 4); s = x; break; }
        default: { int64_t x; std::memcpy(&x, &v, 8); s = x; break; }
        }
        out += std::to_string(s);
    }
}
template <typename T>
static inline void rt_set_scalar(T & dst, const std::string & v) {
    // decimal, possibly negative; stored as the low sizeof(T) bytes
    bool neg = !v.empty() && v[0] == '-';
    uint64_t u = 0;
    for (size_t i = neg ? 1 : 0; i < v.size(); i++) u = u * 10 + static_cast<uint64_t>(v[i] - '0');
    if (neg) u = 0 - u;
    std::memcpy(&dst, &u, sizeof(T));
}

// containers
template <typename C>
static inline auto rt_dump_bytes(std::string & out, long fid, const C & c) -> decltype(c.data(), void()) {
    out += ' '; out += std::to_string(fid); out += "=x";
    rt_hex(out, reinterpret_cast<const unsigned char *>(c.data()), c.size() * sizeof(typename C::value_type));
}
// POD blob (SYSTEMTIME)
template <typename C>
static inline void rt_dump_pod(std::string & out, long fid, const C & c) {
    out += ' '; out += std::to_string(fid); out += "=x";
    rt_hex(out, reinterpret_cast<const unsigned char *>(&c), sizeof(C));
}
template <typename T, typename A>
static inline void rt_set_bytes(std::vector<T, A> & c, const std::string & v) {
    auto b = rt_unhex(v); c.resize(b.size() / sizeof(T)); if (!b.empty()) std::memcpy(c.data(), b.data(), c.size() * sizeof(T));
}
template <typename Ch>
static inline void rt_set_bytes(std::basic_string<Ch> & c, const std::string & v) {
    auto b = rt_unhex(v); c.resize(b.size() / sizeof(Ch)); if (!b.empty()) std::memcpy(&c[0], b.data(), c.size() * sizeof(Ch));
}
template <typename T, size_t N>
static inline void rt_set_bytes(std::array<T, N> & c, const std::string & v) {
    auto b = rt_unhex(v); std::memcpy(c.data(), b.data(), b.size() < sizeof(c) ? b.size() : sizeof(c));
}
template <typename C>
static inline void rt_set_pod(C & c, const std::string & v) {
    auto b = rt_unhex(v); std::memcpy(&c, b.data(), b.size() < sizeof(C) ? b.size() : sizeof(C));
}
