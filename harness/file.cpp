// file.cpp — implementation side of the file-layer correspondence: real File sessions (write, read)
// of the library built from /repo's working tree, under ASan/UBSan and a watchdog.
//   FW <level> <containerSize> <restore> [H <sets>] | <cls> <sets> | ...   -> bytes of the finished file
//   FR <hex of a file>                                                     -> objects delivered, flags, counters
//   FX <n> <level> <containerSize> | objs...   write n files with overlapping lifetimes (same objects), print each
#include <algorithm>
#include <array>
#include <atomic>
#include <chrono>
#include <condition_variable>
#include <cstdio>
#include <cstdlib>
#include <cstring>
#include <fstream>
#include <iostream>
#include <list>
#include <memory>
#include <mutex>
#include <new>
#include <queue>
#include <sstream>
#include <stdexcept>
#include <string>
#include <thread>
#include <vector>
#include <limits>
#include <exception>
#include <typeinfo>
#include <unistd.h>
#define private public
#define protected public
#include <Vector/BLF.h>
#undef private
#undef protected
#include "reflect_rt.h"
#include "gen/reflect.inc"

// allocation cap standing in for a memory-limited host (applies to allocations made by library threads too)
static size_t ALLOC_CAP = 268435456;
void * operator new(size_t n) {
    if (n > ALLOC_CAP) throw std::bad_alloc();
    void * p = std::malloc(n ? n : 1);
    if (!p) throw std::bad_alloc();
    return p;
}
void operator delete(void * p) noexcept { std::free(p); }
void operator delete(void * p, size_t) noexcept { std::free(p); }
void * operator new[](size_t n) { return operator new(n); }
void operator delete[](void * p) noexcept { std::free(p); }
void operator delete[](void * p, size_t) noexcept { std::free(p); }

using namespace Vector::BLF;

static int WD_SECONDS = 8;
static std::atomic<long> g_progress(0);
static std::atomic<bool> g_in_case(false);
static std::string g_tmp;

static const ClassInfo * find_class(int idx) {
    for (size_t i = 0; i < class_table_size; i++)
        if (class_table[i].idx == idx) return &class_table[i];
    return nullptr;
}
static const ClassInfo * class_of(ObjectHeaderBase * o) {
    for (size_t i = 0; i < class_table_size; i++)
        if (class_table[i].isobj && class_table[i].from_ohb(o)) return &class_table[i];
    return nullptr;
}
static void apply_sets(const ClassInfo * ci, void * obj, const std::string & sets) {
    std::istringstream ss(sets);
    std::string tok;
    while (ss >> tok) {
        size_t eq = tok.find('=');
        if (eq == std::string::npos) continue;
        ci->set(obj, std::stol(tok.substr(0, eq)), tok.substr(eq + 1));
    }
}
static std::vector<std::string> split_bar(const std::string & s) {
    std::vector<std::string> out;
    size_t a = 0;
    while (true) {
        size_t b = s.find('|', a);
        out.push_back(s.substr(a, b == std::string::npos ? std::string::npos : b - a));
        if (b == std::string::npos) break;
        a = b + 1;
    }
    return out;
}
static std::string slurp_hex(const std::string & path) {
    std::ifstream f(path, std::ios::binary);
    std::vector<unsigned char> b((std::istreambuf_iterator<char>(f)), std::istreambuf_iterator<char>());
    std::string out;
    rt_hex(out, b.data(), b.size());
    return out;
}

static const ClassInfo * stats_ci() {
    for (size_t i = 0; i < class_table_size; i++)
        if (std::string(class_table[i].name) == "FileStatistics") return &class_table[i];
    return nullptr;
}

static void write_objects(File & f, const std::vector<std::string> & parts, size_t first) {
    for (size_t k = first; k < parts.size(); k++) {
        std::istringstream os(parts[k]);
        int c = 0;
        os >> c;
        const ClassInfo * ci = find_class(c);
        if (!ci || !ci->isobj) continue;
        void * obj = ci->make();
        std::string rest;
        std::getline(os, rest);
        apply_sets(ci, obj, rest);
        f.write(ci->as_ohb(obj));
        g_progress++;
    }
}

static std::string do_write(const std::string & line) {
    std::vector<std::string> parts = split_bar(line);
    std::istringstream hs(parts[0]);
    std::string cmd;
    int level = 1;
    long cs = 0x20000;
    int restore = 0;
    hs >> cmd >> level >> cs >> restore;
    std::string path = g_tmp + ".w.blf";
    std::string out;
    {
        File f;
        f.compressionLevel = level;
        f.setDefaultLogContainerSize(static_cast<uint32_t>(cs));
        f.writeRestorePoints = restore != 0;
        std::string h;
        if (hs >> h && h == "H") {
            std::string rest;
            std::getline(hs, rest);
            apply_sets(stats_ci(), &f.fileStatistics, rest);
        }
        f.open(path.c_str(), std::ios_base::out);
        if (!f.is_open()) return "FW err open";
        write_objects(f, parts, 1);
        f.close();
        out = "FW ok count=" + std::to_string(static_cast<unsigned long long>(f.currentObjectCount)) +
              " usize=" + std::to_string(static_cast<unsigned long long>(f.currentUncompressedFileSize)) +
              " open=" + (f.is_open() ? "1" : "0") + " ";
    }
    out += slurp_hex(path);
    std::remove(path.c_str());
    return out;
}

static std::string do_write_overlapping(const std::string & line) {
    std::vector<std::string> parts = split_bar(line);
    std::istringstream hs(parts[0]);
    std::string cmd;
    int n = 2, level = 1;
    long cs = 0x20000;
    hs >> cmd >> n >> level >> cs;
    std::vector<std::unique_ptr<File>> files;
    std::vector<std::string> paths;
    for (int i = 0; i < n; i++) {
        paths.push_back(g_tmp + ".x" + std::to_string(i) + ".blf");
        files.emplace_back(new File);
        files[i]->compressionLevel = level;
        files[i]->setDefaultLogContainerSize(static_cast<uint32_t>(cs));
        files[i]->open(paths[i].c_str(), std::ios_base::out);
    }
    // the LAST file is written and closed first, the first one last
    for (int i = n - 1; i >= 0; i--) {
        write_objects(*files[i], parts, 1);
        files[i]->close();
    }
    std::string out = "FX ok";
    for (int i = 0; i < n; i++) {
        out += " " + slurp_hex(paths[i]);
        std::remove(paths[i].c_str());
    }
    return out;
}

static std::string do_read(const std::string & line) {
    std::istringstream ss(line);
    std::string cmd, hex;
    ss >> cmd >> hex;
    std::vector<unsigned char> b = hex == "-" ? std::vector<unsigned char>() : rt_unhex("x" + hex);
    std::string path = g_tmp + ".r.blf";
    {
        std::ofstream o(path, std::ios::binary | std::ios::trunc);
        o.write(reinterpret_cast<const char *>(b.data()), static_cast<std::streamsize>(b.size()));
    }
    std::string objs;
    std::string out;
    long n = 0;
    {
        File f;
        try {
            f.open(path.c_str(), std::ios_base::in);
        } catch (Vector::BLF::Exception &) {
            std::remove(path.c_str());
            return "FR throws";
        }
        if (!f.is_open()) { std::remove(path.c_str()); return "FR notopen"; }
        while (true) {
            ObjectHeaderBase * o = f.read();
            if (!o) break;
            n++;
            g_progress++;
            const ClassInfo * ci = class_of(o);
            objs += " || ";
            objs += ci ? std::to_string(ci->idx) : "?";
            objs += " |";
            if (ci) ci->dump(ci->from_ohb(o), objs);
            delete o;
            if (n > 200000) { objs += " || TOOMANY"; break; }
        }
        bool eof = f.eof(), good = f.good();
        f.close();
        out = "FR ok n=" + std::to_string(n) + " eof=" + (eof ? "1" : "0") + " good=" + (good ? "1" : "0") +
              " count=" + std::to_string(static_cast<unsigned long long>(f.currentObjectCount)) +
              " usize=" + std::to_string(static_cast<unsigned long long>(f.currentUncompressedFileSize)) +
              " open=" + (f.is_open() ? "1" : "0") + " stats |";
        stats_ci()->dump(&f.fileStatistics, out);
    }
    std::remove(path.c_str());
    return out + objs;
}

int main(int argc, char ** argv) {
    if (const char * c = std::getenv("VERIF_ALLOC_CAP")) ALLOC_CAP = std::strtoull(c, nullptr, 10);
    if (const char * c = std::getenv("VERIF_WD_SECONDS")) WD_SECONDS = atoi(c);
    g_tmp = std::string(std::getenv("VERIF_TMPDIR") ? std::getenv("VERIF_TMPDIR") : "/tmp") + "/vbf_" + std::to_string(getpid());
    std::thread wd([] {
        long last = -1;
        int idle = 0;
        while (true) {
            std::this_thread::sleep_for(std::chrono::milliseconds(250));
            if (!g_in_case) { idle = 0; continue; }
            long p = g_progress;
            if (p != last) { last = p; idle = 0; continue; }
            if (++idle >= WD_SECONDS * 4) {
                std::cerr << "WATCHDOG hang after " << p << " steps" << std::endl;
                std::_Exit(7);
            }
        }
    });
    wd.detach();
    std::ifstream f(argc > 1 ? argv[1] : "/dev/stdin");
    std::string line;
    while (std::getline(f, line)) {
        if (line.empty() || line[0] == '#') continue;
        g_in_case = true;
        g_progress++;
        std::string r;
        try {
            if (line.compare(0, 3, "FW ") == 0) r = do_write(line);
            else if (line.compare(0, 3, "FX ") == 0) r = do_write_overlapping(line);
            else if (line.compare(0, 3, "FR ") == 0) r = do_read(line);
            else r = "? bad case";
        } catch (std::exception & ex) {
            r = std::string("ESCAPED ") + ex.what();
        }
        g_in_case = false;
        std::cout << r << std::endl;
    }
    std::_Exit(0);
}
