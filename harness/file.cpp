// file.cpp — implementation side of the file-layer correspondence: real File sessions (write, read)
// of the library built from /repo's working tree, under ASan/UBSan and a watchdog.
//   FW <level> <containerSize> <restore> [H <sets>] | <cls> <sets> | ...   -> bytes of the finished file
//   FR <hex of a file>                                                     -> objects delivered, flags, counters
//   FX <n> <level> <containerSize> | objs...   write n files with overlapping lifetimes (same objects), print each
#include <algorithm>
#include <array>
#include <atomic>
#include <chrono>
#include <condition_variable>
#include <cstdio>
#include <cstdlib>
#include <cstring>
#include <fstream>
#include <iostream>
#include <list>
#include <memory>
#include <mutex>
#include <new>
#include <queue>
#include <sstream>
#include <stdexcept>
#include <string>
#include <thread>
#include <vector>
#include <limits>
#include <exception>
#include <typeinfo>
#include <unistd.h>
#define private public
#define protected public
#include <Vector/BLF.h>
#undef private
#undef protected
#include "reflect_rt.h"
#include "gen/reflect.inc"

// allocation cap standing in for a memory-limited host (applies to allocations made by library threads too)
static size_t ALLOC_CAP = 268435456;
#include <malloc.h>
static std::atomic<long long> g_live_bytes(0), g_peak_bytes(0), g_live_allocs(0);
void * operator new(size_t n) {
    if (n > ALLOC_CAP) throw std::bad_alloc();
    void * p = std::malloc(n ? n : 1);
    if (!p) throw std::bad_alloc();
    long long now = g_live_bytes.fetch_add(static_cast<long long>(malloc_usable_size(p))) + static_cast<long long>(malloc_usable_size(p));
    long long pk = g_peak_bytes.load();
    while (now > pk && !g_peak_bytes.compare_exchange_weak(pk, now)) {}
    g_live_allocs++;
    return p;
}
void operator delete(void * p) noexcept { if (p) { g_live_bytes -= static_cast<long long>(malloc_usable_size(p)); g_live_allocs--; } std::free(p); }
void operator delete(void * p, size_t) noexcept { operator delete(p); }
void * operator new[](size_t n) { return operator new(n); }
void operator delete[](void * p) noexcept { operator delete(p); }
void operator delete[](void * p, size_t) noexcept { operator delete(p); }

using namespace Vector::BLF;

static int WD_SECONDS = 8;
static std::atomic<long> g_progress(0);
static std::atomic<bool> g_in_case(false);
static std::string g_tmp;

static const ClassInfo * find_class(int idx) {
    for (size_t i = 0; i < class_table_size; i++)
        if (class_table[i].idx == idx) return &class_table[i];
    return nullptr;
}
static const ClassInfo * class_of(ObjectHeaderBase * o) {
    for (size_t i = 0; i < class_table_size; i++)
        if (class_table[i].isobj && class_table[i].from_ohb(o)) return &class_table[i];
    return nullptr;
}
static void apply_sets(const ClassInfo * ci, void * obj, const std::string & sets) {
    std::istringstream ss(sets);
    std::string tok;
    while (ss >> tok) {
        size_t eq = tok.find('=');
        if (eq == std::string::npos) continue;
        ci->set(obj, std::stol(tok.substr(0, eq)), tok.substr(eq + 1));
    }
}
static std::vector<std::string> split_bar(const std::string & s) {
    std::vector<std::string> out;
    size_t a = 0;
    while (true) {
        size_t b = s.find('|', a);
        out.push_back(s.substr(a, b == std::string::npos ? std::string::npos : b - a));
        if (b == std::string::npos) break;
        a = b + 1;
    }
    return out;
}
static std::string slurp_hex(const std::string & path) {
    std::ifstream f(path, std::ios::binary);
    std::vector<unsigned char> b((std::istreambuf_iterator<char>(f)), std::istreambuf_iterator<char>());
    std::string out;
    rt_hex(out, b.data(), b.size());
    return out;
}

static const ClassInfo * stats_ci() {
    for (size_t i = 0; i < class_table_size; i++)
        if (std::string(class_table[i].name) == "FileStatistics") return &class_table[i];
    return nullptr;
}

static void write_objects(File & f, const std::vector<std::string> & parts, size_t first) {
    for (size_t k = first; k < parts.size(); k++) {
        std::istringstream os(parts[k]);
        int c = 0;
        os >> c;
        const ClassInfo * ci = find_class(c);
        if (!ci || !ci->isobj) continue;
        void * obj = ci->make();
        std::string rest;
        std::getline(os, rest);
        apply_sets(ci, obj, rest);
        f.write(ci->as_ohb(obj));
        g_progress++;
    }
}

static std::string do_write(const std::string & line) {
    std::vector<std::string> parts = split_bar(line);
    std::istringstream hs(parts[0]);
    std::string cmd;
    int level = 1;
    long cs = 0x20000;
    int restore = 0;
    hs >> cmd >> level >> cs >> restore;
    std::string path = g_tmp + ".w.blf";
    std::string out;
    {
        File f;
        f.compressionLevel = level;
        f.setDefaultLogContainerSize(static_cast<uint32_t>(cs));
        f.writeRestorePoints = restore != 0;
        std::string h;
        if (hs >> h && h == "H") {
            std::string rest;
            std::getline(hs, rest);
            apply_sets(stats_ci(), &f.fileStatistics, rest);
        }
        f.open(path.c_str(), std::ios_base::out);
        if (!f.is_open()) return "FW err open";
        write_objects(f, parts, 1);
        f.close();
        out = "FW ok count=" + std::to_string(static_cast<unsigned long long>(f.currentObjectCount)) +
              " usize=" + std::to_string(static_cast<unsigned long long>(f.currentUncompressedFileSize)) +
              " open=" + (f.is_open() ? "1" : "0") + " ";
    }
    out += slurp_hex(path);
    std::remove(path.c_str());
    return out;
}

static std::string do_write_overlapping(const std::string & line) {
    std::vector<std::string> parts = split_bar(line);
    std::istringstream hs(parts[0]);
    std::string cmd;
    int n = 2, level = 1;
    long cs = 0x20000;
    hs >> cmd >> n >> level >> cs;
    std::vector<std::unique_ptr<File>> files;
    std::vector<std::string> paths;
    for (int i = 0; i < n; i++) {
        paths.push_back(g_tmp + ".x" + std::to_string(i) + ".blf");
        files.emplace_back(new File);
        files[i]->compressionLevel = level;
        files[i]->setDefaultLogContainerSize(static_cast<uint32_t>(cs));
        files[i]->open(paths[i].c_str(), std::ios_base::out);
    }
    // the LAST file is written and closed first, the first one last
    for (int i = n - 1; i >= 0; i--) {
        write_objects(*files[i], parts, 1);
        files[i]->close();
    }
    std::string out = "FX ok";
    for (int i = 0; i < n; i++) {
        out += " " + slurp_hex(paths[i]);
        std::remove(paths[i].c_str());
    }
    return out;
}

static std::string do_read(const std::string & line) {
    std::istringstream ss(line);
    std::string cmd, hex;
    ss >> cmd >> hex;
    std::vector<unsigned char> b = hex == "-" ? std::vector<unsigned char>() : rt_unhex("x" + hex);
    std::string path = g_tmp + ".r.blf";
    {
        std::ofstream o(path, std::ios::binary | std::ios::trunc);
        o.write(reinterpret_cast<const char *>(b.data()), static_cast<std::streamsize>(b.size()));
    }
    std::string objs;
    std::string out;
    long n = 0;
    {
        File f;
        try {
            f.open(path.c_str(), std::ios_base::in);
        } catch (Vector::BLF::Exception &) {
            std::remove(path.c_str());
            return "FR throws";
        }
        if (!f.is_open()) { std::remove(path.c_str()); return "FR notopen"; }
        while (true) {
            ObjectHeaderBase * o = f.read();
            if (!o) break;
            n++;
            g_progress++;
            const ClassInfo * ci = class_of(o);
            objs += " || ";
            objs += ci ? std::to_string(ci->idx) : "?";
            objs += " |";
            if (ci) ci->dump(ci->from_ohb(o), objs);
            delete o;
            if (n > 200000) { objs += " || TOOMANY"; break; }
        }
        bool eof = f.eof(), good = f.good();
        f.close();
        out = "FR ok n=" + std::to_string(n) + " eof=" + (eof ? "1" : "0") + " good=" + (good ? "1" : "0") +
              " count=" + std::to_string(static_cast<unsigned long long>(f.currentObjectCount)) +
              " usize=" + std::to_string(static_cast<unsigned long long>(f.currentUncompressedFileSize)) +
              " open=" + (f.is_open() ? "1" : "0") + " stats |";
        stats_ci()->dump(&f.fileStatistics, out);
    }
    std::remove(path.c_str());
    return out + objs;
}

// FS <delay_ms> <level> <cs> <restore> | objs : write session with a pause before close()
static std::string do_write_delay(const std::string & line) {
    std::vector<std::string> parts = split_bar(line);
    std::istringstream hs(parts[0]);
    std::string cmd;
    int delay = 0, level = 1, restore = 0;
    long cs = 0x20000;
    hs >> cmd >> delay >> level >> cs >> restore;
    std::string path = g_tmp + ".s.blf";
    {
        File f;
        f.compressionLevel = level;
        f.setDefaultLogContainerSize(static_cast<uint32_t>(cs));
        f.writeRestorePoints = restore != 0;
        f.open(path.c_str(), std::ios_base::out);
        if (!f.is_open()) return "FS err open";
        write_objects(f, parts, 1);
        if (delay > 0) std::this_thread::sleep_for(std::chrono::milliseconds(delay));
        f.close();
    }
    std::string out = "FS ok " + slurp_hex(path);
    std::remove(path.c_str());
    return out;
}

// FT r <hex>  /  FT w <level> <cs> | objs : a plain session through the documented API with NO accessor call between
// open() and the first read()/write() (an is_open() there would order the threads by accident): for ThreadSanitizer.
static std::string do_tsan(const std::string & line) {
    std::vector<std::string> parts = split_bar(line);
    std::istringstream hs(parts[0]);
    std::string cmd, dir;
    hs >> cmd >> dir;
    if (dir == "r") {
        std::string hex;
        hs >> hex;
        std::string path = g_tmp + ".t.blf";
        {
            std::vector<unsigned char> b = rt_unhex("x" + hex);
            std::ofstream o(path, std::ios::binary);
            o.write(reinterpret_cast<const char *>(b.data()), static_cast<std::streamsize>(b.size()));
        }
        unsigned long long n = 0, cnt = 0, usz = 0;
        {
            File f;
            f.open(path.c_str(), std::ios_base::in);
            while (ObjectHeaderBase * o = f.read()) { delete o; n++; g_progress++; if (f.eof() && f.good()) g_progress++; }
            f.close();
            cnt = f.currentObjectCount;
            usz = f.currentUncompressedFileSize;
        }
        std::remove(path.c_str());
        return "FT ok n=" + std::to_string(n) + " count=" + std::to_string(cnt) + " usize=" + std::to_string(usz);
    }
    int level = 1;
    long cs = 0x20000;
    hs >> level >> cs;
    std::string path = g_tmp + ".t.blf";
    unsigned long long cnt = 0, usz = 0;
    {
        File f;
        f.compressionLevel = level;
        f.setDefaultLogContainerSize(static_cast<uint32_t>(cs));
        f.open(path.c_str(), std::ios_base::out);
        for (size_t k = 1; k < parts.size(); k++) {
            std::vector<std::string> one = {parts[0], parts[k]};
            write_objects(f, one, 1);
            /* an application may poll the state of the session between two writes */
            if (!f.good() && !f.eof()) g_progress++;
        }
        f.close();
        cnt = f.currentObjectCount;
        usz = f.currentUncompressedFileSize;
    }
    std::remove(path.c_str());
    return "FT ok count=" + std::to_string(cnt) + " usize=" + std::to_string(usz);
}

// FL <delay_ms> <level> <cs> <restore> | objs : as FS, but the compression level is assigned AFTER open() and a pause, before the
// first write() (a legal call sequence: the workers must use the value in force when the data arrives, not the one at open())
static std::string do_write_late_config(const std::string & line) {
    std::vector<std::string> parts = split_bar(line);
    std::istringstream hs(parts[0]);
    std::string cmd;
    int delay = 0, level = 1, restore = 0;
    long cs = 0x20000;
    hs >> cmd >> delay >> level >> cs >> restore;
    std::string path = g_tmp + ".l.blf";
    {
        File f;
        f.setDefaultLogContainerSize(static_cast<uint32_t>(cs));
        f.writeRestorePoints = restore != 0;
        f.open(path.c_str(), std::ios_base::out);
        if (!f.is_open()) return "FL err open";
        if (delay > 0) std::this_thread::sleep_for(std::chrono::milliseconds(delay));
        f.compressionLevel = level;
        write_objects(f, parts, 1);
        f.close();
    }
    std::string out = "FL ok " + slurp_hex(path);
    std::remove(path.c_str());
    return out;
}

// FC <cs1> <cs2> <n1> <n2> : a write session in which the default container size is changed from cs1 to cs2 after n1 of
// n1+n2 CAN messages; then the file is read back.  Prints the number of objects read back.
static std::string do_write_resize(const std::string & line) {
    std::istringstream ss(line);
    std::string cmd;
    long cs1 = 4096, cs2 = 512, n1 = 10, n2 = 10;
    ss >> cmd >> cs1 >> cs2 >> n1 >> n2;
    std::string path = g_tmp + ".c.blf";
    {
        File f;
        f.setDefaultLogContainerSize(static_cast<uint32_t>(cs1));
        f.open(path.c_str(), std::ios_base::out);
        if (!f.is_open()) return "FC err open";
        for (long i = 0; i < n1; i++) { auto * o = new CanMessage; o->id = static_cast<uint32_t>(i); f.write(o); g_progress++; }
        f.setDefaultLogContainerSize(static_cast<uint32_t>(cs2));
        for (long i = 0; i < n2; i++) { auto * o = new CanMessage; o->id = static_cast<uint32_t>(n1 + i); f.write(o); g_progress++; }
        f.close();
    }
    long n = 0;
    bool inorder = true;
    {
        File f;
        f.open(path.c_str(), std::ios_base::in);
        while (ObjectHeaderBase * o = f.read()) {
            CanMessage * m = dynamic_cast<CanMessage *>(o);
            if (!m || m->id != static_cast<uint32_t>(n)) inorder = false;
            delete o;
            n++;
            g_progress++;
        }
        f.close();
    }
    std::remove(path.c_str());
    return "FC ok n=" + std::to_string(n) + " inorder=" + (inorder ? "1" : "0");
}

// FV <lv1> <lv2> <cs> <n1> <pause_ms> | objs : a write session whose compression level is changed from lv1 to lv2 after the first
// n1 objects (after a pause, so that the workers have drained what was written so far and wait for more)
static std::string do_write_level_switch(const std::string & line) {
    std::vector<std::string> parts = split_bar(line);
    std::istringstream hs(parts[0]);
    std::string cmd;
    int lv1 = 1, lv2 = 0, pause = 0;
    long cs = 0x20000, n1 = 0;
    hs >> cmd >> lv1 >> lv2 >> cs >> n1 >> pause;
    std::string path = g_tmp + ".v.blf";
    {
        File f;
        f.compressionLevel = lv1;
        f.setDefaultLogContainerSize(static_cast<uint32_t>(cs));
        f.writeRestorePoints = false;
        f.open(path.c_str(), std::ios_base::out);
        if (!f.is_open()) return "FV err open";
        std::vector<std::string> first(parts.begin(), parts.begin() + std::min<size_t>(parts.size(), static_cast<size_t>(1 + n1)));
        write_objects(f, first, 1);
        if (pause > 0) std::this_thread::sleep_for(std::chrono::milliseconds(pause));
        f.compressionLevel = lv2;
        if (parts.size() > static_cast<size_t>(1 + n1)) {
            std::vector<std::string> rest(parts.begin() + 1 + n1, parts.end());
            rest.insert(rest.begin(), parts[0]);
            write_objects(f, rest, 1);
        }
        f.close();
    }
    std::string out = "FV ok " + slurp_hex(path);
    std::remove(path.c_str());
    return out;
}

// FE <reads> <sleep_ms> <mode> <hex> : read `reads` objects (all if < 0), pause, then close (0) / destroy (1) /
// close twice then destroy (2).  Prints objects read, flags, and the change in live allocations over the session.
static std::string do_read_early(const std::string & line) {
    std::istringstream ss(line);
    std::string cmd, hex;
    long reads = -1;
    int sleep_ms = 0, mode = 0;
    ss >> cmd >> reads >> sleep_ms >> mode >> hex;
    std::vector<unsigned char> b = hex == "-" ? std::vector<unsigned char>() : rt_unhex("x" + hex);
    std::string path = g_tmp + ".e.blf";
    {
        std::ofstream o(path, std::ios::binary | std::ios::trunc);
        o.write(reinterpret_cast<const char *>(b.data()), static_cast<std::streamsize>(b.size()));
    }
    std::string out, flags;
    out.reserve(4096); flags.reserve(256);
    long long before = g_live_allocs;
    {
        long n = 0;
        File * f = new File;
        try {
            f->open(path.c_str(), std::ios_base::in);
        } catch (Vector::BLF::Exception &) {
            delete f;
            std::remove(path.c_str());
            return "FE throws";
        }
        auto fl = [&] { flags += ' '; flags += (f->is_open() ? '1' : '0'); flags += (f->good() ? '1' : '0'); flags += (f->eof() ? '1' : '0'); };
        fl();
        bool sawnull = false;
        while (reads < 0 || n < reads) {
            ObjectHeaderBase * o = f->read();
            g_progress++;
            if (!o) { sawnull = true; break; }
            n++;
            delete o;
        }
        fl();
        if (sleep_ms > 0) std::this_thread::sleep_for(std::chrono::milliseconds(sleep_ms));
        if (mode == 0 || mode == 2) { f->close(); fl(); g_progress++; }
        if (mode == 2) { f->close(); fl(); g_progress++; }
        delete f;
        g_progress++;
        out += "FE ok n="; out += std::to_string(n); out += " null="; out += (sawnull ? "1" : "0"); out += " flags="; out += flags;
    }
    std::remove(path.c_str());
    out += " leaked=" + std::to_string(static_cast<long long>(g_live_allocs) - before);
    return out;
}

// FK <k> <hex> : read session; the inflating worker is parked just before its (k+1)-th operation on the compressed file
// (every operation takes CompressedFile's mutex), close() is called, and the worker is released as soon as close() has closed
// the fstream — the close takes effect exactly between two operations of the worker.  Needs the sched build (steering lives
// in harness/sched/shim.h); on the plain build it is an ordinary early close.
static std::string do_close_at(const std::string & line) {
    std::istringstream ss(line);
    std::string cmd, hex;
    long k = 0;
    ss >> cmd >> k >> hex;
    std::vector<unsigned char> b = hex == "-" ? std::vector<unsigned char>() : rt_unhex("x" + hex);
    std::string path = g_tmp + ".k.blf";
    {
        std::ofstream o(path, std::ios::binary | std::ios::trunc);
        o.write(reinterpret_cast<const char *>(b.data()), static_cast<std::streamsize>(b.size()));
    }
    std::string out;
    out.reserve(1024);
    long long before = g_live_allocs;
    int parked = 0;
    {
        File * f = new File;
#ifdef VERIF_SCHED_SHIM
        vshim::Gate & g = vshim::gate();
        g.owner = std::this_thread::get_id();
        g.parked = 0; g.release = 0;
        g.countdown = k;
        g.mtx = static_cast<void *>(&f->m_compressedFile.m_mutex);
#endif
        try {
            f->open(path.c_str(), std::ios_base::in);
        } catch (Vector::BLF::Exception &) {
#ifdef VERIF_SCHED_SHIM
            g.mtx = nullptr; g.countdown = -1;
#endif
            delete f;
            std::remove(path.c_str());
            return "FK throws";
        }
#ifdef VERIF_SCHED_SHIM
        for (int t = 0; t < 1200 && !g.parked.load(); t++) std::this_thread::sleep_for(std::chrono::microseconds(100));
        parked = g.parked.load();
        std::atomic<int> stop(0);
        std::thread helper([&] {
            while (!stop.load() && f->m_compressedFile.m_file.is_open()) std::this_thread::sleep_for(std::chrono::microseconds(20));
            g.release = 1;
        });
#endif
        g_progress++;
        f->close();
        g_progress++;
        out += "FK ok parked="; out += std::to_string(parked);
        out += " flags="; out += (f->is_open() ? '1' : '0'); out += (f->good() ? '1' : '0'); out += (f->eof() ? '1' : '0');
#ifdef VERIF_SCHED_SHIM
        stop = 1;
        helper.join();
        g.mtx = nullptr; g.countdown = -1;
#endif
        delete f;
        g_progress++;
    }
    std::remove(path.c_str());
    out += " leaked=" + std::to_string(static_cast<long long>(g_live_allocs) - before);
    return out;
}

// FG <cs1> <cs2> <k> <n> : write session; the first worker to take UncompressedFile's mutex for the (k+1)-th time is parked there,
// the application changes the container size from cs1 to cs2, releases it, writes n objects, closes, reads them back.
// (The container size takes effect exactly between two operations of a worker on the stream.)  Sched build only.
static std::string do_resize_at(const std::string & line) {
    std::istringstream ss(line);
    std::string cmd;
    long cs1 = 64, cs2 = 300000, k = 0, n = 100;
    ss >> cmd >> cs1 >> cs2 >> k >> n;
    std::string path = g_tmp + ".g.blf";
    int parked = 0;
    {
        File f;
        f.setDefaultLogContainerSize(static_cast<uint32_t>(cs1));
#ifdef VERIF_SCHED_SHIM
        vshim::Gate & g = vshim::gate();
        g.owner = std::this_thread::get_id();
        g.parked = 0; g.release = 0;
        g.countdown = k;
        g.mtx = static_cast<void *>(&f.m_uncompressedFile.m_mutex);
#endif
        f.open(path.c_str(), std::ios_base::out);
        if (!f.is_open()) return "FG err open";
#ifdef VERIF_SCHED_SHIM
        for (int t = 0; t < 1200 && !g.parked.load(); t++) std::this_thread::sleep_for(std::chrono::microseconds(100));
        parked = g.parked.load();
#endif
        f.setDefaultLogContainerSize(static_cast<uint32_t>(cs2));
#ifdef VERIF_SCHED_SHIM
        g.release = 1;
        g.mtx = nullptr; g.countdown = -1;
#endif
        for (long i = 0; i < n; i++) { auto * o = new CanMessage; o->id = static_cast<uint32_t>(i); f.write(o); g_progress++; }
        f.close();
    }
    long cnt = 0;
    bool inorder = true;
    {
        File f;
        f.open(path.c_str(), std::ios_base::in);
        while (ObjectHeaderBase * o = f.read()) {
            CanMessage * m = dynamic_cast<CanMessage *>(o);
            if (!m || m->id != static_cast<uint32_t>(cnt)) inorder = false;
            delete o;
            cnt++;
            g_progress++;
        }
        f.close();
    }
    std::remove(path.c_str());
    return "FG ok parked=" + std::to_string(parked) + " n=" + std::to_string(cnt) + " inorder=" + (inorder ? "1" : "0");
}

// FM <nobj> <objbytes> <cs> <sleep_us_per_read> : write nobj AppText-like objects, read them back slowly; peak live bytes while reading
static std::string do_memory(const std::string & line) {
    std::istringstream ss(line);
    std::string cmd;
    long nobj = 100, objbytes = 100, cs = 4096, sleep_us = 0;
    ss >> cmd >> nobj >> objbytes >> cs >> sleep_us;
    std::string path = g_tmp + ".m.blf";
    {
        File f;
        f.compressionLevel = 0;
        f.setDefaultLogContainerSize(static_cast<uint32_t>(cs));
        f.open(path.c_str(), std::ios_base::out);
        for (long i = 0; i < nobj; i++) {
            auto * a = new AppText;
            a->text.assign(static_cast<size_t>(objbytes), 'a' + static_cast<char>(i % 26));
            f.write(a);
            g_progress++;
        }
        f.close();
    }
    long long base = g_live_bytes;
    g_peak_bytes = base;
    long n = 0;
    {
        File f;
        f.open(path.c_str(), std::ios_base::in);
        while (true) {
            ObjectHeaderBase * o = f.read();
            g_progress++;
            if (!o) break;
            n++;
            delete o;
            if (sleep_us > 0 && n % 8 == 0) std::this_thread::sleep_for(std::chrono::microseconds(sleep_us));
        }
        f.close();
    }
    std::remove(path.c_str());
    return "FM ok n=" + std::to_string(n) + " peak=" + std::to_string(static_cast<long long>(g_peak_bytes) - base);
}

// FU <sleep_us> <hex> : read the given file slowly; peak live bytes during the read session (files not written by the library:
// runs of unknown-type objects, foreign container sizes)
static std::string do_memory_file(const std::string & line) {
    std::istringstream ss(line);
    std::string cmd, hex;
    long sleep_us = 0;
    ss >> cmd >> sleep_us >> hex;
    std::string path = g_tmp + ".u.blf";
    {
        std::vector<unsigned char> b = rt_unhex("x" + hex);
        std::ofstream o(path, std::ios::binary);
        o.write(reinterpret_cast<const char *>(b.data()), static_cast<std::streamsize>(b.size()));
    }
    hex.clear();
    hex.shrink_to_fit();
    long long base = g_live_bytes;
    g_peak_bytes = base;
    long n = 0;
    {
        File f;
        f.open(path.c_str(), std::ios_base::in);
        while (true) {
            ObjectHeaderBase * o = f.read();
            g_progress++;
            if (!o) break;
            n++;
            delete o;
            if (sleep_us > 0 && n % 8 == 0) std::this_thread::sleep_for(std::chrono::microseconds(sleep_us));
        }
        f.close();
    }
    std::remove(path.c_str());
    return "FU ok n=" + std::to_string(n) + " peak=" + std::to_string(static_cast<long long>(g_peak_bytes) - base);
}

// FN <nobj> <objbytes> <cs> <sleep_us> : write nobj objects with a pause after each (the workers drain the stream in between);
// peak live bytes during the write session
static std::string do_memory_write(const std::string & line) {
    std::istringstream ss(line);
    std::string cmd;
    long nobj = 100, objbytes = 100, cs = 4096, sleep_us = 0;
    ss >> cmd >> nobj >> objbytes >> cs >> sleep_us;
    std::string path = g_tmp + ".n.blf";
    long long base = g_live_bytes;
    g_peak_bytes = base;
    {
        File f;
        f.compressionLevel = 0;
        f.setDefaultLogContainerSize(static_cast<uint32_t>(cs));
        f.open(path.c_str(), std::ios_base::out);
        for (long i = 0; i < nobj; i++) {
            auto * a = new AppText;
            a->text.assign(static_cast<size_t>(objbytes), 'a' + static_cast<char>(i % 26));
            f.write(a);
            g_progress++;
            if (sleep_us > 0) std::this_thread::sleep_for(std::chrono::microseconds(sleep_us));
        }
        f.close();
    }
    std::remove(path.c_str());
    return "FN ok peak=" + std::to_string(static_cast<long long>(g_peak_bytes) - base);
}

// FH <ops> : an API history on one File object; prints is_open/good/eof after every call and the leak count at the end.
//   om open(missing file, in)  ou open(unwritable path, out)  oi open(valid file, in)  ob open(bad signature, in)
//   oo open(out)  r read  w write(new CanMessage)  c close  (the File is destroyed at the end)
static std::string do_history(const std::string & line) {
    std::istringstream ss(line);
    std::string cmd, op;
    ss >> cmd;
    std::string valid = g_tmp + ".hv.blf", bad = g_tmp + ".hb.blf", outp = g_tmp + ".ho.blf";
    {
        File f;
        f.open(valid.c_str(), std::ios_base::out);
        for (int i = 0; i < 3; i++) f.write(new CanMessage);
        f.close();
        std::ofstream o(bad, std::ios::binary | std::ios::trunc);
        o << "this is not a blf file, but it is long enough to be read as a header ......................................................................................................................";
    }
    std::string out = "FH";
    out.reserve(8192);
    std::vector<std::string> ops;
    while (ss >> op) ops.push_back(op);
    long long before = g_live_allocs;
    int nwrites = 0;
    {
        File * f = new File;
        auto fl = [&](const std::string & tag, const char * x) { out += ' '; out += tag; out += x; out += ':'; out += (f->is_open() ? '1' : '0'); out += (f->good() ? '1' : '0'); out += (f->eof() ? '1' : '0'); };
        for (const std::string & op : ops) {
            g_progress++;
            try {
                if (op == "om") f->open((g_tmp + ".does-not-exist").c_str(), std::ios_base::in);
                else if (op == "ou") f->open("/proc/verif/no/such/dir/x.blf", std::ios_base::out);
                else if (op == "oi") f->open(valid.c_str(), std::ios_base::in);
                else if (op == "ob") f->open(bad.c_str(), std::ios_base::in);
                else if (op == "oo") f->open(outp.c_str(), std::ios_base::out);
                else if (op == "r") { if (f->is_open()) { ObjectHeaderBase * o = f->read(); out += o ? " +obj" : " +null"; delete o; } else out += " +skip"; }
                else if (op == "w") {
                    if (f->is_open()) {
                        /* the k-th write of a history hands over a different kind of object: ordinary, restore point (type 115,
                           not counted), one with a payload */
                        ObjectHeaderBase * wo = nullptr;
                        switch (nwrites++ % 4) {
                        case 1: { auto * rp = new RestorePointContainer; rp->data.assign(40, 7); wo = rp; break; }
                        case 2: { auto * at = new AppText; at->text.assign(300, 'x'); wo = at; break; }
                        default: wo = new CanMessage; break;
                        }
                        f->write(wo);
                    } else out += " +skip";
                }
                else if (op == "c") f->close();
                fl(op, "");
            } catch (Vector::BLF::Exception &) {
                fl(op, "!");
            }
        }
        delete f;
    }
    out += " leaked=" + std::to_string(static_cast<long long>(g_live_allocs) - before);
    std::remove(valid.c_str()); std::remove(bad.c_str()); std::remove(outp.c_str());
    return out;
}

int main(int argc, char ** argv) {
    if (const char * c = std::getenv("VERIF_ALLOC_CAP")) ALLOC_CAP = std::strtoull(c, nullptr, 10);
    if (const char * c = std::getenv("VERIF_WD_SECONDS")) WD_SECONDS = atoi(c);
    g_tmp = std::string(std::getenv("VERIF_TMPDIR") ? std::getenv("VERIF_TMPDIR") : "/tmp") + "/vbf_" + std::to_string(getpid());
    std::thread wd([] {
        long last = -1;
        int idle = 0;
        while (true) {
            std::this_thread::sleep_for(std::chrono::milliseconds(250));
            if (!g_in_case) { idle = 0; continue; }
            long p = g_progress;
            if (p != last) { last = p; idle = 0; continue; }
            if (++idle >= WD_SECONDS * 4) {
                std::cerr << "WATCHDOG hang after " << p << " steps" << std::endl;
                std::_Exit(7);
            }
        }
    });
    wd.detach();
    std::ifstream f(argc > 1 ? argv[1] : "/dev/stdin");
    std::string line;
    while (std::getline(f, line)) {
        if (line.empty() || line[0] == '#') continue;
        g_in_case = true;
        g_progress++;
        std::string r;
        try {
            if (line.compare(0, 3, "FW ") == 0) r = do_write(line);
            else if (line.compare(0, 3, "FX ") == 0) r = do_write_overlapping(line);
            else if (line.compare(0, 3, "FR ") == 0) r = do_read(line);
            else if (line.compare(0, 3, "FS ") == 0) r = do_write_delay(line);
            else if (line.compare(0, 3, "FE ") == 0) r = do_read_early(line);
            else if (line.compare(0, 3, "FK ") == 0) r = do_close_at(line);
            else if (line.compare(0, 3, "FG ") == 0) r = do_resize_at(line);
            else if (line.compare(0, 3, "FM ") == 0) r = do_memory(line);
            else if (line.compare(0, 3, "FH ") == 0) r = do_history(line);
            else if (line.compare(0, 3, "FN ") == 0) r = do_memory_write(line);
            else if (line.compare(0, 3, "FT ") == 0) r = do_tsan(line);
            else if (line.compare(0, 3, "FV ") == 0) r = do_write_level_switch(line);
            else if (line.compare(0, 3, "FC ") == 0) r = do_write_resize(line);
            else if (line.compare(0, 3, "FL ") == 0) r = do_write_late_config(line);
            else if (line.compare(0, 3, "FU ") == 0) r = do_memory_file(line);
            else r = "? bad case";
        } catch (std::exception & ex) {
            r = std::string("ESCAPED ") + ex.what();
        }
        g_in_case = false;
        std::cout << r << std::endl;
    }
    std::_Exit(0);
}
