// uf.cpp — implementation side of the UncompressedFile correspondence (C15): operation sequences on
// a real UncompressedFile of the library built from /repo's working tree; every accessor is
// printed after every call.  Calls run on a helper thread under a watchdog: a call that blocks is
// reported as "blocked" and ends the sequence (abort() then releases it).
#include <atomic>
#include <chrono>
#include <cstdio>
#include <cstdlib>
#include <fstream>
#include <iostream>
#include <list>
#include <memory>
#include <mutex>
#include <condition_variable>
#include <sstream>
#include <string>
#include <thread>
#include <vector>
#include <limits>
#define private public
#include <Vector/BLF/UncompressedFile.h>
#undef private
#include <Vector/BLF.h>

using namespace Vector::BLF;

static int BLOCK_MS = 400;
static const char * HX = "0123456789abcdef";
static std::string hex(const std::vector<char> & v, size_t n) {
    std::string s;
    for (size_t i = 0; i < n; i++) { s += HX[(v[i] >> 4) & 15]; s += HX[v[i] & 15]; }
    return s;
}
static std::vector<char> unhex(const std::string & h) {
    std::vector<char> v;
    for (size_t i = 0; i + 1 < h.size(); i += 2) v.push_back(static_cast<char>(strtol(h.substr(i, 2).c_str(), nullptr, 16)));
    return v;
}

static std::string summary(UncompressedFile & u) {
    std::ostringstream o;
    o << "|" << static_cast<long long>(u.tellg()) << "," << static_cast<long long>(u.tellp()) << "," << u.fileSize() << ","
      << (u.good() ? 1 : 0) << (u.eof() ? 1 : 0) << "," << u.gcount() << "," << static_cast<long long>(u.m_bufferSize) << ",";
    bool first = true;
    for (auto & c : u.m_data) {
        o << (first ? "" : ";") << static_cast<long long>(c->filePosition) << ":" << c->uncompressedFileSize;
        first = false;
    }
    return o.str();
}

int main(int argc, char ** argv) {
    if (getenv("VERIF_BLOCK_MS")) BLOCK_MS = atoi(getenv("VERIF_BLOCK_MS"));
    std::istream * in = &std::cin;
    std::ifstream f;
    if (argc > 1) { f.open(argv[1]); in = &f; }
    std::string line;
    while (std::getline(*in, line)) {
        if (line.empty() || line[0] == '#') continue;
        std::istringstream ss(line);
        std::string tag;
        ss >> tag;
        if (tag != "U") { std::cout << "? bad case" << std::endl; continue; }
        std::ostringstream out;
        out << "U";
        UncompressedFile u;
        std::string op;
        bool stop = false;
        while (!stop && (ss >> op)) {
            char c = op[0];
            std::string rest = op.substr(1);
            long long a = rest.empty() ? 0 : strtoll(rest.c_str(), nullptr, 10);
            std::atomic<bool> done(false);
            std::string res;
            std::thread th([&] {
                std::ostringstream r;
                r << " " << c;
                switch (c) {
                case 'r': { std::vector<char> buf(static_cast<size_t>(a > 0 ? a : 0) + 1, 0x5a);
                            u.read(buf.data(), a);
                            std::streamsize g = u.gcount();
                            r << "=" << hex(buf, static_cast<size_t>(g > 0 ? g : 0)); break; }
                case 's': u.seekg(a, std::ios_base::cur); break;
                case 'w': { std::vector<char> b = unhex(rest); u.write(b.data(), static_cast<std::streamsize>(b.size())); break; }
                case 'c': { std::vector<char> b = unhex(rest);
                            auto lc = std::make_shared<LogContainer>();
                            lc->uncompressedFile.assign(b.begin(), b.end());
                            lc->uncompressedFileSize = static_cast<uint32_t>(b.size());
                            u.write(lc); break; }
                case 'n': u.nextLogContainer(); break;
                case 'd': u.dropOldData(); break;
                case 'F': u.setFileSize(a); break;
                case 'B': u.setBufferSize(a); break;
                case 'C': u.setDefaultLogContainerSize(static_cast<uint32_t>(a)); break;
                case 'a': u.abort(); break;
                default: r << "?";
                }
                res = r.str();
                done = true;
            });
            auto t0 = std::chrono::steady_clock::now();
            while (!done && std::chrono::steady_clock::now() - t0 < std::chrono::milliseconds(BLOCK_MS))
                std::this_thread::sleep_for(std::chrono::microseconds(50));
            if (!done) {
                out << " blocked";
                u.abort();
                auto t1 = std::chrono::steady_clock::now();
                while (!done && std::chrono::steady_clock::now() - t1 < std::chrono::seconds(5))
                    std::this_thread::sleep_for(std::chrono::microseconds(50));
                if (!done) { std::cout << out.str() << " STUCK-after-abort" << std::endl; std::_Exit(3); }
                stop = true;
            }
            th.join();
            if (!stop) out << res << summary(u);
        }
        std::cout << out.str() << std::endl;
    }
    return 0;
}
