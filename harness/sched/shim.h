// shim.h — force-included when the library is built for schedule perturbation (variant "sched"):
// every lock / unlock / wait of the library's monitors becomes a point where the calling thread may
// yield or sleep for a few hundred microseconds, driven by a PRNG seeded from VERIF_SCHED_SEED.
// This explores interleavings (supporting evidence for the pipeline models); it is not a proof.
#pragma once
#ifdef __cplusplus
#include <atomic>
#include <chrono>
#include <condition_variable>
#include <cstdint>
#include <cstdlib>
#include <fstream>
#include <iostream>
#include <list>
#include <memory>
#include <mutex>
#include <queue>
#include <sstream>
#include <string>
#include <thread>
#include <vector>
#include <array>
#include <algorithm>
#include <limits>
#include <exception>
#include <stdexcept>
#include <functional>
#include <cstring>

namespace vshim {
inline uint64_t & seed() { static uint64_t s = [] { const char * e = std::getenv("VERIF_SCHED_SEED"); return e ? std::strtoull(e, nullptr, 10) : 0ULL; }(); return s; }
inline void perturb() {
    if (seed() == 0) return;
    static std::atomic<uint64_t> counter(1);
    thread_local uint64_t x = seed() * 0x9E3779B97F4A7C15ULL + counter.fetch_add(1) * 0xD1B54A32D192ED03ULL;
    x ^= x << 13; x ^= x >> 7; x ^= x << 17;
    unsigned r = static_cast<unsigned>(x >> 33) % 100;
    if (r < 30) std::this_thread::yield();
    else if (r < 38) std::this_thread::sleep_for(std::chrono::microseconds(20 + (x >> 40) % 300));
}
}

namespace vshim {
// steering (harness command FK): a thread other than `owner` that is about to take the mutex `mtx` for the (countdown+1)-th time
// is parked there until `release` is set (or 3 s pass) — "another thread acts exactly between two operations of this one"
struct Gate {
    std::atomic<void *> mtx{nullptr};
    std::atomic<long> countdown{-1};
    std::atomic<int> parked{0};
    std::atomic<int> release{0};
    std::thread::id owner;
};
inline Gate & gate() { static Gate g; return g; }
inline void at_lock(void * m) {
    Gate & g = gate();
    if (g.mtx.load() != m || std::this_thread::get_id() == g.owner) return;
    if (g.countdown.load() < 0) return;
    if (g.countdown.fetch_sub(1) == 0) {
        g.parked = 1;
        auto t0 = std::chrono::steady_clock::now();
        while (!g.release.load() && std::chrono::steady_clock::now() - t0 < std::chrono::seconds(3))
            std::this_thread::sleep_for(std::chrono::microseconds(50));
    }
}
}

namespace std {
class verif_mutex {
  public:
    void lock() { vshim::perturb(); vshim::at_lock(this); m.lock(); }
    void unlock() { m.unlock(); vshim::perturb(); }
    bool try_lock() { return m.try_lock(); }
  private:
    std::mutex m;
};
}
namespace std {
// condition variable with a perturbation point between a false predicate and the actual wait (the caller still holds the
// lock there): a notifier that changes the state WITHOUT taking the mutex can slip into that window and its wake-up is lost
class verif_cv {
  public:
    template <class L> void wait(L & lock) { cv.wait(lock); }
    template <class L, class P> void wait(L & lock, P pred) {
        while (!pred()) {
            vshim::perturb();
            cv.wait(lock);
        }
    }
    void notify_one() { cv.notify_one(); }
    void notify_all() { cv.notify_all(); }
  private:
    std::condition_variable_any cv;
};
}
#define mutex verif_mutex
#define condition_variable verif_cv
#endif
