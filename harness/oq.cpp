// oq.cpp — implementation side of the ObjectQueue correspondence (C16): runs operation sequences
// on a real ObjectQueue<ObjectHeaderBase> of the library built from /repo's working tree.
// Every call is made on a helper thread under a watchdog, so that a call that blocks is observed
// as "blocked" (the sequence then ends: abort() is called and must release the waiter).
#include <atomic>
#include <chrono>
#include <cstdio>
#include <cstdlib>
#include <fstream>
#include <iostream>
#include <map>
#include <sstream>
#include <string>
#include <thread>
#include <vector>
#include <Vector/BLF.h>

using namespace Vector::BLF;

static std::vector<long> g_deleted;
struct Tok : public ObjectHeaderBase {
    long tok;
    explicit Tok(long t) : ObjectHeaderBase(1, ObjectType::CAN_MESSAGE), tok(t) {}
    ~Tok() override { g_deleted.push_back(tok); }
};

static int BLOCK_MS = 400;

int main(int argc, char ** argv) {
    if (getenv("VERIF_BLOCK_MS")) BLOCK_MS = atoi(getenv("VERIF_BLOCK_MS"));
    std::istream * in = &std::cin;
    std::ifstream f;
    if (argc > 1) { f.open(argv[1]); in = &f; }
    std::string line;
    while (std::getline(*in, line)) {
        if (line.empty() || line[0] == '#') continue;
        std::istringstream ss(line);
        std::string tag;
        ss >> tag;
        if (tag != "Q") { std::cout << "? bad case" << std::endl; continue; }
        std::ostringstream out;
        out << "Q";
        auto * q = new ObjectQueue<ObjectHeaderBase>();
        g_deleted.clear();
        std::vector<Tok *> mine;   // objects handed back to us by read(): ours to delete
        std::string op;
        bool stop = false;
        // a call started with '&' on its own thread and possibly asleep
        std::thread pend;
        std::atomic<bool> pend_active(false), pend_done(false);
        std::string pend_res;
        auto settle = [&](int ms) {
            if (!pend_active) return;
            auto t0 = std::chrono::steady_clock::now();
            while (!pend_done && std::chrono::steady_clock::now() - t0 < std::chrono::milliseconds(ms))
                std::this_thread::sleep_for(std::chrono::microseconds(50));
            if (pend_done) { pend.join(); pend_active = false; out << pend_res; }
        };
        auto do_op = [&](char c, long a, std::vector<Tok *> & got) -> std::string {
            std::ostringstream r;
            switch (c) {
            case 'r': { ObjectHeaderBase * o = q->read(); Tok * t = dynamic_cast<Tok *>(o);
                        r << "r=" << (o ? (t ? t->tok : -1) : 0); if (t) got.push_back(t); break; }
            case 'w': q->write(new Tok(a)); r << "w"; break;
            case 'a': q->abort(); r << "a"; break;
            case 'f': q->setFileSize(static_cast<uint32_t>(a)); r << "f"; break;
            case 'b': q->setBufferSize(static_cast<uint32_t>(a)); r << "b"; break;
            case 'g': r << "g=" << q->tellg(); break;
            case 'p': r << "p=" << q->tellp(); break;
            case 'G': r << "G=" << (q->good() ? 1 : 0); break;
            case 'E': r << "E=" << (q->eof() ? 1 : 0); break;
            default: r << "?";
            }
            return r.str();
        };
        std::vector<Tok *> mine2;
        while (!stop && (ss >> op)) {
            bool async = op[0] == '&';
            // '%': as '&', but the history goes on at once — the next call RACES with this one (used with abort())
            bool racing = op[0] == '%';
            if (async || racing) op = op.substr(1);
            long a = op.size() > 1 ? strtol(op.c_str() + 1, nullptr, 10) : 0;
            char c = op[0];
            if (racing) {
                pend_done = false;
                pend_active = true;
                pend = std::thread([&, c, a] { pend_res = " &" + do_op(c, a, mine2); pend_done = true; });
                continue;
            }
            if (async) {
                pend_done = false;
                pend_active = true;
                pend = std::thread([&, c, a] { pend_res = " &" + do_op(c, a, mine2); pend_done = true; });
                auto t0 = std::chrono::steady_clock::now();
                while (!pend_done && std::chrono::steady_clock::now() - t0 < std::chrono::milliseconds(BLOCK_MS))
                    std::this_thread::sleep_for(std::chrono::microseconds(50));
                if (pend_done) { pend.join(); pend_active = false; out << pend_res; }
                else out << " &sleep";
                continue;
            }
            if (c == 'D') {
                delete q;
                q = nullptr;
                out << " D=";
                for (size_t i = 0; i < g_deleted.size(); i++) out << (i ? "," : "") << g_deleted[i];
                stop = true;
                break;
            }
            std::atomic<bool> done(false);
            std::string res;
            std::thread th([&] { res = " " + do_op(c, a, mine); done = true; });
            auto t0 = std::chrono::steady_clock::now();
            while (!done && std::chrono::steady_clock::now() - t0 < std::chrono::milliseconds(BLOCK_MS))
                std::this_thread::sleep_for(std::chrono::microseconds(50));
            if (!done) {
                // which condition variable does the call sleep on?  read waits on tellpChanged (1), write on tellgChanged (0)
                out << " blocked:" << (c == 'r' ? 1 : (c == 'w' ? 0 : 9));
                q->abort();
                auto t1 = std::chrono::steady_clock::now();
                while (!done && std::chrono::steady_clock::now() - t1 < std::chrono::seconds(5))
                    std::this_thread::sleep_for(std::chrono::microseconds(50));
                if (!done) { std::cout << out.str() << " STUCK-after-abort" << std::endl; std::_Exit(3); }
                stop = true;
            }
            th.join();
            if (!stop) { out << res; settle(BLOCK_MS); }
        }
        if (pend_active) {
            out << " asleep";
            q->abort();
            auto t1 = std::chrono::steady_clock::now();
            while (!pend_done && std::chrono::steady_clock::now() - t1 < std::chrono::seconds(5))
                std::this_thread::sleep_for(std::chrono::microseconds(50));
            if (!pend_done) { std::cout << out.str() << " STUCK-after-abort" << std::endl; std::_Exit(3); }
            pend.join();
        }
        for (Tok * t : mine2) delete t;
        delete q;
        for (Tok * t : mine) delete t;
        std::cout << out.str() << std::endl;
    }
    return 0;
}
