// codec.cpp — implementation side of the codec correspondence: runs <Type>::write/read/
// calculateObjectSize of the library built from /repo's working tree on a case file and prints
// one canonical line per case (same format as ocaml/driver.ml).
#include <algorithm>
#include <array>
#include <chrono>
#include <condition_variable>
#include <cstdio>
#include <cstdlib>
#include <cstring>
#include <fstream>
#include <iostream>
#include <list>
#include <memory>
#include <mutex>
#include <new>
#include <queue>
#include <sstream>
#include <stdexcept>
#include <string>
#include <thread>
#include <vector>
#include <atomic>
#include <limits>
#include <exception>
#include <typeinfo>
#define private public
#define protected public
#include <Vector/BLF.h>
#undef private
#undef protected
#include "reflect_rt.h"
#include "gen/reflect.inc"

// allocation cap standing in for a memory-limited host (ASan's own cap aborts instead of throwing)
static size_t ALLOC_CAP = 268435456;
static bool g_cap_active = false;   // the cap applies to allocations made inside library calls only
struct CapScope { CapScope() { g_cap_active = true; } ~CapScope() { g_cap_active = false; } };
void * operator new(size_t n) {
    if (g_cap_active && n > ALLOC_CAP) throw std::bad_alloc();
    void * p = std::malloc(n ? n : 1);
    if (!p) throw std::bad_alloc();
    return p;
}
void operator delete(void * p) noexcept { std::free(p); }
void operator delete(void * p, size_t) noexcept { std::free(p); }
void * operator new[](size_t n) { return operator new(n); }
void operator delete[](void * p) noexcept { std::free(p); }
void operator delete[](void * p, size_t) noexcept { std::free(p); }

using namespace Vector::BLF;

static const ClassInfo * find_class(int idx) {
    for (size_t i = 0; i < class_table_size; i++)
        if (class_table[i].idx == idx) return &class_table[i];
    return nullptr;
}

static void apply_sets(const ClassInfo * ci, void * obj, std::istringstream & ss) {
    std::string tok;
    while (ss >> tok) {
        size_t eq = tok.find('=');
        if (eq == std::string::npos) continue;
        long fid = std::stol(tok.substr(0, eq));
        ci->set(obj, fid, tok.substr(eq + 1));
    }
}

static std::string process(const std::string & line) {
    std::istringstream ss(line);
    std::string cmd;
    int c = 0;
    ss >> cmd >> c;
    if (cmd == "C") {
        // File::createObject(code): dynamic class (typeid-exact) and carried type code
        long long code = 0;
        { std::istringstream s2(line); std::string t; s2 >> t >> code; }
        ObjectHeaderBase * o = File::createObject(static_cast<ObjectType>(static_cast<uint32_t>(code)));
        if (!o) return "C ok cls=0 type=-";
        int idx = -1;
        for (size_t i = 0; i < class_table_size; i++)
            if (class_table[i].isobj && class_table[i].from_ohb(o)) idx = class_table[i].idx;
        std::string r = "C ok cls=" + std::to_string(idx) + " type=" + std::to_string(static_cast<uint32_t>(o->objectType));
        delete o;
        return r;
    }
    const ClassInfo * ci = find_class(c);
    if (!ci) return cmd + " err noclass";
    if (cmd == "P") {
        // default-construct in memory pre-filled with a poison byte, dump, destruct
        int pat = 0;
        ss >> pat;
        std::vector<unsigned char> mem(ci->size + 64, static_cast<unsigned char>(pat));
        void * at = mem.data() + (64 - reinterpret_cast<uintptr_t>(mem.data()) % 64) % 64;
        void * o = ci->construct_at(at);
        std::string out = "F ok |";
        ci->dump(o, out);
        ci->destruct(o);
        return out;
    }
    std::string out;
    void * obj = ci->make();
    try {
        if (cmd == "F") {
            out = "F ok |";
            ci->dump(obj, out);
        } else if (cmd == "W") {
            apply_sets(ci, obj, ss);
            UncompressedFile uf;
            { CapScope cap; ci->write(obj, uf); }
            std::streamsize n = uf.m_tellp;
            uf.setFileSize(n);
            std::vector<char> buf(static_cast<size_t>(n));
            uf.read(buf.data(), n);
            out = "W ok ";
            rt_hex(out, reinterpret_cast<const unsigned char *>(buf.data()), buf.size());
            out += " |";
            ci->dump(obj, out);
        } else if (cmd == "R") {
            std::string hex;
            ss >> hex;
            apply_sets(ci, obj, ss);
            std::vector<unsigned char> b = hex == "-" ? std::vector<unsigned char>() : rt_unhex("x" + hex);
            UncompressedFile uf;
            if (!b.empty()) uf.write(reinterpret_cast<const char *>(b.data()), static_cast<std::streamsize>(b.size()));
            uf.setFileSize(uf.m_tellp);
            { CapScope cap; ci->read(obj, uf); }
            out = "R ok pos=" + std::to_string(static_cast<long long>(uf.m_tellg)) +
                  " good=" + (uf.good() ? "1" : "0") + " eof=" + (uf.eof() ? "1" : "0") + " |";
            ci->dump(obj, out);
        } else if (cmd == "RT") {
            /* as R, with ntail filler bytes behind the encoding (so that a hostile length really copies); long byte members are abbreviated */
            std::string hex;
            long long ntail = 0;
            ss >> hex >> ntail;
            std::vector<unsigned char> b = hex == "-" ? std::vector<unsigned char>() : rt_unhex("x" + hex);
            b.insert(b.end(), static_cast<size_t>(ntail), static_cast<unsigned char>(0x5a));
            UncompressedFile uf;
            if (!b.empty()) uf.write(reinterpret_cast<const char *>(b.data()), static_cast<std::streamsize>(b.size()));
            uf.setFileSize(uf.m_tellp);
            { CapScope cap; ci->read(obj, uf); }
            out = "RT ok pos=" + std::to_string(static_cast<long long>(uf.m_tellg)) +
                  " good=" + (uf.good() ? "1" : "0") + " eof=" + (uf.eof() ? "1" : "0") + " |";
            std::string full;
            ci->dump(obj, full);
            std::istringstream ts(full);
            std::string tok;
            while (ts >> tok) {
                size_t e = tok.find("=x");
                if (e != std::string::npos && tok.size() - e - 2 > 64)
                    tok = tok.substr(0, e) + "=#" + std::to_string((tok.size() - e - 2) / 2);
                out += " " + tok;
            }
        } else if (cmd == "D") {
            std::string hex;
            ss >> hex;
            std::vector<unsigned char> b = hex == "-" ? std::vector<unsigned char>() : rt_unhex("x" + hex);
            UncompressedFile uf;
            if (!b.empty()) uf.write(reinterpret_cast<const char *>(b.data()), static_cast<std::streamsize>(b.size()));
            uf.setFileSize(uf.m_tellp);
            { CapScope cap; ci->read(obj, uf); }
            long long pos = static_cast<long long>(uf.m_tellg);
            bool good = uf.good();
            UncompressedFile of;
            { CapScope cap; ci->write(obj, of); }
            std::streamsize n = of.m_tellp;
            of.setFileSize(n);
            std::vector<char> buf(static_cast<size_t>(n));
            of.read(buf.data(), n);
            out = "D ok pos=" + std::to_string(pos) + " good=" + (good ? "1" : "0") + " ";
            rt_hex(out, reinterpret_cast<const unsigned char *>(buf.data()), buf.size());
            out += " |";
            ci->dump(obj, out);
        } else if (cmd == "S") {
            apply_sets(ci, obj, ss);
            if (ci->isobj) {
                ObjectHeaderBase * o = ci->as_ohb(obj);
                out = "S ok osz=" + std::to_string(o->calculateObjectSize()) + " hsz=" + std::to_string(o->calculateHeaderSize());
            } else
                out = "S ok osz=err:unsupported hsz=err:unsupported";
        } else
            out = "? bad case";
    } catch (Vector::BLF::Exception &) {
        out = cmd + " err throw";
    } catch (std::bad_alloc &) {
        out = cmd + " err alloc";
    } catch (std::length_error &) {
        out = cmd + " err alloc";
    }
    ci->destroy(obj);
    return out;
}

int main(int argc, char ** argv) {
    if (const char * c = std::getenv("VERIF_ALLOC_CAP")) ALLOC_CAP = std::strtoull(c, nullptr, 10);
    // watchdog: a decoder that does not return (e.g. a signature search that never ends) is a hang, not a 10-minute batch timeout
    static std::atomic<long> progress(0);
    std::thread([] {
        long last = -1;
        int idle = 0;
        while (true) {
            std::this_thread::sleep_for(std::chrono::milliseconds(250));
            long p = progress;
            if (p != last) { last = p; idle = 0; continue; }
            if (++idle >= 40) { std::cerr << "WATCHDOG hang in case " << p << std::endl; std::_Exit(7); }
        }
    }).detach();
    std::ifstream f(argc > 1 ? argv[1] : "/dev/stdin");
    std::string line;
    while (std::getline(f, line)) {
        if (line.empty() || line[0] == '#') continue;
        progress++;
        std::cout << process(line) << std::endl;
    }
    progress = -1000000;
    std::_Exit(0);
}
