#pragma once
