#pragma once
#ifndef VECTOR_BLF_EXPORT
#define VECTOR_BLF_EXPORT
#endif
#ifndef VECTOR_BLF_NO_EXPORT
#define VECTOR_BLF_NO_EXPORT
#endif
