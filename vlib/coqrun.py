"""coqrun.py — compile the Coq obligations of one property and report what was discharged."""
import json
import os, re, glob
from . import common

STMT_RE = re.compile(r'^\s*(Lemma|Theorem|Corollary|Example|Fact|Proposition)\s+([A-Za-z0-9_\']+)', re.M)
FORBIDDEN = re.compile(r'\b(Admitted|admit|Axiom|Axioms|Parameter|Parameters|Conjecture|Admit Obligations|bypass_check|Unset Guard Checking|Unset Positivity Checking|Unset Universe Checking)\b|-type-in-type|-impredicative-set')


def statements(path):
    src = open(path).read()
    src_nc = re.sub(r'\(\*.*?\*\)', lambda m: '\n' * m.group(0).count('\n'), src, flags=re.S)
    out = []
    for m in STMT_RE.finditer(src_nc):
        line = src_nc.count('\n', 0, m.start()) + 1
        out.append((m.group(2), line))
    return out


def gate():
    """No axioms, admits or disabled checks anywhere in the development."""
    bad = []
    for f in sorted(glob.glob(os.path.join(common.COQ, '**/*.v'), recursive=True)):
        src = open(f).read()
        src = re.sub(r'\(\*.*?\*\)', '', src, flags=re.S)
        for m in FORBIDDEN.finditer(src):
            bad.append('%s: %s' % (os.path.relpath(f, common.COQ), m.group(0)))
        # Variable/Hypothesis outside a Section
        depth = 0
        for line in src.split('\n'):
            if re.match(r'\s*Section\s+\w+', line):
                depth += 1
            elif re.match(r'\s*End\s+\w+\s*\.', line) and depth > 0:
                depth -= 1
            elif depth == 0 and re.match(r'\s*(Variable|Variables|Hypothesis|Hypotheses|Context)\b', line):
                bad.append('%s: %s outside a section' % (os.path.relpath(f, common.COQ), line.strip()[:40]))
    return bad


def deps_of(vfile):
    """.v files (relative to coq/) in the dependency cone of vfile, from the _CoqProject list."""
    dfile = os.path.join(common.COQ, '.Makefile.d')
    deps = {}
    if os.path.exists(dfile):
        for line in open(dfile):
            if ':' not in line:
                continue
            lhs, rhs = line.split(':', 1)
            tgt = [x for x in lhs.split() if x.endswith('.vo')]
            if not tgt:
                continue
            deps[tgt[0][:-1]] = [x[:-1] for x in rhs.split() if x.endswith('.vo')]
    seen = []
    todo = [vfile]
    while todo:
        f = todo.pop()
        if f in seen:
            continue
        seen.append(f)
        todo += deps.get(f, [])
    return seen


CODEC_PIDS = {'C01', 'C02', 'C03', 'C04', 'C05', 'C08', 'C09', 'C10', 'C14', 'C17'}


def prove(verdict, pid, inst_files, lib_note=True):
    """Build Props/Properties_<pid>.vo.  Returns (ok, failed_lemmas, info)."""
    target = 'Props/Properties_%s.vo' % pid
    bad = gate()
    ok, log = common.coq_make([target])
    files = inst_files + ['Props/Properties_%s.v' % pid]
    obligations = []
    for f in files:
        for name, line in statements(os.path.join(common.COQ, f)):
            obligations.append((f, name, line))
    failed = []
    for m in re.finditer(r'File "\./([^"]+)", line (\d+), characters [\d-]+:\n(Error:?[^\n]*(?:\n[^\n]+){0,6})', log):
        f, line, msg = m.group(1), int(m.group(2)), m.group(3)
        st = [s for s in statements(os.path.join(common.COQ, f)) if s[1] <= line]
        failed.append({'file': f, 'line': line, 'lemma': st[-1][0] if st else '?', 'error': msg[:400]})
    if not ok and not failed:
        failed.append({'file': '?', 'line': 0, 'lemma': '?', 'error': log[-800:]})
    # statements of the codec sources the translator could not express make every theorem about that class vacuous
    # (the program becomes PUnsupported): anything beyond the committed list is a broken obligation
    if pid in CODEC_PIDS:
        try:
            warn = json.load(open(os.path.join(common.BUILD, 'gen/meta.json'))).get('warnings', [])
            allowed = set(json.load(open(os.path.join(common.VERIF, 'translator/allowed_warnings.json'))))
        except (OSError, ValueError):
            warn, allowed = [], set()
        for wmsg in warn:
            if wmsg not in allowed:
                ok = False
                failed.append({'file': 'translator/blf2coq.py', 'line': 0, 'lemma': 'translator_covers_source',
                               'error': 'the translator cannot express a statement of the codec sources, the theorems about this class no longer speak about the code: ' + wmsg[:300]})
    # statements in a file after its first failure, and in files depending on it, are not checked
    undone = set()
    for fl in failed:
        for f, name, line in obligations:
            if f == fl['file'] and line >= [s for s in statements(os.path.join(common.COQ, f)) if s[0] == fl['lemma']][0][1]:
                undone.add((f, name))
    if failed:
        for f, name, line in obligations:
            if not os.path.exists(os.path.join(common.COQ, f[:-2] + '.vo')) or \
               os.path.getmtime(os.path.join(common.COQ, f[:-2] + '.vo')) < os.path.getmtime(os.path.join(common.COQ, f)):
                undone.add((f, name))
    cone = [d for d in deps_of('Props/Properties_%s.v' % pid) if d.startswith('Lib/')]
    lib_count = sum(len(statements(os.path.join(common.COQ, d))) for d in cone if os.path.exists(os.path.join(common.COQ, d)))
    assumptions = ''
    if ok:
        rc, out = common.run(['timeout', '600', 'coqc', '-Q', '.', 'VB', '-w', '-notation-overridden,-deprecated', 'Props/Properties_%s.v' % pid], cwd=common.COQ)
        assumptions = out
    info = {
        'obligations': len(obligations) + lib_count,
        'discharged': (len(obligations) + lib_count) if (ok and not bad) else (0 if bad else max(0, len(obligations) - max(1, len(undone)) + lib_count)),
        'obligations_about_generated_terms': len(obligations),
        'library_lemmas_in_cone': lib_count,
        'checker_cmd': 'cd coq && make -k -j%d %s   (coqc 8.16.1, full .vo build)' % (common.NPROC, target),
        'print_assumptions': summarize_assumptions(assumptions),
        'gate_violations': bad,
        'failed': failed,
    }
    for b in bad:
        verdict.violation('gate:' + b, 'forbidden construct in the Coq development: ' + b, {'gate': b}, no_input=True)
    return ok and not bad, failed, info


def summarize_assumptions(out):
    res = []
    closed = out.count('Closed under the global context')
    res.append('%d theorem(s): Closed under the global context' % closed)
    for m in re.finditer(r'Axioms:\n((?:[^\n]+\n)+?)\n', out + '\n\n'):
        res.append('Axioms: ' + ' '.join(m.group(1).split()))
    return res
