"""C02 — objects from Vector-produced logs survive decode-then-encode byte for byte."""
import json, os, random, collections
from .. import common, codec, coqrun, codecrun

TRUSTED = [
    'Coq 8.16.1 kernel + vm_compute (no native_compute)',
    'translator/images2coq.py (stdlib-only walk of the reference logs: containers, inflate, objects by their own headers) and translator/blf2coq.py (codec programs)',
    'extraction (ExtrOcamlBasic only) + ocaml/driver.ml; harness/codec.cpp (ASan+UBSan)',
]


def reenc_ok(want_hex, out_line):
    """'D ok pos=.. good=.. <hex> | ..' reproduces want_hex followed by at most 3 zero bytes"""
    t = out_line.split(' ')
    if len(t) < 5 or t[1] != 'ok':
        return None
    out = t[4]
    pos = int(t[2].split('=')[1])
    good = t[3] == 'good=1'
    complete = good and pos <= len(want_hex) // 2
    same = out.startswith(want_hex) and set(out[len(want_hex):]) <= {'0'} and len(out) - len(want_hex) <= 6
    return complete, same, out


def shape_of(meta, cls, line):
    d = codec.parse_dump(line)
    sel = set(int(k) for k in meta['classes'][cls].get('selectors', {}))
    return tuple(sorted((f, len(val)) for f, val in d.items() if val.startswith('x'))) + tuple(sorted((f, val) for f, val in d.items() if f in sel))


def run(v, tier, seed, replay=None):
    meta, _ = common.translate()
    ok, failed, info = coqrun.prove(v, 'C02', ['Inst/ImagesEq.v'])
    mexe = common.build_model_driver()
    hexe = common.build_harness('codec', extra_flags=['-D_GLIBCXX_SANITIZE_VECTOR'])
    rng = random.Random(seed)
    j = json.load(open(os.path.join(common.BUILD, 'gen/images.json')))
    fmt = {code: meta['classes'][hdr]['idx'] for nm, code, hdr in meta['format_table'] if hdr in meta['classes']}
    name_of = {c['idx']: n for n, c in meta['classes'].items()}
    cases = []
    for im in j['images']:
        c = fmt.get(im['type'])
        if not c:
            continue
        cases.append({'cls': name_of[c], 'idx': c, 'hex': im['hex'], 'src': im['src'], 'mode': 'image', 'of': None})
    nimg = len(cases)
    # substitutions that may or may not keep the shape: kept only if the decoder still consumes the image completely and the
    # re-encoding has the same length (then every byte must come back)
    nsub = 6 if tier == 'quick' else 60
    for c in list(cases):
        b = bytes.fromhex(c['hex'])
        for _ in range(nsub):
            bb = bytearray(b)
            r = rng.random()
            k = rng.randrange(16, len(bb)) if len(bb) > 16 else 0
            if r < 0.5:
                bb[k] = rng.choice([0, 1, 0x7f, 0x80, 0xff, rng.getrandbits(8)])
            elif r < 0.8 and len(bb) >= 20:
                k = k - k % 2
                bb[k:k + 2] = rng.choice([0, 1, 0x7fff, 0x8000, 0xffff, rng.getrandbits(16)]).to_bytes(2, 'little')
            elif len(bb) >= 24:
                k = min(k - k % 4, len(bb) - 4)
                bb[k:k + 4] = rng.choice([0, 1, 0x7fffffff, 0x80000000, 0xffffffff, rng.getrandbits(32)]).to_bytes(4, 'little')
            bb = bb[:len(b)]
            if bytes(bb) != b:
                cases.append({'cls': c['cls'], 'idx': c['idx'], 'hex': bytes(bb).hex(), 'src': c['src'], 'mode': 'subst@%d' % k, 'of': c})
    # systematic part: for one image per class (the shortest), every byte between the base header and the end is
    # overwritten in turn with a small value, a boundary value and a random one (thorough: every distinct image)
    by_cls = {}
    for c in cases[:nimg]:
        if c['cls'] not in by_cls or len(c['hex']) < len(by_cls[c['cls']]['hex']):
            by_cls[c['cls']] = c
    seen_img = set()
    for c in (list(by_cls.values()) if tier == 'quick' else cases[:nimg]):
        if c['hex'] in seen_img or len(c['hex']) > (2 * 160 if tier == 'quick' else 2 * 600):
            continue
        seen_img.add(c['hex'])
        b = bytes.fromhex(c['hex'])
        for k in range(16, len(b)):
            vals = {0, rng.randrange(1, 8), 0x80 | rng.getrandbits(7), 0xff} if tier == 'quick' else {0, 1, 2, 3, 7, 8, 0x7f, 0x80, 0xff, rng.getrandbits(8), rng.getrandbits(8)}
            for val in sorted(vals - {b[k]}):
                bb = bytearray(b)
                bb[k] = val
                cases.append({'cls': c['cls'], 'idx': c['idx'], 'hex': bytes(bb).hex(), 'src': c['src'], 'mode': 'subst@%d' % k, 'of': c})
    lines = ['D %d %s' % (c['idx'], c['hex']) for c in cases]
    mo = codec.run_model(mexe, lines)
    io = codec.run_impl(hexe, lines)
    ndis, nbad, shape_kept, complete_imgs = 0, 0, 0, 0
    index_of = {id(c): k for k, c in enumerate(cases)}
    first_dis = None
    per_class = collections.Counter()
    for c, m, i in zip(cases, mo, io):
        if not codec.lines_agree(m, i):
            ndis += 1
            if first_dis is None:
                first_dis = (c, m, i)
            # the search for a concrete failing input goes on with the implementation alone
            if not i.startswith('D '):
                continue
        r = reenc_ok(c['hex'], i)
        if r is None:
            if c['mode'] == 'image':
                v.violation('image:%s#%s' % (c['src'], c['cls']), 'a %s taken from %s cannot be decoded and encoded again: %s' % (c['cls'], c['src'], i[:80]),
                            {'class': c['cls'], 'image_hex': c['hex'][:4000], 'implementation': i[:300]})
            continue
        complete, same, out = r
        if c['mode'] == 'image':
            if not complete:
                # the library reads beyond the object's own declared size: the object does not survive
                v.violation('image:%s#%s' % (c['src'], c['cls']), 'a %s taken from %s is not decoded within its own %d bytes (the decoder reads on / fails) and is re-encoded as %d bytes' % (
                    c['cls'], c['src'], len(c['hex']) // 2, len(out) // 2), {'class': c['cls'], 'image_hex': c['hex'][:4000], 'implementation': i[:300]})
                continue
            complete_imgs += 1
            per_class[c['cls']] += 1
            if not same:
                nbad += 1
                k = next((x for x in range(0, min(len(out), len(c['hex'])), 2) if out[x:x + 2] != c['hex'][x:x + 2]), 0) // 2
                v.violation('image:%s#%s' % (c['src'], c['cls']), 'a %s taken from %s does not survive decode-then-encode: first difference at byte %d (%d vs %d bytes)' % (
                    c['cls'], c['src'], k, len(out) // 2, len(c['hex']) // 2), {'class': c['cls'], 'image_hex': c['hex'][:4000], 'reencoded_hex': out[:4000]})
        else:
            # shape unchanged = still decoded completely and re-encoded to the same number of bytes (+ the same padding)
            # the shape of an object: the lengths of its variable-length members and the values of its variant selectors,
            # as the library decodes them (a substituted length member changes the shape: outside the property)
            if shape_of(meta, c['cls'], i) != shape_of(meta, c['cls'], io[index_of[id(c['of'])]]):
                continue
            if complete and len(out) - len(c['hex']) in (0, 2, 4, 6) and len(out) // 2 - len(c['hex']) // 2 == (len(c['hex']) // 2 + 3) // 4 * 4 - len(c['hex']) // 2 or (complete and len(out) == len(c['hex'])):
                shape_kept += 1
                if not same:
                    # a recomputed member (objectSize, headerSize, a derived length) was the one substituted: the encoder restores
                    # the consistent value by design; every other byte must come back
                    diff = [x // 2 for x in range(0, len(c['hex']), 2) if out[x:x + 2] != c['hex'][x:x + 2]]
                    orig = c['of']['hex']
                    restored = all(out[2 * d:2 * d + 2] == orig[2 * d:2 * d + 2] for d in diff)
                    if not restored:
                        nbad += 1
                        v.violation('subst:%s' % c['cls'], 'after changing a field value inside a %s from %s (%s) decode-then-encode changes other bytes: first at byte %d' % (
                            c['cls'], c['src'], c['mode'], diff[0]), {'class': c['cls'], 'image_hex': c['hex'][:4000], 'reencoded_hex': out[:4000], 'original_hex': orig[:4000]})
    # layout variants the reference logs do not contain (older / newer versions selected by apiMajor, flags, _present ...):
    # every encoding the library itself produces for a selector value must survive decode-then-encode as well
    cres = codecrun.run(meta, seed, tier)
    wl = [c for c in cres['cases'] if c['kind'] == 'W' and c['mode'] in ('api', 'default') and c['impl'].startswith('W ok ')
          and meta['classes'][c['cls']].get('isobj') and c['cls'] != 'LogContainer']
    if tier == 'quick':
        wl = wl[::3]
    dl = ['D %s %s' % (c['line'].split(' ')[1], c['impl'].split(' ')[2]) for c in wl if len(c['impl'].split(' ')[2]) <= 20000]
    wl = [c for c in wl if len(c['impl'].split(' ')[2]) <= 20000]
    dm = codec.run_model(mexe, dl)
    di = codec.run_impl(hexe, dl)
    nvariants = 0
    for c, m, i in zip(wl, dm, di):
        if not codec.lines_agree(m, i):
            ndis += 1
            continue
        hx = c['impl'].split(' ')[2]
        r = reenc_ok(hx, i) if i.startswith('D ok') else None
        nvariants += 1
        if r is None or not (r[1] or r[2] == hx):
            nbad += 1
            out = r[2] if r else i[:80]
            k = next((x for x in range(0, min(len(out), len(hx)), 2) if out[x:x + 2] != hx[x:x + 2]), min(len(out), len(hx))) // 2
            v.violation('variant:%s' % c['cls'], 'a %s as the library itself encodes it (layout variant selected by its members) does not survive decode-then-encode: %d bytes in, %s out, first difference at byte %d' % (
                c['cls'], len(hx) // 2, (str(len(out) // 2) + ' bytes') if r else out, k), {'class': c['cls'], 'write_case': c['line'][:2000], 'image_hex': hx[:4000], 'reencoded': out[:4000]})
    if first_dis and not nbad:
        c, m, i = first_dis
        v.violation('corr:C02:%s' % c['cls'], 'model and implementation disagree on decode-then-encode of a %s %s: %s | %s' % (c['cls'], c['mode'], m[:120], i[:120]),
                    {'class': c['cls'], 'image_hex': c['hex'][:4000], 'model': m[:600], 'impl': i[:600]}, no_input=True)
    if not ok and not v.violations:
        for fl in failed:
            v.violation('coq:' + fl['lemma'], 'proof obligation %s (%s:%d) no longer checks: %s' % (fl['lemma'], fl['file'], fl['line'], fl['error'][:200]),
                        {'theorem': fl['lemma'], 'file': fl['file'], 'line': fl['line'], 'error': fl['error']}, no_input=True)
    v.coverage.update({
        'obligations': info['obligations'], 'discharged': info['discharged'], 'checker_cmd': info['checker_cmd'],
        'trusted_base': TRUSTED + info['print_assumptions'], 'failed_obligations': info['failed'],
        'evaluations': len(cases), 'distinct_nontrivial': len(set(c['hex'] for c in cases)),
        'rule': 'every distinct object image (<= 4 KiB) cut from the Vector-produced reference logs of the repository (%d occurrences, %d distinct images of %d classes) is decoded and encoded again by the extracted model and by the library; plus %d random substitutions per image (bytes with boundary values, aligned 16/32-bit values) and, for the shortest image of every class (thorough: every distinct image), every single byte behind the base header overwritten in turn with a small, a boundary and a random value — a substitution counts when the shape is unchanged (still decoded completely, the same lengths of all variable-length members and the same variant selectors as decoded by the library, same encoded length): then every byte must come back except members the encoder recomputes by design, which must come back as in the original image. Non-trivial = distinct byte string.' % (
            j['total_occurrences'], nimg, len(per_class), nsub),
        'images': nimg, 'library_encoded_layout_variants': nvariants, 'images_decoded_completely': complete_imgs, 'substitutions_with_unchanged_shape': shape_kept,
        'images_per_class': dict(per_class.most_common(12)), 'correspondence_disagreements': ndis, 'oracle_failures': nbad,
        'samples': [lines[0][:160], lines[nimg][:160] if len(lines) > nimg else ''],
        'theorems': ['C02_reference_images (all %d images, evaluated in the kernel)' % nimg, 'C02_nonvacuous'],
    })
    return 'proof'
