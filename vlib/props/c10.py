"""C10 — corrupt or hostile input never causes a crash, undefined behaviour or a hang."""
import collections
from .. import common, codec, coqrun, filerun, codecrun

TRUSTED = [
    'Coq 8.16.1 kernel + vm_compute (no native_compute)',
    'codec read programs regenerated from /repo (translator + Sem.compile); Lib/FileModel.read_session hand-written — both tied to the code by differential execution under ASan+UBSan with a 1 MiB..256 MiB allocation cap and a watchdog',
    'try/catch skeleton of the four worker thread functions: extracted syntactically from File.cpp (translator/sync2coq.py)',
    'extraction (ExtrOcamlBasic only) + ocaml/driver.ml; harness/file.cpp, harness/codec.cpp',
]


def classify(line):
    if line.startswith('CRASH'):
        return 'crash'
    if line.startswith('HANG') or 'TOOMANY' in line:
        return 'hang'
    if line.startswith('ESCAPED'):
        return 'escaped'
    if line.startswith('FR ok') or line.startswith('FR throws') or line.startswith('FR notopen') or line == 'SKIPPED':
        return None
    return 'other'


def run(v, tier, seed, replay=None):
    meta, _ = common.translate()
    ok, failed, info = coqrun.prove(v, 'C10', ['Inst/SafeEq.v', 'Inst/TermEq.v'])
    res = filerun.run(meta, seed, tier)
    asm = filerun.assembled_run(meta, seed, tier)
    cases = [(r['mode'] + ':' + str(r.get('what', r.get('cut', ''))), r['data'], r['model'], r['impl']) for r in res['r']] + \
            [(c['mode'], c['data'], c['model'], c['impl']) for c in asm['a']]
    ndis = 0
    kinds = collections.Counter()
    for what, data, m, i in cases:
        k = classify(i)
        kinds[k or 'ends'] += 1
        if k:
            v.violation('C10:%s:%s' % (k, what.split(':')[0].split('@')[0]),
                        'reading a %s file (%d bytes): %s' % (what, len(data), {'crash': 'memory error / undefined behaviour: ' + i[:80], 'hang': 'the read loop does not end (%s)' % i[:60],
                                                                             'escaped': 'an exception escaped: ' + i[:80], 'other': i[:80]}[k]),
                        {'file_hex': data.hex()[:20000], 'mutation': what, 'implementation': i[:400], 'model': m[:200], 'how': 'bin/check C10 --replay <this file>'})
        elif not filerun.fr_agree(m, i):
            ndis += 1
            if ndis == 1:
                v.violation('corr:C10', 'model and implementation disagree on a hostile file (%s): %s | %s' % (what, m[:150], i[:150]),
                            {'file_hex': data.hex()[:8000], 'model': m[:600], 'impl': i[:600]}, no_input=True)
    # a length field pointing megabytes ahead (below the allocation cap) in a file that HAS megabytes of data behind it: the
    # request is larger than any buffer the pipeline was set up with, so the inflating worker has to be let on until the
    # request can be served or the end of the file shows that it cannot
    import struct
    from .. import sessrun
    mexe = common.build_model_driver()
    tf = [f for f, kd, nm, _ in filerun.Gen(meta, __import__('random').Random(seed)).view('AppText').fields if nm == 'text'][0]
    eo = codec.run_model(mexe, ['W 11 %d=x%s' % (tf, (bytes([97 + j]) * 1000).hex()) for j in range(4)])
    encs = [bytes.fromhex(e.split(' ')[2]) for e in eo if e.startswith('W ok ')]
    nbig = 0
    if len(encs) == 4:
        plain, _ = sessrun.harnesses()
        lines, descr = [], []
        for declared in ((0x140000, 0x800000, 0x1000000) if tier == 'quick' else (0x100001, 0x140000, 0x400000, 0x800000, 0x1000000, 0x8000000)):
            for nobj in ((2600,) if tier == 'quick' else (1400, 2600)):
                objs = [bytearray(encs[j % 4]) for j in range(nobj)]
                struct.pack_into('<I', objs[5], 40, declared)           # AppText::textLength of object #5
                stream = b''.join(bytes(o) for o in objs)
                data = filerun.file_of([filerun.wrap_container(stream[j:j + 0x20000], 0) for j in range(0, len(stream), 0x20000)])
                lines.append('FE -1 0 0 ' + data.hex())
                descr.append((declared, nobj, len(data), declared > len(stream)))
        bo = sessrun.run_impl(plain, lines, 0, {'VERIF_WD_SECONDS': '20'})
        for (declared, nobj, ln, beyond), o in zip(descr, bo):
            if o == 'SKIPPED':
                continue
            nbig += 1
            kinds['ends' if o.startswith('FE ok') else 'big:' + o[:5]] += 1
            # a text that the file can still serve is decoded (from whatever follows) and parsing goes on behind it; one that
            # reaches beyond the end of the file cannot be: the five objects before it, then the end
            if not o.startswith('FE ok n=5 ' if beyond else 'FE ok'):
                v.violation('C10:%s:big-length' % ('hang' if o.startswith('HANG') else 'other'),
                            'reading a file of %d AppText objects (%d bytes, 128 KiB containers) whose 6th object declares a text of %d bytes: %s' % (nobj, ln, declared, 'the read loop does not end (%s)' % o[:60] if o.startswith('HANG') else o[:100]),
                            {'file': '%d AppText objects of 1000 text bytes in method-0 containers of 0x20000 bytes; textLength (offset 40) of object #5 set to %d' % (nobj, declared),
                             'scenario': 'FE -1 0 0 <file>', 'implementation': o[:300], 'expected': 'FE ok n=5 ... (the five objects before it, then the end)'})
    # object level: every decoder on truncated / substituted encodings (shared codec run)
    cres = codecrun.run(meta, seed, tier)
    ncodec = 0
    for c in cres['cases']:
        if c['kind'] != 'R':
            continue
        ncodec += 1
        if c['impl'].startswith('CRASH') or c['impl'].startswith('HANG'):
            v.violation('C10:codec:%s' % c['cls'], '%s::read on a %s encoding: %s' % (c['cls'], c['mode'], c['impl'][:100]),
                        {'class': c['cls'], 'case': c['line'][:4000], 'implementation': c['impl'][:300], 'model': c['model'][:200]})
    if not ok and not v.violations:
        for fl in failed:
            v.violation('coq:' + fl['lemma'], 'proof obligation %s (%s:%d) no longer checks: %s' % (fl['lemma'], fl['file'], fl['line'], fl['error'][:200]),
                        {'theorem': fl['lemma'], 'file': fl['file'], 'line': fl['line'], 'error': fl['error']}, no_input=True)
    v.coverage.update({
        'obligations': info['obligations'], 'discharged': info['discharged'], 'checker_cmd': info['checker_cmd'],
        'trusted_base': TRUSTED + info['print_assumptions'], 'failed_obligations': info['failed'],
        'evaluations': len(cases) + ncodec, 'distinct_nontrivial': len(set(d for _, d, _, _ in cases if len(d) > 144)) + len(set(c['line'] for c in cres['cases'] if c['kind'] == 'R')),
        'rule': 'files: every written file of the file-layer run truncated (boundary + random offsets; every offset of small files in thorough) and mutated (single bytes with boundary values, aligned 16/32-bit fields with {0,1,0x7f..,0x80..,0xff..,sizes}, block duplication / deletion), plus hand-assembled hostile object headers (objectSize 0,1,4,15,16,17,+-1,2x,0x7fffffff,0x80000000,0xfffffff0; headerSize; type swapped; length members set to huge values; a length member of a few MiB — above every pipeline buffer, below the allocation cap — in files with MiB of data behind it) and hostile container headers (objectSize, uncompressedFileSize, method, type) in method-0 and zlib containers of several sizes; object level: every decoder on truncated and byte/16/32-bit substituted encodings. Outcome classes compared with the model; any sanitizer report, watchdog expiry or escaped exception is a violation. Non-trivial = distinct file longer than the header / distinct encoding.',
        'file_outcomes': dict(kinds), 'codec_read_cases': ncodec, 'correspondence_disagreements': ndis,
        'samples': [w for w, _, _, _ in cases[:3]] + [cases[-1][1].hex()[:160]],
    })
    return 'proof'
