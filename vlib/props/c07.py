"""C07 — results are independent of thread interleaving."""
import random
from .. import common, codec, coqrun, filerun, sessrun
from .c06 import TRUSTED


def run(v, tier, seed, replay=None):
    meta, _ = common.translate()
    ok, failed, info = coqrun.prove(v, 'C07', ['Inst/SkelEq.v'])
    mexe = common.build_model_driver()
    plain, sched = sessrun.harnesses()
    rng = random.Random(seed)
    g = filerun.Gen(meta, rng)
    # write sessions: same objects and configuration under different timings (pause before close, perturbed monitors)
    sess = []
    for k in range(6 if tier == 'quick' else 30):
        cs = rng.choice([48, 96, 100, 1000, 4096])
        n = rng.randrange(1, 9)
        if k < 3:
            # total an exact multiple of the container size: the final (empty) container is where timing could show
            objs = [g.obj('CanMessage') for _ in range(rng.choice([1, 2, 4]))]
            cs = 48 * rng.choice([1, 2])
            if (len(objs) * 48) % cs:
                objs.append(g.obj('CanMessage'))
        else:
            objs = [g.obj() for _ in range(n)]
        lvl = rng.choice([0, 1, 6, 9])
        sess.append({'tail': '%d %d 1' % (lvl, cs) + ''.join(' | ' + o for o in objs), 'cs': cs, 'n': len(objs)})
    # a stream of exactly 2 default-sized containers (2 * 0x20000 bytes): 5461 CanMessage (48 B) + 1 with padding is not exact, use AppText to fill
    tf = [f for f, kd, nm, _ in g.view('AppText').fields if nm == 'text'][0]
    big = ['11 %d=x%s' % (tf, (b'x' * (0x20000 - 48 - 0)).hex())]      # header 32 + 16 fixed = 48 -> exactly one container with the text
    sess.append({'tail': '0 131072 0' + ''.join(' | ' + o for o in big * 2), 'cs': 0x20000, 'n': 2})
    model = codec.run_model(mexe, ['FW ' + s['tail'] for s in sess])
    variants = []
    for delay in (0, 40):
        variants.append(('plain/delay%d' % delay, sessrun.run_impl(plain, ['FS %d %s' % (delay, s['tail']) for s in sess])))
    for k in range(2 if tier == 'quick' else 8):
        sd = seed * 100 + k + 1
        variants.append(('sched:%d/delay%d' % (sd, 40 * (k % 2)), sessrun.run_impl(sched, ['FS %d %s' % (40 * (k % 2), s['tail']) for s in sess], sd)))
    # the compression level assigned after open() and a pause, before the first write(): still the model's bytes
    variants.append(('plain/level-set-after-open+30ms', [o.replace('FL ok', 'FS ok', 1) for o in sessrun.run_impl(plain, ['FL 30 %s' % s['tail'] for s in sess])]))
    variants.append(('plain/level-set-after-open', [o.replace('FL ok', 'FS ok', 1) for o in sessrun.run_impl(plain, ['FL 0 %s' % s['tail'] for s in sess])]))
    nbad = 0
    for s, m, *outs in zip(sess, model, *[o for _, o in variants]):
        want = m.split(' ')[-1] if m.startswith('FW ok') else None
        for (name, _), o in zip(variants, outs):
            if o == 'SKIPPED':
                continue
            got = o.split(' ')[-1] if o.startswith('FS ok') else o
            if want is None or got != want:
                nbad += 1
                v.violation('C07:write:%s' % ('bytes' if o.startswith('FS ok') else 'fail'),
                            'a write session (container size %d, %d objects) produced different bytes under timing variant %s than the schedule-free model (%d vs %d bytes)' % (
                                s['cs'], s['n'], name, len(got) // 2, len(want or '') // 2),
                            {'scenario': 'FS <delay> ' + s['tail'][:300], 'variant': name, 'expected_hex': (want or '')[:2000], 'got': got[:2000]})
                break
    # read sessions: delivered objects under perturbed schedules = the sequential model's
    data, _ = sessrun.big_read_file(mexe, 2000, 1000, rng)
    small = [r for r in filerun.run(meta, seed, tier)['r'] if r['mode'] == 'full'][:10 if tier == 'quick' else 60]
    rl = ['FR ' + r['data'].hex() for r in small]
    for k in range(2 if tier == 'quick' else 6):
        sd = seed * 100 + 50 + k
        outs = sessrun.run_impl(sched, rl, sd)
        for r, o in zip(small, outs):
            if o != 'SKIPPED' and not filerun.fr_agree(r['model'], o):
                nbad += 1
                v.violation('C07:read', 'a read session delivers something else under schedule perturbation seed %d than the schedule-free model: %s | %s' % (sd, r['model'][:100], o[:100]),
                            {'file_hex': r['data'].hex()[:6000], 'seed': sd, 'model': r['model'][:500], 'implementation': o[:500]})
                break
    # read sessions over files with an unknown-type object that spans many small containers and whose payload is full of object
    # images: the parser's skip over it runs ahead of the inflating worker under some schedules and must still land behind it
    import struct
    encs = [bytes.fromhex(e.split(' ')[2]) for e in codec.run_model(mexe, ['W ' + g.obj('CanMessage') for _ in range(3)]) if e.startswith('W ok ')]
    span = []
    for size, cs in ((20000, 512), (70000, 4096), (9000, 64)):
        img = encs[0]
        unk = struct.pack('<4sHHII', b'LOBJ', 16, 1, size, 0x7777) + (img * (size // len(img) + 1))[:size - 16]
        stream = encs[1] + unk + encs[2] + encs[1]
        span.append(filerun.file_of([filerun.wrap_container(stream[k:k + cs], 0) for k in range(0, len(stream), cs)]))
    sl = ['FR ' + d.hex() for d in span]
    sm = codec.run_model(mexe, sl)
    for k in range(3 if tier == 'quick' else 10):
        sd = seed * 100 + 70 + k
        outs = sessrun.run_impl(sched if k else plain, sl, sd)
        for d, m, o in zip(span, sm, outs):
            if o != 'SKIPPED' and not filerun.fr_agree(m, o):
                nbad += 1
                v.violation('C07:read:span', 'a read session over an unknown object spanning many containers delivers something else %s than the schedule-free model: %s | %s' % (
                    ('under schedule perturbation seed %d' % sd) if k else 'on the plain build', m[:100], o[:100]),
                    {'file_hex': d.hex()[:6000], 'seed': sd, 'model': m[:500], 'implementation': o[:500]})
                break
    if not ok and not v.violations:
        for fl in failed:
            v.violation('coq:' + fl['lemma'], 'proof obligation %s (%s:%d) no longer checks: %s' % (fl['lemma'], fl['file'], fl['line'], fl['error'][:200]),
                        {'theorem': fl['lemma'], 'file': fl['file'], 'line': fl['line'], 'error': fl['error'],
                         'searched': '%d write sessions x %d timing variants and %d read sessions under perturbed schedules, all equal to the model' % (len(sess), len(variants), len(small))}, no_input=True)
    v.coverage.update({
        'obligations': info['obligations'], 'discharged': info['discharged'], 'checker_cmd': info['checker_cmd'],
        'trusted_base': TRUSTED + info['print_assumptions'], 'failed_obligations': info['failed'],
        'evaluations': len(sess) * len(variants) + len(small) * (2 if tier == 'quick' else 6), 'distinct_nontrivial': len(sess) + len(small),
        'rule': 'write sessions (incl. totals that are exact multiples of the container size, where the trailing empty container is the timing-sensitive spot) run with and without a pause before close() on the plain build and under seeded yield/sleep injection at every lock/unlock/wait: every file must be byte-identical to the schedule-free model; complete read sessions under perturbed schedules must deliver exactly the model\'s objects. Non-trivial = distinct session.',
        'timing_variants': [n for n, _ in variants], 'differences': nbad,
        'samples': ['FS <delay> ' + s['tail'][:100] for s in sess[:3]],
        'theorems': ['C07_write_determinate', 'C07_read_determinate', 'C07_read_complete', 'C07_read_example', 'C07_worker_loops_as_modelled'],
        'not_a_theorem_yet': 'that the library parser, run as a reader program of the model, yields the schedule-free objects (decided by this run)',
    })
    return 'proof'
