"""C09 — unknown object types and filler bytes are skipped without losing neighbours."""
import itertools, struct
from .. import common, codec, coqrun, filerun

TRUSTED = [
    'Coq 8.16.1 kernel + vm_compute (no native_compute)',
    'signature constant and the three (mask, value, seek-back) rules of ObjectHeaderBase::read: regenerated from the source (Gen/Consts.v); the loop itself is Sem.scan_loop (hand-written, validated by every R / FR case)',
    'hand-written model Lib/FileModel.read_session (the two read workers as a sequential composition) — tied to the code by this run',
    'extraction (ExtrOcamlBasic only) + ocaml/driver.ml; harness/file.cpp (ASan+UBSan, watchdog)',
]


def exhaustive_strings(meta, tier):
    """every string over {L,O,B,J,x} up to a length, placed before a real object: the object must still be found."""
    mexe = common.build_model_driver()
    e = bytes.fromhex(codec.run_model(mexe, ['W 24 6144=5 6147=291'])[0].split(' ')[2])
    e2 = bytes.fromhex(codec.run_model(mexe, ['W 24 6144=9'])[0].split(' ')[2])
    alpha = [b'L', b'O', b'B', b'J', b'x']
    maxlen = 5 if tier == 'quick' else 7
    streams = []
    for n in range(0, maxlen + 1):
        for t in itertools.product(alpha, repeat=n):
            f = b''.join(t)
            if b'LOBJ' in f or b'LOBJ' in f + b'LOB':
                continue
            streams.append(f)
    cases = []
    # many fillers per file to keep the number of sessions down: e2 f1 e f2 e ...  (each filler directly before a real object)
    per = 60
    for k in range(0, len(streams), per):
        grp = streams[k:k + per]
        stream = e2 + b''.join(f + e for f in grp)
        cs = [17, 64, 1 << 20][(k // per) % 3]
        conts = [stream[i:i + cs] for i in range(0, len(stream), cs)]
        cases.append({'data': filerun.file_of([filerun.wrap_container(c, 0) for c in conts]), 'n': len(grp) + 1, 'fillers': grp})
    return cases, len(streams), e, e2


def run(v, tier, seed, replay=None):
    meta, _ = common.translate()
    ok, failed, info = coqrun.prove(v, 'C09', ['Inst/ScanEq.v', 'Inst/StreamRT.v', 'Inst/UnknownEq.v'])
    res = filerun.assembled_run(meta, seed, tier)
    cs = [c for c in res['a'] if c['expect'] is not None]
    ndis = 0
    for c in res['a']:
        if not filerun.fr_agree(c['model'], c['impl']):
            ndis += 1
            if ndis == 1:
                v.violation('corr:C09', 'model and implementation disagree on an assembled stream (%s): %s | %s' % (c['mode'], c['model'][:150], c['impl'][:150]),
                            {'file_hex': c['data'].hex()[:6000], 'layout': c['layout'], 'model': c['model'][:600], 'impl': c['impl'][:600]}, no_input=True)
    bad = 0
    for c in cs:
        got = [' '.join(x.split()) for x in filerun.canon_fr(c['impl'])[5]] if c['impl'].startswith('FR ok') else None
        want = [' '.join(x.split()) for x in c['expect_dumps']]
        if got != want:
            bad += 1
            v.violation('C09:%s' % c['mode'], 'known objects are lost or altered when %s sits between them: %d delivered, %d expected; layout %s' % (
                {'filler': 'filler', 'unknown': 'an object of unknown type', 'mixed': 'filler and unknown-type objects', 'unknown-large': 'an unknown-type object of 64 KiB or more (payload full of object images)'}.get(c['mode'], c['mode']),
                len(got) if got is not None else -1, len(want), c['layout']),
                {'file_hex': c['data'].hex()[:8000], 'layout': c['layout'], 'implementation': c['impl'][:600]})
    ex, nstrings, e, e2 = exhaustive_strings(meta, tier)
    mo, io = filerun.run_lines(['FR ' + c['data'].hex() for c in ex])
    for c, m, i in zip(ex, mo, io):
        if not filerun.fr_agree(m, i):
            ndis += 1
            v.violation('corr:C09:strings', 'model and implementation disagree on a filler-string file: %s | %s' % (m[:100], i[:100]), {'file_hex': c['data'].hex()[:6000]}, no_input=True)
        n = filerun.canon_fr(i)[1] if i.startswith('FR ok') else -1
        if n != c['n']:
            bad += 1
            # find the first filler after which the object is lost
            v.violation('C09:strings', 'with filler strings over {L,O,B,J,x} directly before real objects, %d of %d objects are delivered (fillers %s...)' % (
                n, c['n'], [f.decode() for f in c['fillers'][:6]]), {'file_hex': c['data'].hex()[:8000], 'implementation': i[:300]})
    if not ok and not v.violations:
        for fl in failed:
            v.violation('coq:' + fl['lemma'], 'proof obligation %s (%s:%d) no longer checks: %s' % (fl['lemma'], fl['file'], fl['line'], fl['error'][:200]),
                        {'theorem': fl['lemma'], 'file': fl['file'], 'line': fl['line'], 'error': fl['error']}, no_input=True)
    import collections
    v.coverage.update({
        'obligations': info['obligations'], 'discharged': info['discharged'], 'checker_cmd': info['checker_cmd'],
        'trusted_base': TRUSTED + info['print_assumptions'], 'failed_obligations': info['failed'],
        'evaluations': len(cs) + nstrings, 'distinct_nontrivial': len(set(c['data'] for c in cs)) + nstrings,
        'rule': 'hand-assembled files: known objects (8 classes) with arbitrary fillers not containing the signature (incl. the prefixes L, LO, LOB, LOL, LOLOB directly before an object) and objects of %d unknown type codes with declared sizes 16..100 (all residues mod 4) in between, unknown objects of 64 KiB..200 KB whose payload is full of images of known objects, cut into method-0 / zlib containers of sizes {1,2,3,5,7,16,33,48,whole}; plus EVERY string over {L,O,B,J,x} up to length %d that does not create a signature, placed directly before a real object. Oracle: the delivered objects are exactly the known objects, each equal to its own object-level decoding. Non-trivial = distinct file / distinct filler string.' % (19, 5 if tier == 'quick' else 7),
        'exhaustive_filler_strings': nstrings, 'assembled_streams': dict(collections.Counter(c['mode'] for c in cs)),
        'correspondence_disagreements': ndis, 'oracle_failures': bad,
        'samples': [str(c['layout']) for c in cs[:3]] + [c['data'].hex()[:200] for c in cs[:1]],
    })
    return 'proof'
