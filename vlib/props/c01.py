"""C01 — write-then-read returns the same objects (object level; the file level is added by the file-layer model)."""
from .. import common, codec, codecrun, coqrun, filerun

TRUSTED = [
    'Coq 8.16.1 kernel + vm_compute (no native_compute)',
    'translator/blf2coq.py + the inliner/CPS compiler Sem.compile (part of the model definition) — validated by the codec correspondence',
    'extraction (ExtrOcamlBasic only) + ocaml/driver.ml; harness/codec.cpp + generated reflection',
    'modelled, not verified: the in-memory stream semantics of Sem.s_read/s_seek (validated against the real UncompressedFile in every R case)',
]


def class_verdicts(mexe):
    out = codec.run_model(mexe, ['K'])[0]
    d = {}
    for part in out.split(';'):
        if not part:
            continue
        bits = part.split(':')
        d[int(bits[0])] = {kv.split('=')[0]: kv.split('=')[1] == '1' for kv in bits[1:]}
    return d


def roundtrip_oracle(v, meta, res, pid='C01'):
    """On the implementation's own output: an API-populated object read back from its own encoding
    is identical on every member and the decoder stops exactly at the end of the encoding."""
    checked = 0
    failing = {}
    views = {}
    fresh = {c['cls']: codec.parse_dump(c['impl']) for c in res['cases'] if c['kind'] == 'F'}
    for c in res['cases']:
        if c['kind'] != 'R' or c['mode'] not in ('exact', 'junk') or c['of']['mode'] not in ('api', 'default'):
            continue
        if not meta['classes'][c['cls']].get('isobj') or c['cls'] == 'LogContainer':
            continue    # component structs and the container itself are covered where they are used (parents / file layer)
        w = c['of']
        if not w['impl'].startswith('W ok ') or not c['impl'].startswith('R ok'):
            if w['impl'].startswith('W ok '):
                failing.setdefault(c['cls'], (c, 'the object written by the library cannot be read back: ' + c['impl'][:80], 'unreadable'))
            continue
        checked += 1
        wd, rd = codec.parse_dump(w['impl']), codec.parse_dump(c['impl'])
        pos = int(c['impl'].split(' ')[2].split('=')[1])
        em = w.get('emitted')
        fd = fresh.get(c['cls'], {})
        if em is None:
            continue
        # emitted members come back unchanged; members outside the selected layout variant stay as constructed
        cv = views.setdefault(c['cls'], codec.ClassView(meta, c['cls']))
        diff = [k for k in wd if (wd[k] != rd.get(k) if k in em else (rd.get(k) != fd.get(k) and k not in cv.read_derived))]
        if diff:
            failing.setdefault(c['cls'], (c, 'members differ after write-then-read: %s' % diff[:4], 'members'))
        elif pos != c['nbytes']:
            failing.setdefault(c['cls'], (c, 'decoder consumed %d of %d emitted bytes' % (pos, c['nbytes']), 'consumed'))
    for cls, (c, why, code) in failing.items():
        v.violation('rt:%s:%s' % (cls, code), '%s: %s' % (cls, why),
                    {'class': cls, 'write_case': c['of']['line'], 'encoding': c['line'].split(' ')[2][:400], 'written': c['of']['impl'][:600], 'read_back': c['impl'][:600]})
    return checked, failing


def run(v, tier, seed, replay=None):
    meta, _ = common.translate()
    ok, failed, info = coqrun.prove(v, 'C01', ['Inst/Codec.v', 'Inst/StreamRT.v'])
    mexe = common.build_model_driver()
    verd = class_verdicts(mexe)
    name_of = {c['idx']: n for n, c in meta['classes'].items()}
    broken = [name_of[c] for c, d in verd.items() if not d['rt'] and not d['rtx']]
    res = codecrun.run(meta, seed, tier, focus=broken)
    ndis = codecrun.report_disagreements(v, res, 'C01')
    checked, failing = roundtrip_oracle(v, meta, res)
    # file level: every written file of the file-layer run (levels 0-9 x container sizes 1..0x20000 x restore points, bulk
    # incompressible payloads, objects spanning containers) read back with the library: the objects delivered are the objects
    # written, in order, each once, then the end
    fres = filerun.run(meta, seed, tier)
    fulls = [r for r in fres['r'] if r['mode'] == 'full' and all(e.startswith('W ok ') for e in r['of']['enc'])]
    uniq = sorted(set((o.split()[0], e.split(' ')[2]) for r in fulls for o, e in zip(r['of']['objs'], r['of']['enc'])))
    alone = {}
    if uniq:
        ro = codec.run_model(mexe, ['R %s %s' % (idx, hx) for idx, hx in uniq])
        alone = {k: (r_.split(' |', 1)[1].strip() if ' |' in r_ else None) for k, r_ in zip(uniq, ro)}
    nfile, fbad = 0, 0
    for r in fulls:
        c = r['of']
        want = [' '.join(('%s | %s' % (o.split()[0], alone[(o.split()[0], e.split(' ')[2])] or '')).split()) for o, e in zip(c['objs'], c['enc'])]
        i = r['impl']
        nfile += 1
        got = [' '.join(x.split()) for x in filerun.canon_fr(i)[5]] if i.startswith('FR ok') else None
        if got != want or ' eof=1' not in i:
            fbad += 1
            k = next((j for j in range(min(len(got or []), len(want))) if got[j] != want[j]), min(len(got or []), len(want)))
            v.violation('C01:file', 'write-then-read through files: level %d, container size %d, restore points %d: %d objects written, %s read back%s' % (
                c['level'], c['cs'], c['restore'], len(want), len(got) if got is not None else i[:60],
                ('; first difference at object %d' % k) if got is not None and len(got) == len(want) else ''),
                {'write_case': c['line'][:3000], 'file_hex': r['data'].hex()[:6000], 'implementation': i[:600]})
    # configurations changed AFTER open(out): the container size raised above / lowered below the stream's buffer in mid-session
    from .. import sessrun
    plain, _sched = sessrun.harnesses()
    late = [(0x20000, 0x40000, 0, 14000), (0x20000, 0x28000, 3000, 9000), (4096, 8192, 500, 1500), (512, 4096, 10, 2000), (0x8000, 300, 2000, 2000)]
    if tier != 'quick':
        late += [(0x20000, 0x80000, 100, 30000), (64, 300000, 500, 9000), (0x40000, 0x20000, 9000, 9000)]
    lo = sessrun.run_impl(plain, ['FC %d %d %d %d' % t for t in late])
    for t, o in zip(late, lo):
        if o == 'SKIPPED':
            continue
        nfile += 1
        if o != 'FC ok n=%d inorder=1' % (t[2] + t[3]):
            fbad += 1
            v.violation('C01:file:late-config', 'write-then-read with the container size changed from %d to %d after %d of %d objects (after open): %s' % (t[0], t[1], t[2], t[2] + t[3], o[:100]),
                        {'scenario': 'FC %d %d %d %d' % t, 'implementation': o[:200], 'expected': 'all %d CanMessage objects back, ids in order' % (t[2] + t[3])})
    ndis_f = sum(1 for r in fulls if not filerun.fr_agree(r['model'], r['impl']))
    if ndis_f and not fbad:
        r = next(r for r in fulls if not filerun.fr_agree(r['model'], r['impl']))
        v.violation('corr:C01:file', 'file-layer model and implementation disagree on reading back %d written file(s): %s | %s' % (ndis_f, r['model'][:150], r['impl'][:150]),
                    {'file_hex': r['data'].hex()[:6000], 'model': r['model'][:600], 'impl': r['impl'][:600]}, no_input=True)
    # a class that silently left the verified list and for which no failing input was found
    for n in broken:
        if n not in failing:
            v.violation('coq:rt_ok:%s' % n, 'class %s no longer passes the round-trip check rt_ok (theorem C01_object does not cover it any more)' % n,
                        {'theorem': 'C01_object / Inst.Codec.rt_all_b', 'class': n}, no_input=True)
    if not ok and not broken and not v.violations:
        for fl in failed:
            v.violation('coq:' + fl['lemma'], 'proof obligation %s (%s:%d) no longer checks: %s' % (fl['lemma'], fl['file'], fl['line'], fl['error'][:200]),
                        {'theorem': fl['lemma'], 'file': fl['file'], 'line': fl['line'], 'error': fl['error']}, no_input=True)
    cov = codecrun.coverage_common(res)
    cov.update({
        'obligations': info['obligations'], 'discharged': info['discharged'], 'checker_cmd': info['checker_cmd'],
        'trusted_base': TRUSTED + info['print_assumptions'], 'failed_obligations': info['failed'],
        'obligations_about_generated_terms': info['obligations_about_generated_terms'],
        'classes_in_theorem': sum(1 for d in verd.values() if d['rt'] and not d['rtx']),
        'classes_excepted': sorted(name_of[c] for c, d in verd.items() if d['rtx']),
        'roundtrips_checked_on_impl': checked, 'correspondence_disagreements': ndis, 'files_written_and_read_back': nfile, 'file_roundtrip_failures': fbad,
        'theorems': ['C01_object (all states of %d classes)' % sum(1 for d in verd.values() if d['rt'] and not d['rtx']), 'C01_stream (any list of such objects: the parser stage of the file model returns them in order, then the end)'],
    })
    v.coverage.update(cov)
    v.assumptions += ['representability guard as in the property (lengths fit the length member); objects below the 256 MiB allocation cap',
                      'classes in rt_exception_names are outside the theorem; they are exercised by the correspondence and the round-trip oracle only']
    return 'proof'
