"""C16 — the object queue is a bounded FIFO with exact end-of-stream and abort."""
import itertools, json, os, random
from .. import common, codec, coqrun

TRUSTED = [
    'Coq 8.16.1 kernel + vm_compute (no native_compute)',
    'translator/sync2coq.py (syntactic translation of every ObjectQueue method into the monitor IR) and the interpreter Lib/Mon.v (C integer typing from Lib/Sem.v) — validated here by differential execution against the real ObjectQueue',
    'extraction (ExtrOcamlBasic only) + ocaml/driver.ml; harness/oq.cpp (calls on a helper thread under a watchdog)',
    'modelled, not verified: std::mutex / std::condition_variable (monitor semantics: a wait returns only when its predicate holds), std::queue',
]
M32 = 1 << 32


def oracle(ops):
    """Reference bounded FIFO written from the property text (independent of the Coq model).
    Returns the expected output tokens; 'blocked:<cv>' ends the sequence.  '&r' / '&w<tok>' start a
    call on another thread: it sleeps while it cannot proceed and completes as soon as it can."""
    st = {'items': [], 'cap': M32 - 1, 'declared': M32 - 1, 'consumed': 0, 'written': 0, 'abort': False, 'good': 1, 'eof': 0}
    out = []
    pending = None

    def try_read():
        if st['items']:
            st['consumed'] += 1
            st['good'], st['eof'] = 1, 0
            return 'r=%d' % st['items'].pop(0)
        if st['abort'] or st['consumed'] >= st['declared']:
            st['good'], st['eof'] = 0, 1
            return 'r=0'
        return None

    def try_write(a):
        if not st['abort'] and len(st['items']) >= st['cap']:
            return None
        st['items'].append(a)
        st['written'] += 1
        st['declared'] = max(st['declared'], st['written'])
        return 'w'

    for op in ops:
        asyn = op[0] == '&'
        if asyn:
            op = op[1:]
        c, a = op[0], int(op[1:] or 0)
        if asyn:
            r = try_read() if c == 'r' else try_write(a)
            if r is None:
                pending = (c, a)
                out.append('&sleep')
            else:
                out.append('&' + r)
            continue
        if c == 'r':
            r = try_read()
            if r is None:
                out.append('blocked:1')
                break
            out.append(r)
        elif c == 'w':
            r = try_write(a)
            if r is None:
                out.append('blocked:0')
                break
            out.append(r)
        elif c == 'a':
            st['abort'] = True
            out.append('a')
        elif c == 'f':
            st['declared'] = a % M32
            out.append('f')
        elif c == 'b':
            st['cap'] = a % M32
            out.append('b')
        elif c == 'g':
            out.append('g=%d' % st['consumed'])
        elif c == 'p':
            out.append('p=%d' % st['written'])
        elif c == 'G':
            out.append('G=%d' % st['good'])
        elif c == 'E':
            out.append('E=%d' % st['eof'])
        elif c == 'D':
            out.append('D=' + ','.join(str(x) for x in st['items']))
            break
        if pending and c in 'rwaf':
            r = try_read() if pending[0] == 'r' else try_write(pending[1])
            if r is not None:
                out.append('&' + r)
                pending = None
    if pending:
        out.append('asleep')
    return 'Q ' + ' '.join(out) if out else 'Q'


def gen_cases(rng, tier):
    cases = []
    # hand-picked corners
    cases += ['b2 w7 w8 r w9 f3 r r r G E g p', 'b2 w7 w8 w9', 'r', 'w1 w2 a r r r E w3 r D', 'w5 w6 D',
              'f0 r E G w4 r G E r', 'b0 w1', 'b1 w1 a w2 w3 r r r r', 'f2 w1 w2 w3 r r r r', 'f1 w1 r r E w2 E r G r',
              'b3 w1 w2 w3 b5 w4 w5 w6', 'b1 w1 b0 r w2', 'a r E G', 'a w1 w2 D', 'w1 f0 r r']
    # exhaustive short sequences over a reduced alphabet
    alpha = ['r', 'w', 'a', 'f0', 'f1', 'f2', 'b1']
    depth = 4 if tier == 'quick' else 6
    for n in range(1, depth + 1):
        for seq in itertools.product(alpha, repeat=n):
            k = 0
            toks = []
            for t in seq:
                if t == 'w':
                    k += 1
                    toks.append('w%d' % k)
                else:
                    toks.append(t)
            cases.append(' '.join(['b2'] + toks + ['E', 'G', 'g', 'p', 'D']))
    exhaustive = len(cases)
    # random longer histories: small capacities so that back-pressure is reached, mostly non-blocking
    nrand = 1500 if tier == 'quick' else 20000
    for _ in range(nrand):
        cap = rng.choice([1, 1, 2, 2, 3, 5, 8])
        toks = ['b%d' % cap]
        k = 0
        fill = 0
        ab = False
        declared = None
        n = rng.randrange(3, 40)
        for _ in range(n):
            r = rng.random()
            if r < 0.38:
                if fill >= cap and not ab and rng.random() < 0.85:
                    continue        # avoid ending the history early most of the time
                k += 1
                fill += 1
                toks.append('w%d' % k)
            elif r < 0.72:
                if fill == 0 and not ab and (declared is None or True) and rng.random() < 0.8:
                    continue
                toks.append('r')
                fill = max(0, fill - 1)
            elif r < 0.77:
                toks.append('a')
                ab = True
            elif r < 0.85:
                declared = rng.choice([0, 1, 2, 3, k, k + 1, k + 2, M32 - 1])
                toks.append('f%d' % declared)
            elif r < 0.88:
                cap = rng.choice([0, 1, 2, 3, 4, M32 - 1, M32 + 1])
                toks.append('b%d' % cap)
                cap %= M32
            else:
                toks.append(rng.choice(['g', 'p', 'G', 'E']))
        toks += ['E', 'G', 'g', 'p']
        if rng.random() < 0.5:
            toks.append('D')
        cases.append(' '.join(toks))
    # one call asleep on another thread while the history goes on: every way of waking it
    for cap in (1, 2):
        fillw = ['w%d' % (k + 1) for k in range(cap)]
        for tail in itertools.product(['r', 'w9', 'a', 'f0', 'f1', 'f%d' % (M32 - 1), 'g', 'E'], repeat=2 if tier == 'quick' else 3):
            cases.append(' '.join(['b%d' % cap, '&r'] + list(tail) + ['E', 'G', 'g', 'p']))
            cases.append(' '.join(['b%d' % cap] + fillw + ['&w7'] + list(tail) + ['E', 'G', 'g', 'p']))
            cases.append(' '.join(['b%d' % cap, 'f1', 'w1', 'r', '&r'] + list(tail) + ['E']))
    for _ in range(200 if tier == 'quick' else 3000):
        cap = rng.choice([1, 2, 3])
        toks = ['b%d' % cap]
        k = 0
        fill = 0
        for _ in range(rng.randrange(0, 6)):
            if fill < cap and rng.random() < 0.6:
                k += 1
                fill += 1
                toks.append('w%d' % k)
            elif fill > 0:
                toks.append('r')
                fill -= 1
        if rng.random() < 0.5:
            toks.append('&r')
        else:
            k += 1
            toks.append('&w%d' % k)
        for _ in range(rng.randrange(1, 7)):
            toks.append(rng.choice(['r', 'w%d' % (k + 50), 'a', 'f0', 'f%d' % k, 'f%d' % (k + 1), 'g', 'p', 'E', 'G', 'r', 'r']))
        cases.append(' '.join(toks))
    return cases, exhaustive


def run_impl_sharded(hexe, lines, shards=None):
    """The implementation side waits out every blocking call, so histories run in parallel shards."""
    import concurrent.futures
    shards = shards or min(common.NPROC, max(1, len(lines) // 20))
    parts = [lines[k::shards] for k in range(shards)]
    with concurrent.futures.ThreadPoolExecutor(shards) as ex:
        outs = list(ex.map(lambda p: codec.run_impl(hexe, p) if p else [], parts))
    res = [None] * len(lines)
    for k, o in enumerate(outs):
        res[k::shards] = o
    return res


def run_both(mexe, hexe, lines):
    mo = codec.run_model(mexe, lines)
    os.environ['VERIF_BLOCK_MS'] = '120'
    io = run_impl_sharded(hexe, lines)
    del os.environ['VERIF_BLOCK_MS']
    return mo, io


def run(v, tier, seed, replay=None):
    common.translate()
    ok, failed, info = coqrun.prove(v, 'C16', ['Inst/QueueEq.v'])
    mexe = common.build_model_driver()
    hexe = common.build_harness('oq')
    rng = random.Random(seed)
    if replay:
        rp = json.load(open(replay))
        cases = [rp['replay']['ops']]
        exhaustive = 0
    else:
        corpus = os.path.join(common.VERIF, 'corpus', 'C16.txt')
        cases = [l.strip() for l in open(corpus)] if os.path.exists(corpus) else []
        g, exhaustive = gen_cases(rng, tier)
        cases += g
    lines = ['Q ' + c for c in cases]
    mo, io = run_both(mexe, hexe, lines)
    exp = [oracle(c.split()) for c in cases]
    # a "blocked" verdict of the implementation is a time-out: confirm mismatches involving it
    suspicious = [k for k in range(len(lines)) if (io[k] != mo[k] or io[k] != exp[k]) and ('blocked' in io[k] or 'blocked' in mo[k] or 'blocked' in exp[k])]
    if suspicious:
        os.environ['VERIF_BLOCK_MS'] = '1500'
        io2 = run_impl_sharded(hexe, [lines[k] for k in suspicious])
        del os.environ['VERIF_BLOCK_MS']
        for k, r in zip(suspicious, io2):
            io[k] = r
    dis = [(c, m, i) for c, m, i in zip(cases, mo, io) if m != i]
    bad = [(c, e, i) for c, e, i in zip(cases, exp, io) if e != i]
    # the concurrent histories again on the build with yield/sleep injection at every lock / unlock and between a false wait
    # predicate and the wait itself (a notifier that changes the state without the mutex loses its wake-up there)
    # abort() racing with a call that is just about to wait: whatever the order, the call must return (abort releases every waiter)
    # (each racing call would block, so the order of effects is forced; expectation = the reference for the '&' form without '&sleep')
    racing = [(c, ' '.join(t for t in oracle(c.replace('%', '&').split()).split(' ') if t != '&sleep'))
              for c in ('b1 %r a', 'b1 w1 %w2 a', 'b2 w1 r %r a E', 'b1 f5 w1 %w2 a G')]
    nrace = 0
    if not replay:
        shexe0 = common.build_harness('oq', variant='sched')
        reps = 60 if tier == 'quick' else 600
        for exe_, nm, sds in ((hexe, 'plain', [0]), (shexe0, 'sched', [seed * 1000 + 500 + k for k in range(1, 4)])):
            for sd in sds:
                os.environ['VERIF_SCHED_SEED'] = str(sd)
                os.environ['VERIF_BLOCK_MS'] = '300'
                rl = ['Q ' + c for c, _ in racing] * reps
                ro = run_impl_sharded(exe_, rl)
                del os.environ['VERIF_BLOCK_MS']
                del os.environ['VERIF_SCHED_SEED']
                nrace += len(rl)
                for (c, e), o in zip(racing * reps, ro):
                    if o != e and o != 'SKIPPED':
                        # rule out a slow wake-up under load: the same history again with a generous time-out
                        os.environ['VERIF_SCHED_SEED'] = str(sd)
                        os.environ['VERIF_BLOCK_MS'] = '2500'
                        again = codec.run_impl(exe_, ['Q ' + c] * 40)
                        del os.environ['VERIF_BLOCK_MS']
                        del os.environ['VERIF_SCHED_SEED']
                        wrong = [x for x in again if x != e and x != 'SKIPPED']
                        if wrong:
                            bad.append((c + '   [abort() racing with the call; build %s, seed %d]' % (nm, sd), e, wrong[0]))
                        break
    conc = [k for k, c in enumerate(cases) if '&' in c]
    nsched = 0
    if conc and not replay:
        shexe = common.build_harness('oq', variant='sched')
        for sd in range(1, 4 if tier == 'quick' else 12):
            os.environ['VERIF_SCHED_SEED'] = str(seed * 1000 + sd)
            os.environ['VERIF_BLOCK_MS'] = '300'
            so = run_impl_sharded(shexe, [lines[k] for k in conc])
            sus = [j for j, k in enumerate(conc) if so[j] != exp[k]]
            if sus:
                os.environ['VERIF_BLOCK_MS'] = '1500'
                for j, r in zip(sus, run_impl_sharded(shexe, [lines[conc[j]] for j in sus])):
                    so[j] = r
            del os.environ['VERIF_BLOCK_MS']
            del os.environ['VERIF_SCHED_SEED']
            nsched += len(conc)
            bad += [(cases[k] + '   [schedule perturbation seed %d]' % (seed * 1000 + sd), exp[k], so[j]) for j, k in enumerate(conc) if so[j] != exp[k] and so[j] != 'SKIPPED']
    nblocked = sum(1 for i in io if 'blocked' in i)
    if bad:
        c, e, i = min(bad, key=lambda x: len(x[0]))
        v.violation('oracle:' + c, 'ObjectQueue violates the bounded-FIFO contract on the history [%s]: expected %s, the library gives %s' % (c, e, i),
                    {'ops': c, 'expected': e, 'implementation': i, 'how': 'bin/check C16 --replay <this file>'})
    if dis and not bad:
        c, m, i = min(dis, key=lambda x: len(x[0]))
        v.violation('corr:' + c, 'model (translated ObjectQueue methods) and implementation disagree on %d histories; shortest [%s]: model %s, implementation %s' % (len(dis), c, m, i),
                    {'correspondence': 'oq harness', 'ops': c, 'model': m, 'implementation': i}, no_input=True)
    if not ok and not bad:
        for fl in failed:
            v.violation('coq:' + fl['lemma'], 'proof obligation %s (%s:%d) no longer checks: %s' % (fl['lemma'], fl['file'], fl['line'], fl['error'][:200]),
                        {'theorem': fl['lemma'], 'file': fl['file'], 'line': fl['line'], 'error': fl['error'],
                         'searched': '%d histories run on the implementation against the reference FIFO without a difference' % len(cases)}, no_input=True)
    lens = [len(c.split()) for c in cases]
    v.coverage.update({
        'obligations': info['obligations'], 'discharged': info['discharged'], 'checker_cmd': info['checker_cmd'],
        'trusted_base': TRUSTED + info['print_assumptions'], 'failed_obligations': info['failed'],
        'evaluations': len(cases), 'distinct_nontrivial': len(set(c for c in cases if len(c.split()) >= 3)),
        'rule': 'histories of ObjectQueue calls (r read, w<tok> write, a abort, f<n> setFileSize, b<n> setBufferSize, g/p/G/E accessors, D destroy; &r / &w<tok>: the call is made on a second thread and may stay asleep while the history continues — it must complete exactly when a later call makes its predicate true): corpus, hand-picked corners, ALL sequences up to length %d over {r,w,a,f0,f1,f2,b1} at capacity 2, and random histories of 3..40 calls at capacities 1..8; a call that blocks ends its history (abort() must then release it). Each history is run on the translated methods (extracted interpreter), on the real ObjectQueue, and on a reference FIFO written from the property text; the concurrent histories (with & calls) also on the build with seeded yield/sleep injection at every lock/unlock and between a false wait predicate and the wait. Non-trivial = distinct history of at least 3 calls.' % (4 if tier == 'quick' else 6),
        'exhaustive_prefix': exhaustive, 'histories_ending_blocked': nblocked, 'concurrent_histories_under_schedule_perturbation': nsched, 'abort_racing_runs': nrace,
        'length_distribution': {'min': min(lens), 'max': max(lens), 'mean': round(sum(lens) / len(lens), 1)},
        'op_distribution': {k: sum(c.split().count(k) if len(k) > 1 else sum(1 for t in c.split() if t.lstrip('&')[0] == k) for c in cases) for k in 'rwafbgpGED'},
        'histories_with_a_sleeping_call': sum(1 for c in cases if '&' in c), 'correspondence_disagreements': len(dis), 'oracle_failures': len(bad),
        'samples': cases[:3] + cases[-2:],
        'theorems': ['C16_code_is_model', 'C16_wf_reachable', 'C16_fifo', 'C16_eof_exact', 'C16_backpressure', 'C16_bounded',
                     'C16_abort_releases', 'C16_abort_never_blocks', 'C16_no_lost_wakeup', 'C16_destroy_releases'],
    })
    v.assumptions += ['condition variables have monitor semantics (no thread returns from wait() while its predicate is false)',
                      'the counters are uint32_t: C16_bounded/counts carry the bound of fewer than 2^32-1 objects per session',
                      'setBufferSize notifies nobody (oq_setBufferSize_no_wakeup_refuted): it is configuration, called by File only before the threads exist']
    return 'proof'
