"""C15 — the in-memory stream is a byte FIFO with iostream-like state for any chunking."""
import itertools, json, os, random
from .. import common, codec, coqrun
from .c16 import run_impl_sharded

TRUSTED = [
    'Coq 8.16.1 kernel + vm_compute (no native_compute)',
    'the specification Lib/UFSpec.v (flat byte queue; what C15_refines refines to) is part of the statement, not of the proof: read it',
    'hand-written model Lib/UFModel.v of UncompressedFile (container list, offset arithmetic, the read/write loops) — tied to the code by this correspondence run (every accessor and the container list after every call)',
    'wait predicates and notifications of UncompressedFile: translated from the source (translator/sync2coq.py) and proved equal to the model guards in Inst/SyncEq.v',
    'extraction (ExtrOcamlBasic only) + ocaml/driver.ml; harness/uf.cpp (private state read through #define private public; calls on a helper thread under a watchdog)',
]
MAXSZ = (1 << 63) - 1


class Spec:
    """Reference byte queue written from the property text: one flat byte string and positions."""

    def __init__(self):
        self.buf = bytearray()
        self.g = 0
        self.F = MAXSZ
        self.B = MAXSZ
        self.gcount = 0
        self.good, self.eof = 1, 0
        self.abort = False
        self.horizon = 0          # bytes before this position may have been dropped
        self.in_scope = True      # False once the history leaves what the property describes
        self.why = ''

    @property
    def p(self):
        return len(self.buf)

    def summary(self):
        fail = not self.good
        return '%d,%d,%d,%d%d,%d,%d' % (-1 if fail else self.g, -1 if fail else self.p, self.F, self.good, self.eof, self.gcount, self.B)

    def step(self, op):
        """returns the expected token ('blocked' ends the history) or None when out of scope."""
        c, rest = op[0], op[1:]
        if c == 'w' or c == 'c':
            b = bytes.fromhex(rest)
            room = self.p - self.g
            if not self.abort and not room < self.B:
                return 'blocked'
            self.buf += b
            if c == 'w' and self.p >= self.F and b:
                self.F = self.p
            elif c == 'w' and not b and self.p >= self.F:
                self.F = self.p
            return c
        if c == 'r':
            n = int(rest or 0)
            if n > self.B:
                self.B = n          # a request larger than the buffer raises the buffer size (before waiting)
            if not self.abort and not (n + self.g <= self.p) and not (n + self.g > self.F):
                return 'blocked'
            if n + self.g > self.F:
                n = self.F - self.g
                self.good, self.eof = 0, 1
            elif n > 0:
                self.good, self.eof = 1, 0
            if n > 0 and (self.g + n > self.p or self.g < self.horizon):
                self.in_scope = False
                self.why = 'read beyond the bytes written / before the drop horizon'
                return None
            got = bytes(self.buf[self.g:self.g + n]) if n > 0 else b''
            self.g += len(got)
            self.gcount = len(got)
            return 'r=' + got.hex()
        if c == 's':
            self.g = min(self.g + int(rest or 0), self.F)
            return 's'
        if c == 'd':
            self.horizon = max(self.horizon, min(self.g, self.p, self.F))
            return 'd'
        if c == 'n':
            return 'n'
        if c == 'F':
            self.F = int(rest or 0)
            return 'F'
        if c == 'B':
            self.B = int(rest or 0)
            return 'B'
        if c == 'C':
            if int(rest or 0) % (1 << 32) == 0:
                self.in_scope = False
                self.why = 'default container size 0'
                return None
            return 'C'
        if c == 'a':
            self.abort = True
            return 'a'
        return '?'


def oracle(ops):
    """expected visible behaviour: list of 'tok|tellg,tellp,fileSize,goodeof,gcount,bufferSize' (container list not included)."""
    sp = Spec()
    out = []
    for op in ops:
        t = sp.step(op)
        if t is None:
            return out, False, sp.why
        if t == 'blocked':
            out.append('blocked')
            break
        out.append(t + '|' + sp.summary())
    return out, True, ''


def visible(line):
    """strip the container list from an implementation / model line."""
    toks = line.split(' ')[1:]
    out = []
    for t in toks:
        if '|' in t:
            head, st = t.split('|', 1)
            out.append(head + '|' + ','.join(st.split(',')[:6]))
        else:
            out.append(t)
    return out


def rbytes(rng, n):
    return bytes(rng.randrange(1, 256) for _ in range(n)).hex()


def gen_cases(rng, tier):
    cases = ['C4 w616263 r2 w6465666768 r5 d r1 d', 'C4 w6162 n w6364 r4 d s-2 r2', 'r1', 'F3 w61626364 r4 r1', 'C3 B2 w616263 w64',
             'C4 c4142 c434445 r4 d r1 d F5 r3', 'C2 w6162636465 r1 d r1 d r1 d r1 d r1 d w6667 r2', 'C3 c414243 n w4445 r5',
             'C3 w4142 n c434445 n w46 r6', 'C5 w4142434445 d r5 d w464748 r3 d d w49 r1']
    nrand = 1500 if tier == 'quick' else 25000
    for _ in range(nrand):
        dcs = rng.choice([1, 2, 3, 4, 5, 7, 8, 16, 64])
        toks = ['C%d' % dcs]
        sp = Spec()
        sp.step(toks[0])
        disciplined = rng.random() < 0.7      # call nextLogContainer before appending a whole container
        for _ in range(rng.randrange(3, 40)):
            r = rng.random()
            avail = sp.p - sp.g
            if r < 0.30:
                op = 'w' + rbytes(rng, rng.choice([0, 1, 1, 2, 3, dcs - 1, dcs, dcs + 1, 2 * dcs + 1, rng.randrange(0, 3 * dcs + 2)]))
            elif r < 0.40:
                op = 'c' + rbytes(rng, rng.choice([1, 2, 3, dcs, dcs + 1, rng.randrange(1, 2 * dcs + 2)]))
                if disciplined:
                    toks.append('n')
                    sp.step('n')
            elif r < 0.70:
                if avail <= 0 and rng.random() < 0.9:
                    continue
                n = rng.choice([1, 1, 2, avail, max(1, avail - 1), rng.randrange(1, max(2, avail + 1)), dcs]) if avail > 0 else rng.choice([0, 1])
                if n > avail and sp.F == MAXSZ and not sp.abort and rng.random() < 0.9:
                    n = avail
                op = 'r%d' % n
            elif r < 0.80:
                op = 'd'
            elif r < 0.85:
                op = 'n'
            elif r < 0.90:
                back = sp.g - sp.horizon
                op = 's%d' % rng.choice([0, 1, -1, -back, avail, -min(back, 2), min(avail, 2)])
            elif r < 0.93:
                op = 'F%d' % rng.choice([sp.p, sp.p, sp.g, sp.p + 1, max(0, sp.p - 1)])
            elif r < 0.95:
                op = 'C%d' % rng.choice([1, 2, 3, 5, 8])
                dcs = int(op[1:])
            elif r < 0.97:
                op = 'B%d' % rng.choice([1, 2, 4, 8, 64])
            elif r < 0.98:
                op = 'a'
            else:
                op = 'd'
            t = sp.step(op)
            toks.append(op)
            if t is None or t == 'blocked':
                break
        else:
            # drain: everything written and not yet read must still come out
            if sp.in_scope and sp.p - sp.g > 0 and sp.g >= sp.horizon:
                toks.append('r%d' % (sp.p - sp.g))
        cases.append(' '.join(toks))
    return cases


def run(v, tier, seed, replay=None):
    common.translate()
    ok, failed, info = coqrun.prove(v, 'C15', ['Inst/SyncEq.v'])
    mexe = common.build_model_driver()
    hexe = common.build_harness('uf')
    rng = random.Random(seed)
    if replay:
        cases = [json.load(open(replay))['replay']['ops']]
    else:
        corpus = os.path.join(common.VERIF, 'corpus', 'C15.txt')
        cases = [l.strip() for l in open(corpus) if l.strip()] if os.path.exists(corpus) else []
        cases += gen_cases(rng, tier)
    lines = ['U ' + c for c in cases]
    mo = codec.run_model(mexe, lines)
    qo = codec.run_model(mexe, ['BQ ' + c for c in cases])      # the Coq byte queue (Lib/UFSpec.v), the spec of C15_refines
    os.environ['VERIF_BLOCK_MS'] = '120'
    io = run_impl_sharded(hexe, lines)
    del os.environ['VERIF_BLOCK_MS']
    sus = [k for k in range(len(lines)) if io[k] != mo[k] and ('blocked' in io[k] or 'blocked' in mo[k])]
    if sus:
        os.environ['VERIF_BLOCK_MS'] = '1500'
        for k, r in zip(sus, run_impl_sharded(hexe, [lines[k] for k in sus])):
            io[k] = r
        del os.environ['VERIF_BLOCK_MS']
    dis = [(c, m, i) for c, m, i in zip(cases, mo, io) if m != i]
    bad = []
    in_scope = 0
    spec_dis = []
    crashed = []
    for c, i, ql in zip(cases, io, qo):
        exp, scoped, why = oracle(c.split())
        # the extracted Coq specification and the Python transcription of the property text must be the same oracle
        qt = ql.split(' ')[1:]
        qscoped = not (qt and qt[-1] == 'outofscope')
        qexp = qt[:-1] if not qscoped else qt
        if qexp != exp or qscoped != scoped:
            spec_dis.append((c, ' '.join(qt), ' '.join(exp)))
        in_scope += scoped
        if i == 'SKIPPED':
            continue          # the harness gave up on this shard after repeated crashes: not evaluated
        if i.startswith('CRASH') or i.startswith('HANG'):
            crashed.append((c, i))
            continue
        got = visible(i)
        n = len(exp)
        if got[:n] != exp[:len(got[:n])] or (scoped and len(got) != n) or (not scoped and len(got) < n):
            k = next((j for j in range(min(len(got), n)) if got[j] != exp[j]), min(len(got), n))
            bad.append((c, k, exp[k] if k < n else '(end)', got[k] if k < len(got) else '(end)'))
    if bad:
        c, k, e, g = min(bad, key=lambda x: (len(x[0].split()), len(x[0])))
        key = 'oracle:' + classify(c, k)
        v.violation(key, 'UncompressedFile departs from the reference byte queue on [%s] at call %d (%s): expected %s, the library gives %s' % (c, k + 1, c.split()[k] if k < len(c.split()) else '-', e, g),
                    {'ops': c, 'call_index': k, 'expected': e, 'implementation': g, 'failing_histories': len(bad)})
    if crashed:
        c, i = min(crashed, key=lambda x: (len(x[0].split()), len(x[0])))
        v.violation('oracle:crash', 'the history [%s] ends in %s (memory error / hang while the accessors are read back: the counts the class reports do not match what it delivered)' % (c, i[:80]),
                    {'ops': c, 'implementation': i[:300], 'failing_histories': len(crashed)})
    if spec_dis:
        c, a, b_ = min(spec_dis, key=lambda x: len(x[0]))
        v.violation('corr:spec', 'the Coq byte queue (Lib/UFSpec.v) and the reference written from the property text disagree on %d histories; shortest [%s]: coq %s | reference %s' % (len(spec_dis), c, a[:300], b_[:300]),
                    {'correspondence': 'UFSpec.bq_step vs vlib/props/c15.py Spec', 'ops': c, 'coq': a, 'reference': b_}, no_input=True)
    if dis and not bad:
        c, m, i = min(dis, key=lambda x: len(x[0]))
        v.violation('corr:' + c, 'model Lib/UFModel.v and implementation disagree on %d histories; shortest [%s]: model %s | implementation %s' % (len(dis), c, m[:300], i[:300]),
                    {'correspondence': 'uf harness', 'ops': c, 'model': m, 'implementation': i}, no_input=True)
    if not ok and not bad:
        for fl in failed:
            v.violation('coq:' + fl['lemma'], 'proof obligation %s (%s:%d) no longer checks: %s' % (fl['lemma'], fl['file'], fl['line'], fl['error'][:200]),
                        {'theorem': fl['lemma'], 'file': fl['file'], 'line': fl['line'], 'error': fl['error'],
                         'searched': '%d histories run on the implementation against the reference byte queue without a difference' % len(cases)}, no_input=True)
    lens = [len(c.split()) for c in cases]
    v.coverage.update({
        'obligations': info['obligations'], 'discharged': info['discharged'], 'checker_cmd': info['checker_cmd'],
        'trusted_base': TRUSTED + info['print_assumptions'], 'failed_obligations': info['failed'],
        'evaluations': len(cases), 'distinct_nontrivial': len(set(c for c in cases if len(c.split()) >= 4)),
        'rule': 'histories over the alphabet of the property (w<hex> write bytes, c<hex> append a whole container, r<n> read, s<off> relative seek, n nextLogContainer, d dropOldData, F/B/C set declared end / buffer size / default container size 1..64, a abort): corpus, hand-picked corners and random histories of 3..40 calls whose chunk sizes straddle container boundaries; each ends by draining the unread bytes. Every history runs on the extracted model, on the real UncompressedFile, on the extracted Coq byte queue of C15_refines (Lib/UFSpec.v) and on a transcription of it in Python written from the property text (the two must agree token for token) (compared: bytes, gcount, tellg, tellp, declared end, good/eof, buffer size after every call; the container list is compared between model and implementation only). Non-trivial = distinct history of at least 4 calls.',
        'histories_in_scope_of_reference': in_scope, 'histories_ending_blocked': sum(1 for i in io if 'blocked' in i),
        'length_distribution': {'min': min(lens), 'max': max(lens), 'mean': round(sum(lens) / len(lens), 1)},
        'op_distribution': {k: sum(1 for c in cases for t in c.split() if t[0] == k) for k in 'wcrsndFBCa'},
        'correspondence_disagreements': len(dis), 'oracle_failures': len(bad), 'crashes_or_hangs': len(crashed), 'spec_disagreements': len(spec_dis),
        'samples': cases[:2] + cases[-3:],
    })
    return 'proof'


def classify(c, k):
    """key of a reference-model failure: what kind of history exhibits it (used for known findings)."""
    toks = c.split()
    seen_w = False
    for t in toks[:k + 1]:
        if t[0] == 'w' and len(t) > 1:
            seen_w = True
        elif t[0] == 'n':
            seen_w = False
        elif t[0] == 'c' and seen_w:
            return 'container-appended-over-open-container'
    return 'other'
