"""C17 — type codes agree between constructors, the object factory and files."""
import random
from .. import common, codec, coqrun

TRUSTED = [
    'Coq 8.16.1 kernel + vm_compute (no native_compute)',
    'translator/format_codes.json: the type-code assignment of the format, pinned from File.h / ObjectHeaderBase.h at the commit the properties were written for (C17_factory_is_the_pinned_format)',
    'translator/blf2coq.py (syntactic extraction of createObject switch, ObjectType enum, File.h table, constructors, member initialisers) — validated here by the createObject/fresh-object correspondence',
    'extraction (ExtrOcamlBasic only) + ocaml/driver.ml; harness/codec.cpp + generated reflection (static_assert on every member width)',
]


def run(v, tier, seed, replay=None):
    meta, _ = common.translate()
    ok, failed, info = coqrun.prove(v, 'C17', ['Inst/C17.v'])
    mexe = common.build_model_driver()
    hexe = common.build_harness('codec', extra_flags=['-D_GLIBCXX_SANITIZE_VECTOR'])
    rng = random.Random(seed)
    name_of = {c['idx']: n for n, c in meta['classes'].items()}
    objcls = [n for n in meta['creatable'] if meta['classes'][n].get('isobj')]
    fmt = {}
    for nm, code, hdr in meta['format_table']:
        fmt[code] = meta['classes'][hdr]['idx'] if hdr in meta['classes'] else 0

    # the format's own assignment, pinned in /verif (a tree that renumbers the enum and its comments consistently still departs from it)
    pinned_cls = {}
    for nm, code, hdr in meta.get('pinned_format', []):
        if hdr:
            pinned_cls.setdefault(hdr, set()).add(code)
        fmt.setdefault(code, 0)
        if hdr in meta['classes']:
            if fmt[code] != meta['classes'][hdr]['idx']:
                v.violation('format-table:%d' % code, 'the tree documents type code %d as %s, the format assigns it to %s' % (code, name_of.get(fmt[code], 'nothing'), hdr),
                            {'code': code, 'tree': name_of.get(fmt[code]), 'format': hdr, 'pinned_table': 'translator/format_codes.json'})
            fmt[code] = meta['classes'][hdr]['idx']
    codes = list(range(0, 256)) + [256, 257, 65535, 65536, 2 ** 31 - 1, 2 ** 31, 2 ** 32 - 1, 2 ** 32 - 2]
    codes += [rng.getrandbits(32) for _ in range(200 if tier == 'quick' else 5000)]
    lines = ['C %d' % c for c in codes]
    nC = len(lines)
    for n in objcls:
        lines.append('F %d' % meta['classes'][n]['idx'])
    for n in objcls:
        lines.append('W %d' % meta['classes'][n]['idx'])
    mo = codec.run_model(mexe, lines)
    io = codec.run_impl(hexe, lines)
    disagreements = []
    for l, m, i in zip(lines, mo, io):
        if not codec.lines_agree(m, i):
            disagreements.append((l, m, i))

    # ---- direct oracles on the implementation's own output
    impl_factory = {}
    for l, i in zip(lines[:nC], io[:nC]):
        code = int(l.split()[1])
        if i.startswith('C ok'):
            cls = int(i.split()[2].split('=')[1])
            impl_factory[code] = cls
            want = fmt.get(code, 0)
            if cls != want and want == 0 and name_of.get(cls) in pinned_cls and code not in pinned_cls[name_of.get(cls)]:
                v.violation('factory:%d' % code,
                            'File::createObject(%d) yields %s, which the format assigns to code %s only' % (code, name_of.get(cls, cls), '/'.join(str(x) for x in sorted(pinned_cls[name_of.get(cls)]))),
                            {'call': 'File::createObject(%d)' % code, 'got_class': name_of.get(cls, cls), 'pinned_table': 'translator/format_codes.json'})
            elif cls != want:
                v.violation('factory:%d' % code,
                            'File::createObject(%d) yields %s but the format assigns %s' % (code, name_of.get(cls, cls), name_of.get(want, 'nothing')),
                            {'call': 'File::createObject(%d)' % code, 'got_class': name_of.get(cls, cls), 'expected_class': name_of.get(want)})
            ty = i.split()[3].split('=')[1]
            if cls > 0 and ty != '-' and int(ty) != code and name_of.get(cls) != 'EnvironmentVariable':
                pass    # object created for code X carries another code: reported below through the constructor oracle
    fid_type = None
    for f in meta['classes']['ObjectHeaderBase']['fields']:
        if f['name'] == 'objectType':
            fid_type = f['id']
    for k, n in enumerate(objcls):
        idx = meta['classes'][n]['idx']
        d = codec.parse_dump(io[nC + k])
        if fid_type not in d:
            continue
        code = int(d[fid_type])
        back = impl_factory.get(code)
        if back is None:
            r = codec.run_impl(hexe, ['C %d' % code])[0]
            back = int(r.split()[2].split('=')[1]) if r.startswith('C ok') else -1
        if back != idx:
            v.violation('ctor:%s' % n,
                        '%s() carries type code %d, which File::createObject maps to %s' % (n, code, name_of.get(back, 'nothing') if back else 'nothing'),
                        {'construct': n, 'objectType': code, 'createObject_yields': name_of.get(back)})
        w = io[nC + len(objcls) + k]
        if w.startswith('W ok '):
            b = bytes.fromhex(w.split(' ')[2])
            wcode = int.from_bytes(b[12:16], 'little')
            if wcode != code:
                v.violation('written:%s' % n, '%s() is written under code %d but carries %d' % (n, wcode, code),
                            {'construct': n, 'written_code': wcode, 'objectType': code})
            elif back == idx:
                r = codec.run_impl(hexe, ['R %d %s' % (idx, b.hex())])[0]
                d2 = codec.parse_dump(r)
                if not r.startswith('R ok') or int(d2.get(fid_type, -1)) != code:
                    v.violation('readback:%s' % n, 'reading back a default %s does not reproduce its code' % n,
                                {'construct': n, 'bytes': b.hex(), 'read_result': r[:200]})

    # ---- poison patterns: a fresh object must not depend on previous memory contents
    pats = [0x00, 0xFF, 0xA5, 0x5A] if tier == 'quick' else [0x00, 0xFF, 0xA5, 0x5A, 0x01, 0x80, 0x7F, 0xBE]
    plines = []
    for n in objcls:
        for p in pats:
            plines.append('P %d %d' % (meta['classes'][n]['idx'], p))
    po = codec.run_impl(hexe, plines)
    undetermined = 0
    for k, n in enumerate(objcls):
        dumps = [codec.parse_dump(x) for x in po[k * len(pats):(k + 1) * len(pats)]]
        md = codec.parse_dump(mo[nC + k])
        cv = codec.ClassView(meta, n)
        fname = {fid: nm for fid, _, nm, _ in cv.fields}
        for fid in dumps[0]:
            vals = set(d.get(fid) for d in dumps)
            if len(vals) > 1:
                undetermined += 1
                v.violation('init:%s.%s' % (n, fname.get(fid, fid)),
                            'member %s of a default-constructed %s depends on previous memory contents (no initialiser)' % (fname.get(fid, fid), n),
                            {'construct': n, 'member': fname.get(fid, fid), 'values_seen_with_poison_patterns': sorted(vals)[:4]})
                if md.get(fid) != '?':
                    disagreements.append(('P %s %s' % (n, fname.get(fid)), 'model: determined %s' % md.get(fid), 'impl: varies'))
            elif md.get(fid) == '?':
                disagreements.append(('P %s %s' % (n, fname.get(fid)), 'model: indeterminate', 'impl: constant ' + str(vals)))

    if disagreements:
        l, m, i = disagreements[0]
        v.violation('corr:' + l[:60], 'model and implementation disagree on %d case(s); first: %s | model: %s | impl: %s' % (len(disagreements), l[:120], m[:200], i[:200]),
                    {'correspondence': 'codec harness', 'case': l, 'model': m, 'impl': i}, no_input=True)
    if not ok and not v.violations and not v.known_hit:
        for fl in failed:
            v.violation('coq:' + fl['lemma'], 'proof obligation %s (%s:%d) no longer checks: %s' % (fl['lemma'], fl['file'], fl['line'], fl['error'][:200]),
                        {'theorem': fl['lemma'], 'file': fl['file'], 'line': fl['line'], 'error': fl['error']}, no_input=True)
    elif not ok:
        # obligations broke and the oracles found concrete failing inputs: those are the report.
        if not v.violations:
            # everything found is a listed known finding, yet a proof broke: the exception lists are out of date
            for fl in failed:
                v.violation('coq:' + fl['lemma'], 'proof obligation %s (%s:%d) no longer checks: %s' % (fl['lemma'], fl['file'], fl['line'], fl['error'][:200]),
                            {'theorem': fl['lemma'], 'file': fl['file'], 'line': fl['line'], 'error': fl['error']}, no_input=True)

    v.coverage.update({
        'obligations': info['obligations'], 'discharged': info['discharged'], 'checker_cmd': info['checker_cmd'],
        'trusted_base': TRUSTED + info['print_assumptions'],
        'obligations_about_generated_terms': info['obligations_about_generated_terms'],
        'failed_obligations': info['failed'],
        'evaluations': len(lines) + len(plines),
        'distinct_nontrivial': len(set(lines)) + len(set(plines)),
        'rule': 'createObject for codes 0..255 + boundary + random 32-bit codes; default object of every class: dump, encoding, read-back; placement-new in memory pre-filled with %d poison patterns. Non-trivial = distinct (command, class/code, pattern).' % len(pats),
        'samples': [lines[1], lines[nC], lines[nC + len(objcls)], plines[0], io[1], io[nC][:160]],
        'correspondence_disagreements': len(disagreements),
        'classes': len(objcls), 'codes': len(codes), 'members_found_indeterminate': undetermined,
        'theorems': ['C17_factory_total (all integers)', 'C17_factory_is_the_pinned_format', 'C17_factory_unknown_codes', 'C17_ctor', 'C17_written_code', 'C17_determined'],
    })
    v.assumptions += ['the model is the translation of the current source (validated by the correspondence above)',
                      'exception lists in coq/Inst/C17.v name known findings; each has a refutation theorem']
    return 'proof'
