"""C05 — file header statistics are exact and agree with the reader's running counters."""
import glob, os
from .. import common, codec, coqrun, filerun
from .c04 import oracle, TRUSTED

CODES = ('format', 'fileSize', 'uncompressedFileSize', 'objectCount', 'restorePointsOffset', 'verbatim')


def reader_counters(v, res):
    n = 0
    for r in res['r']:
        if r['mode'] != 'full' or not r['impl'].startswith('FR ok'):
            continue
        n += 1
        st, conts = filerun.parse_blf(r['data'])
        c = filerun.canon_fr(r['impl'])
        if c[2] != st['objectCount'] or c[3] != st['uncompressedFileSize']:
            v.violation('C05:reader', 'after reading a complete file the running counters are objectCount=%d uncompressedFileSize=%d, the header says %d / %d' % (
                c[2], c[3], st['objectCount'], st['uncompressedFileSize']), {'case': r['of']['line'], 'file_hex': r['data'].hex()[:4000], 'implementation': r['impl'][:300]})
    return n


def reference_logs(v, tier):
    """complete files written by Vector's tools: reader counters (model and implementation) vs header values."""
    logs = sorted(glob.glob(os.path.join(common.REPO, 'src/Vector/BLF/tests/unittests/events_from_binlog/*.blf')) +
                  glob.glob(os.path.join(common.REPO, 'src/Vector/BLF/tests/unittests/events_from_converter/*.blf')))
    if tier == 'quick':
        logs = logs[::4]
    lines, hdrs = [], []
    for p in logs:
        d = open(p, 'rb').read()
        if len(d) > 60000:
            continue
        lines.append('FR ' + d.hex())
        hdrs.append((p, d))
    if not lines:
        return 0, 0
    mo, io = filerun.run_lines(lines)
    bad = 0
    for (p, d), m, i in zip(hdrs, mo, io):
        if not filerun.fr_agree(m, i):
            bad += 1
            v.violation('corr:C05:log', 'model and implementation disagree on reference log %s: %s | %s' % (os.path.basename(p), m[:120], i[:120]),
                        {'log': p, 'model': m[:400], 'impl': i[:400]}, no_input=True)
            continue
        if not i.startswith('FR ok'):
            continue
        import struct
        usize, count = struct.unpack_from('<QI', d, 24)
        c = filerun.canon_fr(i)
        if c[2] != count or c[3] != usize:
            bad += 1
            v.violation('C05:log:%s' % os.path.basename(p), 'reference log %s: reader counters objectCount=%d uncompressedFileSize=%d, header %d / %d' % (
                os.path.basename(p), c[2], c[3], count, usize), {'log': p, 'implementation': i[:300]})
    return len(lines), bad


def run(v, tier, seed, replay=None):
    meta, _ = common.translate()
    ok, failed, info = coqrun.prove(v, 'C05', ['Inst/FileEq.v', 'Inst/StreamRT.v'])
    res = filerun.run(meta, seed, tier)
    ndis = filerun.report_disagreements(v, res, 'C05', kinds=('w',))
    ndis += sum(1 for r in res['r'] if r['mode'] == 'full' and not filerun.fr_agree(r['model'], r['impl']))
    for r in res['r']:
        if r['mode'] == 'full' and not filerun.fr_agree(r['model'], r['impl']):
            v.violation('corr:C05:read', 'model and implementation disagree on reading back a complete file: %s | %s' % (r['model'][:150], r['impl'][:150]),
                        {'case': r['of']['line'], 'model': r['model'][:600], 'impl': r['impl'][:600]}, no_input=True)
            break
    checked = oracle(v, res, CODES, 'C05', meta)
    nread = reader_counters(v, res)
    nlogs, badlogs = reference_logs(v, tier)
    if not ok and not v.violations:
        for fl in failed:
            v.violation('coq:' + fl['lemma'], 'proof obligation %s (%s:%d) no longer checks: %s' % (fl['lemma'], fl['file'], fl['line'], fl['error'][:200]),
                        {'theorem': fl['lemma'], 'file': fl['file'], 'line': fl['line'], 'error': fl['error']}, no_input=True)
    cov = filerun.coverage_common(res)
    cov.update({
        'obligations': info['obligations'], 'discharged': info['discharged'], 'checker_cmd': info['checker_cmd'],
        'trusted_base': TRUSTED + info['print_assumptions'], 'failed_obligations': info['failed'],
        'rule': 'write sessions as for C04 (levels 0-9 x container sizes x restore points x caller-supplied header members x 0..8 objects); the header bytes on disk are compared with an independent recomputation from the container walk (fileSize, uncompressedFileSize, objectCount, restorePointsOffset, caller-supplied members verbatim); every complete file is read back by the model and by the real reader and the running counters compared with the header; the same for the Vector-written reference logs. Non-trivial = session with at least one object.',
        'headers_recomputed': checked, 'complete_files_read_back': nread, 'reference_logs_read': nlogs,
        'correspondence_disagreements': ndis,
        'theorems': ['C05_header', 'C05_reader_counts_as_header', 'C05_count_example'],
        'not_a_theorem_yet': 'reader counters = header values (decided by the correspondence run on written files and reference logs)',
    })
    v.coverage.update(cov)
    return 'proof'
