"""C11 — no data races; an object handed over is never touched by the other side again."""
import random
from .. import common, codec, coqrun, filerun, sessrun
from .c06 import TRUSTED


def run_tsan(exe, line):
    import subprocess, os
    env = dict(os.environ, VERIF_TMPDIR=common.BUILD, VERIF_ALLOC_CAP=str(1 << 28), TSAN_OPTIONS='halt_on_error=0 report_signal_unsafe=0')
    try:
        p = subprocess.run(['timeout', '600', exe], input=(line + '\n').encode(), capture_output=True, env=env, timeout=700)
        return p.returncode, p.stdout.decode(errors='replace'), p.stderr.decode(errors='replace')
    except subprocess.TimeoutExpired:
        return 124, 'HANG', ''


def run(v, tier, seed, replay=None):
    meta, _ = common.translate()
    ok, failed, info = coqrun.prove(v, 'C11', ['Inst/SkelEq.v', 'Inst/QueueEq.v', 'Inst/SyncEq.v'])
    mexe = common.build_model_driver()
    plain, sched = sessrun.harnesses()
    rng = random.Random(seed)
    g = filerun.Gen(meta, rng)
    # read sessions in which the application deletes every object at once, write sessions in which the worker deletes it at
    # once: under ASan a touch after the hand-over is a heap-use-after-free
    data, _ = sessrun.big_read_file(mexe, 6000 if tier == 'quick' else 30000, 4096, rng)
    rlines = ['FE -1 0 0 ' + data.hex()]
    wl = ['FS 0 %d 4096 0' % rng.choice([0, 1]) + ''.join(' | ' + g.obj('CanMessage') for _ in range(600 if tier == 'quick' else 3000))]
    nbad = 0
    runs = [('plain', plain, 0)] + [('sched:%d' % (seed * 10 + k), sched, seed * 10 + k) for k in range(1, 3 if tier == 'quick' else 9)]
    for name, exe, sd in runs:
        for line, kind in ((rlines[0], 'read'), (wl[0], 'write')):
            o = sessrun.run_impl(exe, [line], sd)[0]
            if o.startswith('CRASH'):
                nbad += 1
                v.violation('C11:%s:%s' % (kind, o.split(' ')[1] if ' ' in o else 'crash'),
                            'a %s session touches memory it no longer owns (%s) on build %s' % (kind, o[:80], name),
                            {'scenario': line[:120] + '...', 'build': name, 'implementation': o[:300]})
            elif not (o.startswith('FE ok') or o.startswith('FS ok')):
                nbad += 1
                v.violation('C11:%s:other' % kind, 'a %s session did not finish: %s [%s]' % (kind, o[:80], name), {'scenario': line[:120], 'implementation': o[:300]})
    # ThreadSanitizer (happens-before analysis) on plain sessions through the documented API, with no accessor call
    # between open() and the first read()/write(): a race between the application thread and a worker, or between the
    # workers, is reported with both stacks
    tsan = common.build_harness('file', variant='tsan')
    data2, _ = sessrun.big_read_file(mexe, 1500, 64, rng)
    tlines = [('read, 4 KiB containers', 'FT r ' + data.hex()), ('read, 64-byte containers', 'FT r ' + data2.hex()),
              ('write, 4 KiB containers', 'FT w 1 4096' + ''.join(' | ' + g.obj('CanMessage') for _ in range(400))),
              ('write, 64-byte containers, level 0', 'FT w 0 64' + ''.join(' | ' + g.obj('CanMessage') for _ in range(200)))]
    ntsan = 0
    for what, line in tlines:
        for rep in range(1 if tier == 'quick' else 5):
            ntsan += 1
            rc, outp, errp = run_tsan(tsan, line)
            if 'WARNING: ThreadSanitizer' in errp:
                nbad += 1
                first = errp[errp.index('WARNING: ThreadSanitizer'):][:1500]
                where = [l.strip() for l in first.split('\n') if l.strip().startswith('#0')][:2]
                v.violation('C11:tsan:%s' % what.split(',')[0], 'ThreadSanitizer reports a data race in a %s session (%s): %s' % (what.split(',')[0], what, ' / '.join(where)[:300]),
                            {'scenario': line[:100] + '...', 'report': first})
                break
            if not outp.startswith('FT ok'):
                nbad += 1
                v.violation('C11:tsan:other', 'a %s session under ThreadSanitizer did not finish: %s %s' % (what, outp[:80], errp[:200]), {'scenario': line[:100], 'implementation': outp[:300]})
                break
    if not ok and not v.violations:
        for fl in failed:
            v.violation('coq:' + fl['lemma'], 'proof obligation %s (%s:%d) no longer checks: %s' % (fl['lemma'], fl['file'], fl['line'], fl['error'][:200]),
                        {'theorem': fl['lemma'], 'file': fl['file'], 'line': fl['line'], 'error': fl['error'],
                         'searched': 'read and write sessions of thousands of objects under AddressSanitizer on %d builds (plain + seeded schedule perturbation) without a report' % len(runs)}, no_input=True)
    v.coverage.update({
        'obligations': info['obligations'], 'discharged': info['discharged'], 'checker_cmd': info['checker_cmd'],
        'trusted_base': TRUSTED + info['print_assumptions'], 'failed_obligations': info['failed'],
        'evaluations': 2 * len(runs) + ntsan, 'distinct_nontrivial': 2 * len(runs) + len(tlines),
        'rule': 'a read session of thousands of objects in which the application deletes each object immediately, and a write session in which the worker deletes each object as soon as it is encoded, under AddressSanitizer on the plain build and on builds with seeded yield/sleep injection at every lock/unlock/wait: a use after the hand-over is a heap-use-after-free report; plus read and write sessions (two container sizes each, no accessor call between open() and the first read()/write()) on a ThreadSanitizer build: any data-race report is a violation. Non-trivial = distinct (session, build, seed).',
        'builds': [n for n, _, _ in runs], 'reports': nbad, 'samples': [rlines[0][:60] + '...', wl[0][:80] + '...'],
        'theorems': ['C11_handover', 'C11_read_single_owner', 'C11_write_single_owner', 'C11_queue_lock_discipline', 'C11_stream_methods_lock_first', 'C11_open_spawns_last'],
        'tsan_sessions': ntsan,
    })
    v.assumptions += ['a data race in the sense of the C++ memory model is a property of the compiled program: the theorems are about ownership, hand-over order and lock discipline in the model and in the regenerated skeletons']
    return 'proof'
