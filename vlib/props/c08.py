"""C08 — a file cut off at any byte reads as an unmodified prefix of its objects."""
import struct
from .. import common, codec, coqrun, filerun

TRUSTED = [
    'Coq 8.16.1 kernel (no native_compute)',
    'translator/blf2coq.py: the read/write programs C08_stream_prefix speaks about are regenerated from /repo on every run (tied by the codec correspondence of C01/C03)',
    'hand-written model Lib/FileModel.read_session — tied to the code by this run on every cut offset generated',
    'independent container walk: vlib/filerun.parse_blf (Python struct + zlib)',
    'extraction (ExtrOcamlBasic only) + ocaml/driver.ml; harness/file.cpp (ASan+UBSan, watchdog)',
]


def expected_prefix(full_objs, encs, data, k):
    """objects wholly contained in completely stored containers of data[:k] (independent walk)."""
    pos = 144
    payload = 0
    while pos + 32 <= k:
        osz, = struct.unpack_from('<I', data, pos + 8)
        usz, = struct.unpack_from('<I', data, pos + 24)
        if pos + osz > k:
            break
        payload += usz
        pos += osz + osz % 4
    n, tot = 0, 0
    for e in encs:
        # wholly contained = the objectSize bytes of the object (its alignment padding is not part of it)
        osz = struct.unpack_from('<I', e, 8)[0] if len(e) >= 12 else len(e)
        if tot + min(osz, len(e)) <= payload:
            tot += len(e)
            n += 1
        else:
            break
    return n


def run(v, tier, seed, replay=None):
    meta, _ = common.translate()
    ok, failed, info = coqrun.prove(v, 'C08', ['Inst/StreamRT.v', 'Inst/PrefixEq.v', 'Inst/UnknownEq.v', 'Inst/TermEq.v'])
    res = filerun.run(meta, seed, tier)
    full = {}
    for r in res['r']:
        if r['mode'] == 'full' and r['impl'].startswith('FR ok'):
            full[id(r['of'])] = filerun.canon_fr(r['impl'])[5]
    ndis, checked, bad = 0, 0, 0
    per_file = {}
    for r in res['r']:
        if r['mode'] != 'trunc':
            continue
        c = r['of']
        if not filerun.fr_agree(r['model'], r['impl']):
            ndis += 1
            if ndis == 1:
                v.violation('corr:C08', 'model and implementation disagree on a file cut at byte %d of %d: %s | %s' % (r['cut'], len(c['mfile']), r['model'][:120], r['impl'][:120]),
                            {'file_hex': r['data'].hex()[:8000], 'model': r['model'][:600], 'impl': r['impl'][:600]}, no_input=True)
        if id(c) not in full or any(not e.startswith('W ok ') for e in c['enc']):
            continue
        encs = [bytes.fromhex(e.split(' ')[2]) for e in c['enc']]
        i = r['impl']
        checked += 1
        if i.startswith('FR throws'):
            per_file.setdefault(id(c), []).append((r['cut'], 0))
            continue
        if not i.startswith('FR ok'):
            bad += 1
            v.violation('C08:outcome', 'file cut at byte %d of %d (level %d, container size %d): %s' % (r['cut'], len(c['mfile']), c['level'], c['cs'], i[:80]),
                        {'file_hex': r['data'].hex()[:8000], 'cut': r['cut'], 'write_case': c['line'][:2000], 'implementation': i[:300]})
            continue
        got = filerun.canon_fr(i)[5]
        want_n = expected_prefix(full[id(c)], encs, c['mfile'], r['cut'])
        want = full[id(c)][:want_n]
        per_file.setdefault(id(c), []).append((r['cut'], len(got)))
        if got != want:
            bad += 1
            why = 'delivers %d objects, %d are wholly contained in completely stored containers' % (len(got), want_n) if len(got) != want_n else 'delivers an object that differs from the one written'
            v.violation('C08:prefix', 'file cut at byte %d of %d (level %d, container size %d) %s' % (r['cut'], len(c['mfile']), c['level'], c['cs'], why),
                        {'file_hex': r['data'].hex()[:8000], 'cut': r['cut'], 'write_case': c['line'][:2000], 'implementation': i[:600]})
    # the same files with the INITIAL header — the statistics as open(out) writes them, before close() updates them
    # (fileSize, uncompressedFileSize, objectCount, restorePointsOffset all zero): the logger crashed or is still writing
    import random
    rng = random.Random(seed * 13 + 5)
    fulls = [r for r in res['r'] if r['mode'] == 'full' and id(r['of']) in full and all(e.startswith('W ok ') for e in r['of']['enc']) and len(r['of']['mfile']) > 176]
    rng.shuffle(fulls)
    icases = []
    for r in fulls[:(6 if tier == 'quick' else 40)]:
        c = r['of']
        d = bytearray(c['mfile'])
        d[16:36] = bytes(20)
        d[72:80] = bytes(8)
        L = len(d)
        cuts = sorted(set([L, L - 1, L - 33, 145, 176, 177] + [rng.randrange(144, L) for _ in range(6 if tier == 'quick' else 30)]))
        for k in cuts:
            if 144 <= k <= L:
                icases.append({'of': c, 'cut': k, 'data': bytes(d[:k])})
    imo, iio = filerun.run_lines(['FR ' + x['data'].hex() for x in icases])
    ichecked = 0
    for x, m, i in zip(icases, imo, iio):
        c = x['of']
        if i == 'SKIPPED':
            continue
        ichecked += 1
        encs = [bytes.fromhex(e.split(' ')[2]) for e in c['enc']]
        if not filerun.fr_agree(m, i):
            ndis += 1
            v.violation('corr:C08:initial-header', 'model and implementation disagree on a file with the initial (all-zero statistics) header cut at byte %d of %d: %s | %s' % (x['cut'], len(c['mfile']), m[:120], i[:120]),
                        {'file_hex': x['data'].hex()[:8000], 'model': m[:600], 'impl': i[:600]})
            continue
        if not i.startswith('FR ok'):
            if not i.startswith('FR throws'):
                bad += 1
                v.violation('C08:outcome:initial-header', 'file with the initial header cut at byte %d of %d: %s' % (x['cut'], len(c['mfile']), i[:80]),
                            {'file_hex': x['data'].hex()[:8000], 'implementation': i[:300]})
            continue
        got = filerun.canon_fr(i)[5]
        want_n = expected_prefix(full[id(c)], encs, c['mfile'], x['cut'])
        if got != full[id(c)][:want_n]:
            bad += 1
            v.violation('C08:prefix:initial-header', 'file with the initial (all-zero statistics) header, cut at byte %d of %d (level %d, container size %d): delivers %d objects, %d are wholly contained in completely stored containers'
                        % (x['cut'], len(c['mfile']), c['level'], c['cs'], len(got), want_n),
                        {'file_hex': x['data'].hex()[:8000], 'cut': x['cut'], 'implementation': i[:600]})
    checked += ichecked
    for cuts in per_file.values():
        cuts.sort()
        for (k1, n1), (k2, n2) in zip(cuts, cuts[1:]):
            if n2 < n1:
                bad += 1
                v.violation('C08:monotone', 'a longer prefix yields fewer objects: %d objects at cut %d, %d at cut %d' % (n1, k1, n2, k2), {'cuts': cuts[:50]})
    if not ok and not v.violations:
        for fl in failed:
            v.violation('coq:' + fl['lemma'], 'proof obligation %s (%s:%d) no longer checks: %s' % (fl['lemma'], fl['file'], fl['line'], fl['error'][:200]),
                        {'theorem': fl['lemma'], 'file': fl['file'], 'line': fl['line'], 'error': fl['error']}, no_input=True)
    cov = filerun.coverage_common(res)
    cov.update({
        'obligations': info['obligations'], 'discharged': info['discharged'], 'checker_cmd': info['checker_cmd'],
        'trusted_base': TRUSTED + info['print_assumptions'], 'failed_obligations': info['failed'],
        'evaluations': checked, 'distinct_nontrivial': len(set((id(r['of']), r['cut']) for r in res['r'] if r['mode'] == 'trunc' and r['cut'] > 144)),
        'rule': 'every file of the file-layer run (levels 0-9, container sizes that split objects and object headers, restore points on/off) cut at offsets {0,1,3,4,143..145,160,175..177,L-33,L-4,L-2,L-1} plus random offsets (every offset of files up to 700 bytes in thorough); the real reader under a watchdog must throw the library exception or deliver exactly the objects wholly inside completely stored containers (independent container walk), identical to those of the full read, then end; monotone in the offset; a sample of the files also with the INITIAL header (fileSize, uncompressedFileSize, objectCount, restorePointsOffset zero, as open(out) writes them), uncut and cut. Non-trivial = distinct (file, offset beyond the header).',
        'cuts_checked': checked, 'initial_header_cuts': ichecked, 'correspondence_disagreements': ndis, 'oracle_failures': bad,
        'theorems': ['C08_cut_structure', 'C08_monotone', 'C08_complete_file', 'C08_stream_prefix', 'C08_mixed_stream_prefix', 'C08_stream_prefix_example'],
    })
    v.coverage.update(cov)
    return 'proof'
