"""C12 — buffered data stays bounded no matter how long the file is."""
import random
from .. import common, codec, coqrun, sessrun
from .c06 import TRUSTED


def run(v, tier, seed, replay=None):
    meta, _ = common.translate()
    ok, failed, info = coqrun.prove(v, 'C12', ['Inst/SyncEq.v', 'Inst/SkelEq.v'])
    plain, sched = sessrun.harnesses()
    # peak live heap while reading slowly, for N and 4N objects: must not grow with N
    scen = [('objects spanning containers', 5000, 4096, 150), ('many objects per container', 600, 0x20000, 100),
            ('containers above the construction-time buffer', 3000, 0x40000, 150), ('tiny containers', 40, 64, 50)]
    base = 300 if tier == 'quick' else 1000
    lines, meta_l = [], []
    for name, objbytes, cs, sl in scen:
        for mult in (1, 4):
            lines.append('FM %d %d %d %d' % (base * mult, objbytes, cs, sl))
            meta_l.append((name, base * mult, objbytes, cs))
    outs = sessrun.run_impl(plain, lines)
    peaks = {}
    nbad = 0
    for (name, n, ob, cs), o in zip(meta_l, outs):
        if not o.startswith('FM ok'):
            nbad += 1
            v.violation('C12:run', 'memory scenario "%s" (%d objects of %d bytes, containers of %d): %s' % (name, n, ob, cs, o[:80]), {'scenario': 'FM %d %d %d' % (n, ob, cs), 'implementation': o[:200]})
            continue
        peaks.setdefault(name, []).append((n, int(o.split('peak=')[1]), ob, cs))
    for name, pk in peaks.items():
        for n, p, ob, cs in pk:
            # what the theorems allow, in bytes actually allocated: every held container keeps its stored and its inflated
            # copy (2x), the stream holds < buffer (0x20000 for a reading File) + 2 containers + the one in flight, the queue
            # 10 objects + the one being decoded; 200 kB for thread stacks' heap use, iostream buffers and allocator slack.
            # The bound does not depend on the number of objects n.
            # plus, per container held, the LogContainer object itself, its two vectors' headers and the shared_ptr block
            # (about 400 bytes): with tiny containers the 128 KiB of payload the buffer admits are thousands of containers
            allowed = 2 * (0x20000 + 3 * cs) + 12 * ob + 200000 + (0x20000 // cs + 4) * 400
            if p > allowed:
                nbad += 1
                v.violation('C12:bound', 'peak live heap while reading %d objects is %d bytes, above the bound %d that holds for any file length ("%s": objects of %d bytes, containers of %d)' % (n, p, allowed, name, ob, cs),
                            {'scenario': name, 'peaks': pk, 'bound': allowed})
                break
    # files the library's writer does not produce: long runs of unknown-type objects (a log of a newer tool) — every container
    # of the run used to stay in memory until the next known object
    import struct
    from .. import filerun
    mexe = common.build_model_driver()
    can = bytes.fromhex(codec.run_model(mexe, ['W 24 6144=1 6147=5'])[0].split(' ')[2])
    unk = b'LOBJ' + struct.pack('<HHII', 16, 1, 64, 0x7777) + bytes(48)
    ub = 2000 if tier == 'quick' else 8000
    upk = []
    for n in (ub, 8 * ub):
        stream = unk * n + can
        data = filerun.file_of([filerun.wrap_container(stream[i:i + 4096], 0) for i in range(0, len(stream), 4096)])
        o = sessrun.run_impl(plain, ['FU 0 ' + data.hex()])[0]
        if not o.startswith('FU ok'):
            nbad += 1
            v.violation('C12:run', 'memory scenario "run of unknown-type objects" (%d objects): %s' % (n, o[:80]), {'scenario': 'FU, %d unknown objects of 64 bytes in 4096-byte containers' % n, 'implementation': o[:200]})
            continue
        p = int(o.split('peak=')[1])
        upk.append((n, p))
        allowed = 2 * (0x20000 + 3 * 4096) + 12 * 64 + 200000
        if p > allowed:
            nbad += 1
            v.violation('C12:bound:unknown-run', 'peak live heap while reading a run of %d unknown-type objects (%d bytes of file) is %d bytes, above the bound %d that holds for any file length' % (n, len(data), p, allowed),
                        {'scenario': 'FU: %d objects of unknown type 0x7777, 64 bytes each, then one CanMessage; method-0 containers of 4096 bytes' % n, 'peaks': upk, 'bound': allowed})
            break
    peaks['run of unknown-type objects'] = [(n, p, 64, 4096) for n, p in upk]
    # write sessions with a producer slower than the workers (the stream drains completely between objects)
    wl = []
    for nobj, ob, cs in ((150, 5000, 4096), (600, 5000, 4096), (600, 5000, 0x20000)) if tier == 'quick' else ((150, 5000, 4096), (600, 5000, 4096), (2400, 5000, 4096), (600, 5000, 0x20000), (2400, 300, 100)):
        wl.append(('FN %d %d %d 300' % (nobj, ob, cs), nobj, ob, cs))
    wo = sessrun.run_impl(plain, [x[0] for x in wl])
    wpeaks = []
    for (line, nobj, ob, cs), o in zip(wl, wo):
        if not o.startswith('FN ok'):
            nbad += 1
            v.violation('C12:write:run', 'write-session memory scenario %s: %s' % (line, o[:80]), {'scenario': line, 'implementation': o[:200]})
            continue
        pk = int(o.split('peak=')[1])
        wpeaks.append((nobj, ob, cs, pk))
        allowed = 2 * (3 * cs) + 12 * ob + 200000      # buffer = one container; queue of 10 objects; slack — independent of nobj
        if pk > allowed:
            nbad += 1
            v.violation('C12:write:bound', 'peak live heap while writing %d objects of %d bytes (containers of %d) is %d bytes, above the bound %d that holds for any number of objects' % (nobj, ob, cs, pk, allowed),
                        {'scenario': line, 'peak': pk, 'bound': allowed})
    # the stream class on its own, deterministically: append a container, read it, dropOldData — N times; also with the
    # reader stopping inside containers and with objects straddling them: the containers held must not grow with N
    mexe = common.build_model_driver()
    uexe = common.build_harness('uf')
    ulines = []
    for n in (40, 400):
        ulines.append('U ' + ' '.join('c0102030405060708 r8 d' for _ in range(n)))
        ulines.append('U ' + ' '.join('c0102030405060708 r5 d r3 d' for _ in range(n)))
        ulines.append('U C8 ' + ' '.join('w010203040506070809 r9 d' for _ in range(n)))
        ulines.append('U ' + ' '.join('c01020304 c05060708 r8 d' for _ in range(n)))
    um = codec.run_model(mexe, ulines)
    ui = codec.run_impl(uexe, ulines)
    for l, m, i in zip(ulines, um, ui):
        last = i.rsplit('|', 1)[-1].split(',')[-1] if '|' in i else ''
        held = len([x for x in last.split(';') if x])
        if m != i or held > 2:
            nbad += 1
            v.violation('C12:stream', 'UncompressedFile holds %d containers after %d append/read/dropOldData rounds (%s)' % (held, l.count(' d'), 'model and implementation differ' if m != i else 'both'),
                        {'ops': l[:300] + ' ...', 'implementation_final': i[-300:], 'model_final': m[-300:]})
            break
    if not ok and not v.violations:
        for fl in failed:
            v.violation('coq:' + fl['lemma'], 'proof obligation %s (%s:%d) no longer checks: %s' % (fl['lemma'], fl['file'], fl['line'], fl['error'][:200]),
                        {'theorem': fl['lemma'], 'file': fl['file'], 'line': fl['line'], 'error': fl['error'],
                         'searched': 'peak live heap for N and 4N objects in %d scenarios: no growth with N' % len(scen)}, no_input=True)
    v.coverage.update({
        'obligations': info['obligations'], 'discharged': info['discharged'], 'checker_cmd': info['checker_cmd'],
        'trusted_base': TRUSTED + info['print_assumptions'], 'failed_obligations': info['failed'],
        'evaluations': len(lines), 'distinct_nontrivial': len(lines),
        'rule': 'files of N and 4N objects are written by the library and read back with a consumer that pauses every 8 objects; the live-heap high-water mark (replaced operator new/delete) during reading is compared: it may differ by allocator noise and a couple of containers, not in proportion to N. Scenarios: objects spanning several containers, many objects per container, containers larger than the construction-time buffer, tiny containers. Non-trivial = distinct scenario.',
        'peaks': {k: [(n, p) for n, p, _, _ in vv] for k, vv in peaks.items()}, 'write_session_peaks': wpeaks, 'failures': nbad,
        'samples': lines[:3],
        'theorems': ['C12_write_bounded', 'C12_read_bounded', 'C12_drop_leaves_less_than_a_container', 'C12_parser_drops_on_every_path'],
    })
    v.assumptions += ['the theorems bound logical bytes / objects held; allocator slack and std::vector capacity are only measured']
    return 'proof'
