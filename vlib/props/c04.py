"""C04 — finished files decode with an independent implementation of the container format."""
import random
from .. import common, codec, coqrun, filerun

TRUSTED = [
    'Coq 8.16.1 kernel + vm_compute (no native_compute)',
    'hand-written model Lib/FileModel.write_session (File::open(out), the two write workers and close() as a sequential composition) over the codecs regenerated from /repo — tied to the code by this run: files byte-identical to the real library at every level, container size, header and restore-point setting generated',
    'zlib: a Section variable in the theorems (no hypothesis needed); the extracted model calls the real compress2/uncompress through ocaml/z_stub.c',
    'extraction (ExtrOcamlBasic only) + ocaml/driver.ml; harness/file.cpp (ASan+UBSan, watchdog)',
    'independent decoder: vlib/filerun.parse_blf (Python struct + zlib only)',
]
CODES = ('format', 'method', 'flevel', 'size', 'payload')
TYPE_FID = [None]


def expected_payload(c):
    out = b''
    for e in c['enc']:
        if not e.startswith('W ok '):
            return None
        out += bytes.fromhex(e.split(' ')[2])
    return out


def oracle(v, res, codes, pid, meta=None):
    checked = 0
    if meta is not None:
        TYPE_FID[0] = [f['id'] for f in meta['classes']['ObjectHeaderBase']['fields'] if f['name'] == 'objectType'][0]
    for c in res['w']:
        if c['file'] is None:
            v.violation('write:%s' % c['impl'][:40], 'a write session did not finish: %s' % c['impl'][:200], {'case': c['line'], 'implementation': c['impl'][:400]})
            continue
        pay = expected_payload(c)
        if pay is None:
            continue
        checked += 1
        counted = sum(1 for e in c['enc'] if codec.parse_dump(e).get(TYPE_FID[0]) != '115')
        for code, msg in filerun.check_written_file(c['file'], c['level'], c['cs'], c['restore'], pay, counted, c['hdr']):
            if code in codes:
                v.violation('%s:%s' % (pid, code), 'level %d, container size %d, restore points %d, %d objects: %s' % (c['level'], c['cs'], c['restore'], len(c['objs']), msg),
                            {'case': c['line'], 'file_hex': c['file'].hex()[:4000], 'how': 'bin/check %s --replay <this file>' % pid})
    return checked


def overlapping(v, meta, seed, tier):
    """several File objects open for writing at once (the last one written and closed first): each file must be
    byte-identical to the same session run alone."""
    rng = random.Random(seed + 77)
    g = filerun.Gen(meta, rng)
    lines, singles = [], []
    for k in range(4 if tier == 'quick' else 20):
        lv, cs, n = rng.choice([0, 1, 6, 9]), rng.choice([40, 100, 1000]), rng.choice([2, 2, 3])
        objs = [g.obj('CanMessage') for _ in range(rng.randrange(1, 6))]
        tail = ''.join(' | ' + o for o in objs)
        lines.append('FX %d %d %d%s' % (n, lv, cs, tail))
        singles.append('FW %d %d 1%s' % (lv, cs, tail))
    mexe = common.build_model_driver()
    hexe = common.build_harness('file', extra_flags=['-D_GLIBCXX_SANITIZE_VECTOR'])
    mo = codec.run_model(mexe, singles)
    io = codec.run_impl(hexe, lines)
    bad = 0
    for l, m, i in zip(lines, mo, io):
        want = m.split(' ')[-1]
        got = i.split(' ')[2:] if i.startswith('FX ok') else None
        if got is None or any(x != want for x in got):
            bad += 1
            v.violation('C04:overlap', 'files written by File objects with overlapping lifetimes differ from the same session run alone: %s' % (i[:80]),
                        {'case': l, 'expected_each': want[:2000], 'implementation': i[:4000]})
    return len(lines), bad


def level_switch(v, meta, seed, tier):
    """the compression level changed in the middle of a session (between stored and deflated, both ways, while the compress
    worker waits for more data): every container of the finished file must still be what its own header says, and the
    concatenated payload the concatenation of the encodings."""
    rng = random.Random(seed + 177)
    g = filerun.Gen(meta, rng)
    mexe = common.build_model_driver()
    hexe = common.build_harness('file', extra_flags=['-D_GLIBCXX_SANITIZE_VECTOR'])
    lines, objs_of = [], []
    for lv1, lv2, cs, n1, n in ((6, 0, 4096, 100, 250), (0, 6, 4096, 100, 250), (1, 0, 0x20000, 120, 200), (0, 9, 1000, 30, 90), (6, 1, 4096, 100, 250)) if tier == 'quick' else \
            [(a, b, c, 100, 250) for a in (0, 1, 6, 9) for b in (0, 1, 6, 9) if a != b for c in (1000, 4096, 0x20000)]:
        objs = [g.obj('CanMessage') for _ in range(n)]
        lines.append('FV %d %d %d %d 60' % (lv1, lv2, cs, n1) + ''.join(' | ' + o for o in objs))
        objs_of.append((lv1, lv2, cs, n1, objs))
    allobjs = sorted(set(o for t in objs_of for o in t[4]))
    eo = dict(zip(allobjs, codec.run_model(mexe, ['W ' + o for o in allobjs])))
    io = codec.run_impl(hexe, lines)
    bad = 0
    for (lv1, lv2, cs, n1, objs), i in zip(objs_of, io):
        if i == 'SKIPPED':
            continue
        why = None
        if not i.startswith('FV ok'):
            why = i[:100]
        else:
            data = bytes.fromhex(i.split(' ')[2])
            pay = b''.join(bytes.fromhex(eo[o].split(' ')[2]) for o in objs)
            try:
                st, conts = filerun.parse_blf(data)
                got = b''.join(c['payload'] for c in conts)
                if got != pay:
                    why = 'the containers decode to %d bytes, the objects encode to %d' % (len(got), len(pay))
            except filerun.FormatError as ex:
                why = str(ex)
        if why:
            bad += 1
            v.violation('C04:level-switch', 'compression level changed from %d to %d after %d of %d objects (container size %d): %s' % (lv1, lv2, n1, len(objs), cs, why),
                        {'scenario': 'FV %d %d %d %d 60 | %d CanMessage objects' % (lv1, lv2, cs, n1, len(objs)), 'implementation': i[:300]})
    return len(lines), bad


def run(v, tier, seed, replay=None):
    meta, _ = common.translate()
    ok, failed, info = coqrun.prove(v, 'C04', ['Inst/FileEq.v'])
    res = filerun.run(meta, seed, tier)
    ndis = filerun.report_disagreements(v, res, 'C04', kinds=('w',))
    checked = oracle(v, res, CODES, 'C04', meta)
    nov, badov = overlapping(v, meta, seed, tier)
    nls, badls = level_switch(v, meta, seed, tier)
    if not ok and not v.violations:
        for fl in failed:
            v.violation('coq:' + fl['lemma'], 'proof obligation %s (%s:%d) no longer checks: %s' % (fl['lemma'], fl['file'], fl['line'], fl['error'][:200]),
                        {'theorem': fl['lemma'], 'file': fl['file'], 'line': fl['line'], 'error': fl['error']}, no_input=True)
    cov = filerun.coverage_common(res)
    cov.update({
        'obligations': info['obligations'], 'discharged': info['discharged'], 'checker_cmd': info['checker_cmd'],
        'trusted_base': TRUSTED + info['print_assumptions'], 'failed_obligations': info['failed'],
        'rule': 'write sessions: levels 0-9 x container sizes {1,2,3,5,16,17,31..49,64,100,255,256,1000,4096,0x20000} x restore points on/off x random headers x 0..8 objects from a pool of 20 classes (API-populated), plus totals that are exact multiples of the container size and objects several containers long; each finished file is compared byte for byte with the extracted model and decoded by the independent decoder (signature, header size/type/version, objectSize = 32 + stored, method, FLEVEL class, inflate = declared size, container <= configured size, zero padding, nothing else in the file, concatenated payload = concatenation of the per-object encodings). Non-trivial = session with at least one object.',
        'files_decoded_independently': checked, 'overlapping_lifetime_sessions': nov, 'level_switch_sessions': nls,
        'correspondence_disagreements': ndis,
        'theorems': ['C04_file_is_header_then_containers', 'C04_container_sizes', 'C04_config_independent'],
        'not_a_theorem_yet': 'per-container byte format (decided by the independent decoder on every generated file and by byte equality with the model)',
    })
    v.coverage.update(cov)
    return 'proof'
