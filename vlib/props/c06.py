"""C06 — no API call blocks forever: the three-stage pipeline cannot deadlock."""
import random
from .. import common, codec, coqrun, filerun, sessrun

TRUSTED = [
    'Coq 8.16.1 kernel + vm_compute (no native_compute)',
    'translator/blf2coq.py for the signature search of ObjectHeaderBase::read (its exit test is a field of the regenerated scan_p) and the codecs the inflating worker runs; hand-written std::fstream model Sem.s_read/s_seek incl. behaviour on a closed file (C06_close_under_inflating_worker)',
    'hand-written pipeline models Lib/WPipe.v / Lib/RPipe.v; their blocking conditions are the wait predicates proved equal to the translated source (C15/C16); their thread programs are tied to File.cpp by decidable facts about statement skeletons regenerated on every run (C06_code_shape)',
    'native sessions (harness/file.cpp, ASan+UBSan, watchdog) on the plain build and on the build with yield/sleep injection at every lock/unlock/wait (harness/sched/shim.h): supporting evidence, not proof',
    'modelled, not verified: condition variables (monitor semantics), thread spawn/join, weak fairness of the OS scheduler',
]


def run(v, tier, seed, replay=None):
    meta, _ = common.translate()
    ok, failed, info = coqrun.prove(v, 'C06', ['Inst/SkelEq.v', 'Inst/SyncEq.v', 'Inst/QueueEq.v', 'Inst/TermEq.v', 'Inst/CloseEq.v'])
    mexe = common.build_model_driver()
    plain, sched = sessrun.harnesses()
    rng = random.Random(seed)
    cases = sessrun.early_close_cases(mexe, rng, tier)
    lines = [c['line'] for c in cases]
    runs = [('plain', sessrun.run_impl(plain, lines))]
    for k in range(1 if tier == 'quick' else 4):
        runs.append(('sched:%d' % (seed * 10 + k + 1), sessrun.run_impl(sched, lines, seed * 10 + k + 1)))
    nbad = 0
    for name, outs in runs:
        for c, o in zip(cases, outs):
            if o == 'SKIPPED':
                continue
            r = sessrun.check_early(c, o)
            if r and r[0] in ('hang', 'crash', 'other'):
                nbad += 1
                v.violation('C06:%s:reads=%s:mode=%d' % (r[0], 'few' if 0 <= c['reads'] < c['nobj'] else 'all', c['mode']), r[1] + ' [%s]' % name,
                            {'scenario': 'FE %d .. %d' % (c['reads'], c['mode']), 'objects_in_file': c['nobj'], 'container_size': c['cs'], 'build': name, 'implementation': o[:200],
                             'file': 'assembled: %d CanMessage objects in method-0 containers of %d bytes' % (c['nobj'], c['cs'])})
    # write sessions: containers below / at / above the construction-time buffer, objects larger than a container and than the buffer
    g = filerun.Gen(meta, rng)
    tf = [f for f, kd, nm, _ in g.view('AppText').fields if nm == 'text'][0]
    wl = []
    for cs, nobj, tlen in ((0x20000, 4, 70000), (0x30000, 12, 60000), (0x40000, 3, 300000), (1000, 3, 200000), (16, 2, 500)):
        objs = ['11 %d=x%s' % (tf, (bytes([65 + i]) * tlen).hex()) for i in range(nobj)]
        wl.append({'line': 'FS 0 %d %d 1' % (rng.choice([0, 1, 6]), cs) + ''.join(' | ' + o for o in objs), 'cs': cs, 'nobj': nobj, 'tlen': tlen})
    wo = sessrun.run_impl(plain, [w['line'] for w in wl])
    wo2 = sessrun.run_impl(sched, [w['line'] for w in wl], seed + 5)
    for w, o, o2 in zip(wl, wo, wo2):
        for name, x in (('plain', o), ('sched', o2)):
            if not x.startswith('FS ok') and x != 'SKIPPED':
                nbad += 1
                v.violation('C06:write:%s' % ('hang' if x.startswith('HANG') else 'fail'),
                            'write session with container size %d (internal buffer set up for 0x20000), %d objects of %d payload bytes: %s [%s]' % (w['cs'], w['nobj'], w['tlen'], x[:80], name),
                            {'scenario': w['line'][:200], 'implementation': x[:200]})
    # the container size changed in the middle of a write session (shrunk while worker 2 waits for a chunk of the old size; grown)
    rz = [(4096, 512, 1000, 2000), (4096, 100, 1000, 100), (4096, 8192, 1000, 2000), (64, 300000, 500, 9000), (0x20000, 64, 5000, 5000), (512, 4096, 10, 2000)]
    for nm, bl, sd in (('plain', plain, 0), ('sched', sched, seed + 21)):
        ro = sessrun.run_impl(bl, ['FC %d %d %d %d' % t for t in rz], sd)
        for t, o in zip(rz, ro):
            if o == 'SKIPPED':
                continue
            if o != 'FC ok n=%d inorder=1' % (t[2] + t[3]):
                nbad += 1
                v.violation('C06:resize:%s' % ('hang' if o.startswith('HANG') else 'other'),
                            'write session whose container size is changed from %d to %d after %d of %d objects: %s [%s]' % (t[0], t[1], t[2], t[2] + t[3], o[:80], nm),
                            {'scenario': 'FC %d %d %d %d' % t, 'implementation': o[:200]})
    # ... and taking effect exactly between two operations of a worker on the stream (the worker parked at its k-th acquisition
    # of the stream's mutex while the application calls setDefaultLogContainerSize): the former code read the size twice per
    # container, sized the destination with one value and requested the other
    gz = [(64, 300000, k, 9000) for k in range(6)] + [(300000, 64, k, 9000) for k in range(4)] + [(4096, 100000, k, 4000) for k in range(4)]
    go = sessrun.run_impl(sched, ['FG %d %d %d %d' % t for t in gz], 0, {'VERIF_WD_SECONDS': '20'})
    for t, o in zip(gz, go):
        if o == 'SKIPPED':
            continue
        if not (o.startswith('FG ok') and o.endswith('n=%d inorder=1' % t[3])):
            nbad += 1
            v.violation('C06:resize-at:%s' % ('hang' if o.startswith('HANG') else 'crash' if o.startswith('CRASH') else 'other'),
                        'write session whose container size is changed from %d to %d while a worker is about to take the stream mutex for the %d-th time, then %d objects: %s' % (t[0], t[1], t[2] + 1, t[3], o[:100]),
                        {'scenario': 'FG %d %d %d %d' % t, 'build': 'sched:0 (steered)', 'implementation': o[:300]})
    # one read request larger than the buffer (deadlocked before the repair of UncompressedFile::read; C06_read_request_above_buffer_finishes)
    big, _ = sessrun.big_read_file(mexe, 3, 0x20000, rng, text=200000)
    big2, _ = sessrun.big_read_file(mexe, 2, 0x8000, rng, text=300000)
    big3, _ = sessrun.big_read_file(mexe, 3, 0x20000, rng, text=1600000)      # valid objects of 1.6 MB: above 8 containers / the buffer many times over
    for nm, data, bl in (('plain', big, plain), ('sched', big, sched), ('plain', big2, plain), ('plain', big3, plain)):
        ko = sessrun.run_impl(bl, ['FE -1 0 0 ' + data.hex()], seed + 9)
        if ko[0].startswith('HANG'):
            nbad += 1
            v.violation('read-request-above-buffer', 'reading a file whose objects need a single read request larger than the internal buffer never returns: %s [%s]' % (ko[0][:60], nm),
                        {'file': 'AppText objects with 200000/300000-byte texts in 128/32 KiB containers', 'implementation': ko[0][:200]})
        elif not ko[0].startswith('FE ok') and ko[0] != 'SKIPPED':
            nbad += 1
            v.violation('C06:bigrequest', 'reading a file with 200000-byte texts: %s [%s]' % (ko[0][:100], nm), {'implementation': ko[0][:200]})
    # close() taking effect exactly between two operations of the inflating worker on the compressed file (C06_close_under_inflating_worker):
    # the worker is parked before its (k+1)-th acquisition of CompressedFile's mutex, released when close() has closed the fstream
    kfiles = [(12, 96), (40, 200)] if tier == 'quick' else [(12, 96), (40, 200), (300, 4096), (5, 48)]
    kmax = 72 if tier == 'quick' else 260
    kcases = []
    for nobj, cs in kfiles:
        data, _ = sessrun.big_read_file(mexe, nobj, cs, rng)
        for k in range(kmax):
            kcases.append({'k': k, 'nobj': nobj, 'cs': cs, 'line': 'FK %d %s' % (k, data.hex())})
    km = codec.run_model(mexe, [c['line'] for c in kcases])
    old_spins = sum(1 for o in km if 'old_cend=fuel' in o)
    kruns = [('sched:0', 0)] + [('sched:%d' % (seed * 7 + j + 1), seed * 7 + j + 1) for j in range(1 if tier == 'quick' else 3)]
    nparked = 0
    for nm, sd in kruns:
        ko = sessrun.run_impl(sched, [c['line'] for c in kcases], sd, {'VERIF_WD_SECONDS': '12'})
        for c, mo, o in zip(kcases, km, ko):
            if o == 'SKIPPED':
                continue
            nparked += 1 if 'parked=1' in o else 0
            if 'cend=fuel' in mo.split(' old_cend')[0] or 'oend=fuel' in mo:
                nbad += 1
                v.violation('C06:close-at:model', 'the model of the read session does not end when the compressed file is closed after %d operations of the inflating worker: %s' % (c['k'], mo[:80]),
                            {'scenario': c['line'][:60], 'model': mo[:200]})
            elif o.startswith('HANG'):
                nbad += 1
                v.violation('C06:close-at:hang', 'close() does not return when it closes the compressed file just before operation %d of the inflating worker on it (file of %d objects, %d-byte containers): %s [%s]'
                            % (c['k'] + 1, c['nobj'], c['cs'], o[:60], nm),
                            {'scenario': 'FK %d <file>' % c['k'], 'file_hex': c['line'].split(' ')[2], 'objects_in_file': c['nobj'], 'container_size': c['cs'], 'build': nm,
                             'implementation': o[:200], 'model_old_search': mo.split('old_cend=')[1] if 'old_cend=' in mo else ''})
            elif not (o.startswith('FK ok') and ' flags=010 ' in o and o.endswith('leaked=0')):
                nbad += 1
                v.violation('C06:close-at:other', 'read session closed just before operation %d of the inflating worker: %s [%s]' % (c['k'] + 1, o[:100], nm),
                            {'scenario': 'FK %d <file>' % c['k'], 'file_hex': c['line'].split(' ')[2], 'implementation': o[:200]})
    if not ok and not v.violations:
        for fl in failed:
            v.violation('coq:' + fl['lemma'], 'proof obligation %s (%s:%d) no longer checks: %s' % (fl['lemma'], fl['file'], fl['line'], fl['error'][:200]),
                        {'theorem': fl['lemma'], 'file': fl['file'], 'line': fl['line'], 'error': fl['error'],
                         'searched': '%d early-close / destruction sessions and %d write sessions on %d builds under a watchdog without a hang' % (len(cases), len(wl), len(runs))}, no_input=True)
    v.coverage.update({
        'obligations': info['obligations'], 'discharged': info['discharged'], 'checker_cmd': info['checker_cmd'],
        'trusted_base': TRUSTED + info['print_assumptions'], 'failed_obligations': info['failed'],
        'evaluations': len(cases) * len(runs) + 2 * len(wl) + 4 + 2 * len(rz) + len(gz) + len(kcases) * len(kruns), 'distinct_nontrivial': len(cases) + len(wl) + 2 + len(kcases),
        'close_at': {'cases': len(kcases), 'builds': [n for n, _ in kruns], 'worker_parked_at_the_chosen_operation': nparked,
                     'close_points_at_which_the_former_search_spins_in_the_model': old_spins},
        'rule': 'read sessions on assembled files large enough to fill the pipeline (9000 objects in 4 KiB containers, 6000 in 128 KiB containers, 30 in 64-byte containers): read k in {0,3,11,all} objects, pause so that both workers block on full buffers, then close() / destroy / close twice then destroy; write sessions with container sizes below, at and above the construction-time buffer and objects larger than both; write sessions whose container size is changed mid-way (shrunk and grown), also exactly between two operations of a worker on the stream (worker parked at its k-th acquisition of the stream mutex); read sessions over files whose objects (200000 / 300000 / 1600000 bytes) need a single read request larger than the internal buffer; each on the plain build and on builds with seeded yield/sleep injection at every lock/unlock/wait; read sessions in which close() takes effect exactly before the k-th operation of the inflating worker on the compressed file, for every k up to several containers (the worker is parked at that acquisition of the mutex of CompressedFile and released once close() has closed the fstream). A watchdog expiry is a hang. Non-trivial = distinct scenario.',
        'builds': [n for n, _ in runs], 'hangs_or_crashes': nbad,
        'samples': [c['line'][:60] + '...' for c in cases[:3]] + [w['line'][:80] + '...' for w in wl[:2]],
        'theorems': ['C06_write_stuck_free', 'C06_write_terminates', 'C06_read_stuck_free', 'C06_read_request_above_buffer_finishes', 'C06_code_shape', 'C06_close_under_inflating_worker', 'C06_search_stops_on_failed_stream', 'C06_old_search_refuted', 'C06_close_example'],
    })
    v.assumptions += ['termination is under weak fairness of the scheduler']
    return 'proof'
